#!/bin/bash
# One-time offline build of the framework: Coq development (full .vo build), harness against /repo.
set -e
cd "$(dirname "$0")"
export CARGO_NET_OFFLINE=true
export RUSTFLAGS="--cfg ark_bulletproofs_verif -A unexpected_cfgs -A warnings"
export CARGO_TARGET_DIR=/verif/harness/target
mkdir -p work evidence replays
cp /repo/Cargo.lock harness/Cargo.lock 2>/dev/null || true
python3 tools/gen_zorro_consts.py || true
( cd coq && coq_makefile -f _CoqProject -o Makefile >/dev/null && timeout 7000 make -j16 2>&1 | grep -v "^Closed under\|^COQ" | tail -20 )
( cd harness && cargo build --release --offline 2>&1 | tail -3 )
( cd fixturegen && env -u RUSTFLAGS -u CARGO_TARGET_DIR cargo build --release --offline 2>&1 | tail -3 )
test -x harness/target/release/bpharness
echo "setup done"
