(* Proofs/IntegrityLemmas.v — C04 / C05: how the combined check depends on each proof field, on the
   committed-value weights and on the Pedersen bases, at fixed challenges; what the history pins down. *)
Require Export BP.Proofs.MegaLemmas BP.Proofs.ScheduleLemmas.

Section Integrity.
  Context {K : FieldOps} {FL : FieldLaws K} {MO : ModOps K} {ML : ModLaws MO}.
  Add Field Ffi : (@Fth K FL).
  Add Ring Rri : (@Rth K FL MO ML).
  Open Scope F_scope.
  Notation "x +m y" := (madd x y) (at level 50, left associativity).
  Notation "k *s x" := (smul k x) (at level 40).
  Notation "x -m y" := (msub x y) (at level 50, left associativity).
  Notation proof_t := (r1cs_proof K MO).
  Variables B Bb : MO.

  (* the value the combined check compares with zero (mega_decomp), as a function of the proof *)
  Definition check (fw : weights K) (y u x w r : K) (us : list K) (n1 n pn : nat) (Gs Hs Vs : list MO) (p : proof_t) : MO :=
    R_ipp B Bb fw y u x w us n1 n pn Gs Hs p +m r *s R_t B Bb fw y x n pn Vs p.

  (* ---- C04: the check is affine in every proof field, with these coefficients ---- *)
  Theorem check_difference fw y u x w r us n1 n pn Gs Hs Vs (p p' : proof_t) :
    let a := ipp_a (ipp p) in let b := ipp_b (ipp p) in
    let a' := ipp_a (ipp p') in let b' := ipp_b (ipp p') in
    check fw y u x w r us n1 n pn Gs Hs Vs p' -m check fw y u x w r us n1 n pn Gs Hs Vs p
    = x *s (A_I1 p' -m A_I1 p) +m sq x *s (A_O1 p' -m A_O1 p) +m (x * sq x) *s (S1 p' -m S1 p)
      +m (x * u) *s (A_I2 p' -m A_I2 p) +m (sq x * u) *s (A_O2 p' -m A_O2 p) +m (x * sq x * u) *s (S2 p' -m S2 p)
      +m (r * x) *s (T_1 p' -m T_1 p) +m (r * (x * sq x)) *s (T_3 p' -m T_3 p) +m (r * (sq x * sq x)) *s (T_4 p' -m T_4 p)
      +m (r * (x * sq x * sq x)) *s (T_5 p' -m T_5 p) +m (r * (sq x * sq x * sq x)) *s (T_6 p' -m T_6 p)
      +m ((w - r) * (t_x p' - t_x p)) *s B
      +m (- (r * (t_x_blinding p' - t_x_blinding p))) *s Bb
      +m (- (e_blinding p' - e_blinding p)) *s Bb
      +m (msm (map sq us) (ipp_L (ipp p')) -m msm (map sq us) (ipp_L (ipp p)))
      +m (msm (map (fun u => sq (finv u)) us) (ipp_R (ipp p')) -m msm (map (fun u => sq (finv u)) us) (ipp_R (ipp p)))
      +m (- (a' - a)) *s foldG us (Gprime u n1 pn Gs)
      +m (- (b' - b)) *s foldH us (Hprime y u n1 pn Hs)
      +m (- (w * (a' * b' - a * b))) *s B.
  Proof.
    cbv zeta. unfold check, R_ipp, R_t, P_of, sq. mring.
  Qed.

  (* a single changed point with a non-zero coefficient cannot leave the check at zero *)
  Theorem coefficient_cancels (c : K) (X X' : MO) : c <> f0 -> c *s (X' -m X) = m0 -> X' = X.
  Proof.
    intros Hc H. destruct (smul_cancel c _ H) as [E|E]; [contradiction|]. now apply msub_eq_0.
  Qed.

  Lemma fmul_nz (a b : K) : a <> f0 -> b <> f0 -> a * b <> f0.
  Proof.
    intros Ha Hb E. apply Ha. transitivity (a * b * finv b); [field; exact Hb | rewrite E; ring].
  Qed.

  (* every coefficient is non-zero once the challenges x, u, r (and the u_j) are *)
  Theorem coefficients_nonzero (x u r : K) :
    x <> f0 -> u <> f0 -> r <> f0 ->
    sq x <> f0 /\ x * sq x <> f0 /\ x * u <> f0 /\ sq x * u <> f0 /\ x * sq x * u <> f0
    /\ r * x <> f0 /\ r * (x * sq x) <> f0 /\ r * (sq x * sq x) <> f0 /\ r * (x * sq x * sq x) <> f0
    /\ r * (sq x * sq x * sq x) <> f0.
  Proof. intros Hx Hu Hr. unfold sq. repeat split; repeat apply fmul_nz; assumption. Qed.

  Lemma finv_nz (a : K) : a <> f0 -> finv a <> f0.
  Proof. intros Ha E. apply (@f1_neq_f0 K FL). transitivity (a * finv a); [field; exact Ha | rewrite E; ring]. Qed.

  Theorem round_coefficients_nonzero (us : list K) :
    Forall (fun uj => uj <> f0) us ->
    Forall (fun c => c <> f0) (map sq us) /\ Forall (fun c => c <> f0) (map (fun uj => sq (finv uj)) us).
  Proof.
    intros H. split; apply Forall_map; (eapply Forall_impl; [|exact H]); intros a Ha; unfold sq;
      apply fmul_nz; auto using finv_nz.
  Qed.

  (* replacing round point j *)
  Lemma msm_set_nth : forall (c : list K) (L : list MO) j X',
    (j < length L)%nat -> (j < length c)%nat ->
    msm c (set_nth j X' L) -m msm c L = nth j c f0 *s (X' -m nth j L m0).
  Proof.
    induction c as [|c0 c IH]; intros L j X' HL Hc; [simpl in Hc; lia|].
    destruct L as [|L0 L]; [simpl in HL; lia|]. destruct j as [|j].
    - unfold set_nth. cbn [firstn skipn app msm nth]. mring.
    - unfold set_nth in *. cbn [firstn skipn app msm nth]. specialize (IH L j X' ltac:(simpl in HL; lia) ltac:(simpl in Hc; lia)).
      etransitivity; [|exact IH]. mring.
  Qed.

  (* the eleven fixed points, by position in the encoding *)
  Definition fixed_points (p : proof_t) : list MO :=
    [A_I1 p; A_O1 p; S1 p; A_I2 p; A_O2 p; S2 p; T_1 p; T_3 p; T_4 p; T_5 p; T_6 p].
  Definition with_point (i : nat) (X : MO) (p : proof_t) : proof_t :=
    let l := set_nth i X (fixed_points p) in
    let g j := nth j l m0 in
    mkProof (g 0%nat) (g 1%nat) (g 2%nat) (g 3%nat) (g 4%nat) (g 5%nat) (g 6%nat) (g 7%nat) (g 8%nat) (g 9%nat) (g 10%nat)
            (t_x p) (t_x_blinding p) (e_blinding p) (ipp p).
  Definition point_coefficients (u x r : K) : list K :=
    [x; sq x; x * sq x; x * u; sq x * u; x * sq x * u;
     r * x; r * (x * sq x); r * (sq x * sq x); r * (x * sq x * sq x); r * (sq x * sq x * sq x)].

  Theorem changed_point fw y u x w r us n1 n pn Gs Hs Vs (p : proof_t) (i : nat) (X' : MO) :
    (i < 11)%nat ->
    check fw y u x w r us n1 n pn Gs Hs Vs (with_point i X' p) -m check fw y u x w r us n1 n pn Gs Hs Vs p
    = nth i (point_coefficients u x r) f0 *s (X' -m nth i (fixed_points p) m0).
  Proof.
    intros Hi. rewrite check_difference. cbv zeta.
    do 11 (destruct i as [|i]; [cbn; unfold sq; mring|]). lia.
  Qed.

  Theorem point_coefficients_nonzero (u x r : K) (i : nat) :
    x <> f0 -> u <> f0 -> r <> f0 -> (i < 11)%nat -> nth i (point_coefficients u x r) f0 <> f0.
  Proof.
    intros Hx Hu Hr Hi. destruct (coefficients_nonzero x u r Hx Hu Hr) as (A1 & A2 & A3 & A4 & A5 & A6 & A7 & A8 & A9 & A10).
    do 11 (destruct i as [|i]; [cbn; assumption|]). lia.
  Qed.

  (* an accepted proof stays accepted after replacing one fixed point only if the point did not change *)
  Theorem changed_point_rejected fw y u x w r us n1 n pn Gs Hs Vs (p : proof_t) (i : nat) (X' : MO) :
    x <> f0 -> u <> f0 -> r <> f0 -> (i < 11)%nat ->
    check fw y u x w r us n1 n pn Gs Hs Vs p = m0 ->
    check fw y u x w r us n1 n pn Gs Hs Vs (with_point i X' p) = m0 ->
    X' = nth i (fixed_points p) m0.
  Proof.
    intros Hx Hu Hr Hi H H'. pose proof (changed_point fw y u x w r us n1 n pn Gs Hs Vs p i X' Hi) as D.
    rewrite H, H', msub_self in D. symmetry in D.
    eapply coefficient_cancels; [|exact D]. apply point_coefficients_nonzero; assumption.
  Qed.

  (* round points *)
  Definition with_L (j : nat) (X : MO) (p : proof_t) : proof_t :=
    mkProof (A_I1 p) (A_O1 p) (S1 p) (A_I2 p) (A_O2 p) (S2 p) (T_1 p) (T_3 p) (T_4 p) (T_5 p) (T_6 p)
            (t_x p) (t_x_blinding p) (e_blinding p)
            (mkIPP (set_nth j X (ipp_L (ipp p))) (ipp_R (ipp p)) (ipp_a (ipp p)) (ipp_b (ipp p))).
  Definition with_R (j : nat) (X : MO) (p : proof_t) : proof_t :=
    mkProof (A_I1 p) (A_O1 p) (S1 p) (A_I2 p) (A_O2 p) (S2 p) (T_1 p) (T_3 p) (T_4 p) (T_5 p) (T_6 p)
            (t_x p) (t_x_blinding p) (e_blinding p)
            (mkIPP (ipp_L (ipp p)) (set_nth j X (ipp_R (ipp p))) (ipp_a (ipp p)) (ipp_b (ipp p))).

  Theorem changed_round_point_rejected fw y u x w r us n1 n pn Gs Hs Vs (p : proof_t) (j : nat) (X' : MO) :
    Forall (fun uj => uj <> f0) us -> (j < length us)%nat ->
    length (ipp_L (ipp p)) = length us -> length (ipp_R (ipp p)) = length us ->
    check fw y u x w r us n1 n pn Gs Hs Vs p = m0 ->
    (check fw y u x w r us n1 n pn Gs Hs Vs (with_L j X' p) = m0 -> X' = nth j (ipp_L (ipp p)) m0)
    /\ (check fw y u x w r us n1 n pn Gs Hs Vs (with_R j X' p) = m0 -> X' = nth j (ipp_R (ipp p)) m0).
  Proof.
    intros Hnz Hj HL HR H. destruct (round_coefficients_nonzero us Hnz) as [N1 N2].
    split; intros H'.
    - pose proof (check_difference fw y u x w r us n1 n pn Gs Hs Vs p (with_L j X' p)) as D. cbv zeta in D.
      rewrite H, H' in D. cbn [with_L A_I1 A_O1 S1 A_I2 A_O2 S2 T_1 T_3 T_4 T_5 T_6 t_x t_x_blinding e_blinding ipp ipp_L ipp_R ipp_a ipp_b] in D.
      rewrite msm_set_nth in D by (rewrite ?map_length; lia).
      assert (E : nth j (map sq us) f0 *s (X' -m nth j (ipp_L (ipp p)) m0) = m0).
      { match type of D with _ = ?S => match goal with |- ?G = m0 => assert (HS : G = S) by mring end end.
        rewrite HS, <- D. mring. }
      eapply coefficient_cancels; [|exact E].
      rewrite Forall_forall in N1. apply N1. apply nth_In. rewrite map_length. exact Hj.
    - pose proof (check_difference fw y u x w r us n1 n pn Gs Hs Vs p (with_R j X' p)) as D. cbv zeta in D.
      rewrite H, H' in D. cbn [with_R A_I1 A_O1 S1 A_I2 A_O2 S2 T_1 T_3 T_4 T_5 T_6 t_x t_x_blinding e_blinding ipp ipp_L ipp_R ipp_a ipp_b] in D.
      rewrite msm_set_nth in D by (rewrite ?map_length; lia).
      assert (E : nth j (map (fun u0 => sq (finv u0)) us) f0 *s (X' -m nth j (ipp_R (ipp p)) m0) = m0).
      { match type of D with _ = ?S => match goal with |- ?G = m0 => assert (HS : G = S) by mring end end.
        rewrite HS, <- D. mring. }
      eapply coefficient_cancels; [|exact E].
      rewrite Forall_forall in N2. apply N2. apply nth_In. rewrite map_length. exact Hj.
  Qed.

  (* the three absorbed scalars *)
  Definition with_scalars (tx txb eb : K) (p : proof_t) : proof_t :=
    mkProof (A_I1 p) (A_O1 p) (S1 p) (A_I2 p) (A_O2 p) (S2 p) (T_1 p) (T_3 p) (T_4 p) (T_5 p) (T_6 p) tx txb eb (ipp p).

  Theorem changed_scalars fw y u x w r us n1 n pn Gs Hs Vs (p : proof_t) (tx txb eb : K) :
    check fw y u x w r us n1 n pn Gs Hs Vs p = m0 ->
    check fw y u x w r us n1 n pn Gs Hs Vs (with_scalars tx txb eb p) = m0 ->
    ((w - r) * (tx - t_x p)) *s B +m (- (r * (txb - t_x_blinding p) + (eb - e_blinding p))) *s Bb = m0.
  Proof.
    intros H H'. pose proof (check_difference fw y u x w r us n1 n pn Gs Hs Vs p (with_scalars tx txb eb p)) as D. cbv zeta in D.
    rewrite H, H' in D. cbn [with_scalars A_I1 A_O1 S1 A_I2 A_O2 S2 T_1 T_3 T_4 T_5 T_6 t_x t_x_blinding e_blinding ipp] in D.
    match type of D with _ = ?S => match goal with |- ?G = m0 => assert (HS : G = S) by mring end end.
    rewrite HS, <- D. mring.
  Qed.

  (* the final scalars: two accepted (a, b) for otherwise identical data give a relation between the folded generators *)
  Theorem ab_relation fw y u x w r us n1 n pn Gs Hs Vs (p p' : proof_t) :
    A_I1 p' = A_I1 p -> A_O1 p' = A_O1 p -> S1 p' = S1 p -> A_I2 p' = A_I2 p -> A_O2 p' = A_O2 p -> S2 p' = S2 p ->
    T_1 p' = T_1 p -> T_3 p' = T_3 p -> T_4 p' = T_4 p -> T_5 p' = T_5 p -> T_6 p' = T_6 p ->
    t_x p' = t_x p -> t_x_blinding p' = t_x_blinding p -> e_blinding p' = e_blinding p ->
    ipp_L (ipp p') = ipp_L (ipp p) -> ipp_R (ipp p') = ipp_R (ipp p) ->
    check fw y u x w r us n1 n pn Gs Hs Vs p = m0 -> check fw y u x w r us n1 n pn Gs Hs Vs p' = m0 ->
    (ipp_a (ipp p') - ipp_a (ipp p)) *s foldG us (Gprime u n1 pn Gs)
    +m (ipp_b (ipp p') - ipp_b (ipp p)) *s foldH us (Hprime y u n1 pn Hs)
    +m (w * (ipp_a (ipp p') * ipp_b (ipp p') - ipp_a (ipp p) * ipp_b (ipp p))) *s B = m0.
  Proof.
    intros E1 E2 E3 E4 E5 E6 E7 E8 E9 E10 E11 E12 E13 E14 E15 E16 H H'.
    pose proof (check_difference fw y u x w r us n1 n pn Gs Hs Vs p p') as D. cbv zeta in D.
    rewrite H, H', E1, E2, E3, E4, E5, E6, E7, E8, E9, E10, E11, E12, E13, E14, E15, E16 in D.
    match type of D with _ = ?S =>
      match goal with |- ?G = m0 => assert (HS : G = m0 -m S) by mring end end.
    rewrite HS, <- D. mring.
  Qed.

  (* ---- C05: constraints over committed values ---- *)
  Theorem changed_committed_part (fw fw' : weights K) y u x w r us n1 n pn Gs Hs Vs (p : proof_t) :
    wL fw' = wL fw -> wR fw' = wR fw -> wO fw' = wO fw ->
    check fw' y u x w r us n1 n pn Gs Hs Vs p -m check fw y u x w r us n1 n pn Gs Hs Vs p
    = (r * sq x) *s ((wc fw' - wc fw) *s B +m (msm (wV fw') Vs -m msm (wV fw) Vs)).
  Proof.
    intros EL ER EO. unfold check, R_ipp, R_t, P_of, delta_of. rewrite EL, ER, EO. unfold sq. mring.
  Qed.

  (* with V_j = v_j.B + v~_j.B~ the difference is (value of the changed part on the committed values).B + (..).B~ *)
  Lemma msm_commitments : forall (c vs vbs : list K),
    length vs = length c -> length vbs = length c ->
    msm c (map2 (fun v vb => v *s B +m vb *s Bb) vs vbs) = ip c vs *s B +m ip c vbs *s Bb.
  Proof.
    induction c as [|c0 c IH]; intros [|v vs] [|vb vbs] H1 H2; simpl in *; try discriminate.
    - mring.
    - rewrite IH by congruence. unfold ip. cbn [map2 fold_right]. fold (ip c vs). fold (ip c vbs). mring.
  Qed.

  (* ---- C05: bases ---- *)
  Theorem changed_bases (c0 c1 : K) (rest : list K) (B' Bb' : MO) (pts : list MO) :
    msm (c0 :: c1 :: rest) ([B'; Bb'] ++ pts) -m msm (c0 :: c1 :: rest) ([B; Bb] ++ pts)
    = c0 *s (B' -m B) +m c1 *s (Bb' -m Bb).
  Proof. cbn [app msm]. mring. Qed.
End Integrity.

(* ---- C05: the history pins the statement's commitments (in order) and the label ---- *)
Section History.
  Context {K : FieldOps} {MO : ModOps K}.
  Variable RO : transcript K MO -> K.

  Definition V_of_op (o : tr_op K MO) : list MO :=
    match o with App l (PPoint V) => if String.eqb l "V" then [V] else [] | _ => [] end.
  Definition Vs_of (tr : transcript K MO) : list MO := flat_map V_of_op tr.

  Lemma Vs_of_app t1 t2 : Vs_of (t1 ++ t2) = Vs_of t1 ++ Vs_of t2.
  Proof. unfold Vs_of. apply flat_map_app. Qed.

  Lemma v_allocate_tr (s : vstate K MO) a : v_tr (fst (v_allocate s a)) = v_tr s /\ v_V (fst (v_allocate s a)) = v_V s.
  Proof. unfold v_allocate. destruct (v_pend s); simpl; auto. Qed.

  Theorem commitments_in_history (Vs : nat -> MO) : forall (p : prog K) (s : vstate K MO),
    Vs_of (v_tr s) = v_V s ->
    Vs_of (v_tr (fst (v_run Vs p s))) = v_V (fst (v_run Vs p s)).
  Proof.
    induction p as [|v vb k IH|a k IH|a k IH|l r k IH|c k IH|l b k IH|k IH|c k IH]; intros s H; cbn [v_run]; auto.
    - unfold v_commit. cbv zeta.
      match goal with |- context [v_run Vs (k ?x) ?st] => specialize (IH x st) end.
      destruct (v_run Vs _ _) as [s'' ev]. cbn [fst] in *. apply IH. cbn [v_tr v_V].
      unfold append_point. rewrite Vs_of_app, H. reflexivity.
    - destruct (v_allocate s a) as [s' x] eqn:E. pose proof (v_allocate_tr s a) as [A1 A2]. rewrite E in A1, A2. cbn [fst] in *.
      specialize (IH x s'). destruct (v_run Vs _ _) as [s'' ev]. apply IH. congruence.
    - unfold v_allocate_multiplier. cbv zeta.
      match goal with |- context [v_run Vs (k ?x) ?st] => specialize (IH x st) end.
      destruct (v_run Vs _ _) as [s'' ev]. apply IH. exact H.
    - unfold v_multiply. cbv zeta.
      match goal with |- context [v_run Vs (k ?x) ?st] => specialize (IH x st) end.
      destruct (v_run Vs _ _) as [s'' ev]. apply IH. exact H.
    - specialize (IH (v_constrain s c)). destruct (v_run Vs _ _) as [s'' ev]. apply IH. exact H.
    - specialize (IH (v_msg s l b)). destruct (v_run Vs _ _) as [s'' ev]. apply IH.
      cbn [v_msg v_tr v_V]. unfold append_message. rewrite Vs_of_app, H. cbn. now rewrite app_nil_r.
    - specialize (IH (v_num s) s). destruct (v_run Vs _ _) as [s'' ev]. apply IH. exact H.
    - specialize (IH (v_defer s c)). destruct (v_run Vs _ _) as [s'' ev]. apply IH. exact H.
  Qed.

  (* two statements whose first-phase histories coincide have the same label and the same commitments, in order *)
  Definition v_start (lab : list Z) : vstate K MO :=
    mkV [App "dom-sep" (PBytes lab); App "dom-sep" (PStr "r1cs v1")] [] 0 [] [] None.

  Theorem equal_history_equal_statement (Vs1 Vs2 : nat -> MO) (p1 p2 : prog K) (lab1 lab2 : list Z) :
    let s1 := fst (v_run Vs1 p1 (v_start lab1)) in let s2 := fst (v_run Vs2 p2 (v_start lab2)) in
    v_tr s1 = v_tr s2 -> v_V s1 = v_V s2.
  Proof.
    cbv zeta. intros E.
    assert (H0 : forall lab, Vs_of (v_tr (v_start lab)) = v_V (v_start lab)) by reflexivity.
    rewrite <- (commitments_in_history Vs1 p1 _ (H0 lab1)), <- (commitments_in_history Vs2 p2 _ (H0 lab2)), E. reflexivity.
  Qed.

  (* a run only appends to the history: the label op stays first *)
  Theorem history_extends (Vs : nat -> MO) : forall (p : prog K) (s : vstate K MO),
    exists ops, v_tr (fst (v_run Vs p s)) = v_tr s ++ ops.
  Proof.
    induction p as [|v vb k IH|a k IH|a k IH|l r k IH|c k IH|l b k IH|k IH|c k IH]; intros s; cbn [v_run].
    - exists []. now rewrite app_nil_r.
    - unfold v_commit. cbv zeta.
      match goal with |- context [v_run Vs (k ?x) ?st] => destruct (IH x st) as [ops E] end.
      destruct (v_run Vs _ _) as [s'' ev]. cbn [fst v_tr] in *. unfold append_point in E. rewrite <- app_assoc in E. eauto.
    - destruct (v_allocate s a) as [s' x] eqn:Ea. pose proof (v_allocate_tr s a) as [A1 _]. rewrite Ea in A1. cbn [fst] in A1.
      destruct (IH x s') as [ops E]. destruct (v_run Vs _ _) as [s'' ev]. cbn [fst] in *. rewrite A1 in E. eauto.
    - unfold v_allocate_multiplier. cbv zeta.
      match goal with |- context [v_run Vs (k ?x) ?st] => destruct (IH x st) as [ops E] end.
      destruct (v_run Vs _ _) as [s'' ev]. cbn [fst v_tr] in *. eauto.
    - unfold v_multiply. cbv zeta.
      match goal with |- context [v_run Vs (k ?x) ?st] => destruct (IH x st) as [ops E] end.
      destruct (v_run Vs _ _) as [s'' ev]. cbn [fst v_tr v_constrain] in *. eauto.
    - destruct (IH (v_constrain s c)) as [ops E]. destruct (v_run Vs _ _) as [s'' ev]. cbn [fst v_tr v_constrain] in *. eauto.
    - destruct (IH (v_msg s l b)) as [ops E]. destruct (v_run Vs _ _) as [s'' ev]. cbn [fst v_tr v_msg] in *.
      unfold append_message in E. rewrite <- app_assoc in E. eauto.
    - destruct (IH (v_num s) s) as [ops E]. destruct (v_run Vs _ _) as [s'' ev]. cbn [fst] in *. eauto.
    - destruct (IH (v_defer s c)) as [ops E]. destruct (v_run Vs _ _) as [s'' ev]. cbn [fst v_tr v_defer] in *. eauto.
  Qed.

  Theorem equal_history_equal_label (Vs1 Vs2 : nat -> MO) (p1 p2 : prog K) (lab1 lab2 : list Z) :
    v_tr (fst (v_run Vs1 p1 (v_start lab1))) = v_tr (fst (v_run Vs2 p2 (v_start lab2))) -> lab1 = lab2.
  Proof.
    intros E. destruct (history_extends Vs1 p1 (v_start lab1)) as [o1 E1]. destruct (history_extends Vs2 p2 (v_start lab2)) as [o2 E2].
    rewrite E1, E2 in E. cbn [v_start v_tr app] in E. now injection E.
  Qed.
End History.

(* ---- C04: everything except the final scalars (a, b) is read off the history ---- *)
Section Absorbed.
  Context {K : FieldOps} {MO : ModOps K}.

  Lemma app_inj_len {A} : forall (a a' b b' : list A), length a = length a' -> a ++ b = a' ++ b' -> a = a' /\ b = b'.
  Proof.
    induction a as [|x a IH]; intros [|x' a'] b b' HL H; cbn in HL; try discriminate; [auto|].
    cbn in H. injection H as -> H. destruct (IH a' b b' ltac:(lia) H) as [-> ->]. auto.
  Qed.

  Theorem history_determines_fields (p p' : r1cs_proof K MO) (m m' pn pn' : nat) (sep sep' : string) :
    length (ipp_R (ipp p)) = length (ipp_L (ipp p)) -> length (ipp_R (ipp p')) = length (ipp_L (ipp p')) ->
    head_ops m p = head_ops m' p' ->
    tail_ops p pn ++ ipp_ops (ipp_L (ipp p)) (ipp_R (ipp p)) = tail_ops p' pn' ++ ipp_ops (ipp_L (ipp p')) (ipp_R (ipp p')) ->
    m = m' /\ A_I1 p = A_I1 p' /\ A_O1 p = A_O1 p' /\ S1 p = S1 p'
    /\ A_I2 p = A_I2 p' /\ A_O2 p = A_O2 p' /\ S2 p = S2 p' /\ T_1 p = T_1 p' /\ T_3 p = T_3 p' /\ T_4 p = T_4 p'
    /\ T_5 p = T_5 p' /\ T_6 p = T_6 p' /\ t_x p = t_x p' /\ t_x_blinding p = t_x_blinding p' /\ e_blinding p = e_blinding p'
    /\ ipp_L (ipp p) = ipp_L (ipp p') /\ ipp_R (ipp p) = ipp_R (ipp p').
  Proof.
    intros HL HL' Hh Ht.
    unfold head_ops in Hh. injection Hh as Em E1 E2 E3.
    assert (Hsplit : tail_ops p pn = tail_ops p' pn' /\ ipp_ops (ipp_L (ipp p)) (ipp_R (ipp p)) = ipp_ops (ipp_L (ipp p')) (ipp_R (ipp p'))).
    { apply app_inj_len; [reflexivity | exact Ht]. }
    destruct Hsplit as [T I]. apply tail_ops_injective in T. apply ipp_ops_injective in I; auto.
    destruct T as (A & B0 & C & D & E & F0 & G & H & I0 & J & K0 & _). destruct I as [I1 I2].
    repeat split; auto.
  Qed.
End Absorbed.
