(* Proofs/VecLemmas.v — list-as-vector facts over a field. *)
Require Export BP.Base.Vec.

Section VecLemmas.
  Context {K : FieldOps} {FL : FieldLaws K}.
  Add Field Ffv : (@Fth K FL).
  Open Scope F_scope.

  Lemma map2_length {A B C} (f : A -> B -> C) l r :
    length (map2 f l r) = Nat.min (length l) (length r).
  Proof. revert r; induction l as [|x l IH]; intros [|y r]; simpl; auto. Qed.

  Lemma map2_length_eq {A B C} (f : A -> B -> C) l r :
    length r = length l -> length (map2 f l r) = length l.
  Proof. intros H; rewrite map2_length, H; apply Nat.min_id. Qed.

  Lemma map2_app {A B C} (f : A -> B -> C) l1 l2 r1 r2 :
    length l1 = length r1 -> map2 f (l1 ++ l2) (r1 ++ r2) = map2 f l1 r1 ++ map2 f l2 r2.
  Proof.
    revert r1; induction l1 as [|x l1 IH]; intros [|y r1]; simpl; intros H; try discriminate; auto.
    f_equal; apply IH; congruence.
  Qed.

  Lemma map2_nil_r {A B C} (f : A -> B -> C) l : map2 f l [] = [].
  Proof. destruct l; reflexivity. Qed.

  Lemma ip_nil_r (a : list K) : ip a [] = f0.
  Proof. destruct a; reflexivity. Qed.

  Lemma ip_app (a1 a2 b1 b2 : list K) :
    length a1 = length b1 -> ip (a1 ++ a2) (b1 ++ b2) = ip a1 b1 + ip a2 b2.
  Proof.
    revert b1; induction a1 as [|x a1 IH]; intros [|y b1]; simpl; intros H; try discriminate.
    - ring.
    - rewrite IH by congruence. ring.
  Qed.

  Lemma ip_comm (a b : list K) : ip a b = ip b a.
  Proof. revert b; induction a as [|x a IH]; intros [|y b]; simpl; auto. rewrite IH; ring. Qed.

  Lemma ip_vadd_l (a b c : list K) :
    length b = length a -> ip (vadd a b) c = ip a c + ip b c.
  Proof.
    unfold vadd. revert b c; induction a as [|x a IH]; intros [|y b] [|z c]; simpl; intros H; try discriminate; try ring.
    rewrite IH by congruence. ring.
  Qed.

  Lemma ip_vscale_l (k : K) (a b : list K) : ip (vscale k a) b = k * ip a b.
  Proof.
    unfold vscale. revert b; induction a as [|x a IH]; intros [|y b]; simpl; try ring.
    rewrite IH. ring.
  Qed.

  Lemma ip_vscale_r (k : K) (a b : list K) : ip a (vscale k b) = k * ip a b.
  Proof. rewrite ip_comm, ip_vscale_l, ip_comm. reflexivity. Qed.

  Lemma ip_zeros_l n (b : list K) : ip (zeros n) b = f0.
  Proof. unfold zeros. revert b; induction n; intros [|y b]; simpl; auto. rewrite IHn; ring. Qed.

  Lemma ip_zeros_r n (a : list K) : ip a (zeros n) = f0.
  Proof. rewrite ip_comm. apply ip_zeros_l. Qed.

  Lemma zeros_length n : length (@zeros K n) = n.
  Proof. apply repeat_length. Qed.

  Lemma powers_from_length (c x : K) n : length (powers_from c x n) = n.
  Proof. revert c; induction n; simpl; auto. Qed.

  Lemma powers_length (x : K) n : length (powers x n) = n.
  Proof. apply powers_from_length. Qed.

  Lemma powers_from_scale (c x : K) n : powers_from c x n = vscale c (powers_from f1 x n).
  Proof.
    unfold vscale. revert c; induction n; intros c; simpl; auto.
    f_equal; [ring|]. rewrite IHn. rewrite (IHn (f1 * x)). rewrite map_map.
    apply map_ext. intros; ring.
  Qed.

  Lemma powers_from_nth (c x : K) n i : (i < n)%nat -> nth i (powers_from c x n) f0 = c * fpow x i.
  Proof.
    revert c i; induction n; intros c [|i] H; simpl; try lia; try ring.
    rewrite IHn by lia. ring.
  Qed.

  Lemma powers_from_app (c x : K) n m :
    powers_from c x (n + m) = powers_from c x n ++ powers_from (c * fpow x n) x m.
  Proof.
    revert c; induction n; intros c; simpl.
    - f_equal. ring.
    - f_equal. rewrite IHn. f_equal. f_equal. ring.
  Qed.

  Lemma powers_app (x : K) n m :
    powers x (n + m) = powers x n ++ powers_from (fpow x n) x m.
  Proof.
    unfold powers. rewrite powers_from_app. f_equal. f_equal. ring.
  Qed.

  Lemma vsum_app (a b : list K) : vsum (a ++ b) = vsum a + vsum b.
  Proof. unfold vsum. induction a; simpl; [ring | rewrite IHa; ring]. Qed.

  Lemma all_zero_spec (a : list K) : all_zero a = true <-> a = zeros (length a).
  Proof.
    unfold all_zero, zeros. induction a as [|x a IH]; simpl; [tauto|].
    rewrite andb_true_iff, IH, feqb_spec. split.
    - intros [-> E]. f_equal. exact E.
    - intros E. injection E as -> E. auto.
  Qed.
End VecLemmas.
