(* Proofs/PedersenLemmas.v — C13. *)
Require Export BP.Model.CS BP.Proofs.ModLemmas.

Ltac mringp := mring_prep; ring.

Section PedersenLemmas.
  Context {K : FieldOps} {FL : FieldLaws K} {MO : ModOps K} {ML : ModLaws MO}.
  Add Field Ffpe : (@Fth K FL).
  Add Ring Rrpe : (@Rth K FL MO ML).
  Open Scope F_scope.
  Variables B Bb : MO.
  Notation commit := (pedersen_commit B Bb).

  Lemma commit_hom v1 r1 v2 r2 : madd (commit v1 r1) (commit v2 r2) = commit (v1 + v2) (r1 + r2).
  Proof. unfold pedersen_commit. mringp. Qed.
  Lemma commit_zero : commit f0 f0 = m0.
  Proof. unfold pedersen_commit. mringp. Qed.
  Lemma commit_scale k v r : smul k (commit v r) = commit (k * v) (k * r).
  Proof. unfold pedersen_commit. mringp. Qed.
  Lemma commit_opp v r : mopp (commit v r) = commit (- v) (- r).
  Proof. unfold pedersen_commit. mringp. Qed.
End PedersenLemmas.
