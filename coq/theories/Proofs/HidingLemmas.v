(* Proofs/HidingLemmas.v — C09: which draw blinds which component; every draw is used exactly once. *)
Require Export BP.Proofs.Completeness.

Section HidingLemmas.
  Context {K : FieldOps} {FL : FieldLaws K} {MO : ModOps K} {ML : ModLaws MO}.
  Add Field Ffh : (@Fth K FL).
  Add Ring Rrh : (@Rth K FL MO ML).
  Open Scope F_scope.
  Notation "x +m y" := (madd x y) (at level 50, left associativity).
  Notation "k *s x" := (smul k x) (at level 40).

  (* the draw indices in the order the procedure consumes them *)
  Definition layout (n1 n2 : nat) : list nat :=
    [0; 1; 2]%nat ++ seq 3 n1 ++ seq (3 + n1) n1
    ++ (if Nat.ltb 0 n2 then [base_of n1; base_of n1 + 1; base_of n1 + 2]%nat else [])
    ++ seq (base2_of n1 n2) n2 ++ seq (base2_of n1 n2 + n2) n2
    ++ [base3_of n1 n2; base3_of n1 n2 + 1; base3_of n1 n2 + 2; base3_of n1 n2 + 3; base3_of n1 n2 + 4]%nat.

  (* every index below the draw count is used exactly once: the components are blinded by mutually
     distinct fresh draws and no draw is skipped or reused *)
  Lemma seq_app_start a b n m : b = (a + n)%nat -> seq a n ++ seq b m = seq a (n + m).
  Proof. intros ->. symmetry. apply seq_app. Qed.

  Theorem layout_is_identity n1 n2 : layout n1 n2 = seq 0 (base3_of n1 n2 + 5).
  Proof.
    unfold layout.
    assert (H3 : [0; 1; 2]%nat = seq 0 3) by reflexivity.
    assert (H5 : forall b, [b; b + 1; b + 2; b + 3; b + 4]%nat = seq b 5)
      by (intros b; simpl; repeat f_equal; lia).
    assert (Hb : forall b, [b; b + 1; b + 2]%nat = seq b 3) by (intros b; simpl; repeat f_equal; lia).
    rewrite H3, H5. unfold base3_of, base2_of.
    destruct (Nat.ltb 0 n2) eqn:E.
    - rewrite Hb. unfold base_of. rewrite !app_assoc.
      repeat (erewrite seq_app_start by lia). f_equal. lia.
    - apply Nat.ltb_ge in E. assert (n2 = 0)%nat by lia. subst n2. unfold base_of.
      assert (Hs0 : forall a, seq a 0 = []) by reflexivity. rewrite !Hs0. cbn [app]. rewrite !app_assoc.
      repeat (erewrite seq_app_start by lia). f_equal. lia.
  Qed.

  Corollary layout_nodup n1 n2 : NoDup (layout n1 n2).
  Proof. rewrite layout_is_identity. apply seq_NoDup. Qed.

  (* a different blinding scalar gives a different commitment (Bb <> 0): the component really depends on its draw *)
  Theorem blinding_injective (Bb W : MO) (k k' : K) : Bb <> m0 -> k *s Bb +m W = k' *s Bb +m W -> k = k'.
  Proof.
    intros HB E. assert (E' : (k - k') *s Bb = m0).
    { transitivity ((k *s Bb +m W) +m mopp (k' *s Bb +m W)); [mring | rewrite E; mring]. }
    destruct (smul_cancel _ _ E') as [H|H]; [apply fsub_eq_0; exact H | contradiction].
  Qed.

  (* a gate-free circuit fixes t_x = 0 and the final inner-product scalars 0 and -1 *)
  Lemma gate_free_tx (fw : weights K) (y x : K) :
    let pl := @p_polys K fw y [] [] [] [] [] in
    poly6_eval x (pt1 pl) (pt2 pl) (pt3 pl) (pt4 pl) (pt5 pl) (pt6 pl) = f0.
  Proof. cbv zeta. unfold p_polys, poly6_eval. simpl. ring. Qed.

  Lemma gate_free_ab (RO : transcript K MO -> K) (fw : weights K) (y x : K) tr Q gf hf (G H : list MO) :
    length G = 1%nat ->
    let pl := @p_polys K fw y [] [] [] [] [] in
    let '(p, _, _) := ipp_create RO tr Q gf hf G H (p_lvec pl x 0 1) (p_rvec pl x y 0 1) in
    ipp_a p = f0 /\ ipp_b p = - f1 /\ ipp_L p = [] /\ ipp_R p = [].
  Proof.
    intros HG. cbv zeta. unfold ipp_create. rewrite HG. simpl. repeat split.
    unfold p_rvec, p_polys, vecpoly3_eval, powers. simpl. rewrite !map2_nil_r. simpl. rewrite ?map2_nil_r. reflexivity.
  Qed.
End HidingLemmas.
