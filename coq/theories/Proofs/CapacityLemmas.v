(* Proofs/CapacityLemmas.v — C17: the insufficient-generators error fires exactly below the padded
   size; above it, proof and verdict do not depend on the capacity. *)
Require Export BP.Proofs.Completeness.

Section CapacityLemmas.
  Context {K : FieldOps} {FL : FieldLaws K} {MO : ModOps K} {ML : ModLaws MO}.
  Open Scope F_scope.
  Notation tr_t := (transcript K MO).
  Variable RO : tr_t -> K.
  Variables B Bb : MO.

  (* the state handed to the closures: first-phase commitments absorbed *)
  Definition p_state1 (Gs Hs : list MO) (d : nat -> K) (s : pstate K MO) : pstate K MO :=
    let '(AI1, AO1, SS1) := p_commit1 Bb Gs Hs d (p_aL s) (p_aR s) (p_aO s) in
    mkP (append_point (append_point (append_point (append_u64 (p_tr s) "m" (length (p_v s))) "A_I1" AI1) "A_O1" AO1) "S1" SS1)
        (p_cons s) (p_aL s) (p_aR s) (p_aO s) (p_v s) (p_vb s) (p_def s) (p_pend s).

  Theorem prover_threshold (Gs Hs : list MO) (d : nat -> K) (s : pstate K MO) :
    let cap := length Gs in let n1 := length (p_aL s) in
    (cap < n1 -> prove RO B Bb Gs Hs d s = Err EGens)%nat
    /\ (n1 <= cap ->
        forall s2 ev r, p_phase2 RO (p_state1 Gs Hs d s) = (s2, ev, r) ->
        match r with
        | Err e => prove RO B Bb Gs Hs d s = Err e
        | Ok _ =>
          let pn := next_pow2 (length (p_aL s2)) in
          (cap < pn -> prove RO B Bb Gs Hs d s = Err EGens)
          /\ (pn <= cap -> exists po, prove RO B Bb Gs Hs d s = Ok po)
        end)%nat.
  Proof.
    cbv zeta. split.
    - intros H. unfold prove. rewrite (proj2 (Nat.ltb_lt _ _) H). reflexivity.
    - intros H s2 ev r Eph. unfold prove, p_state1 in *.
      rewrite (proj2 (Nat.ltb_ge _ _) H).
      destruct (p_commit1 Bb Gs Hs d (p_aL s) (p_aR s) (p_aO s)) as [[AI1 AO1] SS1].
      rewrite Eph. destruct r as [[]|e]; [|reflexivity].
      split; intros Hc.
      + rewrite (proj2 (Nat.ltb_lt _ _) Hc). reflexivity.
      + rewrite (proj2 (Nat.ltb_ge _ _) Hc).
        destruct (p_commit2 Bb Gs Hs d _ _ _ _) as [[AI2 AO2] SS2].
        unfold challenge. cbv zeta.
        match goal with |- context [ipp_create RO ?t ?q ?gf ?hf ?g ?h ?a ?b] =>
          destruct (ipp_create RO t q gf hf g h a b) as [[ip_pf tr10] us] end.
        eexists. reflexivity.
  Qed.

  Theorem verifier_threshold (cap : nat) (s : vstate K MO) (p : r1cs_proof K MO) :
    mzerob (A_I1 p) = false -> mzerob (A_O1 p) = false -> mzerob (S1 p) = false ->
    let tr3 := append_point (append_point (append_point (append_u64 (v_tr s) "m" (length (v_V s))) "A_I1" (A_I1 p)) "A_O1" (A_O1 p)) "S1" (S1 p) in
    forall s2 ev r, v_phase2 RO (mkV tr3 (v_cons s) (v_num s) (v_V s) (v_def s) (v_pend s)) = (s2, ev, r) ->
    match r with
    | Err e => verification_scalars RO cap s p = Err e
    | Ok _ =>
      let pn := next_pow2 (v_num s2) in
      (cap < pn -> verification_scalars RO cap s p = Err EGens)%nat
      /\ (pn <= cap -> verification_scalars RO cap s p <> Err EGens)%nat
    end.
  Proof.
    intros I1 I2 I3 tr3 s2 ev r Eph. unfold verification_scalars, opt_bind, validate_and_append_point.
    rewrite I1, I2, I3. fold (append_point (append_u64 (v_tr s) "m" (length (v_V s))) "A_I1" (A_I1 p)).
    unfold append_point in *. unfold tr3 in Eph. rewrite Eph.
    destruct r as [[]|e]; [|reflexivity].
    split; intros Hc.
    - rewrite (proj2 (Nat.ltb_lt _ _) Hc). reflexivity.
    - rewrite (proj2 (Nat.ltb_ge _ _) Hc). unfold challenge.
      repeat match goal with |- context [if mzerob ?c then _ else _] => destruct (mzerob c); [discriminate|] end.
      match goal with |- context [ipp_verification_scalars ?r ?t ?n ?q] =>
        destruct (ipp_verification_scalars r t n q) as [[[[[? ?] ?] ?] ?]|?]; discriminate end.
  Qed.

  (* capacity independence: the proof only ever looks at the first n' generators *)
  Lemma firstn_le_agree {A} (l l' : list A) n m : (m <= n)%nat -> firstn n l = firstn n l' -> firstn m l = firstn m l'.
  Proof.
    intros H E. rewrite <- (Nat.min_l m n H), <- !firstn_firstn, E. reflexivity.
  Qed.

  Lemma commit1_agree (Gs Hs Gs' Hs' : list MO) d (aL aR aO : list K) :
    firstn (length aL) Gs = firstn (length aL) Gs' -> firstn (length aL) Hs = firstn (length aL) Hs' ->
    p_commit1 Bb Gs Hs d aL aR aO = p_commit1 Bb Gs' Hs' d aL aR aO.
  Proof. intros E1 E2. unfold p_commit1. rewrite E1, E2. reflexivity. Qed.

  Lemma commit2_agree (Gs Hs Gs' Hs' : list MO) d n1 (aL aR aO : list K) :
    firstn (length aL) Gs = firstn (length aL) Gs' -> firstn (length aL) Hs = firstn (length aL) Hs' ->
    p_commit2 Bb Gs Hs d n1 aL aR aO = p_commit2 Bb Gs' Hs' d n1 aL aR aO.
  Proof. intros E1 E2. unfold p_commit2. rewrite E1, E2. reflexivity. Qed.

  Theorem prove_capacity_independent (Gs Hs Gs' Hs' : list MO) (d : nat -> K) (s : pstate K MO) (po : prover_out K MO) :
    length (p_aR s) = length (p_aL s) -> length (p_aO s) = length (p_aL s) ->
    prove RO B Bb Gs Hs d s = Ok po ->
    let pn := next_pow2 (po_n po) in
    (pn <= length Gs')%nat -> firstn pn Gs' = firstn pn Gs -> firstn pn Hs' = firstn pn Hs ->
    prove RO B Bb Gs' Hs' d s = Ok po.
  Proof.
    intros HR HO Hp pn Hcap EG EH.
    destruct (prove_inv RO B Bb Gs Hs d s po Hp) as (y & z & u & x & w & tr9 & ev & tr1 & _ & _ & Hn & _ & Eph0 & _).
    pose proof (phase2_prefix RO (mkP tr1 (p_cons s) (p_aL s) (p_aR s) (p_aO s) (p_v s) (p_vb s) (p_def s) (p_pend s)) HR HO) as HP.
    cbv zeta in HP. rewrite Eph0 in HP. cbn [fst p_aL] in HP. destruct HP as (_ & _ & _ & Hn1n & _ & _).
    assert (Hnpn : (length (p_aL (po_state po)) <= pn)%nat) by (unfold pn; rewrite Hn; apply next_pow2_ge).
    clear Eph0.
    unfold prove in *.
    destruct (Nat.ltb (length Gs) (length (p_aL s))) eqn:Ec1; [discriminate|].
    assert (E1 : p_commit1 Bb Gs' Hs' d (p_aL s) (p_aR s) (p_aO s) = p_commit1 Bb Gs Hs d (p_aL s) (p_aR s) (p_aO s)).
    { apply commit1_agree; [apply (firstn_le_agree _ _ pn); [lia | exact EG] | apply (firstn_le_agree _ _ pn); [lia | exact EH]]. }
    assert (Ec1' : Nat.ltb (length Gs') (length (p_aL s)) = false) by (apply Nat.ltb_ge; lia).
    rewrite Ec1', E1.
    destruct (p_commit1 Bb Gs Hs d (p_aL s) (p_aR s) (p_aO s)) as [[AI1 AO1] SS1].
    destruct (p_phase2 RO _) as [[s2 ev'] r2] eqn:Eph. destruct r2 as [[]|e]; [|discriminate].
    destruct (Nat.ltb (length Gs) (next_pow2 (length (p_aL s2)))) eqn:Ec2; [discriminate|].
    assert (Es2 : po_state po = s2).
    { clear - Hp. destruct (p_commit2 Bb Gs Hs d _ _ _ _) as [[? ?] ?]. unfold challenge in Hp. cbv zeta in Hp.
      match type of Hp with context [ipp_create RO ?t ?q ?gf ?hf ?g ?h ?a ?b] =>
        destruct (ipp_create RO t q gf hf g h a b) as [[? ?] ?] end.
      inversion Hp. reflexivity. }
    rewrite Es2 in *. unfold pn in *. rewrite Hn in *. clear Hn.
    set (n := length (p_aL s2)) in *. set (pn' := next_pow2 n) in *.
    assert (Ec2' : Nat.ltb (length Gs') pn' = false) by (apply Nat.ltb_ge; lia).
    rewrite Ec2'.
    assert (E2 : p_commit2 Bb Gs' Hs' d (length (p_aL s)) (p_aL s2) (p_aR s2) (p_aO s2)
                 = p_commit2 Bb Gs Hs d (length (p_aL s)) (p_aL s2) (p_aR s2) (p_aO s2)).
    { apply commit2_agree; [apply (firstn_le_agree _ _ pn'); [exact Hnpn | exact EG] | apply (firstn_le_agree _ _ pn'); [exact Hnpn | exact EH]]. }
    rewrite E2, EG, EH. exact Hp.
  Qed.

  Theorem verify_capacity_independent (Gs Hs Gs' Hs' : list MO) (s : vstate K MO) (p : r1cs_proof K MO) (vo : verifier_out K MO) :
    verification_scalars RO (length Gs) s p = Ok vo ->
    (vo_padded vo <= length Gs')%nat ->
    firstn (vo_padded vo) Gs' = firstn (vo_padded vo) Gs -> firstn (vo_padded vo) Hs' = firstn (vo_padded vo) Hs ->
    verify RO B Bb Gs' Hs' s p = verify RO B Bb Gs Hs s p.
  Proof.
    intros Hvs Hcap EG EH.
    assert (Hvs' : verification_scalars RO (length Gs') s p = Ok vo).
    { pose proof (vs_inv RO _ _ _ _ Hvs) as F. clear F.
      revert Hvs. unfold verification_scalars, opt_bind.
      repeat match goal with |- context [validate_and_append_point ?t ?l ?P] => destruct (validate_and_append_point t l P); [|intros; discriminate] end.
      destruct (v_phase2 RO _) as [[s2 ev] [[]|e]]; [|intros; discriminate].
      destruct (Nat.ltb (length Gs) (next_pow2 (v_num s2))) eqn:E1; [intros; discriminate|].
      intros Hvs.
      assert (Epn : vo_padded vo = next_pow2 (v_num s2)).
      { revert Hvs. unfold challenge. cbv zeta.
        repeat match goal with |- context [validate_and_append_point ?t ?l ?P] => destruct (validate_and_append_point t l P); [|intros; discriminate] end.
        match goal with |- context [ipp_verification_scalars ?r ?t ?n ?q] =>
          destruct (ipp_verification_scalars r t n q) as [[[[[? ?] ?] ?] ?]|?]; [|intros; discriminate] end.
        intros H. inversion H. reflexivity. }
      rewrite Epn in Hcap. rewrite (proj2 (Nat.ltb_ge _ _) Hcap). exact Hvs. }
    unfold verify. rewrite Hvs, Hvs'. unfold mega_points. rewrite EG, EH. reflexivity.
  Qed.
End CapacityLemmas.
