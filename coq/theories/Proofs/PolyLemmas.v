(* Proofs/PolyLemmas.v — a non-zero polynomial with d+1 coefficients has at most d roots. *)
Require Export BP.Base.Poly BP.Proofs.VecLemmas.

Section PolyLemmas.
  Context {K : FieldOps} {FL : FieldLaws K}.
  Add Field Ffpo : (@Fth K FL).
  Open Scope F_scope.

  Definition nonzero_poly (c : list K) : Prop := exists a, In a c /\ a <> f0.

  Lemma hq_cons2 (r a b : K) c' :
    hq (a :: b :: c') r = (a + r * fst (hq (b :: c') r), fst (hq (b :: c') r) :: snd (hq (b :: c') r)).
  Proof. cbn [hq]. destruct c' as [|d c'']; [reflexivity|]. destruct (hq (d :: c'') r). reflexivity. Qed.

  Lemma hq_spec (r : K) : forall c x,
    peval c x = (x - r) * peval (snd (hq c r)) x + fst (hq c r).
  Proof.
    induction c as [|a c IH]; intros x; [simpl; ring|].
    destruct c as [|b c']; [simpl; ring|].
    rewrite hq_cons2. specialize (IH x). destruct (hq (b :: c') r) as [v q]. cbn [fst snd] in *.
    cbn [peval] in *. rewrite IH. ring.
  Qed.

  Lemma hq_rem (r : K) c : fst (hq c r) = peval c r.
  Proof. rewrite (hq_spec r c r). ring. Qed.

  Lemma hq_length (r : K) : forall c, length (snd (hq c r)) = (length c - 1)%nat.
  Proof.
    induction c as [|a c IH]; [reflexivity|].
    destruct c as [|b c']; [reflexivity|].
    rewrite hq_cons2. destruct (hq (b :: c') r) as [v q]. cbn [fst snd length] in *. lia.
  Qed.

  Lemma hq_zero (r : K) : forall c,
    fst (hq c r) = f0 -> (forall a, In a (snd (hq c r)) -> a = f0) -> forall a, In a c -> a = f0.
  Proof.
    induction c as [|a c IH]; intros Hr Hq x Hx; [destruct Hx|].
    destruct c as [|b c'].
    - simpl in *. destruct Hx as [<-|[]]. exact Hr.
    - rewrite hq_cons2 in Hr, Hq. destruct (hq (b :: c') r) as [v q] eqn:E. cbn [fst snd] in *.
      assert (Hv : v = f0) by (apply Hq; now left).
      assert (Ha : a = f0) by (rewrite Hv in Hr; rewrite <- Hr; ring).
      destruct Hx as [<-|Hx]; [exact Ha|].
      apply IH; auto. intros y Hy. apply Hq. now right.
  Qed.

  Theorem roots_bound : forall (roots : list K) (c : list K),
    nonzero_poly c -> NoDup roots -> (forall r, In r roots -> peval c r = f0) ->
    (length roots < length c)%nat.
  Proof.
    induction roots as [|r rs IH]; intros c Hnz Hnd Hr.
    - destruct Hnz as (a & Ha & _). destruct c; [destruct Ha | simpl; lia].
    - inversion Hnd as [|? ? Hnin Hnd']; subst.
      set (q := snd (hq c r)).
      assert (Hrem : fst (hq c r) = f0) by (rewrite hq_rem; apply Hr; now left).
      assert (Hq : nonzero_poly q).
      { destruct Hnz as (a & Ha & Hane).
        destruct (forallb (fun b => feqb b f0) q) eqn:Eall.
        - exfalso. apply Hane. apply (hq_zero r c Hrem); auto.
          intros b Hb. rewrite forallb_forall in Eall. apply feqb_spec. apply Eall. exact Hb.
        - assert (Hex : existsb (fun b => negb (feqb b f0)) q = true).
          { clear - Eall. induction q as [|h q IHq]; simpl in *; [discriminate|].
            destruct (feqb h f0); simpl in *; auto. }
          apply existsb_exists in Hex. destruct Hex as (b & Hb & Hbn).
          exists b. split; auto. intro E. subst b. rewrite feqb_refl in Hbn. discriminate. }
      assert (Hrs : forall r', In r' rs -> peval q r' = f0).
      { intros r' Hr'. assert (Hne : r' <> r) by (intro E; subst; contradiction).
        pose proof (hq_spec r c r') as Hs. rewrite Hrem in Hs. rewrite (Hr r' (or_intror Hr')) in Hs.
        fold q in Hs.
        destruct (fmul_eq_0 (r' - r) (peval q r')) as [H0|H0]; [rewrite Hs; ring | | exact H0].
        exfalso. apply Hne. apply fsub_eq_0. exact H0. }
      specialize (IH q Hq Hnd' Hrs). unfold q in IH. rewrite hq_length in IH. simpl. lia.
  Qed.

  (* inner product with a geometric vector is Horner evaluation *)
  Lemma ip_powers_peval (y : K) : forall (e : list K) (c : K),
    ip e (powers_from c y (length e)) = c * peval e y.
  Proof.
    induction e as [|a e IH]; intros c; simpl; [ring|]. rewrite IH. ring.
  Qed.
End PolyLemmas.
