(* Proofs/ShapeLemmas.v — C08: on the repaired tree no shape-dependent site can panic, for ALL list
   lengths, circuit sizes, capacities and batches; on the pinned tree two witnesses panic. *)
Require Export BP.Model.Shape.
Require Import Lia.

Lemma next_pow2_is_pow n : next_pow2 n = 2 ^ Nat.log2 (next_pow2 n).
Proof.
  unfold next_pow2. destruct (Nat.eqb n 0); [reflexivity|]. rewrite Nat.log2_pow2 by lia. reflexivity.
Qed.
Lemma next_pow2_ge' n : n <= next_pow2 n.
Proof.
  unfold next_pow2. destruct n as [|[|n]]; [simpl; lia | simpl; lia |].
  cbn [Nat.eqb]. apply (Nat.log2_up_spec (S (S n))). lia.
Qed.

Lemma pow2_pos k : 0 < 2 ^ k.
Proof. induction k; simpl; lia. Qed.

(* the s-vector loop indices are in range whenever n = 2^lg_n, lg_n challenges *)
Lemma s_loop_in_range (lg_n i : nat) :
  1 <= i -> i < 2 ^ lg_n ->
  1 <= lg_n /\ Nat.log2 i <= lg_n - 1 /\ (lg_n - 1) - Nat.log2 i < lg_n /\ 2 ^ Nat.log2 i <= i /\ i - 2 ^ Nat.log2 i < i.
Proof.
  intros H1 H2.
  assert (Hlg : Nat.log2 i < lg_n) by (apply Nat.log2_lt_pow2; lia).
  destruct (Nat.log2_spec i ltac:(lia)) as [Hlo _].
  pose proof (pow2_pos (Nat.log2 i)). repeat split; lia.
Qed.

Lemma eq_pow2_spec : forall k n, eq_pow2 n k = Nat.eqb n (2 ^ k).
Proof.
  induction k as [|k IH]; intros n; cbn [eq_pow2]; [reflexivity|].
  rewrite IH. destruct (Nat.eqb_spec n (2 ^ S k)) as [->|Hne].
  - rewrite Nat.pow_succ_r', Nat.even_mul, Nat.div2_double. cbn [Nat.even orb].
    pose proof (pow2_pos k). destruct (Nat.eqb_spec (2 * 2 ^ k) 0); [lia|]. cbn [negb andb]. apply Nat.eqb_refl.
  - destruct (Nat.even n) eqn:Ev; [|reflexivity]. destruct (Nat.eqb_spec n 0); [reflexivity|]. cbn [negb andb].
    apply Nat.eqb_neq. intros Hd. apply Hne. rewrite Nat.pow_succ_r', <- Hd.
    apply Nat.even_spec in Ev. destruct Ev as [h ->]. now rewrite Nat.div2_double.
Qed.

Theorem ipp_shape_never_panics n lL lR : forall s, fst (ipp_shape true n lL lR) <> OPanic s.
Proof.
  intros s. unfold ipp_shape.
  destruct (Nat.leb 32 lL) eqn:E32; [discriminate|]. apply Nat.leb_gt in E32.
  cbn [andb]. destruct (Nat.eqb lR lL) eqn:ER; cbn [negb]; [|discriminate]. apply Nat.eqb_eq in ER. subst lR.
  unfold shl_ok. assert (E64 : Nat.ltb lL 64 = true) by (apply Nat.ltb_lt; lia). rewrite E64. cbn [negb].
  rewrite eq_pow2_spec. destruct (Nat.eqb n (2 ^ lL)) eqn:En; cbn [negb]; [|discriminate]. apply Nat.eqb_eq in En. subst n.
  rewrite Nat.min_id, Nat.leb_refl. cbn [negb].
  match goal with |- context [forallb ?f ?l] => assert (Hall : forallb f l = true) end.
  { apply forallb_forall. intros i Hi. apply in_seq in Hi. cbv zeta.
    destruct (s_loop_in_range lL i) as (A & B0 & C & D & E); try lia.
    rewrite (proj2 (Nat.leb_le _ _) A), (proj2 (Nat.leb_le _ _) B0), (proj2 (Nat.ltb_lt _ _) C),
            (proj2 (Nat.leb_le _ _) D), (proj2 (Nat.ltb_lt _ _) E). reflexivity. }
  rewrite Hall. discriminate.
Qed.

Lemma ipp_shape_ok_lengths n lL lR lu lui ls :
  ipp_shape true n lL lR = (OOk, (lu, lui, ls)) -> lR = lL /\ n = 2 ^ lL /\ lu = lL /\ lui = lL /\ ls = n.
Proof.
  unfold ipp_shape. destruct (Nat.leb 32 lL); [discriminate|]. cbn [andb].
  destruct (Nat.eqb lR lL) eqn:ER; cbn [negb]; [|discriminate]. apply Nat.eqb_eq in ER. subst lR.
  unfold shl_ok. destruct (Nat.ltb lL 64); cbn [negb]; [|discriminate].
  rewrite eq_pow2_spec. destruct (Nat.eqb n (2 ^ lL)) eqn:En; cbn [negb]; [|discriminate]. apply Nat.eqb_eq in En.
  rewrite Nat.min_id, Nat.leb_refl. cbn [negb].
  destruct (forallb _ _); [|discriminate]. intros H. inversion H. subst. repeat split; auto.
Qed.

Theorem vs_shape_never_panics cap n1 n m lL lR : forall s, fst (vs_shape true cap n1 n m lL lR) <> OPanic s.
Proof.
  intros s. unfold vs_shape.
  destruct (Nat.ltb cap (next_pow2 n)); [discriminate|].
  pose proof (ipp_shape_never_panics (next_pow2 n) lL lR) as HI.
  destruct (ipp_shape true (next_pow2 n) lL lR) as [[| |s'] [[lu lui] ls]] eqn:E; cbn [fst] in *; try discriminate.
  - pose proof (next_pow2_ge' n). rewrite Nat.min_l by lia.
    assert (El : Nat.leb n (n + (next_pow2 n - n)) = true) by (apply Nat.leb_le; lia). rewrite El. cbn [negb fst]. discriminate.
  - exfalso. apply (HI s'). reflexivity.
Qed.

Lemma vs_shape_ok_length cap n1 n m lL lR l :
  n1 <= n ->
  vs_shape true cap n1 n m lL lR = (OOk, l) ->
  lR = lL /\ next_pow2 n <= cap /\ l = 2 + 2 * next_pow2 n + 6 + m + 5 + lL + lR.
Proof.
  intros Hn1. unfold vs_shape.
  destruct (Nat.ltb cap (next_pow2 n)) eqn:Ec; [discriminate|]. apply Nat.ltb_ge in Ec.
  destruct (ipp_shape true (next_pow2 n) lL lR) as [[| |s'] [[lu lui] ls]] eqn:E; try discriminate.
  destruct (ipp_shape_ok_lengths _ _ _ _ _ _ E) as (-> & Hpn & -> & -> & ->).
  pose proof (next_pow2_ge' n). rewrite Nat.min_l by lia.
  assert (El : Nat.leb n (n + (next_pow2 n - n)) = true) by (apply Nat.leb_le; lia). rewrite El. cbn [negb].
  intros H0. inversion H0. repeat split; auto.
  rewrite !Nat.min_id. set (pn := next_pow2 n) in *.
  replace (n + (pn - n)) with pn by lia. replace (n1 + (n - n1 + (pn - n))) with pn by lia.
  rewrite !Nat.min_id. lia.
Qed.

(* C08: verify never panics — any |L|, |R|, any gate counts, any capacity, any number of commitments *)
Theorem verify_shape_never_panics cap n1 n m lL lR : n1 <= n -> forall s, verify_shape true cap n1 n m lL lR <> OPanic s.
Proof.
  intros Hn1 s. unfold verify_shape.
  pose proof (vs_shape_never_panics cap n1 n m lL lR) as HV.
  destruct (vs_shape true cap n1 n m lL lR) as [[| |s'] l] eqn:E; cbn [fst] in *; try discriminate.
  - destruct (vs_shape_ok_length _ _ _ _ _ _ _ Hn1 E) as (-> & Hc & ->).
    rewrite !Nat.min_r by lia.
    assert (Ee : Nat.eqb (2 + next_pow2 n + next_pow2 n + 6 + m + 5 + lL + lL) (2 + 2 * next_pow2 n + 6 + m + 5 + lL + lL) = true)
      by (apply Nat.eqb_eq; lia).
    rewrite Ee. discriminate.
  - exfalso. apply (HV s'). reflexivity.
Qed.

(* batch *)
Definition inst_wf (i : inst_shape) : Prop := let '(n1, n, _, _, _) := i in n1 <= n.

Lemma collect_ok fixedcap : forall insts ls,
  Forall inst_wf insts ->
  batch_collect_shape true fixedcap insts = (OOk, ls) ->
  Forall (fun e => let '(l, (n1, n, m, lL, lR)) := e in
                   lR = lL /\ next_pow2 n <= fixedcap /\ l = 2 + 2 * next_pow2 n + 6 + m + 5 + lL + lR) ls.
Proof.
  induction insts as [|[[[[n1 n] m] lL] lR] rest IH]; intros ls Hwf H; cbn [batch_collect_shape] in H.
  - inversion H. constructor.
  - inversion Hwf as [|? ? Hw Hwf']; subst.
    destruct (vs_shape true fixedcap n1 n m lL lR) as [[| |s'] l] eqn:E; try discriminate.
    destruct (batch_collect_shape true fixedcap rest) as [[| |s'] ls'] eqn:E2; try discriminate.
    inversion H; subst. constructor; [|apply IH; auto].
    apply (vs_shape_ok_length _ _ _ _ _ _ _ Hw E).
Qed.

Lemma collect_never_panics cap : forall insts s, fst (batch_collect_shape true cap insts) <> OPanic s.
Proof.
  induction insts as [|[[[[n1 n] m] lL] lR] rest IH]; intros s; cbn [batch_collect_shape]; [discriminate|].
  pose proof (vs_shape_never_panics cap n1 n m lL lR) as HV.
  destruct (vs_shape true cap n1 n m lL lR) as [[| |s'] l]; cbn [fst] in *; try discriminate.
  - specialize (IH s). destruct (batch_collect_shape true cap rest) as [[| |s''] ls']; cbn [fst] in *; try discriminate.
    exact IH.
  - exfalso. apply (HV s'). reflexivity.
Qed.

Lemma fold_max_mono (ls : list (nat * inst_shape)) : forall m0,
  m0 <= fold_left (fun mx i => let '(_, (_, n, _, _, _)) := i in Nat.max mx (next_pow2 n)) ls m0
  /\ Forall (fun e => let '(_, (_, n, _, _, _)) := e in
                     next_pow2 n <= fold_left (fun mx i => let '(_, (_, n, _, _, _)) := i in Nat.max mx (next_pow2 n)) ls m0) ls.
Proof.
  induction ls as [|[l [[[[n1 n] m] lL] lR]] rest IH]; intros m0; cbn [fold_left]; [split; [lia | constructor]|].
  destruct (IH (Nat.max m0 (next_pow2 n))) as [I1 I2]. split; [lia|]. constructor; [lia | exact I2].
Qed.

Lemma slices_never_panic cap max_n : forall ls lsc lpts,
  Forall (fun e => let '(l, (n1, n, m, lL, lR)) := e in
                   lR = lL /\ next_pow2 n <= cap /\ l = 2 + 2 * next_pow2 n + 6 + m + 5 + lL + lR) ls ->
  Forall (fun e => let '(_, (_, n, _, _, _)) := e in next_pow2 n <= max_n) ls ->
  lsc = lpts ->
  forall s, batch_slices_shape ls lsc lpts max_n <> OPanic s.
Proof.
  induction ls as [|[l [[[[n1 n] m] lL] lR]] rest IH]; intros lsc lpts H1 H2 Heq s; cbn [batch_slices_shape].
  - subst. rewrite Nat.eqb_refl. discriminate.
  - inversion H1 as [|? ? Hh H1']; subst. destruct Hh as (-> & Hc & ->). inversion H2 as [|? ? Hm H2']; subst.
    assert (E1 : Nat.leb (2 + 2 * next_pow2 n) (2 + 2 * next_pow2 n + 6 + m + 5 + lL + lL) = true) by (apply Nat.leb_le; lia).
    rewrite E1. cbn [negb]. rewrite (proj2 (Nat.leb_le _ _) Hm). cbn [negb].
    apply IH; auto. lia.
Qed.

Theorem batch_shape_never_panics cap insts : Forall inst_wf insts -> forall s, batch_verify_shape true cap insts <> OPanic s.
Proof.
  intros Hwf s. unfold batch_verify_shape.
  pose proof (collect_never_panics cap insts) as HC.
  destruct (batch_collect_shape true cap insts) as [[| |s'] ls] eqn:E; cbn [fst] in *; try discriminate.
  - pose proof (collect_ok cap insts ls Hwf E) as Hok.
    destruct (fold_max_mono ls 0) as [_ Hmx].
    set (mx := fold_left (fun mx i => let '(_, (_, n, _, _, _)) := i in Nat.max mx (next_pow2 n)) ls 0) in *.
    apply (slices_never_panic cap mx ls); auto.
    (* 2*mx + 2 = 2 + min cap mx + min cap mx : every padded size is <= cap, hence so is their maximum *)
    assert (Hmc : mx <= cap).
    { unfold mx. clear - Hok. assert (G : forall m0, m0 <= cap ->
        fold_left (fun mx i => let '(_, (_, n, _, _, _)) := i in Nat.max mx (next_pow2 n)) ls m0 <= cap).
      { induction Hok as [|[l [[[[n1 n] m] lL] lR]] rest Hh _ IH]; intros m0 Hm; cbn [fold_left]; auto.
        destruct Hh as (_ & Hc & _). apply IH. lia. }
      apply G. lia. }
    rewrite !Nat.min_r by lia. lia.
  - exfalso. apply (HC s'). reflexivity.
Qed.

(* the pinned tree (no |R| = |L| test): both failure modes of finding F1 *)
Theorem pinned_tree_panics :
  verify_shape false 2 2 2 0 1 0 = OPanic 294 /\ verify_shape false 2 2 2 0 1 2 = OPanic 593.
Proof. split; vm_compute; reflexivity. Qed.
