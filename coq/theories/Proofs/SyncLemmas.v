(* Proofs/SyncLemmas.v — on an honest run the verifier re-derives the prover's transcript and
   challenges (roles in sync), through the phase switch and the inner-product argument. *)
Require Export BP.Proofs.VerifierLemmas BP.Proofs.ProverLemmas.

Section SyncLemmas.
  Context {K : FieldOps} {FL : FieldLaws K} {MO : ModOps K} {ML : ModLaws MO}.
  Add Field Ffs : (@Fth K FL).
  Open Scope F_scope.
  Notation tr_t := (transcript K MO).
  Notation proof_t := (r1cs_proof K MO).
  Variable RO : tr_t -> K.
  Variables B Bb : MO.

  Lemma Rel_with_tr (ps : pstate K MO) (vs : vstate K MO) (t : tr_t) :
    Rel B Bb ps vs ->
    Rel B Bb (mkP t (p_cons ps) (p_aL ps) (p_aR ps) (p_aO ps) (p_v ps) (p_vb ps) (p_def ps) (p_pend ps))
        (mkV t (v_cons vs) (v_num vs) (v_V vs) (v_def vs) (v_pend vs)).
  Proof. intros [H1 H2 H3 H4 H5 H6 H7 H8 H9 H10 H11]. constructor; simpl; auto. Qed.

  (* next_pow2 n = 2^k with k < 32 is what the inner-product verifier needs *)
  Lemma next_pow2_pow n : next_pow2 n = (2 ^ Nat.log2 (next_pow2 n))%nat.
  Proof.
    unfold next_pow2. destruct (Nat.eqb n 0); [reflexivity|].
    rewrite Nat.log2_pow2 by lia. reflexivity.
  Qed.

  Lemma validate_ok (tr : tr_t) l (P : MO) :
    mzerob P = false -> validate_and_append_point tr l P = Some (append_point tr l P).
  Proof. intros H. unfold validate_and_append_point. now rewrite H. Qed.

  (* the generic-loop view of create: rounds, challenges, absorb *)
  Lemma create_sync k tr Q gf hf (G H : list MO) (a b : list K) :
    length G = (2 ^ k)%nat -> length H = (2 ^ k)%nat -> length gf = (2 ^ k)%nat -> length hf = (2 ^ k)%nat ->
    length a = (2 ^ k)%nat -> length b = (2 ^ k)%nat ->
    let '(p, tr', us) := ipp_create RO tr Q gf hf G H a b in
    length (ipp_L p) = k /\ length (ipp_R p) = k /\ length us = k /\
    ((forall P, In P (ipp_L p) -> mzerob P = false) -> (forall P, In P (ipp_R p) -> mzerob P = false) ->
     ipp_absorb RO (innerproduct_domain_sep tr (2 ^ k)) (ipp_L p) (ipp_R p) = Some (us, tr')) /\
    create_alg us (pscale gf G) (pscale hf H) a b Q = (ipp_L p, ipp_R p, ipp_a p, ipp_b p).
  Proof.
    intros HG HH Hgf Hhf Ha Hb.
    rewrite (fast_path RO k) by assumption. unfold ipp_create_generic.
    assert (LG : length (pscale gf G) = (2 ^ k)%nat) by (rewrite pscale_length; congruence).
    rewrite LG, log2_pow2.
    pose proof (rounds_alg RO k (innerproduct_domain_sep tr (2 ^ k)) Q (pscale gf G) (pscale hf H) a b) as HA.
    pose proof (absorb_rounds RO k (innerproduct_domain_sep tr (2 ^ k)) Q (pscale gf G) (pscale hf H) a b) as HB.
    destruct (ipp_rounds RO k _ Q _ _ a b) as [[[[[Ls Rs] a0] b0] tr3] us].
    destruct HA as [Lus HA]. cbn [ipp_L ipp_R ipp_a ipp_b].
    assert (HC : length Ls = k /\ length Rs = k).
    { clear HB. revert HA. generalize (pscale gf G) (pscale hf H) a b Ls Rs a0 b0. rewrite <- Lus. clear.
      induction us as [|u us IH]; intros G H a b Ls Rs a0 b0 E; simpl in E.
      - inversion E. auto.
      - destruct (create_alg us _ _ _ _ Q) as [[[Ls' Rs'] a1] b1] eqn:E'.
        inversion E; subst. destruct (IH _ _ _ _ _ _ _ _ E') as [I1 I2]. simpl. auto. }
    destruct HC as [HL HR]. repeat split; auto.
  Qed.

  Notation commit := (pedersen_commit B Bb).

  Theorem roles_in_sync (Gs Hs : list MO) (cap_v : nat) (d : nat -> K)
          (ps : pstate K MO) (vs : vstate K MO) (po : prover_out K MO) :
    Rel B Bb ps vs -> Forall assigned_r (p_def ps) ->
    prove RO B Bb Gs Hs d ps = Ok po ->
    length Hs = length Gs ->
    (next_pow2 (po_n po) <= cap_v)%nat ->
    (Nat.log2 (next_pow2 (po_n po)) < 32)%nat ->
    ID (po_proof po) ->
    exists vo r,
      verification_scalars RO cap_v vs (po_proof po) = Ok vo /\
      vo_chal vo = po_chal po ++ [r] /\ vo_ipp_chal vo = po_ipp_chal po /\
      v_tr (vo_state vo) = po_tr po /\ vo_n1 vo = po_n1 po /\ v_num (vo_state vo) = po_n po /\
      vo_padded vo = next_pow2 (po_n po) /\
      v_cons (vo_state vo) = p_cons (po_state po) /\
      v_V (vo_state vo) = map2 commit (p_v (po_state po)) (p_vb (po_state po)) /\
      length (p_aL (po_state po)) = po_n po /\ length (p_aR (po_state po)) = po_n po /\
      length (p_aO (po_state po)) = po_n po /\ length (p_vb (po_state po)) = length (p_v (po_state po)).
  Proof.
    intros HR Hdef Hp HHs Hcap Hk32 HID.
    unfold prove in Hp.
    destruct (Nat.ltb (length Gs) (length (p_aL ps))) eqn:Ec1; [discriminate|].
    destruct (p_commit1 Bb Gs Hs d (p_aL ps) (p_aR ps) (p_aO ps)) as [[AI1 AO1] SS1] eqn:Ecm1.
    match type of Hp with context [p_phase2 RO ?st] => set (st1 := st) in * end.
    pose proof (lockstep_phase2 RO B Bb st1
                  (mkV (p_tr st1) (v_cons vs) (v_num vs) (v_V vs) (v_def vs) (v_pend vs))) as HL2.
    destruct (p_phase2 RO st1) as [[s2 ev] r2] eqn:Eph.
    destruct r2 as [[]|e]; [|discriminate].
    destruct (Nat.ltb (length Gs) (next_pow2 (length (p_aL s2)))) eqn:Ec2; [discriminate|].
    destruct (p_commit2 Bb Gs Hs d (length (p_aL ps)) (p_aL s2) (p_aR s2) (p_aO s2)) as [[AI2 AO2] SS2] eqn:Ecm2.
    (* keep every challenge as a variable *)
    match type of Hp with context [challenge RO ?t "y"] => destruct (challenge RO t "y") as [y tr3] eqn:Ey end.
    match type of Hp with context [challenge RO ?t "z"] => destruct (challenge RO t "z") as [z tr4] eqn:Ez end.
    cbv zeta in Hp.
    match type of Hp with context [challenge RO ?t "u"] => destruct (challenge RO t "u") as [u tr6] eqn:Eu end.
    match type of Hp with context [challenge RO ?t "x"] => destruct (challenge RO t "x") as [x tr7] eqn:Ex end.
    match type of Hp with context [challenge RO ?t "w"] => destruct (challenge RO t "w") as [w tr9] eqn:Ew end.
    match type of Hp with context [ipp_create RO ?t ?q ?gf ?hf ?g ?h ?a ?b] =>
      pose proof (create_sync (Nat.log2 (next_pow2 (length (p_aL s2)))) t q gf hf g h a b) as HCS;
      destruct (ipp_create RO t q gf hf g h a b) as [[ip_pf tr10] us] eqn:Eipp end.
    assert (Hpo : forall A (a b : A), @Ok A a = Ok b -> a = b) by (intros A a b E; injection E; auto).
    apply Hpo in Hp. subst po. clear Hpo.
    cbv beta iota delta [po_proof po_n po_chal po_ipp_chal po_tr po_n1 po_state] in *.
    destruct HID as (I1 & I2 & I3 & T1 & T3 & T4 & T5 & T6 & NL & NR).
    cbv beta iota delta [A_I1 A_O1 S1 T_1 T_3 T_4 T_5 T_6 ipp] in I1, I2, I3, T1, T3, T4, T5, T6, NL, NR.
    (* phase 2 in lock step *)
    assert (HR1 : Rel B Bb st1 (mkV (p_tr st1) (v_cons vs) (v_num vs) (v_V vs) (v_def vs) (v_pend vs))).
    { unfold st1. cbn [p_tr]. apply (Rel_with_tr ps vs _ HR). }
    specialize (HL2 Hdef HR1).
    destruct (v_phase2 RO _) as [[vs2 ev2] rv2] eqn:Evph.
    destruct HL2 as (HR2 & Eev & Erv & _). subst ev2 rv2.
    pose proof HR2 as [R1 R2 R3 R4 R5 R6 R7 R8 R9 R10 R11].
    (* sizes *)
    set (n := length (p_aL s2)) in *. set (pn := next_pow2 n) in *.
    assert (Epn : pn = (2 ^ Nat.log2 pn)%nat) by apply next_pow2_pow.
    apply Nat.ltb_ge in Ec2.
    assert (Hn_pn : (n <= pn)%nat) by apply next_pow2_ge.
    assert (Hn1n : (length (p_aL ps) <= n)%nat).
    { pose proof (v_phase2_mono RO (mkV (p_tr st1) (v_cons vs) (v_num vs) (v_V vs) (v_def vs) (v_pend vs))) as Hm.
      rewrite Evph in Hm. cbn [fst v_num] in Hm. rewrite (R_len _ _ _ _ HR). rewrite R1. exact Hm. }
    assert (Hfn : forall X : list MO, (pn <= length X)%nat -> length (firstn pn X) = pn) by (intros; rewrite firstn_length; lia).
    assert (Hgf : length (g_factors u (length (p_aL ps)) n pn) = pn)
      by (unfold g_factors; rewrite app_length, !repeat_length; lia).
    assert (Hhf : length (h_factors y u (length (p_aL ps)) n pn) = pn)
      by (unfold h_factors; rewrite map2_length, powers_length, Hgf; lia).
    assert (LGs : (pn <= length Gs)%nat) by lia. assert (LHs : (pn <= length Hs)%nat) by lia.
    match type of HCS with _ -> _ -> _ -> _ -> ?la -> ?lb -> _ =>
      assert (Lla : la); [| assert (Llb : lb) ] end.
    { rewrite <- Epn. unfold p_lvec. rewrite app_length, zeros_length.
      rewrite vecpoly3_eval_length with (n := n); unfold p_polys; cbn [pl1 pl2 pl3];
        rewrite ?zeros_length, ?map2_length, ?powers_length, ?mask_L_length,
                ?p_flatten_wL_len, ?p_flatten_wR_len, ?p_flatten_wO_len; clear - Hn_pn Hn1n R2 R3; lia. }
    { rewrite <- Epn. unfold p_rvec. rewrite app_length, map_length, skipn_length, powers_length.
      rewrite vecpoly3_eval_length with (n := n); unfold p_polys; cbn [pr0 pr1 pr3];
        rewrite ?zeros_length, ?map2_length, ?powers_length, ?mask_R_length,
                ?p_flatten_wL_len, ?p_flatten_wR_len, ?p_flatten_wO_len; clear - Hn_pn Hn1n R2 R3; lia. }
    destruct HCS as (HLk & HRk & Husk & Habs & _);
      [ rewrite <- Epn; apply Hfn; exact LGs | rewrite <- Epn; apply Hfn; exact LHs
        | rewrite <- Epn; exact Hgf | rewrite <- Epn; exact Hhf | exact Lla | exact Llb | ].
    specialize (Habs NL NR). rewrite <- Epn in Habs.
    (* the verifier, step by step *)
    eexists. eexists.
    unfold verification_scalars.
    rewrite <- (R_tr _ _ _ _ HR), <- (R_V _ _ _ _ HR).
    unfold opt_bind.
    rewrite (validate_ok _ _ _ I1), (validate_ok _ _ _ I2), (validate_ok _ _ _ I3).
    change (mkV (append_point (append_point (append_point (append_u64 (p_tr ps) "m" (length (p_v ps))) "A_I1" AI1) "A_O1" AO1) "S1" SS1)
                (v_cons vs) (v_num vs) (v_V vs) (v_def vs) (v_pend vs))
      with (mkV (p_tr st1) (v_cons vs) (v_num vs) (v_V vs) (v_def vs) (v_pend vs)).
    rewrite Evph.
    rewrite <- R1. fold n pn.
    assert (Ecv : Nat.ltb cap_v pn = false) by (apply Nat.ltb_ge; exact Hcap).
    rewrite Ecv. rewrite <- R10.
    cbv beta iota delta [A_I2 A_O2 S2 T_1 T_3 T_4 T_5 T_6 t_x t_x_blinding e_blinding ipp].
    rewrite Ey, Ez.
    rewrite (validate_ok _ _ _ T1), (validate_ok _ _ _ T3), (validate_ok _ _ _ T4), (validate_ok _ _ _ T5), (validate_ok _ _ _ T6).
    rewrite Eu, Ex, Ew.
    rewrite (ipp_vs_ok RO _ pn ip_pf us tr10); [ | rewrite HLk; exact Hk32 | congruence | rewrite HLk; exact Epn | exact Habs ].
    split; [reflexivity|].
    cbn [vo_chal vo_ipp_chal vo_state vo_n1 vo_padded v_tr v_num v_cons v_V app].
    repeat split; try reflexivity; try assumption; try (symmetry; assumption).
    symmetry; apply (R_len _ _ _ _ HR).
  Qed.
End SyncLemmas.
