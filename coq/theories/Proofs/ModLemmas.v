(* Proofs/ModLemmas.v — F-module facts; the trivial extension ring F (+) M makes [ring]
   decide module identities; msm linearity. *)
Require Export BP.Base.Module BP.Proofs.VecLemmas.

Section ModLemmas.
  Context {K : FieldOps} {FL : FieldLaws K} {MO : ModOps K} {ML : ModLaws MO}.
  Add Field Ffm : (@Fth K FL).
  Open Scope F_scope.
  Notation "x +m y" := (madd x y) (at level 50, left associativity).
  Notation "k *s x" := (smul k x) (at level 40).

  Lemma madd_0_r (a : MO) : a +m m0 = a.
  Proof. rewrite madd_comm; apply madd_0_l. Qed.

  Lemma madd_cancel_r (a b c : MO) : a +m c = b +m c -> a = b.
  Proof.
    intros H. assert (E : (a +m c) +m mopp c = (b +m c) +m mopp c) by now rewrite H.
    rewrite <- !madd_assoc, !madd_opp, !madd_0_r in E. exact E.
  Qed.

  Lemma smul_0_l (a : MO) : f0 *s a = m0.
  Proof.
    apply (madd_cancel_r _ _ (f0 *s a)). rewrite <- smul_add_l, madd_0_l. f_equal. ring.
  Qed.

  Lemma smul_0_r (k : K) : k *s (m0 : MO) = m0.
  Proof.
    apply (madd_cancel_r _ _ (k *s m0)). rewrite <- smul_add_r, !madd_0_l. reflexivity.
  Qed.

  Lemma smul_opp_1 (a : MO) : (- f1) *s a = mopp a.
  Proof.
    apply (madd_cancel_r _ _ a). rewrite (madd_comm (mopp a) a), madd_opp.
    rewrite <- (smul_1 a) at 2. rewrite <- smul_add_l. replace (- f1 + f1) with (@f0 K) by ring. apply smul_0_l.
  Qed.

  (* ---- trivial extension ring ---- *)
  Definition R := (K * MO)%type.
  Definition r0 : R := (f0, m0).
  Definition r1 : R := (f1, m0).
  Definition radd (x y : R) : R := (fst x + fst y, snd x +m snd y).
  Definition rmul (x y : R) : R := (fst x * fst y, (fst x *s snd y) +m (fst y *s snd x)).
  Definition ropp (x : R) : R := (- fst x, mopp (snd x)).
  Definition rsub (x y : R) : R := radd x (ropp y).

  Lemma Rth : ring_theory r0 r1 radd rmul rsub ropp (@eq R).
  Proof.
    constructor; unfold r0, r1, radd, rmul, rsub, ropp.
    - intros [a m]; simpl; f_equal; [ring | apply madd_0_l].
    - intros [a m] [b n]; simpl; f_equal; [ring | apply madd_comm].
    - intros [a m] [b n] [c o]; simpl; f_equal; [ring | apply madd_assoc].
    - intros [a m]; simpl; f_equal; [ring |]. rewrite smul_1, smul_0_r. apply madd_0_r.
    - intros [a m] [b n]; simpl; f_equal; [ring | apply madd_comm].
    - intros [a m] [b n] [c o]; simpl; f_equal; [ring |].
      rewrite !smul_add_r, <- !smul_mul.
      replace (c * a) with (a * c) by ring. replace (c * b) with (b * c) by ring.
      rewrite <- !madd_assoc. reflexivity.
    - intros [a m] [b n] [c o]; simpl; f_equal; [ring |].
      rewrite !smul_add_r, !smul_add_l. rewrite <- !madd_assoc. f_equal.
      rewrite !madd_assoc. f_equal. apply madd_comm.
    - intros [a m] [b n]; simpl; reflexivity.
    - intros [a m]; simpl; f_equal; [ring | apply madd_opp].
  Qed.

  Definition sc (a : K) : R := (a, m0).
  Definition pt (m : MO) : R := (f0, m).
  Lemma pt_inj a b : pt a = pt b -> a = b. Proof. unfold pt; congruence. Qed.
  Lemma pt_add a b : pt (a +m b) = radd (pt a) (pt b).
  Proof. unfold pt, radd; simpl; f_equal; ring. Qed.
  Lemma pt_smul k a : pt (k *s a) = rmul (sc k) (pt a).
  Proof. unfold pt, rmul, sc; simpl. f_equal; [ring|]. rewrite smul_0_l. now rewrite madd_0_r. Qed.
  Lemma pt_opp a : pt (mopp a) = ropp (pt a).
  Proof. unfold pt, ropp; simpl; f_equal; ring. Qed.
  Lemma pt_sub a b : pt (msub a b) = rsub (pt a) (pt b).
  Proof. unfold msub, rsub. now rewrite pt_add, pt_opp. Qed.
  Lemma sc_add a b : sc (a + b) = radd (sc a) (sc b).
  Proof. unfold sc, radd; simpl; f_equal. now rewrite madd_0_l. Qed.
  Lemma sc_mul a b : sc (a * b) = rmul (sc a) (sc b).
  Proof. unfold sc, rmul; simpl; f_equal. rewrite !smul_0_r. now rewrite madd_0_l. Qed.
  Lemma sc_opp a : sc (- a) = ropp (sc a).
  Proof.
    unfold sc, ropp; simpl; f_equal. apply (madd_cancel_r _ _ m0). rewrite madd_0_l, madd_comm, madd_opp. reflexivity.
  Qed.
  Lemma sc_sub a b : sc (a - b) = rsub (sc a) (sc b).
  Proof. unfold rsub. rewrite <- sc_opp, <- sc_add. f_equal. ring. Qed.
  Lemma sc_1 : sc f1 = r1. Proof. reflexivity. Qed.
  Lemma sc_0 : sc f0 = r0. Proof. reflexivity. Qed.
  Lemma pt_0 : pt m0 = r0. Proof. reflexivity. Qed.
  Lemma sc_eq a b : a = b -> sc a = sc b. Proof. congruence. Qed.

  (* ---- derived module facts ---- *)
  Lemma smul_opp (k : K) (a : MO) : (- k) *s a = mopp (k *s a).
  Proof.
    apply (madd_cancel_r _ _ (k *s a)). rewrite <- smul_add_l.
    replace (- k + k) with (@f0 K) by ring. rewrite smul_0_l, (madd_comm (mopp _)), madd_opp. reflexivity.
  Qed.

  Lemma smul_cancel (k : K) (a : MO) : k *s a = m0 -> k = f0 \/ a = m0.
  Proof.
    intros H. destruct (f_eq_dec k f0) as [E|E]; [left; exact E | right].
    rewrite <- (smul_1 a). rewrite <- (finv_l k E). rewrite smul_mul, H. apply smul_0_r.
  Qed.

  Lemma msub_self (a : MO) : msub a a = m0.
  Proof. unfold msub. apply madd_opp. Qed.

  Lemma msub_eq_0 (a b : MO) : msub a b = m0 <-> a = b.
  Proof.
    unfold msub. split; intros H.
    - apply (madd_cancel_r _ _ (mopp b)). rewrite H, madd_opp. reflexivity.
    - subst. apply madd_opp.
  Qed.

  (* ---- msm ---- *)
  Lemma msm_nil_r (a : list K) : msm a ([] : list MO) = m0.
  Proof. destruct a; reflexivity. Qed.

  Lemma msm_app (a1 a2 : list K) (G1 G2 : list MO) :
    length a1 = length G1 -> msm (a1 ++ a2) (G1 ++ G2) = msm a1 G1 +m msm a2 G2.
  Proof.
    revert G1; induction a1 as [|x a1 IH]; intros [|g G1]; simpl; intros Hl; try discriminate.
    - now rewrite madd_0_l.
    - rewrite IH by congruence. now rewrite madd_assoc.
  Qed.

  Lemma msm_vadd (a b : list K) (G : list MO) :
    length b = length a -> msm (vadd a b) G = msm a G +m msm b G.
  Proof.
    unfold vadd. revert b G; induction a as [|x a IH]; intros [|y b] [|g G]; simpl; intros H; try discriminate;
      try (now rewrite madd_0_l).
    rewrite IH by congruence. rewrite smul_add_l.
    rewrite <- !madd_assoc. f_equal. rewrite !madd_assoc. f_equal. apply madd_comm.
  Qed.

  Lemma msm_vscale (k : K) (a : list K) (G : list MO) : msm (vscale k a) G = k *s msm a G.
  Proof.
    unfold vscale. revert G; induction a as [|x a IH]; intros [|g G]; simpl; try (now rewrite smul_0_r).
    rewrite IH, smul_add_r, smul_mul. reflexivity.
  Qed.

  Lemma msm_vopp (a : list K) (G : list MO) : msm (vopp a) G = mopp (msm a G).
  Proof.
    rewrite <- smul_opp_1, <- msm_vscale. f_equal. unfold vopp, vscale. apply map_ext. intros; ring.
  Qed.

  Lemma msm_zeros n (G : list MO) : msm (zeros n) G = m0.
  Proof.
    unfold zeros. revert G; induction n; intros [|g G]; simpl; auto.
    rewrite IHn, smul_0_l. apply madd_0_l.
  Qed.

  Lemma msm_vmul_pscale (a c : list K) (G : list MO) :
    msm (vmul a c) G = msm a (pscale c G).
  Proof.
    unfold vmul, pscale. revert c G; induction a as [|x a IH]; intros [|y c] [|g G]; simpl; auto.
    rewrite IH, smul_mul. reflexivity.
  Qed.

  Lemma pscale_length c (G : list MO) : length G = length c -> length (pscale c G) = length c.
  Proof. intros. unfold pscale. apply map2_length_eq. exact H. Qed.

  Lemma msm_firstn_zeros (a : list K) (G : list MO) n :
    msm (a ++ zeros n) G = msm a (firstn (length a) G).
  Proof.
    revert G; induction a as [|x a IH]; intros G; simpl.
    - apply msm_zeros.
    - destruct G as [|g G]; simpl; auto. now rewrite IH.
  Qed.

  Lemma msm_firstn_r (a : list K) (G : list MO) : msm a G = msm a (firstn (length a) G).
  Proof.
    revert G; induction a as [|x a IH]; intros [|g G]; simpl; auto. now rewrite <- IH.
  Qed.

  Lemma msm_firstn_l (a : list K) (G : list MO) : msm a G = msm (firstn (length G) a) G.
  Proof.
    revert G; induction a as [|x a IH]; intros [|g G]; simpl; auto. now rewrite <- IH.
  Qed.
End ModLemmas.

(* [mring]: decide an identity between module expressions through the extension ring.
   [mring_with H] additionally uses a field equation H : a = b. *)
Ltac mring_prep :=
  apply pt_inj;
  repeat (rewrite pt_add || rewrite pt_smul || rewrite pt_sub || rewrite pt_opp
          || rewrite sc_add || rewrite sc_mul || rewrite sc_sub || rewrite sc_opp
          || rewrite pt_0 || rewrite sc_0 || rewrite sc_1).
