(* Proofs/LCLemmas.v — C15: the operators of linear_combination.rs preserve meaning. *)
Require Export BP.Model.LC BP.Proofs.VecLemmas.

Section LCLemmas.
  Context {K : FieldOps} {FL : FieldLaws K}.
  Add Field Ffl : (@Fth K FL).
  Open Scope F_scope.
  Variable w : assignment K.

  Lemma eval_app (a b : lc K) : eval_lc w (a ++ b) = eval_lc w a + eval_lc w b.
  Proof. unfold eval_lc. induction a as [|t a IH]; simpl; [ring | rewrite IH; ring]. Qed.

  Lemma eval_neg_terms (b : lc K) :
    eval_lc w (map (fun t => (fst t, - snd t)) b) = - eval_lc w b.
  Proof. unfold eval_lc. induction b as [|t b IH]; simpl; [ring | rewrite IH; ring]. Qed.

  Lemma eval_of_var v : eval_lc w (lc_of_var v) = var_val w v.
  Proof. unfold eval_lc, lc_of_var; simpl; ring. Qed.
  Lemma eval_of_const c : eval_lc w (lc_of_const c) = c.
  Proof. unfold eval_lc, lc_of_const; simpl; ring. Qed.
  Lemma eval_neg a : eval_lc w (lc_neg a) = - eval_lc w a.
  Proof. apply eval_neg_terms. Qed.
  Lemma eval_add a b : eval_lc w (lc_add a b) = eval_lc w a + eval_lc w b.
  Proof. apply eval_app. Qed.
  Lemma eval_sub a b : eval_lc w (lc_sub a b) = eval_lc w a - eval_lc w b.
  Proof. unfold lc_sub. rewrite eval_app, eval_neg_terms. ring. Qed.
  Lemma eval_scale a s : eval_lc w (lc_scale a s) = eval_lc w a * s.
  Proof. unfold eval_lc, lc_scale. induction a as [|t a IH]; simpl; [ring | rewrite IH; ring]. Qed.
  Lemma eval_var_neg v : eval_lc w (var_neg v) = - var_val w v.
  Proof. unfold var_neg. now rewrite eval_neg, eval_of_var. Qed.
  Lemma eval_var_add v b : eval_lc w (var_add v b) = var_val w v + eval_lc w b.
  Proof. unfold var_add. now rewrite eval_add, eval_of_var. Qed.
  Lemma eval_var_sub v b : eval_lc w (var_sub v b) = var_val w v - eval_lc w b.
  Proof. unfold var_sub. now rewrite eval_sub, eval_of_var. Qed.
  Lemma eval_var_scale v s : eval_lc w (var_scale v s) = var_val w v * s.
  Proof. unfold eval_lc, var_scale; simpl; ring. Qed.

  (* every expression tree denotes the field expression it spells *)
  Theorem compile_denote (t : lcexpr K) : eval_lc w (compile t) = denote w t.
  Proof.
    induction t; cbn [compile denote];
      rewrite ?eval_of_var, ?eval_of_const, ?eval_neg, ?eval_add, ?eval_sub, ?eval_scale,
              ?eval_var_neg, ?eval_var_add, ?eval_var_sub, ?eval_var_scale; try congruence; reflexivity.
  Qed.

  (* a phantom variable contributes nothing; a zero coefficient contributes nothing *)
  Lemma eval_phantom c a : eval_lc w ((VPhantom, c) :: a) = eval_lc w a.
  Proof. unfold eval_lc; simpl; ring. Qed.
  Lemma eval_zero_coeff v a : eval_lc w ((v, f0) :: a) = eval_lc w a.
  Proof. unfold eval_lc; simpl; ring. Qed.
  (* repeated variables accumulate *)
  Lemma eval_repeated v c1 c2 a :
    eval_lc w ((v, c1) :: (v, c2) :: a) = eval_lc w ((v, c1 + c2) :: a).
  Proof. unfold eval_lc; simpl; ring. Qed.
End LCLemmas.
