(* Proofs/BatchLemmas.v — C07: the aggregated batch check is the alpha-weighted sum of the instances'
   own combined checks; hence "iff every instance verifies" in its exact deterministic form. *)
Require Export BP.Proofs.VerifierLemmas.

Section BatchLemmas.
  Context {K : FieldOps} {FL : FieldLaws K} {MO : ModOps K} {ML : ModLaws MO}.
  Add Field Ffb : (@Fth K FL).
  Add Ring Rrb : (@Rth K FL MO ML).
  Open Scope F_scope.
  Notation "x +m y" := (madd x y) (at level 50, left associativity).
  Notation "k *s x" := (smul k x) (at level 40).
  Notation tr_t := (transcript K MO).
  Notation proof_t := (r1cs_proof K MO).
  Variable RO : tr_t -> K.
  Variables B Bb : MO.

  (* adding a block of scalars at an offset adds its MSM against the points at that offset *)
  Lemma skipn_skipn {A} : forall x y (l : list A), skipn x (skipn y l) = skipn (y + x) l.
  Proof. intros x y; revert x; induction y as [|y IH]; intros x l; simpl; auto. destruct l; [now rewrite !skipn_nil | apply IH]. Qed.

  Lemma fn_map {A B0} (f : A -> B0) : forall n l, firstn n (map f l) = map f (firstn n l).
  Proof. induction n; intros [|x l]; simpl; auto. now rewrite IHn. Qed.
  Lemma sk_map {A B0} (f : A -> B0) : forall n l, skipn n (map f l) = map f (skipn n l).
  Proof. induction n; intros [|x l]; simpl; auto. Qed.

  Lemma vadd_at_app (a1 a2 a3 xs : list K) :
    length a2 = length xs -> vadd_at (length a1) xs (a1 ++ a2 ++ a3) = a1 ++ map2 fadd a2 xs ++ a3.
  Proof.
    intros H. unfold vadd_at.
    rewrite firstn_app, Nat.sub_diag, firstn_all. cbn [firstn]. rewrite app_nil_r.
    rewrite skipn_app, Nat.sub_diag, skipn_all. cbn [skipn app].
    rewrite firstn_app, <- H, Nat.sub_diag, firstn_all. cbn [firstn]. rewrite app_nil_r.
    rewrite skipn_app. rewrite skipn_all2 by lia. replace (length a1 + length a2 - length a1)%nat with (length a2) by lia.
    cbn [app]. rewrite skipn_app, Nat.sub_diag, skipn_all. reflexivity.
  Qed.

  Lemma msm_vadd_at : forall (off : nat) (xs acc : list K) (pts : list MO),
    (off + length xs <= length acc)%nat -> length pts = length acc ->
    msm (vadd_at off xs acc) pts = msm acc pts +m msm xs (skipn off pts).
  Proof.
    intros off xs acc pts Hl Hp.
    assert (Ea : exists a1 a2 a3, acc = a1 ++ a2 ++ a3 /\ length a1 = off /\ length a2 = length xs).
    { exists (firstn off acc), (firstn (length xs) (skipn off acc)), (skipn (length xs) (skipn off acc)).
      rewrite firstn_skipn, firstn_skipn, !firstn_length, skipn_length. repeat split; lia. }
    destruct Ea as (a1 & a2 & a3 & -> & L1 & L2).
    assert (Ep : exists p1 p2 p3, pts = p1 ++ p2 ++ p3 /\ length p1 = off /\ length p2 = length xs).
    { exists (firstn off pts), (firstn (length xs) (skipn off pts)), (skipn (length xs) (skipn off pts)).
      rewrite firstn_skipn, firstn_skipn, !firstn_length, skipn_length. rewrite !app_length in *. repeat split; lia. }
    destruct Ep as (p1 & p2 & p3 & -> & M1 & M2).
    rewrite <- L1 at 1. rewrite vadd_at_app by exact L2.
    rewrite skipn_app, <- M1, Nat.sub_diag, skipn_all. cbn [skipn app].
    rewrite !msm_app by (rewrite ?map2_length; lia).
    assert (E : msm (map2 fadd a2 xs) p2 = msm a2 p2 +m msm xs p2) by (apply msm_vadd; lia).
    rewrite E.
    assert (E2 : msm xs (p2 ++ p3) = msm xs p2).
    { rewrite (msm_firstn_r xs (p2 ++ p3)), <- M2, firstn_app, Nat.sub_diag, firstn_all. cbn [firstn]. now rewrite app_nil_r. }
    rewrite E2. mring.
  Qed.

  Lemma vadd_at_length off (xs acc : list K) :
    (off + length xs <= length acc)%nat -> length (vadd_at off xs acc) = length acc.
  Proof.
    intros H. unfold vadd_at. rewrite !app_length, map2_length, !firstn_length, !skipn_length. lia.
  Qed.

  (* an instance's own combined check *)
  Definition mega_of (Gs Hs : list MO) (vp : verifier_out K MO * proof_t) : MO :=
    msm (vo_scalars (fst vp)) (mega_points B Bb Gs Hs (vo_padded (fst vp)) (v_V (vo_state (fst vp))) (snd vp)).

  Fixpoint weighted_sum (Gs Hs : list MO) (l : list (verifier_out K MO * proof_t)) (alphas : list K) : MO :=
    match l, alphas with
    | vp :: l', a :: al' => a *s mega_of Gs Hs vp +m weighted_sum Gs Hs l' al'
    | _, _ => m0
    end.

  Definition tail_points (vp : verifier_out K MO * proof_t) : list MO :=
    let p := snd vp in
    [A_I1 p; A_O1 p; S1 p; A_I2 p; A_O2 p; S2 p] ++ v_V (vo_state (fst vp))
    ++ [T_1 p; T_3 p; T_4 p; T_5 p; T_6 p] ++ ipp_L (ipp p) ++ ipp_R (ipp p).

  Definition inst_ok (max_n : nat) (vp : verifier_out K MO * proof_t) : Prop :=
    (vo_padded (fst vp) <= max_n)%nat
    /\ length (vo_scalars (fst vp)) = (2 + 2 * vo_padded (fst vp) + length (tail_points vp))%nat.

  Lemma mega_split (Gs Hs : list MO) (vp : verifier_out K MO * proof_t) :
    let pn := vo_padded (fst vp) in let sc := vo_scalars (fst vp) in
    (pn <= length Gs)%nat -> (pn <= length Hs)%nat -> (2 + 2 * pn <= length sc)%nat ->
    mega_of Gs Hs vp
    = msm (firstn 2 sc) [B; Bb] +m msm (firstn pn (skipn 2 sc)) (firstn pn Gs)
      +m msm (firstn pn (skipn (2 + pn) sc)) (firstn pn Hs) +m msm (skipn (2 + 2 * pn) sc) (tail_points vp).
  Proof.
    cbv zeta. intros HG HH Hsl. unfold mega_of, mega_points.
    set (pn := vo_padded (fst vp)) in *. set (sc := vo_scalars (fst vp)) in *.
    fold (tail_points vp).
    change ([B; Bb] ++ firstn pn Gs ++ firstn pn Hs ++ [A_I1 (snd vp); A_O1 (snd vp); S1 (snd vp); A_I2 (snd vp); A_O2 (snd vp); S2 (snd vp)]
            ++ v_V (vo_state (fst vp)) ++ [T_1 (snd vp); T_3 (snd vp); T_4 (snd vp); T_5 (snd vp); T_6 (snd vp)]
            ++ ipp_L (ipp (snd vp)) ++ ipp_R (ipp (snd vp)))
      with ([B; Bb] ++ firstn pn Gs ++ firstn pn Hs ++ tail_points vp).
    rewrite <- (firstn_skipn 2 sc) at 1.
    rewrite msm_app by (rewrite firstn_length; cbn [length]; lia).
    rewrite <- (firstn_skipn pn (skipn 2 sc)) at 1.
    rewrite msm_app by (rewrite !firstn_length, skipn_length; lia).
    rewrite skipn_skipn.
    rewrite <- (firstn_skipn pn (skipn (2 + pn) sc)) at 1.
    rewrite msm_app by (rewrite !firstn_length, skipn_length; lia).
    rewrite skipn_skipn.
    replace (2 + pn + pn)%nat with (2 + 2 * pn)%nat by lia.
    mring.
  Qed.

  (* one accumulation step *)
  Theorem accumulate_sum (Gs Hs : list MO) (max_n : nat) :
    (max_n <= length Gs)%nat -> (max_n <= length Hs)%nat ->
    forall (l : list (verifier_out K MO * proof_t)) (alphas : list K) (hd ts : list K) (tp : list MO),
    Forall (inst_ok max_n) l -> length alphas = length l ->
    length hd = (2 + 2 * max_n)%nat -> length ts = length tp ->
    let base := [B; Bb] ++ firstn max_n Gs ++ firstn max_n Hs in
    let '(sc', pts') := batch_accumulate max_n l alphas (hd ++ ts) (base ++ tp) in
    msm sc' pts' = msm (hd ++ ts) (base ++ tp) +m weighted_sum Gs Hs l alphas.
  Proof.
    intros HGs HHs. induction l as [|vp l IH]; intros alphas hd ts tp Hok Hal Hhd Hts; cbv zeta.
    - destruct alphas; simpl; mring.
    - destruct alphas as [|a alphas]; [discriminate|]. inversion Hok as [|? ? [Hpn Hsc] Hok']; subst.
      destruct vp as [vo p]. cbn [fst snd] in *.
      cbn [batch_accumulate weighted_sum]. cbv zeta.
      set (pn := vo_padded vo) in *. set (scaled := map (fmul a) (vo_scalars vo)).
      set (base := [B; Bb] ++ firstn max_n Gs ++ firstn max_n Hs).
      assert (Lbase : length base = (2 + 2 * max_n)%nat)
        by (unfold base; rewrite !app_length, !firstn_length; simpl; lia).
      assert (Lsc : length scaled = length (vo_scalars vo)) by (unfold scaled; apply map_length).
      (* the three in-place additions only touch hd *)
      assert (V : forall off xs (h : list K), (off + length xs <= length h)%nat ->
                  vadd_at off xs (h ++ ts) = vadd_at off xs h ++ ts).
      { intros off xs h Hh. unfold vadd_at. rewrite !firstn_app, !skipn_app.
        replace (off - length h)%nat with 0%nat by lia.
        replace (off + length xs - length h)%nat with 0%nat by lia. cbn [firstn skipn].
        rewrite app_nil_r. rewrite firstn_app, skipn_length.
        replace (length xs - (length h - off))%nat with 0%nat by lia. cbn [firstn]. rewrite app_nil_r.
        rewrite <- !app_assoc. reflexivity. }
      set (x1 := firstn 2 scaled). set (x2 := firstn pn (skipn 2 scaled)). set (x3 := firstn pn (skipn (2 + pn) scaled)).
      assert (L1 : length x1 = 2%nat) by (unfold x1; rewrite firstn_length; lia).
      assert (L2 : length x2 = pn) by (unfold x2; rewrite firstn_length, skipn_length; lia).
      assert (L3 : length x3 = pn) by (unfold x3; rewrite firstn_length, skipn_length; lia).
      rewrite (V 0%nat x1 hd) by lia.
      set (h1 := vadd_at 0 x1 hd). assert (Lh1 : length h1 = length hd) by (unfold h1; apply vadd_at_length; lia).
      rewrite (V 2%nat x2 h1) by lia.
      set (h2 := vadd_at 2 x2 h1). assert (Lh2 : length h2 = length hd) by (unfold h2; rewrite vadd_at_length; lia).
      rewrite (V (2 + max_n)%nat x3 h2) by lia.
      set (h3 := vadd_at (2 + max_n) x3 h2). assert (Lh3 : length h3 = length hd) by (unfold h3; rewrite vadd_at_length; lia).
      rewrite <- !app_assoc.
      set (rest := skipn (2 + 2 * pn) scaled).
      fold (tail_points (vo, p)).
      change ([A_I1 p; A_O1 p; S1 p; A_I2 p; A_O2 p; S2 p] ++ v_V (vo_state vo) ++ [T_1 p; T_3 p; T_4 p; T_5 p; T_6 p] ++ ipp_L (ipp p) ++ ipp_R (ipp p))
        with (tail_points (vo, p)).
      assert (Lrest : length rest = length (tail_points (vo, p))).
      { unfold rest. rewrite skipn_length, Lsc. cbn [fst] in Hsc. fold pn in Hsc. lia. }
      specialize (IH alphas h3 (ts ++ rest) (tp ++ tail_points (vo, p)) Hok' ltac:(simpl in Hal; lia) ltac:(lia)
                     ltac:(rewrite !app_length; lia)).
      cbv zeta in IH. fold base in IH.
      destruct (batch_accumulate max_n l alphas (h3 ++ ts ++ rest) (base ++ tp ++ tail_points (vo, p))) as [sc' pts'].
      rewrite IH. clear IH.
      (* value of the updated accumulator *)
      rewrite !msm_app by lia.
      assert (E3 : msm h3 base = msm h2 base +m msm x3 (skipn (2 + max_n) base)) by (apply msm_vadd_at; lia).
      assert (E2 : msm h2 base = msm h1 base +m msm x2 (skipn 2 base)) by (apply msm_vadd_at; lia).
      assert (E1 : msm h1 base = msm hd base +m msm x1 (skipn 0 base)) by (apply msm_vadd_at; lia).
      rewrite E3, E2, E1.
      (* the instance's own check, scaled *)
      assert (HM : a *s mega_of Gs Hs (vo, p)
                   = msm x1 [B; Bb] +m msm x2 (firstn pn Gs) +m msm x3 (firstn pn Hs) +m msm rest (tail_points (vo, p))).
      { rewrite (mega_split Gs Hs (vo, p)); cbn [fst snd]; fold pn; try lia.
        unfold x1, x2, x3, rest, scaled. rewrite ?sk_map, ?fn_map, ?sk_map.
        change (map (fmul a)) with (@vscale K a). rewrite !msm_vscale. mring. }
      rewrite HM.
      (* the base points seen from the three offsets *)
      assert (B0 : msm x1 (skipn 0 base) = msm x1 [B; Bb]).
      { cbn [skipn]. unfold base. rewrite (msm_firstn_r x1), L1. reflexivity. }
      assert (B2 : msm x2 (skipn 2 base) = msm x2 (firstn pn Gs)).
      { unfold base. cbn [skipn app]. rewrite (msm_firstn_r x2), L2.
        rewrite firstn_app, firstn_firstn, Nat.min_l by lia.
        rewrite firstn_length, Nat.min_l by lia. replace (pn - max_n)%nat with 0%nat by lia. cbn [firstn]. now rewrite app_nil_r. }
      assert (B3 : msm x3 (skipn (2 + max_n) base) = msm x3 (firstn pn Hs)).
      { unfold base. cbn [skipn app Nat.add].
        rewrite skipn_app, firstn_length, Nat.min_l by lia. rewrite skipn_all2 by (rewrite firstn_length; lia).
        rewrite Nat.sub_diag. cbn [skipn app].
        rewrite (msm_firstn_r x3), L3, firstn_firstn, Nat.min_l by lia. reflexivity. }
      rewrite B0, B2, B3. mring.
  Qed.

  (* ---------- batch_verify ---------- *)
  Theorem batch_is_weighted_sum (Gs Hs : list MO) (alphas : list K) (l : list (verifier_out K MO * proof_t)) :
    let max_n := fold_left (fun m vp => Nat.max m (vo_padded (fst vp))) l 0%nat in
    (max_n <= length Gs)%nat -> (max_n <= length Hs)%nat ->
    Forall (inst_ok max_n) l -> length alphas = length l ->
    let '(sc, pts) := batch_accumulate max_n l alphas (zeros (2 * max_n + 2))
                                       ([B; Bb] ++ firstn max_n Gs ++ firstn max_n Hs) in
    msm sc pts = weighted_sum Gs Hs l alphas.
  Proof.
    cbv zeta. set (mx := fold_left (fun m vp => Nat.max m (vo_padded (fst vp))) l 0%nat). intros HG HH Hok Hal.
    pose proof (accumulate_sum Gs Hs mx HG HH l alphas (zeros (2 * mx + 2)) [] [] Hok Hal) as H.
    cbv zeta in H. rewrite !app_nil_r in H.
    specialize (H ltac:(rewrite zeros_length; lia) eq_refl).
    destruct (batch_accumulate _ l alphas _ _) as [sc pts]. rewrite H, msm_zeros. mring.
  Qed.

  (* if every instance's check vanishes the batch accepts, whatever the weights *)
  Lemma weighted_sum_zero (Gs Hs : list MO) : forall l alphas,
    Forall (fun vp => mega_of Gs Hs vp = m0) l -> weighted_sum Gs Hs l alphas = m0.
  Proof.
    induction l as [|vp l IH]; intros [|a al] H; simpl; auto.
    inversion H; subst. rewrite H2, IH by assumption. mring.
  Qed.

  (* replacing one weight: the difference of the two sums is (a - a') . mega_j *)
  Fixpoint set_weight (j : nat) (a : K) (alphas : list K) : list K :=
    match j, alphas with
    | O, _ :: al => a :: al
    | S j', x :: al => x :: set_weight j' a al
    | _, [] => []
    end.

  Lemma weighted_sum_diff (Gs Hs : list MO) : forall l alphas j a' vp,
    nth_error l j = Some vp -> length alphas = length l ->
    weighted_sum Gs Hs l alphas
    = weighted_sum Gs Hs l (set_weight j a' alphas) +m (nth j alphas f0 - a') *s mega_of Gs Hs vp.
  Proof.
    induction l as [|v l IH]; intros [|a al] [|j] a' vp Hn Hl; simpl in *; try discriminate.
    - inversion Hn; subst. mring.
    - rewrite (IH al j a' vp Hn) by lia. mring.
  Qed.

  (* exact "only if": accepting under two weight vectors that differ only at position j forces mega_j = 0 *)
  Theorem only_if_exact (Gs Hs : list MO) l alphas j a' vp :
    nth_error l j = Some vp -> length alphas = length l ->
    a' <> nth j alphas f0 ->
    weighted_sum Gs Hs l alphas = m0 -> weighted_sum Gs Hs l (set_weight j a' alphas) = m0 ->
    mega_of Gs Hs vp = m0.
  Proof.
    intros Hn Hl Hne H1 H2. rewrite (weighted_sum_diff Gs Hs l alphas j a' vp Hn Hl), H2, madd_0_l in H1.
    destruct (smul_cancel _ _ H1) as [H|H]; [|exact H].
    exfalso. apply Hne. symmetry. apply fsub_eq_0. exact H.
  Qed.

  (* cancelling members: if instance i's residual is R and instance j's is -R (R <> 0) and every other member's
     is zero, the batch accepts exactly when the two positions were given EQUAL weights — which is why the pair
     sweep of K10 probes the weight generation position by position *)
  Lemma set_weight_length j a : forall al, length (set_weight j a al) = length al.
  Proof. induction j as [|j IH]; intros [|x al]; simpl; auto. Qed.

  Lemma set_weight_nth j a : forall al k, nth k (set_weight j a al) f0 = if Nat.eqb k j then (if Nat.ltb j (length al) then a else f0) else nth k al f0.
  Proof.
    induction j as [|j IH]; intros [|x al] k; simpl.
    - destruct k; reflexivity.
    - destruct k; reflexivity.
    - destruct k; [reflexivity|]. simpl. destruct (Nat.eqb k j); reflexivity.
    - destruct k as [|k]; [reflexivity|]. cbn [nth]. rewrite IH. cbn [Nat.eqb].
      destruct (Nat.eqb k j); [|reflexivity].
      change (Nat.ltb (S j) (S (length al))) with (Nat.ltb j (length al)). reflexivity.
  Qed.

  Lemma weighted_sum_vanishes (Gs Hs : list MO) : forall l al,
    (forall k vp, nth_error l k = Some vp -> nth k al f0 = f0 \/ mega_of Gs Hs vp = m0) ->
    weighted_sum Gs Hs l al = m0.
  Proof.
    induction l as [|vp l IH]; intros [|a al] H; cbn [weighted_sum]; try reflexivity.
    rewrite IH by (intros k vp' Hn; apply (H (S k) vp' Hn)).
    destruct (H 0%nat vp eq_refl) as [E|E]; cbn [nth] in E; rewrite E; mring.
  Qed.

  Theorem cancelling_pair_accepted_iff_equal_weights (Gs Hs : list MO) :
    forall l alphas i j (R : MO) vi vj,
      i <> j -> nth_error l i = Some vi -> nth_error l j = Some vj -> length alphas = length l -> R <> m0 ->
      mega_of Gs Hs vi = R -> mega_of Gs Hs vj = mopp R ->
      (forall k vp, nth_error l k = Some vp -> k <> i -> k <> j -> mega_of Gs Hs vp = m0) ->
      (weighted_sum Gs Hs l alphas = m0 <-> nth i alphas f0 = nth j alphas f0).
  Proof.
    intros l alphas i j R vi vj Hij Hi Hj Hal HR Mi Mj Mo.
    assert (Li : (i < length alphas)%nat) by (rewrite Hal; apply nth_error_Some; congruence).
    assert (Lj : (j < length alphas)%nat) by (rewrite Hal; apply nth_error_Some; congruence).
    rewrite (weighted_sum_diff Gs Hs l alphas i f0 vi Hi Hal).
    rewrite (weighted_sum_diff Gs Hs l (set_weight i f0 alphas) j f0 vj Hj) by (rewrite set_weight_length; exact Hal).
    rewrite weighted_sum_vanishes.
    2:{ intros k vp Hn. destruct (Nat.eq_dec k i) as [->|Hki]; [|destruct (Nat.eq_dec k j) as [->|Hkj]].
        - left. rewrite set_weight_nth. destruct (Nat.eqb_spec i j); [contradiction|]. rewrite set_weight_nth, Nat.eqb_refl.
          destruct (Nat.ltb i (length alphas)); reflexivity.
        - left. rewrite set_weight_nth, Nat.eqb_refl. destruct (Nat.ltb _ _); reflexivity.
        - right. apply (Mo k vp Hn Hki Hkj). }
    rewrite set_weight_nth. destruct (Nat.eqb_spec j i) as [E|_]; [congruence|].
    rewrite Mi, Mj. split; intros H.
    - assert (E : (nth i alphas f0 - nth j alphas f0) *s R = m0).
      { rewrite <- H. mring. }
      destruct (smul_cancel _ _ E) as [E'|E']; [apply fsub_eq_0; exact E' | contradiction].
    - rewrite H. mring.
  Qed.

  (* two members whose residuals are multiples a.R and b.R of one point, all other members valid: the batch
     accepts exactly when alpha_i a + alpha_j b = 0 *)
  Theorem scaled_pair_accepted_iff (Gs Hs : list MO) :
    forall l alphas i j (R : MO) (a b : K) vi vj,
      i <> j -> nth_error l i = Some vi -> nth_error l j = Some vj -> length alphas = length l -> R <> m0 ->
      mega_of Gs Hs vi = a *s R -> mega_of Gs Hs vj = b *s R ->
      (forall k vp, nth_error l k = Some vp -> k <> i -> k <> j -> mega_of Gs Hs vp = m0) ->
      (weighted_sum Gs Hs l alphas = m0 <-> nth i alphas f0 * a + nth j alphas f0 * b = f0).
  Proof.
    intros l alphas i j R a b vi vj Hij Hi Hj Hal HR Mi Mj Mo.
    assert (Li : (i < length alphas)%nat) by (rewrite Hal; apply nth_error_Some; congruence).
    assert (Lj : (j < length alphas)%nat) by (rewrite Hal; apply nth_error_Some; congruence).
    rewrite (weighted_sum_diff Gs Hs l alphas i f0 vi Hi Hal).
    rewrite (weighted_sum_diff Gs Hs l (set_weight i f0 alphas) j f0 vj Hj) by (rewrite set_weight_length; exact Hal).
    rewrite weighted_sum_vanishes.
    2:{ intros k vp Hn. destruct (Nat.eq_dec k i) as [->|Hki]; [|destruct (Nat.eq_dec k j) as [->|Hkj]].
        - left. rewrite set_weight_nth. destruct (Nat.eqb_spec i j); [contradiction|]. rewrite set_weight_nth, Nat.eqb_refl.
          destruct (Nat.ltb i (length alphas)); reflexivity.
        - left. rewrite set_weight_nth, Nat.eqb_refl. destruct (Nat.ltb _ _); reflexivity.
        - right. apply (Mo k vp Hn Hki Hkj). }
    rewrite set_weight_nth. destruct (Nat.eqb_spec j i) as [E|_]; [congruence|].
    rewrite Mi, Mj. split; intros H.
    - assert (E : (nth i alphas f0 * a + nth j alphas f0 * b) *s R = m0).
      { rewrite <- H. mring. }
      destruct (smul_cancel _ _ E) as [E'|E']; [exact E' | contradiction].
    - assert (E : m0 +m (nth j alphas f0 - f0) *s (b *s R) +m (nth i alphas f0 - f0) *s (a *s R)
                  = (nth i alphas f0 * a + nth j alphas f0 * b) *s R) by mring.
      rewrite E, H. apply smul_0_l.
  Qed.

  (* why the weights must be independent draws: weights of the form rho * c_k with publicly computable c_k
     (one secret factor shared by the whole batch) admit, for EVERY rho, an accepted batch with two invalid members *)
  Corollary shared_factor_weights_forgeable (Gs Hs : list MO) :
    forall l (cs : list K) (rho d : K) i j (R : MO) vi vj,
      i <> j -> nth_error l i = Some vi -> nth_error l j = Some vj -> length cs = length l -> R <> m0 ->
      mega_of Gs Hs vi = (nth j cs f0 * d) *s R -> mega_of Gs Hs vj = (- (nth i cs f0 * d)) *s R ->
      (forall k vp, nth_error l k = Some vp -> k <> i -> k <> j -> mega_of Gs Hs vp = m0) ->
      weighted_sum Gs Hs l (map (fun c => rho * c) cs) = m0.
  Proof.
    intros l cs rho d i j R vi vj Hij Hi Hj Hcs HR Mi Mj Mo.
    apply (scaled_pair_accepted_iff Gs Hs l (map (fun c => rho * c) cs) i j R (nth j cs f0 * d) (- (nth i cs f0 * d)) vi vj Hij Hi Hj); try assumption.
    - rewrite map_length. exact Hcs.
    - assert (Hn : forall k, nth k (map (fun c => rho * c) cs) f0 = rho * nth k cs f0).
      { intros k. rewrite <- (map_nth (fun c => rho * c) cs f0 k). f_equal. ring. }
      rewrite !Hn. ring.
  Qed.

  (* errors: the batch reports the first instance's error, exactly when that instance alone reports it *)
  Theorem batch_first_error cap : forall insts,
    match batch_collect RO cap insts with
    | Err e => exists pre s p rest, insts = pre ++ (s, p) :: rest
               /\ verification_scalars RO cap s p = Err e
               /\ Forall (fun sp => exists vo, verification_scalars RO cap (fst sp) (snd sp) = Ok vo) pre
    | Ok l => length l = length insts
              /\ Forall2 (fun sp vp => verification_scalars RO cap (fst sp) (snd sp) = Ok (fst vp) /\ snd vp = snd sp) insts l
    end.
  Proof.
    induction insts as [|[s p] rest IH]; cbn [batch_collect].
    - split; [reflexivity | constructor].
    - destruct (verification_scalars RO cap s p) as [vo|e] eqn:E.
      + destruct (batch_collect RO cap rest) as [l|e'].
        * destruct IH as [IL IF]. split; [simpl; lia | constructor; [split; [exact E | reflexivity] | exact IF]].
        * destruct IH as (pre & s' & p' & rest' & E1 & E2 & E3).
          exists ((s, p) :: pre), s', p', rest'. split; [rewrite E1; reflexivity | split; [exact E2 | constructor; [exists vo; exact E | exact E3]]].
      + exists [], s, p, rest. split; [reflexivity | split; [exact E | constructor]].
  Qed.

  (* ---------- the scalar vector has exactly one scalar per point ---------- *)
  Lemma s_build_length : forall (l acc : list K), length (s_build l acc) = (length acc * 2 ^ length l)%nat.
  Proof.
    induction l as [|q l IH]; intros acc; simpl; [lia|].
    rewrite IH, app_length, map_length. lia.
  Qed.

  Lemma scalars_length cap (s : vstate K MO) (p : proof_t) vo :
    verification_scalars RO cap s p = Ok vo ->
    length (vo_scalars vo) = (2 + 2 * vo_padded vo + length (tail_points (vo, p)))%nat.
  Proof.
    intros Hvs. pose proof (vs_inv RO _ _ _ _ Hvs) as F.
    destruct (vf_ipp _ _ _ _ _ F) as (tr15 & usq & uisq & tr16 & Hipp & y & z & u & x & w & r & Hch & Hw & Hsc).
    destruct (ipp_vs_inv RO _ _ _ _ _ _ _ _ Hipp) as (Hk & HR & Hpn & Habs & Lus & Eusq & Euisq & Esv).
    pose proof (vf_mono _ _ _ _ _ F) as Hmono. pose proof (vf_padded _ _ _ _ _ F) as Hpad.
    pose proof (next_pow2_ge (v_num (vo_state vo))) as Hge. rewrite <- Hpad in Hge.
    rewrite Hsc. unfold mega_scalars, tail_points. cbn [fst snd].
    set (n := v_num (vo_state vo)) in *. set (pn := vo_padded vo) in *. set (n1 := vo_n1 vo) in *.
    assert (LwL : length (wL (vo_w vo)) = n) by (rewrite Hw; apply v_flatten_wL_len).
    assert (LwR : length (wR (vo_w vo)) = n) by (rewrite Hw; apply v_flatten_wR_len).
    assert (LwO : length (wO (vo_w vo)) = n) by (rewrite Hw; apply v_flatten_wO_len).
    assert (LwV : length (wV (vo_w vo)) = length (v_V (vo_state vo))) by (rewrite Hw; apply v_flatten_wV_len).
    assert (Lsv : length (vo_s vo) = pn).
    { rewrite Esv, s_build_length, rev_length, map_length, Lus. simpl. rewrite Hpn. lia. }
    assert (Lusq : length usq = length (ipp_L (ipp p))) by (rewrite Eusq, map_length; exact Lus).
    assert (Luisq : length uisq = length (ipp_R (ipp p))) by (rewrite Euisq, !map_length, HR; exact Lus).
    rewrite !app_length, !map2_length, !combine_length, !app_length, !map2_length, !firstn_length, !rev_length,
            !repeat_length, !zeros_length, !powers_length, !map_length.
    cbn [length]. rewrite LwL, LwR, LwO, LwV, Lsv, Lusq, Luisq. lia.
  Qed.

  Lemma fold_max_ge : forall (l : list (verifier_out K MO * proof_t)) m0',
    (m0' <= fold_left (fun m vp => Nat.max m (vo_padded (fst vp))) l m0')%nat
    /\ Forall (fun vp => vo_padded (fst vp) <= fold_left (fun m vp => Nat.max m (vo_padded (fst vp))) l m0')%nat l.
  Proof.
    induction l as [|vp l IH]; intros m; simpl; [split; [lia | constructor]|].
    destruct (IH (Nat.max m (vo_padded (fst vp)))) as [I1 I2]. split; [lia|].
    constructor; [lia | exact I2].
  Qed.

  (* batch_verify accepts iff the alpha-weighted sum of the instances' own checks vanishes *)
  Theorem batch_verify_iff (Gs Hs : list MO) (alphas : list K) (insts : list (vstate K MO * proof_t)) l :
    batch_collect RO (length Gs) insts = Ok l ->
    length Hs = length Gs -> length alphas = length l ->
    (batch_verify RO B Bb Gs Hs alphas insts = Ok tt <-> weighted_sum Gs Hs l alphas = m0)
    /\ (batch_verify RO B Bb Gs Hs alphas insts <> Ok tt -> batch_verify RO B Bb Gs Hs alphas insts = Err EVerification).
  Proof.
    intros Hc HH Hal. unfold batch_verify. rewrite Hc.
    set (mx := fold_left (fun m vp => Nat.max m (vo_padded (fst vp))) l 0%nat).
    pose proof (batch_first_error (length Gs) insts) as HF. rewrite Hc in HF. destruct HF as [HL HF2].
    assert (Hok : Forall (inst_ok mx) l /\ (mx <= length Gs)%nat).
    { destruct (fold_max_ge l 0%nat) as [_ Hge]. fold mx in Hge.
      assert (Hcap : Forall (fun vp : verifier_out K MO * proof_t => (vo_padded (fst vp) <= length Gs)%nat
                                 /\ length (vo_scalars (fst vp)) = (2 + 2 * vo_padded (fst vp) + length (tail_points vp))%nat) l).
      { clear - HF2. induction HF2 as [|[s p] [vo p'] insts' l' [Hv Hp] _ IH]; constructor; auto.
        cbn [fst snd] in *. subst p'. split.
        - apply (vf_cap _ _ _ _ _ (vs_inv RO _ _ _ _ Hv)).
        - apply (scalars_length _ _ _ _ Hv). }
      split.
      - rewrite Forall_forall in *. intros vp Hin. split; [apply Hge; exact Hin | apply Hcap; exact Hin].
      - unfold mx. clear - Hcap. assert (G : forall m0', (m0' <= length Gs)%nat ->
            (fold_left (fun m vp => Nat.max m (vo_padded (fst vp))) l m0' <= length Gs)%nat).
        { induction Hcap as [|vp l' [Hv _] _ IH]; intros m Hm; simpl; auto. apply IH. lia. }
        apply G. lia. }
    destruct Hok as [Hok Hmx].
    pose proof (batch_is_weighted_sum Gs Hs alphas l) as HS. cbv zeta in HS. fold mx in HS.
    specialize (HS Hmx ltac:(lia) Hok Hal).
    destruct (batch_accumulate mx l alphas _ _) as [sc pts]. rewrite HS.
    split.
    - destruct (mzerob _) eqn:Ez.
      + apply mzerob_spec in Ez. split; auto.
      + split; [discriminate|]. intros E. apply mzerob_spec in E. congruence.
    - destruct (mzerob _); [intros C; exfalso; apply C; reflexivity | reflexivity].
  Qed.
End BatchLemmas.
