(* Proofs/ProverLemmas.v — algebra of the proving procedure: t(X) = <l(X), r(X)>, the t_2 identity,
   the commitment algebra P + t_x.Q = <l,G'> + <r,H'> + <l,r>.Q, and R_t of a proof produced by the
   procedure from an ARBITRARY secrets state. *)
Require Export BP.Model.Relations BP.Proofs.MegaLemmas BP.Proofs.FlattenLemmas.

Section ProverLemmas.
  Context {K : FieldOps} {FL : FieldLaws K} {MO : ModOps K} {ML : ModLaws MO}.
  Add Field Ffp : (@Fth K FL).
  Add Ring Rrp : (@Rth K FL MO ML).
  Open Scope F_scope.
  Notation "x +m y" := (madd x y) (at level 50, left associativity).
  Notation "k *s x" := (smul k x) (at level 40).
  Variables B Bb : MO.
  Notation commit := (pedersen_commit B Bb).

  (* ---------- vector polynomials ---------- *)
  Lemma vecpoly3_eval_length x (p0 p1 p2 p3 : list K) n :
    length p0 = n -> length p1 = n -> length p2 = n -> length p3 = n ->
    length (vecpoly3_eval x p0 p1 p2 p3) = n.
  Proof. intros. unfold vecpoly3_eval. rewrite !map2_length. lia. Qed.

  (* <l(x), r(x)> for l = x.l1 + x^2.l2 + x^3.l3 and r = r0 + x.r1 + x^3.r3 is t(x) *)
  Lemma tpoly_is_ip (x : K) : forall (l1 l2 l3 r0 r1 r3 : list K) n,
    length l1 = n -> length l2 = n -> length l3 = n -> length r0 = n -> length r1 = n -> length r3 = n ->
    ip (vecpoly3_eval x (zeros n) l1 l2 l3) (vecpoly3_eval x r0 r1 (zeros n) r3)
    = poly6_eval x (ip l1 r0) (ip l1 r1 + ip l2 r0) (ip l2 r1 + ip l3 r0) (ip l1 r3 + ip l3 r1) (ip l2 r3) (ip l3 r3).
  Proof.
    unfold vecpoly3_eval, poly6_eval, zeros.
    induction l1 as [|a1 l1 IH]; intros [|a2 l2] [|a3 l3] [|b0 r0] [|b1 r1] [|b3 r3] n H1 H2 H3 H4 H5 H6;
      simpl in *; subst n; try discriminate; simpl.
    - ring.
    - rewrite (IH l2 l3 r0 r1 r3 (length l1)) by congruence. ring.
  Qed.

  (* ---------- the t_2 identity ---------- *)
  Lemma t2_gen (y yi : K) : y * yi = f1 ->
    forall (aL aR aO wl wr wo : list K) (c ci : K),
    c * ci = f1 ->
    length aR = length aL -> length aO = length aL -> length wl = length aL -> length wr = length aL ->
    length wo = length aL ->
    let P := powers_from c y (length aL) in let P' := powers_from ci yi (length aL) in
    ip (map2 fadd aL (map2 fmul P' wr)) (map2 fadd (map2 fmul P aR) wl) + ip aO (map2 fsub wo P)
    = ip (map2 fsub (map2 fmul aL aR) aO) P + ip wl aL + ip wr aR + ip wo aO + ip (map2 fmul wr P') wl.
  Proof.
    intros Hy. induction aL as [|a aL IH]; intros [|b aR] [|o aO] [|l wl] [|r wr] [|w wo] c ci Hc H1 H2 H3 H4 H5;
      simpl in *; try discriminate.
    - ring.
    - assert (Hc' : (c * y) * (ci * yi) = f1) by (transitivity ((c * ci) * (y * yi)); [ring | rewrite Hc, Hy; ring]).
      pose proof (IH aR aO wl wr wo (c * y) (ci * yi) Hc' ltac:(congruence) ltac:(congruence) ltac:(congruence)
                     ltac:(congruence) ltac:(congruence)) as IH'. cbv zeta in IH'.
      match type of IH' with ?X + ?Y = ?Z => set (TX := X) in *; set (TY := Y) in *; set (TZ := Z) in * end.
      transitivity ((a + ci * r) * (c * b + l) + o * (w - c) + (TX + TY)); [ring|].
      rewrite IH'. unfold TZ. ring [Hc].
  Qed.

  (* ---------- Pedersen commitments ---------- *)
  Lemma msm_commits : forall (c v vb : list K),
    length v = length c -> length vb = length c ->
    msm c (map2 commit v vb) = ip c v *s B +m ip c vb *s Bb.
  Proof.
    unfold pedersen_commit.
    induction c as [|x c IH]; intros [|y v] [|z vb] H1 H2; simpl in *; try discriminate.
    - mring.
    - rewrite IH by congruence. mring.
  Qed.

  Lemma vsum_map2_ip : forall c vb : list K, vsum (map2 (fun c vb => vb * c) c vb) = ip c vb.
  Proof. unfold vsum. induction c as [|x c IH]; intros [|y vb]; simpl; auto. rewrite IH. ring. Qed.

  (* ---------- R_t of a proof whose T_i, t_x, t~_x have the prover's form ---------- *)
  Lemma Rt_honest_form (fw : weights K) (y x : K) (n pn : nat) (v vb : list K)
        (t1 t2 t3 t4 t5 t6 tb1 tb3 tb4 tb5 tb6 : K) (p : r1cs_proof K MO) :
    length v = length (wV fw) -> length vb = length (wV fw) ->
    T_1 p = commit t1 tb1 -> T_3 p = commit t3 tb3 -> T_4 p = commit t4 tb4 ->
    T_5 p = commit t5 tb5 -> T_6 p = commit t6 tb6 ->
    t_x p = poly6_eval x t1 t2 t3 t4 t5 t6 ->
    t_x_blinding p = poly6_eval x tb1 (ip (wV fw) vb) tb3 tb4 tb5 tb6 ->
    R_t B Bb fw y x n pn (map2 commit v vb) p
    = (sq x * (wc fw + delta_of fw y n pn + ip (wV fw) v - t2)) *s B.
  Proof.
    intros Lv Lvb E1 E3 E4 E5 E6 Etx Etxb. unfold R_t.
    rewrite msm_commits by assumption. rewrite E1, E3, E4, E5, E6, Etx, Etxb.
    unfold pedersen_commit, poly6_eval, sq. mring.
  Qed.

  (* ---------- list plumbing ---------- *)
  Lemma msm_app_zeros (a : list K) k (G : list MO) : msm (a ++ zeros k) G = msm a G.
  Proof. rewrite msm_firstn_zeros. symmetry. apply msm_firstn_r. Qed.

  Lemma msm_app_l (a1 a2 : list K) (G : list MO) :
    msm (a1 ++ a2) G = msm a1 (firstn (length a1) G) +m msm a2 (skipn (length a1) G).
  Proof.
    revert G; induction a1 as [|x a1 IH]; intros G; simpl.
    - now rewrite madd_0_l.
    - destruct G as [|g G]; simpl.
      + rewrite msm_nil_r. mring.
      + rewrite IH. mring.
  Qed.

  Lemma msm_map2_fadd (a b : list K) (G : list MO) :
    length b = length a -> msm (map2 fadd a b) G = msm a G +m msm b G.
  Proof. apply msm_vadd. Qed.

  Lemma msm_map2_fsub (a b : list K) (G : list MO) :
    length b = length a -> msm (map2 fsub a b) G = msm a G +m (- f1) *s msm b G.
  Proof.
    revert b G; induction a as [|x a IH]; intros [|y b] [|g G]; simpl; intros H; try discriminate; try mring.
    rewrite IH by congruence. mring.
  Qed.

  Lemma msm_vecpoly (x : K) : forall (p0 p1 p2 p3 : list K) (G : list MO),
    length p1 = length p0 -> length p2 = length p0 -> length p3 = length p0 ->
    msm (vecpoly3_eval x p0 p1 p2 p3) G
    = msm p0 G +m x *s msm p1 G +m (x * x) *s msm p2 G +m (x * x * x) *s msm p3 G.
  Proof.
    unfold vecpoly3_eval.
    induction p0 as [|a0 p0 IH]; intros [|a1 p1] [|a2 p2] [|a3 p3] [|g G] H1 H2 H3; simpl in *; try discriminate; try mring.
    rewrite IH by congruence. mring.
  Qed.

  Lemma msm_pscale_repeat (c : K) : forall (a : list K) k (G : list MO),
    (length a <= k)%nat -> msm a (pscale (repeat c k) G) = c *s msm a G.
  Proof.
    unfold pscale. induction a as [|x a IH]; intros k G Hk; simpl.
    - mring.
    - destruct k as [|k]; [simpl in Hk; lia|]. destruct G as [|g G]; simpl; [mring|].
      rewrite IH by (simpl in Hk; lia). mring.
  Qed.

  Lemma pscale_app (c1 c2 : list K) (G1 G2 : list MO) :
    length c1 = length G1 -> pscale (c1 ++ c2) (G1 ++ G2) = pscale c1 G1 ++ pscale c2 G2.
  Proof. apply map2_app. Qed.

  Lemma pscale_pscale : forall (c c' : list K) (G : list MO), pscale c (pscale c' G) = pscale (map2 fmul c c') G.
  Proof.
    unfold pscale. induction c as [|x c IH]; intros [|y c'] [|g G]; simpl; auto.
    rewrite IH, smul_mul. reflexivity.
  Qed.

  Lemma powers_from_cancel (y yi : K) : y * yi = f1 -> forall n m c ci, c * ci = f1 ->
    map2 fmul (powers_from c y n) (powers_from ci yi m) = repeat f1 (Nat.min n m).
  Proof.
    intros Hy. induction n as [|n IH]; intros [|m] c ci Hc; simpl; auto.
    rewrite Hc. f_equal. apply IH. transitivity ((c * ci) * (y * yi)); [ring | rewrite Hc, Hy; ring].
  Qed.

  Lemma firstn_skipn_comm {A} n1 n (l : list A) : skipn n1 (firstn n l) = firstn (n - n1) (skipn n1 l).
  Proof.
    revert n l; induction n1 as [|n1 IH]; intros n l; simpl.
    - now rewrite Nat.sub_0_r.
    - destruct n as [|n]; simpl; [destruct l; reflexivity|]. destruct l as [|h l]; simpl.
      + now rewrite firstn_nil.
      + apply IH.
  Qed.

  Lemma map2_fmul_comm : forall a b : list K, map2 fmul a b = map2 fmul b a.
  Proof. induction a as [|x a IH]; intros [|y b]; simpl; auto. f_equal; [ring | apply IH]. Qed.

  (* ---------- G' and H' seen through the phase split ---------- *)
  Section Split.
    Variables (Gs Hs : list MO) (n1 n pn : nat) (y yi u : K).
    Hypothesis Hy : y * yi = f1.
    Hypothesis Hyi : yi = finv y.
    Hypotheses (Hn1 : (n1 <= n)%nat) (Hn : (n <= pn)%nat) (HG : (pn <= length Gs)%nat) (HH : (pn <= length Hs)%nat).
    Let G' := Gprime u n1 pn Gs.
    Let H' := Hprime y u n1 pn Hs.

    Lemma split_G (a : list K) : length a = n ->
      msm a G' = msm (firstn n1 a) (firstn n1 Gs) +m u *s msm (skipn n1 a) (skipn n1 (firstn n Gs)).
    Proof.
      intros La. unfold G', Gprime, u1_vec.
      rewrite <- (firstn_skipn n1 a) at 1.
      rewrite <- (firstn_skipn n1 (firstn pn Gs)).
      assert (L1 : length (firstn n1 a) = n1) by (rewrite firstn_length; lia).
      assert (L2 : length (firstn n1 (firstn pn Gs)) = n1) by (rewrite !firstn_length; lia).
      rewrite pscale_app by (rewrite repeat_length; lia).
      rewrite msm_app by (rewrite pscale_length; rewrite ?repeat_length; lia).
      rewrite !msm_pscale_repeat by (rewrite ?skipn_length; lia).
      rewrite smul_1. rewrite firstn_firstn, Nat.min_l by lia.
      f_equal. f_equal.
      rewrite !firstn_skipn_comm.
      rewrite (msm_firstn_r (skipn n1 a) (firstn (pn - n1) _)).
      rewrite (msm_firstn_r (skipn n1 a) (firstn (n - n1) _)).
      rewrite !firstn_firstn, skipn_length, La. f_equal. f_equal. lia.
    Qed.

    Lemma Hprime_unscale : pscale (powers y pn) H' = pscale (u1_vec u n1 pn) (firstn pn Hs).
    Proof.
      unfold H', Hprime. rewrite pscale_pscale.
      assert (E : map2 fmul (powers y pn) (map2 fmul (powers (finv y) pn) (u1_vec u n1 pn)) = u1_vec u n1 pn).
      { rewrite <- Hyi. unfold powers.
        assert (G : forall (U : list K) m c ci, c * ci = f1 -> length U = m ->
                  map2 fmul (powers_from c y m) (map2 fmul (powers_from ci yi m) U) = U).
        { induction U as [|h U IH]; intros [|m] c ci Hc HU; simpl in *; try discriminate; auto.
          f_equal; [transitivity ((c * ci) * h); [ring | rewrite Hc; ring]|].
          apply IH; [|congruence]. transitivity ((c * ci) * (y * yi)); [ring | rewrite Hc, Hy; ring]. }
        apply G; [ring|]. unfold u1_vec. rewrite app_length, !repeat_length. lia. }
      rewrite E. reflexivity.
    Qed.

    Lemma split_H (a : list K) : length a = n ->
      msm (map2 fmul (powers y n) a) H'
      = msm (firstn n1 a) (firstn n1 Hs) +m u *s msm (skipn n1 a) (skipn n1 (firstn n Hs)).
    Proof.
      intros La.
      assert (E : msm (map2 fmul (powers y n) a) H' = msm a (pscale (u1_vec u n1 pn) (firstn pn Hs))).
      { rewrite <- Hprime_unscale.
        replace (map2 fmul (powers y n) a) with (vmul a (powers y n)) by (unfold vmul; apply map2_fmul_comm).
        rewrite msm_vmul_pscale.
        replace pn with (n + (pn - n))%nat at 1 by lia. rewrite powers_app.
        unfold pscale at 2. unfold pscale at 1.
        (* only the first n entries matter *)
        rewrite (msm_firstn_r a (map2 smul (powers y n) H')).
        rewrite (msm_firstn_r a (map2 smul (powers y n ++ _) H')).
        f_equal. rewrite !map2_firstn. rewrite La.
        rewrite firstn_app, powers_length, Nat.sub_diag, firstn_O, app_nil_r. reflexivity. }
      rewrite E. clear E.
      (* same as split_G with Hs *)
      unfold u1_vec.
      rewrite <- (firstn_skipn n1 a) at 1.
      rewrite <- (firstn_skipn n1 (firstn pn Hs)).
      assert (L1 : length (firstn n1 a) = n1) by (rewrite firstn_length; lia).
      assert (L2 : length (firstn n1 (firstn pn Hs)) = n1) by (rewrite !firstn_length; lia).
      rewrite pscale_app by (rewrite repeat_length; lia).
      rewrite msm_app by (rewrite pscale_length; rewrite ?repeat_length; lia).
      rewrite !msm_pscale_repeat by (rewrite ?skipn_length; lia).
      rewrite smul_1. rewrite firstn_firstn, Nat.min_l by lia.
      f_equal. f_equal.
      rewrite !firstn_skipn_comm.
      rewrite (msm_firstn_r (skipn n1 a) (firstn (pn - n1) _)).
      rewrite (msm_firstn_r (skipn n1 a) (firstn (n - n1) _)).
      rewrite !firstn_firstn, skipn_length, La. f_equal. f_equal. lia.
    Qed.

    Lemma powers_H' : msm (powers y pn) H' = msm (u1_vec u n1 pn) (firstn pn Hs).
    Proof.
      assert (E : forall (c : list K) (X : list MO), length c = length X -> msm c X = msm (repeat f1 (length c)) (pscale c X)).
      { unfold pscale. induction c as [|h c IH]; intros [|g X] H; simpl in *; try discriminate; auto.
        rewrite <- IH by congruence. mring. }
      rewrite E.
      2:{ unfold H', Hprime. rewrite powers_length, pscale_length; rewrite ?map2_length, ?powers_length, ?firstn_length;
          unfold u1_vec; rewrite ?app_length, ?repeat_length; lia. }
      rewrite Hprime_unscale. rewrite powers_length.
      rewrite (E (u1_vec u n1 pn) (firstn pn Hs)).
      2:{ unfold u1_vec. rewrite app_length, !repeat_length, firstn_length. lia. }
      f_equal. f_equal. unfold u1_vec. rewrite app_length, !repeat_length. lia.
    Qed.
  End Split.


  Lemma msm_firstn_r' (a : list K) (G : list MO) : msm a (firstn (length a) G) = msm a G.
  Proof. symmetry. apply msm_firstn_r. Qed.
  Lemma msm_vopp_map (a : list K) (G : list MO) : msm (map fopp a) G = (- f1) *s msm a G.
  Proof. change (map fopp a) with (vopp a). rewrite msm_vopp. mring. Qed.

  (* ---------- the commitment algebra ---------- *)
  Lemma mask_L_length d n1 n2 : length (@mask_L K d n1 n2) = (n1 + n2)%nat.
  Proof. unfold mask_L. rewrite app_length, !map_length, !seq_length. reflexivity. Qed.
  Lemma mask_R_length d n1 n2 : length (@mask_R K d n1 n2) = (n1 + n2)%nat.
  Proof. unfold mask_R. rewrite app_length, !map_length, !seq_length. reflexivity. Qed.

  Lemma firstn_app_exact {A} (l1 l2 : list A) n : length l1 = n -> firstn n (l1 ++ l2) = l1.
  Proof. intros <-. rewrite firstn_app, Nat.sub_diag, firstn_O, app_nil_r. apply firstn_all. Qed.
  Lemma skipn_app_exact {A} (l1 l2 : list A) n : length l1 = n -> skipn n (l1 ++ l2) = l2.
  Proof. intros <-. rewrite skipn_app, Nat.sub_diag, skipn_all. reflexivity. Qed.

  Theorem P_identity (Gs Hs : list MO) (d : nat -> K) (fw : weights K) (aL aR aO : list K)
          (n1 n pn : nat) (y u x : K) (p : r1cs_proof K MO) :
    y <> f0 ->
    length aL = n -> length aR = n -> length aO = n ->
    length (wL fw) = n -> length (wR fw) = n -> length (wO fw) = n ->
    (n1 <= n)%nat -> (n <= pn)%nat -> (pn <= length Gs)%nat -> (pn <= length Hs)%nat ->
    (A_I1 p, A_O1 p, S1 p) = p_commit1 Bb Gs Hs d (firstn n1 aL) (firstn n1 aR) (firstn n1 aO) ->
    (A_I2 p, A_O2 p, S2 p) = p_commit2 Bb Gs Hs d n1 aL aR aO ->
    e_blinding p = x * ((d 0%nat + u * blind2 d n1 (n - n1) 0) + x * ((d 1%nat + u * blind2 d n1 (n - n1) 1)
                        + x * (d 2%nat + u * blind2 d n1 (n - n1) 2))) ->
    let pl := p_polys fw y aL aR aO (mask_L d n1 (n - n1)) (mask_R d n1 (n - n1)) in
    P_of Bb fw y u x n1 n pn Gs Hs p
    = msm (p_lvec pl x n (pn - n)) (Gprime u n1 pn Gs) +m msm (p_rvec pl x y n pn) (Hprime y u n1 pn Hs).
  Proof.
    intros Hy0 LaL LaR LaO LwL LwR LwO Hn1 Hn HG HH E1 E2 Eeb pl.
    assert (Hy : y * finv y = f1) by (apply finv_r; exact Hy0).
    set (n2 := (n - n1)%nat) in *.
    set (G' := Gprime u n1 pn Gs). set (H' := Hprime y u n1 pn Hs).
    set (sL := mask_L d n1 n2) in *. set (sR := mask_R d n1 n2) in *.
    assert (LsL : length sL = n) by (unfold sL; rewrite mask_L_length; unfold n2; lia).
    assert (LsR : length sR = n) by (unfold sR; rewrite mask_R_length; unfold n2; lia).
    (* first-phase commitments *)
    unfold p_commit1 in E1. rewrite firstn_length, LaL, Nat.min_l in E1 by lia.
    inversion E1 as [[EAI1 EAO1 ES1]]; clear E1.
    (* second-phase commitments, in one form for n2 = 0 and n2 > 0 *)
    assert (E2' : (A_I2 p, A_O2 p, S2 p) =
                  (blind2 d n1 n2 0 *s Bb +m msm (skipn n1 aL) (skipn n1 (firstn n Gs)) +m msm (skipn n1 aR) (skipn n1 (firstn n Hs)),
                   blind2 d n1 n2 1 *s Bb +m msm (skipn n1 aO) (skipn n1 (firstn n Gs)),
                   blind2 d n1 n2 2 *s Bb +m msm (skipn n1 sL) (skipn n1 (firstn n Gs)) +m msm (skipn n1 sR) (skipn n1 (firstn n Hs)))).
    { rewrite E2. unfold p_commit2. rewrite LaL. fold n2.
      unfold sL, sR, mask_L, mask_R. rewrite !skipn_app_exact by (rewrite map_length, seq_length; reflexivity).
      destruct (Nat.ltb 0 n2) eqn:En2; [reflexivity|].
      apply Nat.ltb_ge in En2. assert (n2 = 0)%nat by lia.
      unfold blind2. rewrite (proj2 (Nat.ltb_ge 0 n2) En2).
      assert (Z1 : skipn n1 aL = []) by (apply skipn_all2; lia).
      assert (Z2 : skipn n1 aR = []) by (apply skipn_all2; lia).
      assert (Z3 : skipn n1 aO = []) by (apply skipn_all2; lia).
      rewrite Z1, Z2, Z3, H. simpl. f_equal; [f_equal|]; mring. }
    inversion E2' as [[EAI2 EAO2 ES2]]; clear E2 E2'.
    (* the combined commitments through the phase split *)
    assert (CI : A_I1 p +m u *s A_I2 p
                 = (d 0%nat + u * blind2 d n1 n2 0) *s Bb +m msm aL G' +m msm (map2 fmul (powers y n) aR) H').
    { rewrite EAI1, EAI2. unfold G', H'.
      rewrite (split_G Gs Hs n1 n pn u Hn1 Hn HG HH aL LaL).
      rewrite (split_H Gs Hs n1 n pn y (finv y) u Hy eq_refl Hn1 Hn HG HH aR LaR). mring. }
    assert (CO : A_O1 p +m u *s A_O2 p = (d 1%nat + u * blind2 d n1 n2 1) *s Bb +m msm aO G').
    { rewrite EAO1, EAO2. unfold G'. rewrite (split_G Gs Hs n1 n pn u Hn1 Hn HG HH aO LaO). mring. }
    assert (CS : S1 p +m u *s S2 p
                 = (d 2%nat + u * blind2 d n1 n2 2) *s Bb +m msm sL G' +m msm (map2 fmul (powers y n) sR) H').
    { rewrite ES1, ES2. unfold G', H'.
      rewrite (split_G Gs Hs n1 n pn u Hn1 Hn HG HH sL LsL).
      rewrite (split_H Gs Hs n1 n pn y (finv y) u Hy eq_refl Hn1 Hn HG HH sR LsR).
      assert (F1 : firstn n1 sL = map d (seq 3 n1))
        by (unfold sL, mask_L; apply firstn_app_exact; rewrite map_length, seq_length; reflexivity).
      assert (F2 : firstn n1 sR = map d (seq (3 + n1) n1))
        by (unfold sR, mask_R; apply firstn_app_exact; rewrite map_length, seq_length; reflexivity).
      rewrite F1, F2. change (S (S (S n1))) with (3 + n1)%nat. mring. }
    (* l(x) against G' *)
    assert (LV : msm (p_lvec pl x n (pn - n)) G'
                 = x *s msm aL G' +m x *s msm (map2 fmul (powers (finv y) n) (wR fw)) G'
                   +m (x * x) *s msm aO G' +m (x * x * x) *s msm sL G').
    { unfold p_lvec, pl, p_polys. cbn [pl1 pl2 pl3]. rewrite LaL.
      rewrite msm_app_zeros.
      rewrite msm_vecpoly by (rewrite ?zeros_length, ?map2_length, ?powers_length; lia).
      rewrite msm_zeros, msm_map2_fadd by (rewrite !map2_length, powers_length; lia). mring. }
    (* r(x) against H' *)
    assert (RV : msm (p_rvec pl x y n pn) H'
                 = msm (wO fw) H' +m x *s msm (map2 fmul (powers y n) aR) H' +m x *s msm (wL fw) H'
                   +m (x * x * x) *s msm (map2 fmul (powers y n) sR) H' +m (- f1) *s msm (powers y pn) H').
    { unfold p_rvec, pl, p_polys. cbn [pr0 pr1 pr3]. rewrite LaL.
      set (V := vecpoly3_eval x _ _ _ _).
      assert (LV' : length V = n)
        by (unfold V; apply vecpoly3_eval_length; rewrite ?zeros_length, ?map2_length, ?powers_length; lia).
      rewrite msm_app_l, LV'.
      assert (EV : msm V (firstn n H') = msm V H') by (rewrite <- LV'; apply msm_firstn_r').
      rewrite EV. unfold V.
      rewrite msm_vecpoly by (rewrite ?zeros_length, ?map2_length, ?powers_length; lia).
      rewrite msm_zeros, msm_map2_fsub, msm_map2_fadd by (rewrite ?map2_length, ?powers_length; lia).
      rewrite msm_vopp_map.
      assert (EP : msm (powers y pn) H' = msm (powers y n) H' +m msm (skipn n (powers y pn)) (skipn n H')).
      { rewrite <- (firstn_skipn n (powers y pn)) at 1. rewrite msm_app_l.
        assert (Lf : length (firstn n (powers y pn)) = n) by (rewrite firstn_length, powers_length; lia).
        rewrite Lf.
        assert (Ef : firstn n (powers y pn) = powers y n).
        { replace pn with (n + (pn - n))%nat by lia. rewrite powers_app. apply firstn_app_exact. apply powers_length. }
        rewrite Ef. f_equal. rewrite <- (powers_length y n) at 2. apply msm_firstn_r'. }
      rewrite EP. mring. }
    unfold P_of. fold G' H'. rewrite CI, CO, CS, Eeb, LV, RV.
    rewrite msm_vscale, msm_vadd, msm_vscale by (rewrite !app_length, !zeros_length; unfold vscale; rewrite ?map_length, ?app_length, ?zeros_length; lia).
    rewrite !msm_app_zeros.
    rewrite (map2_fmul_comm (wR fw) (powers (finv y) pn)).
    pose proof (powers_H' Gs Hs n1 n pn y (finv y) u Hy eq_refl Hn1 Hn HG HH) as EPH. fold H' in EPH. rewrite <- EPH.
    assert (EwR : msm (map2 fmul (powers (finv y) pn) (wR fw)) G' = msm (map2 fmul (powers (finv y) n) (wR fw)) G').
    { f_equal. replace pn with (n + (pn - n))%nat by lia. rewrite powers_app.
      rewrite <- (app_nil_r (wR fw)) at 1. rewrite map2_app by (rewrite powers_length; lia).
      rewrite map2_nil_r, app_nil_r. reflexivity. }
    rewrite EwR. unfold sq. mring.
  Qed.
End ProverLemmas.
