(* Proofs/SLoopLemmas.v — the s-vector loop of InnerProductProof::verification_scalars, index for index:
     s.push(allinv); for i in 1..n { lg_i = 31 - clz(i); k = 1 << lg_i; s.push(s[i - k] * u_sq[(lg_n - 1) - lg_i]) }
   equals the blocked form [s_build] the model uses (hence, by s_build_svec, the specification's svec). *)
Require Export BP.Proofs.IPPLemmas.
Require Import Lia.

Section SLoop.
  Context {K : FieldOps} {FL : FieldLaws K}.
  Open Scope F_scope.

  Fixpoint s_loop (lg_n : nat) (u_sq : list K) (cnt i : nat) (s : list K) : list K :=
    match cnt with
    | O => s
    | S c =>
      let lg_i := Nat.log2 i in
      s_loop lg_n u_sq c (S i) (s ++ [nth (i - 2 ^ lg_i) s f0 * nth ((lg_n - 1) - lg_i) u_sq f0])
    end.

  Definition s_index (u_sq : list K) (allinv : K) : list K :=
    s_loop (length u_sq) u_sq (2 ^ length u_sq - 1) 1 [allinv].

  Lemma pow2_pos' k : (0 < 2 ^ k)%nat.
  Proof. induction k; simpl; lia. Qed.

  (* one block: indices 2^j + t for t = done .. 2^j - 1, on a prefix p of length 2^j *)
  Lemma s_loop_block lg_n u_sq (p : list K) (j : nat) (q : K) :
    length p = (2 ^ j)%nat -> nth ((lg_n - 1) - j) u_sq f0 = q ->
    forall rest done tl,
      (done + rest = 2 ^ j)%nat ->
      s_loop lg_n u_sq (rest + tl) (2 ^ j + done) (p ++ map (fun x => x * q) (firstn done p))
      = s_loop lg_n u_sq tl (2 ^ j + 2 ^ j) (p ++ map (fun x => x * q) p).
  Proof.
    intros Hp Hq. induction rest as [|rest IH]; intros done tl Hd.
    - assert (done = 2 ^ j)%nat by lia. subst done. rewrite <- Hp at 3. rewrite firstn_all. reflexivity.
    - cbn [Nat.add s_loop].
      assert (Hlog : Nat.log2 (2 ^ j + done) = j).
      { apply Nat.log2_unique; [lia|]. rewrite Nat.pow_succ_r'. lia. }
      rewrite Hlog, Hq. replace (2 ^ j + done - 2 ^ j)%nat with done by lia.
      assert (Hnth : nth done (p ++ map (fun x => x * q) (firstn done p)) f0 = nth done p f0).
      { apply app_nth1. lia. }
      rewrite Hnth.
      replace (S (2 ^ j + done)) with (2 ^ j + S done)%nat by lia.
      rewrite <- app_assoc.
      replace (map (fun x => x * q) (firstn done p) ++ [nth done p f0 * q])
        with (map (fun x => x * q) (firstn (S done) p)).
      + apply IH. lia.
      + assert (G : forall (l : list K) n, (n < length l)%nat -> firstn (S n) l = firstn n l ++ [nth n l f0]).
        { induction l as [|x l IHl]; intros n Hn; [simpl in Hn; lia|].
          destruct n as [|n]; [reflexivity|]. simpl. f_equal. apply IHl. simpl in Hn. lia. }
        assert (Hf : firstn (S done) p = firstn done p ++ [nth done p f0]) by (apply G; lia).
        rewrite Hf, map_app. reflexivity.
  Qed.

  (* after the blocks 0 .. j-1 the vector is s_build on the last j squared challenges *)
  Lemma s_loop_blocks (u_sq : list K) (allinv : K) : forall j tl,
    (j <= length u_sq)%nat ->
    s_loop (length u_sq) u_sq ((2 ^ j - 1) + tl) 1 [allinv]
    = s_loop (length u_sq) u_sq tl (2 ^ j) (s_build (firstn j (rev u_sq)) [allinv]).
  Proof.
    induction j as [|j IH]; intros tl Hj.
    - reflexivity.
    - pose proof (pow2_pos' j) as Hp.
      replace (2 ^ S j - 1 + tl)%nat with ((2 ^ j - 1) + (2 ^ j + tl))%nat by (rewrite Nat.pow_succ_r'; lia).
      rewrite IH by lia.
      set (p := s_build (firstn j (rev u_sq)) [allinv]).
      assert (Lp : length p = (2 ^ j)%nat).
      { unfold p. clear -Hj. assert (L : forall (l acc : list K), length (s_build l acc) = (length acc * 2 ^ length l)%nat).
        { induction l as [|h l IHl]; intros acc; cbn [s_build length]; [simpl; lia|].
          rewrite IHl, app_length, map_length. rewrite Nat.pow_succ_r'. lia. }
        rewrite L, firstn_length, rev_length, Nat.min_l by lia. simpl. lia. }
      pose proof (s_loop_block (length u_sq) u_sq p j (nth (length u_sq - 1 - j) u_sq f0) Lp eq_refl (2 ^ j) 0 tl ltac:(lia)) as B.
      cbn [firstn map] in B. rewrite app_nil_r, Nat.add_0_r in B. rewrite B.
      replace (2 ^ j + 2 ^ j)%nat with (2 ^ S j)%nat by (rewrite Nat.pow_succ_r'; lia).
      f_equal.
      (* s_build on one more element of rev u_sq *)
      assert (Hfn : firstn (S j) (rev u_sq) = firstn j (rev u_sq) ++ [nth (length u_sq - 1 - j) u_sq f0]).
      { assert (Hlt : (j < length (rev u_sq))%nat) by (rewrite rev_length; lia).
        assert (G : forall (l : list K) n, (n < length l)%nat -> firstn (S n) l = firstn n l ++ [nth n l f0]).
        { induction l as [|x l IHl]; intros n Hn; [simpl in Hn; lia|].
          destruct n as [|n]; [reflexivity|]. simpl. f_equal. apply IHl. simpl in Hn. lia. }
        rewrite G by exact Hlt. f_equal. f_equal.
        rewrite rev_nth by lia. f_equal. lia. }
      rewrite Hfn, s_build_snoc. reflexivity.
  Qed.

  Theorem s_index_eq_build (u_sq : list K) (allinv : K) : s_index u_sq allinv = s_build (rev u_sq) [allinv].
  Proof.
    unfold s_index. pose proof (s_loop_blocks u_sq allinv (length u_sq) 0 ltac:(lia)) as H.
    rewrite Nat.add_0_r in H. rewrite H. cbn [s_loop].
    rewrite firstn_all2 by (rewrite rev_length; lia). reflexivity.
  Qed.

  (* with the squared challenges of the proof: the indexed loop computes the specification's s vector *)
  Theorem s_index_is_svec (us : list K) :
    (forall u, In u us -> u <> f0) ->
    s_index (map (fun u => u * u) us) (prod_inv us) = svec us.
  Proof. intros H. rewrite s_index_eq_build. apply s_build_svec. exact H. Qed.
End SLoop.
