(* Proofs/ScalarCodec.v — the concrete scalar element codec that Run/Codec.v executes (ark-ff
   `Fp::serialize_compressed` / `deserialize_compressed`: SS little-endian bytes, canonical iff the value is
   below the modulus) satisfies the hypotheses Properties/C11.v makes about the abstract scalar codec, is
   canonical (a byte string that decodes re-encodes to itself), and rejects every value >= the modulus. *)
Require Export BP.Proofs.CodecLemmas.
Require Import Lia ZArith.
Local Open Scope Z_scope.

Section ScalarCodec.
  Variable SS : nat.
  Variable r : Z.                                      (* the scalar-field modulus *)
  Hypothesis r_fits : 0 < r <= 256 ^ Z.of_nat SS.

  Definition is_bytes (bs : list Z) : Prop := Forall (fun b => 0 <= b < 256) bs.
  Definition enc_sc_le (x : Z) : list Z := le_enc SS x.
  Definition dec_sc_le (c : list Z) : option Z := let v := le_val c in if v <? r then Some v else None.

  Lemma le_enc_len n : forall z, length (le_enc n z) = n.
  Proof. induction n as [|n IH]; intros z; cbn [le_enc length]; [reflexivity | rewrite IH; reflexivity]. Qed.
  Lemma le_val_le_enc n : forall z, 0 <= z < 256 ^ Z.of_nat n -> le_val (le_enc n z) = z.
  Proof.
    induction n as [|n IH]; intros z Hz.
    - simpl in *. lia.
    - cbn [le_enc le_val]. rewrite IH.
      + pose proof (Z.div_mod z 256 ltac:(lia)). lia.
      + rewrite Nat2Z.inj_succ, Z.pow_succ_r in Hz by lia.
        split; [apply Z.div_pos; lia | apply Z.div_lt_upper_bound; lia].
  Qed.

  Lemma le_enc_is_bytes n : forall z, is_bytes (le_enc n z).
  Proof.
    induction n as [|n IH]; intros z; cbn [le_enc]; constructor.
    - apply Z.mod_pos_bound. lia.
    - apply IH.
  Qed.

  Lemma le_val_bound : forall bs, is_bytes bs -> 0 <= le_val bs < 256 ^ Z.of_nat (length bs).
  Proof.
    induction 1 as [|b bs Hb _ IH]; cbn [le_val length].
    - simpl. lia.
    - rewrite Nat2Z.inj_succ, Z.pow_succ_r by lia. lia.
  Qed.

  (* canonical: the only SS-byte string with a given value is the encoding of that value *)
  Lemma le_enc_val : forall bs, is_bytes bs -> le_enc (length bs) (le_val bs) = bs.
  Proof.
    induction 1 as [|b bs Hb Hbs IH]; cbn [le_val length le_enc]; [reflexivity|].
    f_equal.
    - rewrite (Z.mul_comm 256), Z.mod_add by lia. apply Z.mod_small. exact Hb.
    - rewrite (Z.mul_comm 256), Z.div_add by lia. rewrite (Z.div_small b 256) by exact Hb.
      rewrite Z.add_0_l. exact IH.
  Qed.

  Theorem scalar_codec_roundtrip x : 0 <= x < r ->
    length (enc_sc_le x) = SS /\ is_bytes (enc_sc_le x) /\ dec_sc_le (enc_sc_le x) = Some x.
  Proof.
    intros Hx. unfold enc_sc_le, dec_sc_le. split; [apply le_enc_len|]. split; [apply le_enc_is_bytes|].
    rewrite le_val_le_enc by lia. cbv zeta. destruct (Z.ltb_spec x r); [reflexivity | lia].
  Qed.

  Theorem scalar_codec_canonical c x : is_bytes c -> length c = SS ->
    dec_sc_le c = Some x -> 0 <= x < r /\ enc_sc_le x = c.
  Proof.
    intros Hc Hl. unfold dec_sc_le, enc_sc_le. cbv zeta.
    destruct (Z.ltb_spec (le_val c) r) as [Hlt|Hge]; [|discriminate].
    intros E. injection E as <-. split.
    - pose proof (le_val_bound c Hc). lia.
    - rewrite <- Hl. apply le_enc_val. exact Hc.
  Qed.

  Theorem scalar_codec_rejects_noncanonical c : r <= le_val c -> dec_sc_le c = None.
  Proof. intros H. unfold dec_sc_le. cbv zeta. destruct (Z.ltb_spec (le_val c) r); [lia | reflexivity]. Qed.

  (* two different byte strings never decode to the same scalar: no malleability in the scalar fields *)
  Theorem scalar_codec_injective c c' x : is_bytes c -> is_bytes c' -> length c = SS -> length c' = SS ->
    dec_sc_le c = Some x -> dec_sc_le c' = Some x -> c = c'.
  Proof.
    intros H1 H2 L1 L2 D1 D2.
    destruct (scalar_codec_canonical c x H1 L1 D1) as [_ <-].
    destruct (scalar_codec_canonical c' x H2 L2 D2) as [_ <-]. reflexivity.
  Qed.
End ScalarCodec.
