(* Proofs/IndepLemmas.v — closing the "relation" theorems of C04 / C05 / C09 / C13 under an explicit
   independence hypothesis: the discrete-log assumption written as a hypothesis on the points involved
   (no non-trivial linear relation), with a non-vacuity instance in the free module. *)
Require Export BP.Proofs.IntegrityLemmas BP.Proofs.PedersenLemmas.

Section Indep.
  Context {K : FieldOps} {FL : FieldLaws K} {MO : ModOps K} {ML : ModLaws MO}.
  Add Field Ffind : (@Fth K FL).
  Add Ring Rrind : (@Rth K FL MO ML).
  Open Scope F_scope.
  Notation "x +m y" := (madd x y) (at level 50, left associativity).
  Notation "k *s x" := (smul k x) (at level 40).
  Notation "x -m y" := (msub x y) (at level 50, left associativity).

  (* no non-trivial relation between two / three points *)
  Definition indep2 (X Y : MO) : Prop := forall a b : K, a *s X +m b *s Y = m0 -> a = f0 /\ b = f0.
  Definition indep3 (X Y Z : MO) : Prop :=
    forall a b c : K, a *s X +m b *s Y +m c *s Z = m0 -> a = f0 /\ b = f0 /\ c = f0.

  Lemma indep2_nz_r (X Y : MO) : indep2 X Y -> Y <> m0.
  Proof.
    intros HI E. destruct (HI f0 f1) as [_ H1].
    - rewrite E, smul_0_l, smul_0_r. apply madd_0_l.
    - exact (f1_neq_f0 H1).
  Qed.

  Lemma indep2_nz_l (X Y : MO) : indep2 X Y -> X <> m0.
  Proof.
    intros HI E. destruct (HI f1 f0) as [H1 _].
    - rewrite E, smul_0_l, smul_0_r. apply madd_0_l.
    - exact (f1_neq_f0 H1).
  Qed.

  (* ---- Pedersen: binding under independence, perfect hiding when B lies in the span of B~ ---- *)
  Theorem pedersen_binding (B Bb : MO) (v r v' r' : K) :
    indep2 B Bb -> pedersen_commit B Bb v r = pedersen_commit B Bb v' r' -> v = v' /\ r = r'.
  Proof.
    intros HI E. unfold pedersen_commit in E.
    destruct (HI (v - v') (r - r')) as [H1 H2].
    - transitivity ((v *s B +m r *s Bb) +m mopp (v' *s B +m r' *s Bb)); [mring | rewrite E; mring].
    - split; apply fsub_eq_0; assumption.
  Qed.

  (* every commitment to v is also a commitment to any other v', under exactly one blinding: the
     commitment alone carries no information on the value (B = beta . B~ holds in a cyclic group) *)
  Theorem pedersen_perfectly_hiding (B Bb : MO) (beta v r v' : K) :
    Bb <> m0 -> B = beta *s Bb ->
    pedersen_commit B Bb v r = pedersen_commit B Bb v' (r + beta * (v - v'))
    /\ (forall r' : K, pedersen_commit B Bb v r = pedersen_commit B Bb v' r' -> r' = r + beta * (v - v')).
  Proof.
    intros HB ->. unfold pedersen_commit. split; [mring|].
    intros r' E.
    assert (E' : (r' - (r + beta * (v - v'))) *s Bb = m0).
    { transitivity ((v' *s (beta *s Bb) +m r' *s Bb) +m mopp (v *s (beta *s Bb) +m r *s Bb)); [mring | rewrite <- E; mring]. }
    destruct (smul_cancel _ _ E') as [H|H]; [apply fsub_eq_0; exact H | contradiction].
  Qed.

  (* the same for a witness-bearing vector commitment d.B~ + W with W in the span of B~ *)
  Theorem blinded_component_perfectly_hiding (Bb W W' : MO) (omega omega' d : K) :
    Bb <> m0 -> W = omega *s Bb -> W' = omega' *s Bb ->
    d *s Bb +m W = (d + (omega - omega')) *s Bb +m W'
    /\ (forall d' : K, d *s Bb +m W = d' *s Bb +m W' -> d' = d + (omega - omega')).
  Proof.
    intros HB -> ->. split; [mring|].
    intros d' E.
    assert (E' : (d' - (d + (omega - omega'))) *s Bb = m0).
    { transitivity ((d' *s Bb +m omega' *s Bb) +m mopp (d *s Bb +m omega *s Bb)); [mring | rewrite <- E; mring]. }
    destruct (smul_cancel _ _ E') as [H|H]; [apply fsub_eq_0; exact H | contradiction].
  Qed.

  (* ---- C04: accepted twice at the same challenges ==> the same scalars ---- *)
  Theorem final_scalars_unique (B Bb : MO) fw y u x w r us n1 n pn Gs Hs Vs (p p' : r1cs_proof K MO) :
    indep3 (foldG us (Gprime u n1 pn Gs)) (foldH us (Hprime y u n1 pn Hs)) B ->
    A_I1 p' = A_I1 p -> A_O1 p' = A_O1 p -> S1 p' = S1 p -> A_I2 p' = A_I2 p -> A_O2 p' = A_O2 p -> S2 p' = S2 p ->
    T_1 p' = T_1 p -> T_3 p' = T_3 p -> T_4 p' = T_4 p -> T_5 p' = T_5 p -> T_6 p' = T_6 p ->
    t_x p' = t_x p -> t_x_blinding p' = t_x_blinding p -> e_blinding p' = e_blinding p ->
    ipp_L (ipp p') = ipp_L (ipp p) -> ipp_R (ipp p') = ipp_R (ipp p) ->
    check B Bb fw y u x w r us n1 n pn Gs Hs Vs p = m0 -> check B Bb fw y u x w r us n1 n pn Gs Hs Vs p' = m0 ->
    ipp_a (ipp p') = ipp_a (ipp p) /\ ipp_b (ipp p') = ipp_b (ipp p).
  Proof.
    intros HI E1 E2 E3 E4 E5 E6 E7 E8 E9 E10 E11 E12 E13 E14 E15 E16 H H'.
    pose proof (ab_relation B Bb fw y u x w r us n1 n pn Gs Hs Vs p p'
                  E1 E2 E3 E4 E5 E6 E7 E8 E9 E10 E11 E12 E13 E14 E15 E16 H H') as Rel.
    destruct (HI _ _ _ Rel) as (Ha & Hb & _).
    split; apply fsub_eq_0; assumption.
  Qed.

  Theorem changed_scalars_unique (B Bb : MO) fw y u x w r us n1 n pn Gs Hs Vs (p : r1cs_proof K MO) (tx txb eb : K) :
    indep2 B Bb -> w <> r ->
    check B Bb fw y u x w r us n1 n pn Gs Hs Vs p = m0 ->
    check B Bb fw y u x w r us n1 n pn Gs Hs Vs (with_scalars tx txb eb p) = m0 ->
    tx = t_x p /\ r * (txb - t_x_blinding p) + (eb - e_blinding p) = f0.
  Proof.
    intros HI Hwr H H'.
    pose proof (changed_scalars B Bb fw y u x w r us n1 n pn Gs Hs Vs p tx txb eb H H') as Rel.
    destruct (HI _ _ Rel) as [H1 H2]. split.
    - destruct (fmul_eq_0 _ _ H1) as [Hz|Hz].
      + exfalso. apply Hwr. apply fsub_eq_0. exact Hz.
      + apply fsub_eq_0. exact Hz.
    - transitivity (- - (r * (txb - t_x_blinding p) + (eb - e_blinding p))); [ring | rewrite H2; ring].
  Qed.

  (* ---- C05: a changed committed-value part of the constraints is accepted at the same challenges
          only if it takes the same value on the committed openings (values and blindings) ---- *)
  Theorem changed_committed_constraints_rejected (B Bb : MO) (fw fw' : weights K) (y u x w r : K)
          (us : list K) (n1 n pn : nat) (Gs Hs : list MO) (vs vbs : list K) (p : r1cs_proof K MO) :
    indep2 B Bb -> r <> f0 -> x <> f0 ->
    wL fw' = wL fw -> wR fw' = wR fw -> wO fw' = wO fw ->
    length vs = length (wV fw) -> length vbs = length (wV fw) -> length (wV fw') = length (wV fw) ->
    let Vs := map2 (fun v vb => v *s B +m vb *s Bb) vs vbs in
    check B Bb fw y u x w r us n1 n pn Gs Hs Vs p = m0 ->
    check B Bb fw' y u x w r us n1 n pn Gs Hs Vs p = m0 ->
    wc fw' + ip (wV fw') vs = wc fw + ip (wV fw) vs /\ ip (wV fw') vbs = ip (wV fw) vbs.
  Proof.
    intros HI Hr Hx EL ER EO L1 L2 L3 Vs H H'.
    assert (D : check B Bb fw' y u x w r us n1 n pn Gs Hs Vs p -m check B Bb fw y u x w r us n1 n pn Gs Hs Vs p
                = (r * sq x) *s (((wc fw' + ip (wV fw') vs) - (wc fw + ip (wV fw) vs)) *s B
                                 +m (ip (wV fw') vbs - ip (wV fw) vbs) *s Bb)).
    { rewrite (changed_committed_part B Bb fw fw') by assumption.
      unfold Vs. rewrite !(msm_commitments B Bb) by congruence.
      mring_prep. ring. }
    rewrite H, H' in D. rewrite msub_self in D. symmetry in D.
    destruct (smul_cancel _ _ D) as [Hz|Hz].
    - exfalso. destruct (fmul_eq_0 _ _ Hz) as [Hz'|Hz']; [exact (Hr Hz')|].
      unfold sq in Hz'. destruct (fmul_eq_0 _ _ Hz'); exact (Hx H0).
    - destruct (HI _ _ Hz) as [H1 H2]. split; apply fsub_eq_0; assumption.
  Qed.

  (* ---- C05: one changed base with a non-zero verification scalar is rejected ---- *)
  Theorem changed_blinding_base_rejected (B Bb Bb' : MO) (c0 c1 : K) (rest : list K) (pts : list MO) :
    c1 <> f0 ->
    msm (c0 :: c1 :: rest) ([B; Bb] ++ pts) = m0 -> msm (c0 :: c1 :: rest) ([B; Bb'] ++ pts) = m0 -> Bb' = Bb.
  Proof.
    intros Hc H H'.
    pose proof (changed_bases B Bb c0 c1 rest B Bb' pts) as D. rewrite H, H' in D.
    assert (E : c1 *s (Bb' -m Bb) = m0).
    { transitivity (c0 *s (B -m B) +m c1 *s (Bb' -m Bb)); [mring | rewrite <- D; mring]. }
    destruct (smul_cancel _ _ E) as [Hz|Hz]; [contradiction | apply msub_eq_0; exact Hz].
  Qed.

  Theorem changed_value_base_rejected (B B' Bb : MO) (c0 c1 : K) (rest : list K) (pts : list MO) :
    c0 <> f0 ->
    msm (c0 :: c1 :: rest) ([B; Bb] ++ pts) = m0 -> msm (c0 :: c1 :: rest) ([B'; Bb] ++ pts) = m0 -> B' = B.
  Proof.
    intros Hc H H'.
    pose proof (changed_bases B Bb c0 c1 rest B' Bb pts) as D. rewrite H, H' in D.
    assert (E : c0 *s (B' -m B) = m0).
    { transitivity (c0 *s (B' -m B) +m c1 *s (Bb -m Bb)); [mring | rewrite <- D; mring]. }
    destruct (smul_cancel _ _ E) as [Hz|Hz]; [contradiction | apply msub_eq_0; exact Hz].
  Qed.
End Indep.

(* non-vacuity: in the free module of rank 2 / 3 over any field the unit vectors are independent *)
Section IndepFree.
  Context {K : FieldOps} {FL : FieldLaws K}.
  Add Field Ffif : (@Fth K FL).
  Open Scope F_scope.

  Example unit_vectors_indep2 : @indep2 K (fm_ops K 2) [f1; f0] [f0; f1].
  Proof.
    intros a b E. cbn in E. injection E as E1 E2. split.
    - rewrite <- E1. ring.
    - rewrite <- E2. ring.
  Qed.

  Example unit_vectors_indep3 : @indep3 K (fm_ops K 3) [f1; f0; f0] [f0; f1; f0] [f0; f0; f1].
  Proof.
    intros a b c E. cbn in E. injection E as E1 E2 E3. repeat split.
    - rewrite <- E1. ring.
    - rewrite <- E2. ring.
    - rewrite <- E3. ring.
  Qed.
End IndepFree.
