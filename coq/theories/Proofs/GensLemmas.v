(* Proofs/GensLemmas.v — C12, structural part: history independence, aggregated views, labels. *)
Require Export BP.Model.Gens.

Section GensLemmas.
  Variable P : Type.
  Variable ch : bool -> nat -> nat -> P.
  Notation gens := (gens P). Notation increase := (increase P ch). Notation new := (new P ch).
  Notation chain_take := (chain_take P ch). Notation table := (table P ch). Notation canonical := (canonical P ch).

  Lemma chain_take_app k j a b c : chain_take k j a b ++ chain_take k j (a + b) c = chain_take k j a (b + c).
  Proof. unfold Gens.chain_take. rewrite <- map_app, <- seq_app. reflexivity. Qed.

  Lemma mapi_from_map {A B} (f : nat -> A -> B) (g : nat -> A) : forall cnt i,
    mapi_from f i (map g (seq i cnt)) = map (fun j => f j (g j)) (seq i cnt).
  Proof. induction cnt as [|cnt IH]; intros i; cbn [seq map mapi_from]; [reflexivity|]. now rewrite IH. Qed.

  (* one request on a canonical object gives the canonical object of the larger capacity *)
  Lemma increase_canonical cap pcap newcap :
    increase (canonical cap pcap) newcap = canonical (Nat.max cap newcap) pcap.
  Proof.
    unfold Gens.increase. cbn [g_cap g_pcap g_G g_H Gens.canonical].
    destruct (Nat.leb newcap cap) eqn:E.
    - apply Nat.leb_le in E. rewrite Nat.max_l by lia. reflexivity.
    - apply Nat.leb_gt in E. rewrite Nat.max_r by lia. unfold Gens.canonical, Gens.table.
      rewrite !mapi_from_map. f_equal; apply map_ext; intros j;
        rewrite (chain_take_app _ j 0 cap (newcap - cap)); f_equal; lia.
  Qed.

  Lemma repeat_as_map {A} (x : A) n : repeat x n = map (fun _ => x) (seq 0 n).
  Proof.
    assert (H : forall s, repeat x n = map (fun _ => x) (seq s n)); [|apply H].
    induction n as [|n IH]; intros s; cbn [repeat seq map]; [reflexivity|]. now rewrite (IH (S s)).
  Qed.

  Lemma empty_is_canonical pcap : mkGens P 0 pcap (repeat [] pcap) (repeat [] pcap) = canonical 0 pcap.
  Proof. unfold Gens.canonical, Gens.table. rewrite !repeat_as_map. reflexivity. Qed.

  Theorem new_canonical cap pcap : new cap pcap = canonical cap pcap.
  Proof. unfold Gens.new. rewrite empty_is_canonical, increase_canonical. reflexivity. Qed.

  (* any history of requests: the object is the one a fresh `new` of the largest request builds *)
  Theorem history_independent : forall (reqs : list nat) cap pcap,
    fold_left increase reqs (new cap pcap) = new (fold_left Nat.max reqs cap) pcap.
  Proof.
    intros reqs cap pcap. rewrite !new_canonical. revert cap.
    induction reqs as [|r reqs IH]; intros cap; cbn [fold_left]; [reflexivity|].
    rewrite increase_canonical. apply IH.
  Qed.

  Lemma nth_error_map_seq {B} (f : nat -> B) : forall n s i, i < n -> nth_error (map f (seq s n)) i = Some (f (s + i)).
  Proof.
    induction n as [|n IH]; intros s i Hi; [lia|]. cbn [seq map]. destruct i as [|i]; cbn [nth_error].
    - now rewrite Nat.add_0_r.
    - rewrite IH by lia. f_equal. f_equal. lia.
  Qed.

  (* the (party j, position i) entry is the i-th output of the stream of label (kind, j), whatever the history *)
  Theorem entry_is_stream_output (reqs : list nat) cap pcap j i :
    let s := fold_left increase reqs (new cap pcap) in
    j < pcap -> i < g_cap P s ->
    g_cap P s = fold_left Nat.max reqs cap /\
    (exists v, nth_error (g_G P s) j = Some v /\ nth_error v i = Some (ch true j i)) /\
    (exists v, nth_error (g_H P s) j = Some v /\ nth_error v i = Some (ch false j i)).
  Proof.
    cbv zeta. rewrite history_independent, new_canonical. cbn [g_cap g_G g_H Gens.canonical].
    set (c := fold_left Nat.max reqs cap). intros Hj Hi. split; [reflexivity|]. unfold Gens.table.
    split; eexists; (split; [apply nth_error_map_seq; exact Hj|]); unfold Gens.chain_take;
      rewrite nth_error_map_seq by exact Hi; reflexivity.
  Qed.

  (* ---------------- aggregated iterator ---------------- *)
  Notation agg_next := (agg_next P). Notation collect := (collect P). Notation view_spec := (view_spec P).

  Lemma skipn_cons_nth {A} (d : A) : forall (l : list A) i, i < length l -> skipn i l = nth i l d :: skipn (S i) l.
  Proof.
    induction l as [|x l IH]; intros i Hi; [cbn in Hi; lia|].
    destruct i as [|i]; [reflexivity|]. cbn [skipn nth]. cbn [length] in Hi. rewrite IH by lia. reflexivity.
  Qed.

  Section View.
    Variable arr : list (list P).
    Variables n m : nat.
    Hypothesis Hm : m <= length arr.
    Hypothesis Hn : forall j, j < m -> n <= length (nth j arr []).

    Definition rem (party gen : nat) : list P :=
      if Nat.ltb party m then skipn gen (firstn n (nth party arr [])) ++ flat_map (firstn n) (skipn (S party) (firstn m arr))
      else [].

    Lemma firstn_m_nth j : j < m -> nth j (firstn m arr) [] = nth j arr [].
    Proof.
      intros Hj. rewrite <- (firstn_skipn m arr) at 2. rewrite app_nth1; [reflexivity|]. rewrite firstn_length. lia.
    Qed.

    Lemma rem_roll party : party < m -> rem party n = rem (S party) 0.
    Proof.
      intros Hp. unfold rem. rewrite (proj2 (Nat.ltb_lt _ _) Hp).
      rewrite skipn_all2 by (rewrite firstn_length; lia). cbn [app].
      destruct (Nat.ltb (S party) m) eqn:E.
      - apply Nat.ltb_lt in E. rewrite (skipn_cons_nth [] (firstn m arr) (S party)) by (rewrite firstn_length; lia).
        cbn [flat_map skipn]. rewrite firstn_m_nth by lia. reflexivity.
      - apply Nat.ltb_ge in E. rewrite skipn_all2 by (rewrite firstn_length; lia). reflexivity.
    Qed.

    Lemma skip_spec : forall fuel party gen,
      party <= m -> gen <= n -> m - party < fuel ->
      let '(p', g') := skip fuel n m party gen in
      party <= p' <= m /\ g' <= n /\ (p' < m -> g' < n) /\ rem p' g' = rem party gen.
    Proof.
      induction fuel as [|fuel IH]; intros party gen Hp Hg Hf; [lia|].
      cbn [skip]. destruct (Nat.ltb party m) eqn:E1; cbn [andb].
      - apply Nat.ltb_lt in E1. destruct (Nat.leb n gen) eqn:E2.
        + apply Nat.leb_le in E2. assert (gen = n) by lia. subst gen.
          specialize (IH (S party) 0 ltac:(lia) ltac:(lia) ltac:(lia)).
          destruct (skip fuel n m (S party) 0) as [p' g']. destruct IH as (A & B0 & C & D).
          repeat split; try lia; auto. rewrite D. symmetry. apply rem_roll. exact E1.
        + apply Nat.leb_gt in E2. repeat split; auto; lia.
      - apply Nat.ltb_ge in E1. repeat split; auto; lia.
    Qed.

    Lemma rem_length_bound : length (rem 0 0) <= n * m.
    Proof.
      unfold rem. destruct (Nat.ltb 0 m) eqn:E; [|cbn [length]; lia].
      apply Nat.ltb_lt in E. rewrite app_length, skipn_length, firstn_length, Nat.min_l by (apply Hn; exact E).
      assert (Hfm : forall l : list (list P), length (flat_map (firstn n) l) <= n * length l).
      { induction l as [|v l IHl]; cbn [flat_map length]; [lia|]. rewrite app_length, firstn_length. lia. }
      pose proof (Hfm (skipn 1 (firstn m arr))) as Hb. rewrite skipn_length, firstn_length, Nat.min_l in Hb by exact Hm.
      nia.
    Qed.

    Lemma collect_from : forall fuel party gen,
      party <= m -> gen <= n -> length (rem party gen) < fuel ->
      collect_with P (agg_next arr n m) fuel party gen = Some (rem party gen).
    Proof.
      induction fuel as [|fuel IH]; intros party gen Hp Hg Hf; [lia|].
      cbn [collect_with]. unfold Gens.agg_next.
      pose proof (skip_spec (S (m - party)) party gen Hp Hg ltac:(lia)) as HS.
      destruct (skip (S (m - party)) n m party gen) as [p' g']. destruct HS as (A & B0 & C & D).
      destruct (Nat.leb m p') eqn:E.
      - apply Nat.leb_le in E. rewrite <- D. unfold rem. rewrite (proj2 (Nat.ltb_ge _ _) E). reflexivity.
      - apply Nat.leb_gt in E. specialize (C E). unfold index2.
        assert (Hv : nth_error arr p' = Some (nth p' arr [])) by (apply nth_error_nth'; lia). rewrite Hv.
        pose proof (Hn p' E) as Hlen.
        assert (Hx : nth_error (nth p' arr []) g' = Some (nth g' (nth p' arr []) (ch true 0 0))) by (apply nth_error_nth'; lia).
        rewrite Hx.
        assert (Hr : rem p' g' = nth g' (nth p' arr []) (ch true 0 0) :: rem p' (S g')).
        { unfold rem. rewrite (proj2 (Nat.ltb_lt _ _) E).
          rewrite (skipn_cons_nth (ch true 0 0) (firstn n (nth p' arr [])) g') by (rewrite firstn_length; lia).
          cbn [app]. f_equal. rewrite <- (firstn_skipn n (nth p' arr [])) at 2. rewrite app_nth1; [reflexivity|].
          rewrite firstn_length. lia. }
        rewrite IH; [rewrite <- D, Hr; reflexivity | lia | lia |].
        rewrite <- D, Hr in Hf. cbn [length] in Hf. lia.
    Qed.

    Theorem collect_is_view : collect arr n m = Some (view_spec arr n m).
    Proof.
      unfold Gens.collect. rewrite collect_from; try lia.
      - f_equal. unfold rem, Gens.view_spec. destruct (Nat.ltb 0 m) eqn:E.
        + apply Nat.ltb_lt in E. cbn [skipn].
          rewrite (skipn_cons_nth [] (firstn m arr) 0) at 2 by (rewrite firstn_length; lia).
          replace (firstn m arr) with (skipn 0 (firstn m arr)) at 3 by reflexivity.
          rewrite (skipn_cons_nth [] (firstn m arr) 0) by (rewrite firstn_length; lia).
          cbn [flat_map]. rewrite firstn_m_nth by lia. reflexivity.
        + apply Nat.ltb_ge in E. assert (m = 0) by lia. subst. reflexivity.
      - pose proof rem_length_bound. lia.
    Qed.

  End View.
End GensLemmas.

    (* size_hint never underflows along the iteration: the states reached satisfy party <= m and gen <= n,
       and gen > 0 only while party < m *)
Theorem size_hint_defined n m party gen :
      party <= m -> gen <= n -> (party = m -> gen = 0) -> size_hint n m party gen <> None.
    Proof.
      intros Hp Hg He. unfold size_hint. destruct (Nat.ltb m party) eqn:E1; [apply Nat.ltb_lt in E1; lia|].
      destruct (Nat.ltb (n * (m - party)) gen) eqn:E2; [|discriminate].
      apply Nat.ltb_lt in E2. exfalso. destruct (Nat.eq_dec party m) as [->|Hne]; [rewrite (He eq_refl) in E2; lia|].
      assert (1 <= m - party) by lia. nia.
    Qed.

(* the pinned iterator (before a697de8): for n = 0 and two parties it yields party 1's first generator *)
Theorem pinned_view_refuted :
  collect_pinned nat [[10; 11]; [20; 21]] 0 2 = Some [20] /\ view_spec nat [[10; 11]; [20; 21]] 0 2 = []
  /\ collect_pinned nat [[]; []] 0 2 = None.
Proof. vm_compute. repeat split. Qed.

(* labels *)
Lemma le32_inj a b : (0 <= a < 4294967296)%Z -> (0 <= b < 4294967296)%Z -> le32 a = le32 b -> a = b.
Proof.
  unfold le32. intros Ha Hb H. injection H as H0 H1 H2 H3.
  pose proof (Z.div_mod a 256 ltac:(lia)) as A0. pose proof (Z.div_mod b 256 ltac:(lia)) as B0.
  pose proof (Z.div_mod (a / 256) 256 ltac:(lia)) as A1. pose proof (Z.div_mod (b / 256) 256 ltac:(lia)) as B1.
  pose proof (Z.div_mod (a / 256 / 256) 256 ltac:(lia)) as A2. pose proof (Z.div_mod (b / 256 / 256) 256 ltac:(lia)) as B2.
  rewrite !Z.div_div in A1, A2, B1, B2 by lia.
  change (256 * 256)%Z with 65536%Z in *. rewrite !Z.div_div in A2, B2 by lia. change (65536 * 256)%Z with 16777216%Z in *.
  assert (Ea : ((a / 16777216) mod 256 = a / 16777216)%Z) by (apply Z.mod_small; split; [apply Z.div_pos; lia | apply Z.div_lt_upper_bound; lia]).
  assert (Eb : ((b / 16777216) mod 256 = b / 16777216)%Z) by (apply Z.mod_small; split; [apply Z.div_pos; lia | apply Z.div_lt_upper_bound; lia]).
  lia.
Qed.

Theorem labels_injective k1 k2 j1 j2 :
  (0 <= j1 < 4294967296)%Z -> (0 <= j2 < 4294967296)%Z ->
  chain_input k1 j1 = chain_input k2 j2 -> k1 = k2 /\ j1 = j2.
Proof.
  intros H1 H2 H. unfold chain_input in H. apply app_inv_head in H. unfold label in H.
  rewrite !Z.mod_small in H by lia.
  assert (Hk : (if k1 then 71 else 72)%Z = (if k2 then 71 else 72)%Z) by (injection H; auto).
  assert (Hl : le32 j1 = le32 j2) by (injection H as _ Hl; unfold le32; congruence).
  split; [destruct k1, k2; try reflexivity; discriminate | apply le32_inj; auto].
Qed.

(* the Pedersen derivation hashes the uncompressed generator encoding (>= 32 bytes) without the domain prefix:
   its input differs in length from every chain input (20 bytes) *)
Theorem chain_inputs_have_20_bytes k j : length (chain_input k j) = 20.
Proof. reflexivity. Qed.

Section GensViews.
  Variable P : Type.
  Variable ch : bool -> nat -> nat -> P.

  Lemma firstn_map_seq {B} (f : nat -> B) : forall c s n, n <= c -> firstn n (map f (seq s c)) = map f (seq s n).
  Proof.
    induction c as [|c IH]; intros s n Hn.
    - assert (n = 0) by lia. subst. reflexivity.
    - destruct n as [|n]; [reflexivity|]. cbn [seq map firstn]. rewrite IH by lia. reflexivity.
  Qed.

  Lemma view_of_table k c pcap n m : n <= c -> m <= pcap ->
    view_spec P (table P ch k c pcap) n m = flat_map (fun j => chain_take P ch k j 0 n) (seq 0 m).
  Proof.
    intros Hn Hm. unfold view_spec, table. rewrite firstn_map_seq by exact Hm.
    generalize (seq 0 m) as l. induction l as [|j l IH]; cbn [map flat_map]; [reflexivity|].
    rewrite IH. f_equal. unfold chain_take. apply firstn_map_seq. exact Hn.
  Qed.

  (* G(n, m) / H(n, m) on an object with any history: the first n stream outputs of parties 0..m-1, party-major *)
  Theorem aggregated_view (reqs : list nat) cap pcap n m :
    let s := fold_left (increase P ch) reqs (new P ch cap pcap) in
    n <= g_cap P s -> m <= pcap ->
    collect P (g_G P s) n m = Some (flat_map (fun j => chain_take P ch true j 0 n) (seq 0 m)) /\
    collect P (g_H P s) n m = Some (flat_map (fun j => chain_take P ch false j 0 n) (seq 0 m)).
  Proof.
    cbv zeta. rewrite history_independent, new_canonical. cbn [g_cap g_G g_H canonical].
    set (c := fold_left Nat.max reqs cap). intros Hn Hm.
    assert (Hlen : forall k, m <= length (table P ch k c pcap)) by (intros k; unfold table; rewrite map_length, seq_length; exact Hm).
    assert (Hrow : forall k j, j < m -> n <= length (nth j (table P ch k c pcap) [])).
    { intros k j Hj. unfold table.
      assert (E : nth_error (map (fun j0 => chain_take P ch k j0 0 c) (seq 0 pcap)) j = Some (chain_take P ch k (0 + j) 0 c))
        by (apply nth_error_map_seq; lia).
      rewrite (nth_error_nth _ _ _ E). unfold chain_take. rewrite map_length, seq_length. exact Hn. }
    split; rewrite (collect_is_view P ch _ n m (Hlen _) (Hrow _)), view_of_table by assumption; reflexivity.
  Qed.

  (* share(j).G(n): the first n stream outputs of party j, for every history; only a prefix of the vector is read *)
  Theorem share_is_stream_prefix (reqs : list nat) cap pcap j n :
    let s := fold_left (increase P ch) reqs (new P ch cap pcap) in
    j < pcap -> n <= g_cap P s ->
    share_view P (g_G P s) j n = Some (chain_take P ch true j 0 n) /\
    share_view P (g_H P s) j n = Some (chain_take P ch false j 0 n).
  Proof.
    cbv zeta. rewrite history_independent, new_canonical. cbn [g_cap g_G g_H canonical].
    set (c := fold_left Nat.max reqs cap). intros Hj Hn. unfold share_view, table.
    rewrite !nth_error_map_seq by exact Hj. cbn [Nat.add]. unfold chain_take.
    rewrite !firstn_map_seq by exact Hn. auto.
  Qed.
End GensViews.
