(* Proofs/ScheduleLemmas.v — C06: the transcript a verifier run hands back is the protocol's fixed
   schedule, and every challenge is the oracle's value on the prefix that ends with its request. *)
Require Export BP.Proofs.SyncLemmas.

Section ScheduleLemmas.
  Context {K : FieldOps} {FL : FieldLaws K} {MO : ModOps K} {ML : ModLaws MO}.
  Notation tr_t := (transcript K MO).
  Notation op_t := (tr_op K MO).
  Notation proof_t := (r1cs_proof K MO).
  Variable RO : tr_t -> K.

  (* ---- the schedule, as a literal table ---- *)
  Definition head_ops (m : nat) (p : proof_t) : list op_t :=
    [App "m" (PU64 m); App "A_I1" (PPoint (A_I1 p)); App "A_O1" (PPoint (A_O1 p)); App "S1" (PPoint (S1 p))].

  Definition tail_ops (p : proof_t) (pn : nat) : list op_t :=
    [App "A_I2" (PPoint (A_I2 p)); App "A_O2" (PPoint (A_O2 p)); App "S2" (PPoint (S2 p));
     Chal "y"; Chal "z";
     App "T_1" (PPoint (T_1 p)); App "T_3" (PPoint (T_3 p)); App "T_4" (PPoint (T_4 p));
     App "T_5" (PPoint (T_5 p)); App "T_6" (PPoint (T_6 p));
     Chal "u"; Chal "x";
     App "t_x" (PScalar (t_x p)); App "t_x_blinding" (PScalar (t_x_blinding p)); App "e_blinding" (PScalar (e_blinding p));
     Chal "w";
     App "dom-sep" (PStr "ipp v1"); App "n" (PU64 pn)].

  Fixpoint ipp_ops (Ls Rs : list MO) : list op_t :=
    match Ls, Rs with
    | L :: Ls', R :: Rs' => App "L" (PPoint L) :: App "R" (PPoint R) :: Chal "u" :: ipp_ops Ls' Rs'
    | _, _ => []
    end.

  (* what user code may put on the transcript between the fixed parts: data and challenge requests *)
  Definition user_op (o : op_t) : Prop :=
    match o with App _ (PBytes _) => True | Chal _ => True | _ => False end.

  (* ---- the inner-product loop appends exactly ipp_ops; its challenges are the oracle on the prefixes ---- *)
  Lemma absorb_transcript : forall Ls Rs tr us tr',
    length Rs = length Ls -> ipp_absorb RO tr Ls Rs = Some (us, tr') ->
    tr' = tr ++ ipp_ops Ls Rs
    /\ us = map (fun j => RO (tr ++ ipp_ops (firstn (S j) Ls) (firstn (S j) Rs))) (seq 0 (length Ls)).
  Proof.
    induction Ls as [|L Ls IH]; intros [|R Rs] tr us tr' HL E; simpl in HL; try discriminate.
    - simpl in E. inversion E. simpl. rewrite app_nil_r. auto.
    - cbn [ipp_absorb] in E. unfold validate_and_append_point in E.
      destruct (mzerob L); [discriminate|]. destruct (mzerob R); [discriminate|].
      unfold challenge in E.
      destruct (ipp_absorb RO _ Ls Rs) as [[us' t4]|] eqn:E2; [|discriminate].
      inversion E; subst. destruct (IH Rs _ _ _ ltac:(congruence) E2) as [I1 I2].
      split.
      + rewrite I1. cbn [ipp_ops]. rewrite <- !app_assoc. reflexivity.
      + cbn [length seq map]. f_equal.
        * cbn [firstn ipp_ops]. destruct Ls, Rs; cbn [firstn ipp_ops]; rewrite <- !app_assoc; reflexivity.
        * rewrite I2. rewrite <- seq_shift, map_map. apply map_ext. intros j.
          cbn [firstn ipp_ops]. rewrite <- !app_assoc. reflexivity.
  Qed.

  (* ---- closures only append user ops ---- *)
  Lemma v_run2_extends (q : rprog K) : forall s,
    exists ops, v_tr (fst (fst (v_run2 RO q s))) = v_tr s ++ ops /\ Forall user_op ops.
  Proof.
    induction q as [|e|l k IH|a k IH|a k IH|l r k IH|c k IH|l b k IH|k IH]; intros s; cbn [CS.v_run2].
    - exists []. rewrite app_nil_r. split; [reflexivity | constructor].
    - exists []. rewrite app_nil_r. split; [reflexivity | constructor].
    - unfold v_challenge, challenge. cbv beta iota zeta.
      match goal with |- context [v_run2 RO (k ?c) ?st] => destruct (IH c st) as (ops & E & F) end.
      destruct (v_run2 RO _ _) as [[s' ?] ?]. cbn [fst v_tr] in *.
      exists (Chal l :: ops). rewrite E. rewrite <- app_assoc. split; [reflexivity | constructor; [exact I | exact F]].
    - destruct (v_allocate s a) as [s' x] eqn:Ea.
      assert (Et : v_tr s' = v_tr s) by (unfold v_allocate in Ea; destruct (v_pend s); inversion Ea; reflexivity).
      destruct (IH x s') as (ops & E & F). destruct (v_run2 RO _ _) as [[? ?] ?]. cbn [fst] in *.
      exists ops. rewrite E, Et. auto.
    - destruct (IH (snd (v_allocate_multiplier s a)) (fst (v_allocate_multiplier s a))) as (ops & E & F).
      unfold v_allocate_multiplier in *. cbv beta iota zeta. cbn [fst snd] in E.
      destruct (v_run2 RO _ _) as [[? ?] ?]. cbn [fst v_tr] in *. exists ops. auto.
    - destruct (IH (snd (v_multiply s l r)) (fst (v_multiply s l r))) as (ops & E & F).
      unfold v_multiply, v_constrain in *. cbv beta iota zeta. cbn [fst snd] in E.
      destruct (v_run2 RO _ _) as [[? ?] ?]. cbn [fst v_tr] in *. exists ops. auto.
    - destruct (IH (v_constrain s c)) as (ops & E & F). destruct (v_run2 RO _ _) as [[? ?] ?]. cbn [fst] in *.
      exists ops. auto.
    - destruct (IH (v_msg s l b)) as (ops & E & F). destruct (v_run2 RO _ _) as [[? ?] ?]. cbn [fst] in *.
      exists (App l (PBytes b) :: ops). rewrite E. unfold v_msg, append_message. cbn [v_tr]. rewrite <- app_assoc.
      split; [reflexivity | constructor; [exact I | exact F]].
    - destruct (IH (v_num s) s) as (ops & E & F). destruct (v_run2 RO _ _) as [[? ?] ?]. cbn [fst] in *.
      exists ops. auto.
  Qed.

  Lemma v_run_closures_extends : forall cs s,
    exists ops, v_tr (fst (fst (v_run_closures RO cs s))) = v_tr s ++ ops /\ Forall user_op ops.
  Proof.
    induction cs as [|c cs IH]; intros s; simpl.
    - exists []. rewrite app_nil_r. split; [reflexivity | constructor].
    - destruct (v_run2_extends c s) as (ops & E & F). destruct (v_run2 RO c s) as [[s' e] r]. cbn [fst] in *.
      destruct r; simpl.
      + destruct (IH s') as (ops' & E' & F'). destruct (v_run_closures RO cs s') as [[? ?] ?]. cbn [fst] in *.
        exists (ops ++ ops'). rewrite E', E, <- app_assoc. split; [reflexivity | apply Forall_app; auto].
      + exists ops. auto.
  Qed.

  Lemma v_phase2_extends (s : vstate K MO) :
    exists sep ops, v_tr (fst (fst (v_phase2 RO s))) = v_tr s ++ App "dom-sep" (PStr sep) :: ops /\ Forall user_op ops
                    /\ ((v_def s = [] /\ sep = "r1cs-1phase"%string /\ ops = []) \/ (v_def s <> [] /\ sep = "r1cs-2phase"%string)).
  Proof.
    unfold v_phase2. cbn [v_def]. destruct (v_def s) as [|c cs] eqn:Ed.
    - exists "r1cs-1phase"%string, []. cbn [fst v_tr]. unfold r1cs_1phase_domain_sep, append_message.
      split; [reflexivity | split; [constructor | left; auto]].
    - match goal with |- context [v_run_closures RO ?l ?st] => destruct (v_run_closures_extends l st) as (ops & E & F) end.
      exists "r1cs-2phase"%string, ops. rewrite E. cbn [v_tr]. unfold r1cs_2phase_domain_sep, append_message.
      rewrite <- app_assoc. split; [reflexivity | split; [exact F | right; split; [discriminate | reflexivity]]].
  Qed.

  (* ---- the verifier's transcript is the schedule; challenges are the oracle on its prefixes ---- *)
  Theorem verifier_schedule cap (s : vstate K MO) (p : proof_t) (vo : verifier_out K MO) :
    verification_scalars RO cap s p = Ok vo ->
    exists sep ops2,
      Forall user_op ops2
      /\ ((v_def s = [] /\ sep = "r1cs-1phase"%string /\ ops2 = []) \/ (v_def s <> [] /\ sep = "r1cs-2phase"%string))
      /\ let pre := v_tr s ++ head_ops (length (v_V s)) p ++ App "dom-sep" (PStr sep) :: ops2 in
         let tl := tail_ops p (vo_padded vo) in
         v_tr (vo_state vo) = pre ++ tl ++ ipp_ops (ipp_L (ipp p)) (ipp_R (ipp p))
         /\ vo_chal vo = [RO (pre ++ firstn 4 tl); RO (pre ++ firstn 5 tl); RO (pre ++ firstn 11 tl);
                          RO (pre ++ firstn 12 tl); RO (pre ++ firstn 16 tl);
                          RO ((pre ++ tl ++ ipp_ops (ipp_L (ipp p)) (ipp_R (ipp p))) ++ [Chal "r"])]
         /\ vo_ipp_chal vo
            = map (fun j => RO ((pre ++ tl) ++ ipp_ops (firstn (S j) (ipp_L (ipp p))) (firstn (S j) (ipp_R (ipp p)))))
                  (seq 0 (length (ipp_L (ipp p)))).
  Proof.
    unfold verification_scalars, opt_bind, validate_and_append_point.
    intros H.
    destruct (mzerob (A_I1 p)); [discriminate|]. destruct (mzerob (A_O1 p)); [discriminate|].
    destruct (mzerob (S1 p)); [discriminate|].
    match type of H with context [v_phase2 RO ?st] =>
      destruct (v_phase2_extends st) as (sep & ops2 & Etr & Fops & Hsep);
      destruct (v_phase2 RO st) as [[s2 ev] r2] eqn:Eph end.
    destruct r2 as [[]|e]; [|discriminate].
    destruct (Nat.ltb cap (next_pow2 (v_num s2))); [discriminate|].
    unfold challenge in H.
    destruct (mzerob (T_1 p)); [discriminate|]. destruct (mzerob (T_3 p)); [discriminate|].
    destruct (mzerob (T_4 p)); [discriminate|]. destruct (mzerob (T_5 p)); [discriminate|].
    destruct (mzerob (T_6 p)); [discriminate|].
    match type of H with context [ipp_verification_scalars RO ?t ?n ?q] =>
      destruct (ipp_verification_scalars RO t n q) as [[[[[usq uisq] sv] tr16] us]|?] eqn:Eipp; [|discriminate] end.
    destruct (ipp_vs_inv RO _ _ _ _ _ _ _ _ Eipp) as (Hk & HR & Hpn & Habs & _).
    destruct (absorb_transcript _ _ _ _ _ HR Habs) as [Etr16 Eus].
    assert (Hvo : forall A (a b : A), @Ok A a = Ok b -> a = b) by (intros A a b E0; injection E0; auto).
    apply Hvo in H. subst vo. clear Hvo.
    cbn [fst v_tr v_def] in Etr, Hsep.
    exists sep, ops2. split; [exact Fops|]. split; [exact Hsep|].
    cbv zeta. cbn [vo_state vo_chal vo_ipp_chal vo_padded v_tr].
    unfold innerproduct_domain_sep, append_point, append_scalar, append_u64, append_message in *.
    unfold head_ops, tail_ops. cbn [firstn].
    rewrite Etr16, Eus, Etr. rewrite <- !app_assoc. cbn [app].
    repeat split; try reflexivity.
  Qed.

  (* the schedule is unambiguous: the op lists determine every absorbed object *)
  Theorem tail_ops_injective (p p' : proof_t) (pn pn' : nat) :
    tail_ops p pn = tail_ops p' pn' ->
    A_I2 p = A_I2 p' /\ A_O2 p = A_O2 p' /\ S2 p = S2 p' /\ T_1 p = T_1 p' /\ T_3 p = T_3 p' /\ T_4 p = T_4 p'
    /\ T_5 p = T_5 p' /\ T_6 p = T_6 p' /\ t_x p = t_x p' /\ t_x_blinding p = t_x_blinding p'
    /\ e_blinding p = e_blinding p' /\ pn = pn'.
  Proof. unfold tail_ops. intros E. inversion E. repeat split; auto. Qed.

  Theorem ipp_ops_injective : forall Ls Rs Ls' Rs',
    length Rs = length Ls -> length Rs' = length Ls' -> ipp_ops Ls Rs = ipp_ops Ls' Rs' -> Ls = Ls' /\ Rs = Rs'.
  Proof.
    induction Ls as [|L Ls IH]; intros [|R Rs] [|L' Ls'] [|R' Rs'] H1 H2 E; simpl in *; try discriminate; auto.
    inversion E; subst. destruct (IH Rs Ls' Rs') as [-> ->]; auto.
  Qed.
End ScheduleLemmas.
