(* Proofs/CodecFast.v — an early-exit Vec reader, equal to the model's on every input.  The model's
   read_points recurses on the claimed count (as the code loops); evaluating it inside Coq on a hostile
   count of 2^64 would build a unary number, so Run/ executes this equal function instead. *)
Require Export BP.Proofs.CodecLemmas.
Require Import Lia.

Section CodecFast.
  Context {K : FieldOps} {MO : ModOps K}.
  Variables (PS SS : nat).
  Variable dec_pt : list Z -> option MO. Variable dec_sc : list Z -> option K.
  Hypothesis PS_pos : 0 < PS. Hypothesis SS_pos : 0 < SS.
  Notation read_pt := (read_pt PS dec_pt). Notation read_points := (read_points PS dec_pt).
  Notation read_vec := (read_vec PS dec_pt). Notation read_vec_fast := (read_vec_fast PS dec_pt).
  Notation decode_r_fast := (decode_r_fast PS SS dec_pt dec_sc).

  Lemma read_points_short : forall len bs, length bs < len * PS -> read_points len bs = None.
  Proof.
    induction len as [|len IH]; intros bs H; [lia|].
    cbn [Codec.read_points]. unfold rbind at 1. unfold Codec.read_pt.
    destruct (Nat.ltb (length bs) PS) eqn:E; [reflexivity|]. apply Nat.ltb_ge in E.
    destruct (dec_pt (firstn PS bs)); [|reflexivity].
    unfold rbind. rewrite IH; [reflexivity|]. rewrite skipn_length. cbn [Nat.mul] in H. lia.
  Qed.

  Lemma Forall_firstn {A} (P : A -> Prop) n : forall l, Forall P l -> Forall P (firstn n l).
  Proof. induction n; intros l H; [constructor|]. destruct H; cbn [firstn]; constructor; auto. Qed.

  Lemma le_val_nonneg : forall bs, Forall (fun b => (0 <= b)%Z) bs -> (0 <= le_val bs)%Z.
  Proof. induction 1; cbn [le_val]; lia. Qed.

  Lemma read_vec_fast_eq bs : Forall (fun b => (0 <= b)%Z) bs -> read_vec_fast bs = read_vec bs.
  Proof.
    intros Hb. unfold Codec.read_vec_fast, Codec.read_vec, rbind, read_u64.
    destruct (Nat.ltb (length bs) 8) eqn:E; [reflexivity|].
    destruct (Z.ltb_spec (Z.of_nat (length bs - 8)) (le_val (firstn 8 bs) * Z.of_nat PS)) as [Hlt|Hge]; [|reflexivity].
    symmetry. apply read_points_short. rewrite skipn_length.
    assert (H0 : (0 <= le_val (firstn 8 bs))%Z) by (apply le_val_nonneg, Forall_firstn; exact Hb).
    apply Nat2Z.inj_lt. rewrite Nat2Z.inj_mul, Z2Nat.id by exact H0. exact Hlt.
  Qed.

  Definition nonneg (bs : list Z) : Prop := Forall (fun b => (0 <= b)%Z) bs.

  Lemma nonneg_rest {A} (r : reader A) bs v rest : good r -> r bs = Some (v, rest) -> nonneg bs -> nonneg rest.
  Proof. intros Hg E H. destruct (Hg _ _ _ E) as [[u ->] _]. apply Forall_app in H. tauto. Qed.

  Ltac step_fixed H :=
    match goal with
    | |- context [Codec.read_pt PS dec_pt ?b] =>
      let E := fresh "E" in destruct (Codec.read_pt PS dec_pt b) as [[? ?]|] eqn:E; [|reflexivity];
      apply (nonneg_rest _ _ _ _ (good_pt PS SS dec_pt PS_pos SS_pos) E) in H
    | |- context [Codec.read_sc SS dec_sc ?b] =>
      let E := fresh "E" in destruct (Codec.read_sc SS dec_sc b) as [[? ?]|] eqn:E; [|reflexivity];
      apply (nonneg_rest _ _ _ _ (good_sc PS SS dec_sc PS_pos SS_pos) E) in H
    end.

  Theorem decode_r_fast_eq bs : nonneg bs -> decode_r_fast bs = decode_r PS SS dec_pt dec_sc bs.
  Proof.
    intros H. unfold Codec.decode_r_fast, Codec.decode_r, decode_r_gen, rbind.
    do 14 step_fixed H.
    rewrite (read_vec_fast_eq _ H).
    match goal with |- context [Codec.read_vec PS dec_pt ?b] =>
      destruct (Codec.read_vec PS dec_pt b) as [[? ?]|] eqn:EL; [|reflexivity] end.
    apply (nonneg_rest _ _ _ _ (good_vec PS SS dec_pt PS_pos SS_pos) EL) in H.
    rewrite (read_vec_fast_eq _ H). reflexivity.
  Qed.
End CodecFast.
