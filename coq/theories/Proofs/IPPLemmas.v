(* Proofs/IPPLemmas.v — the inner-product argument, all lengths 2^k:
   completeness, fast path = generic rounds on pre-scaled generators, the s vector is explicit
   folding, the verifier's verdict is the explicit-fold relation, uniqueness of P, shape errors. *)
Require Export BP.Model.IPPSpec BP.Proofs.ModLemmas.

Ltac mring := mring_prep; ring.

Section IPPLemmas.
  Context {K : FieldOps} {FL : FieldLaws K} {MO : ModOps K} {ML : ModLaws MO}.
  Add Field Ffi : (@Fth K FL).
  Add Ring Rri : (@Rth K FL MO ML).
  Open Scope F_scope.
  Notation "x +m y" := (madd x y) (at level 50, left associativity).
  Notation "k *s x" := (smul k x) (at level 40).
  Notation tr_t := (transcript K MO).

  (* ================= one round ================= *)
  Section Round.
    Variables (u ui : K).
    Hypothesis Hu : u * ui = f1.
    Let Hs : @rmul K MO (sc u) (sc ui) = r1.
    Proof. rewrite <- sc_mul, Hu; reflexivity. Qed.
    Ltac mring1 := mring_prep; ring [Hs].

    Lemma msm_fold_G : forall (aL aR : list K) (GL GR : list MO),
      length aR = length aL -> length GL = length aL -> length GR = length aL ->
      msm (map2 (fold_a u ui) aL aR) (map2 (fold_G u ui) GL GR) =
      msm aL GL +m (u * u) *s msm aL GR +m (ui * ui) *s msm aR GL +m msm aR GR.
    Proof.
      induction aL as [|x aL IH]; intros [|y aR] [|g GL] [|h GR]; simpl; intros; try discriminate.
      - mring1.
      - rewrite IH by congruence. unfold fold_a, fold_G. mring1.
    Qed.

    Lemma msm_fold_H : forall (bL bR : list K) (HL HR : list MO),
      length bR = length bL -> length HL = length bL -> length HR = length bL ->
      msm (map2 (fold_b u ui) bL bR) (map2 (fold_H u ui) HL HR) =
      msm bL HL +m (ui * ui) *s msm bL HR +m (u * u) *s msm bR HL +m msm bR HR.
    Proof.
      induction bL as [|x bL IH]; intros [|y bR] [|g HL] [|h HR]; simpl; intros; try discriminate.
      - mring1.
      - rewrite IH by congruence. unfold fold_b, fold_H. mring1.
    Qed.

    Lemma ip_fold : forall aL aR bL bR : list K,
      length aR = length aL -> length bL = length aL -> length bR = length aL ->
      ip (map2 (fold_a u ui) aL aR) (map2 (fold_b u ui) bL bR) =
      ip aL bL + (u * u) * ip aL bR + (ui * ui) * ip aR bL + ip aR bR.
    Proof.
      induction aL as [|x aL IH]; intros [|y aR] [|g bL] [|h bR]; simpl; intros; try discriminate.
      - ring.
      - rewrite IH by congruence. unfold fold_a, fold_b. ring [Hu].
    Qed.

    Lemma round_identity (aL aR bL bR : list K) (GL GR HL HR : list MO) (Q : MO) :
      length aR = length aL -> length bL = length aL -> length bR = length aL ->
      length GL = length aL -> length GR = length aL -> length HL = length aL -> length HR = length aL ->
      let P := msm (aL ++ aR) (GL ++ GR) +m msm (bL ++ bR) (HL ++ HR) +m ip (aL ++ aR) (bL ++ bR) *s Q in
      let L := msm aL GR +m msm bR HL +m ip aL bR *s Q in
      let Rr := msm aR GL +m msm bL HR +m ip aR bL *s Q in
      P +m (u * u) *s L +m (ui * ui) *s Rr =
      msm (map2 (fold_a u ui) aL aR) (map2 (fold_G u ui) GL GR)
      +m msm (map2 (fold_b u ui) bL bR) (map2 (fold_H u ui) HL HR)
      +m ip (map2 (fold_a u ui) aL aR) (map2 (fold_b u ui) bL bR) *s Q.
    Proof.
      do 7 intro. cbv zeta.
      rewrite !msm_app, ip_app by congruence. rewrite msm_fold_G, msm_fold_H, ip_fold by congruence.
      mring1.
    Qed.
  End Round.

  (* ================= the argument on a given challenge list ================= *)
  Lemma pow2_S n : (2 ^ S n = 2 * 2 ^ n)%nat. Proof. reflexivity. Qed.

  Theorem ipp_complete_alg : forall (us : list K) (G H : list MO) (a b : list K) (Q : MO),
    (forall u, In u us -> u <> f0) ->
    length a = (2 ^ length us)%nat -> length b = (2 ^ length us)%nat ->
    length G = (2 ^ length us)%nat -> length H = (2 ^ length us)%nat ->
    let '(Ls, Rs, a0, b0) := create_alg us G H a b Q in
    length Ls = length us /\ length Rs = length us /\
    accepts us G H (msm a G +m msm b H +m ip a b *s Q) Ls Rs a0 b0 Q.
  Proof.
    induction us as [|u us IH]; intros G H a b Q Hnz Ha Hb HG HH.
    - simpl in *. destruct a as [|x [|]]; simpl in Ha; try discriminate.
      destruct b as [|y [|]]; simpl in Hb; try discriminate.
      destruct G as [|g [|]]; simpl in HG; try discriminate.
      destruct H as [|h [|]]; simpl in HH; try discriminate.
      simpl. repeat split. mring.
    - assert (Hu : u * finv u = f1) by (apply finv_r; apply Hnz; now left).
      cbn [create_alg]. set (n := (2 ^ length us)%nat) in *.
      assert (E : (2 ^ length (u :: us) = 2 * n)%nat) by (simpl; unfold n; lia).
      rewrite E in *.
      assert (Hha : Nat.div2 (length a) = n) by (rewrite Ha; apply Nat.div2_double).
      assert (HhG : Nat.div2 (length G) = n) by (rewrite HG; apply Nat.div2_double).
      rewrite Hha.
      set (aL := firstn n a); set (aR := skipn n a); set (bL := firstn n b); set (bR := skipn n b).
      set (GL := firstn n G); set (GR := skipn n G); set (HL := firstn n H); set (HR := skipn n H).
      assert (LaL : length aL = n) by (unfold aL; rewrite firstn_length; lia).
      assert (LaR : length aR = n) by (unfold aR; rewrite skipn_length; lia).
      assert (LbL : length bL = n) by (unfold bL; rewrite firstn_length; lia).
      assert (LbR : length bR = n) by (unfold bR; rewrite skipn_length; lia).
      assert (LGL : length GL = n) by (unfold GL; rewrite firstn_length; lia).
      assert (LGR : length GR = n) by (unfold GR; rewrite skipn_length; lia).
      assert (LHL : length HL = n) by (unfold HL; rewrite firstn_length; lia).
      assert (LHR : length HR = n) by (unfold HR; rewrite skipn_length; lia).
      specialize (IH (map2 (fold_G u (finv u)) GL GR) (map2 (fold_H u (finv u)) HL HR)
                     (map2 (fold_a u (finv u)) aL aR) (map2 (fold_b u (finv u)) bL bR) Q).
      destruct (create_alg us _ _ _ _ Q) as [[[Ls Rs] a0] b0].
      destruct IH as (HLs & HRs & Hacc); try (rewrite map2_length_eq; congruence).
      { intros; apply Hnz; now right. }
      simpl length. repeat split; try lia.
      cbn [accepts]. rewrite HhG. fold GL GR HL HR.
      rewrite <- (firstn_skipn n a) at 1 2. rewrite <- (firstn_skipn n b) at 1 2.
      rewrite <- (firstn_skipn n G) at 1. rewrite <- (firstn_skipn n H) at 1.
      fold aL aR bL bR GL GR HL HR.
      rewrite (round_identity u (finv u) Hu aL aR bL bR GL GR HL HR Q) by congruence.
      exact Hacc.
  Qed.

  (* ================= the transcript-threaded rounds compute create_alg ================= *)
  Variable RO : tr_t -> K.

  Lemma rounds_alg : forall k tr Q G H a b,
    let '(Ls, Rs, a0, b0, tr', us) := ipp_rounds RO k tr Q G H a b in
    length us = k /\ create_alg us G H a b Q = (Ls, Rs, a0, b0).
  Proof.
    induction k as [|k IH]; intros tr Q G H a b; cbn [ipp_rounds].
    - split; reflexivity.
    - cbv zeta. unfold challenge.
      match goal with |- context [ipp_rounds RO k ?t Q ?g ?h ?x ?y] => specialize (IH t Q g h x y) end.
      destruct (ipp_rounds RO k _ Q _ _ _ _) as [[[[[Ls Rs] a0] b0] tr3] us].
      destruct IH as [I1 I2]. split; [simpl; congruence|].
      cbn [create_alg]. cbv zeta. rewrite I2. reflexivity.
  Qed.

  (* the verifier's absorb loop re-derives exactly the prover's challenges *)
  Lemma absorb_rounds : forall k tr Q G H a b,
    let '(Ls, Rs, a0, b0, tr', us) := ipp_rounds RO k tr Q G H a b in
    (forall P, In P Ls -> mzerob P = false) -> (forall P, In P Rs -> mzerob P = false) ->
    ipp_absorb RO tr Ls Rs = Some (us, tr').
  Proof.
    induction k as [|k IH]; intros tr Q G H a b; cbn [ipp_rounds].
    - intros _ _. reflexivity.
    - cbv zeta. unfold challenge.
      match goal with |- context [ipp_rounds RO k ?t Q ?g ?h ?x ?y] => specialize (IH t Q g h x y) end.
      destruct (ipp_rounds RO k _ Q _ _ _ _) as [[[[[Ls Rs] a0] b0] tr3] us].
      intros HL HR. cbn [ipp_absorb]. unfold validate_and_append_point, append_point in *.
      rewrite (HL _ (or_introl eq_refl)), (HR _ (or_introl eq_refl)). unfold challenge.
      rewrite IH; [reflexivity | |]; intros; [apply HL | apply HR]; now right.
  Qed.

  (* ================= fast path: unrolled first round = generic round on pre-scaled generators ================= *)
  Lemma map2_firstn {A B C} (f : A -> B -> C) n l r : firstn n (map2 f l r) = map2 f (firstn n l) (firstn n r).
  Proof. revert l r; induction n; intros [|x l] [|y r]; simpl; auto. f_equal; apply IHn. Qed.
  Lemma map2_skipn {A B C} (f : A -> B -> C) n l r : skipn n (map2 f l r) = map2 f (skipn n l) (skipn n r).
  Proof.
    revert l r; induction n; intros [|x l] [|y r]; simpl; auto.
    destruct (skipn n l); reflexivity.
  Qed.

  Lemma pscale_firstn n (c : list K) (G : list MO) : firstn n (pscale c G) = pscale (firstn n c) (firstn n G).
  Proof. apply map2_firstn. Qed.
  Lemma pscale_skipn n (c : list K) (G : list MO) : skipn n (pscale c G) = pscale (skipn n c) (skipn n G).
  Proof. apply map2_skipn. Qed.

  Lemma fold_scaled_G (u ui : K) : forall (gL gR : list K) (GL GR : list MO),
    map2 (fun g gg => ((ui * fst g) *s fst gg) +m ((u * snd g) *s snd gg)) (combine gL gR) (combine GL GR)
    = map2 (fold_G u ui) (pscale gL GL) (pscale gR GR).
  Proof.
    unfold pscale, fold_G.
    induction gL as [|x gL IH]; intros [|y gR] [|g GL] [|h GR]; simpl; auto.
    rewrite IH, !smul_mul. reflexivity.
  Qed.
  Lemma fold_scaled_H (u ui : K) : forall (hL hR : list K) (HL HR : list MO),
    map2 (fun g gg => ((u * fst g) *s fst gg) +m ((ui * snd g) *s snd gg)) (combine hL hR) (combine HL HR)
    = map2 (fold_H u ui) (pscale hL HL) (pscale hR HR).
  Proof.
    unfold pscale, fold_H.
    induction hL as [|x hL IH]; intros [|y hR] [|g HL] [|h HR]; simpl; auto.
    rewrite IH, !smul_mul. reflexivity.
  Qed.

  Lemma log2_pow2 k : Nat.log2 (2 ^ k) = k.
  Proof. apply Nat.log2_pow2. lia. Qed.

  Theorem fast_path : forall k tr Q gf hf G H a b,
    length G = (2 ^ k)%nat -> length H = (2 ^ k)%nat -> length gf = (2 ^ k)%nat -> length hf = (2 ^ k)%nat ->
    length a = (2 ^ k)%nat -> length b = (2 ^ k)%nat ->
    ipp_create RO tr Q gf hf G H a b = ipp_create_generic RO tr Q (pscale gf G) (pscale hf H) a b.
  Proof.
    intros k tr Q gf hf G H a b HG HH Hgf Hhf Ha Hb.
    unfold ipp_create, ipp_create_generic.
    assert (LG : length (pscale gf G) = length G) by (rewrite pscale_length; congruence).
    rewrite LG, HG, log2_pow2.
    destruct k as [|k].
    - cbn [ipp_rounds]. reflexivity.
    - cbn [ipp_rounds]. cbv zeta.
      assert (Hh : Nat.div2 (2 ^ S k) = (2 ^ k)%nat) by (rewrite pow2_S; apply Nat.div2_double).
      rewrite Ha, Hh.
      rewrite !pscale_firstn, !pscale_skipn, <- !msm_vmul_pscale.
      unfold challenge. cbv beta iota zeta.
      rewrite fold_scaled_G, fold_scaled_H.
      destruct (ipp_rounds RO k _ Q _ _ _ _) as [[[[[Ls Rs] a0] b0] tr3] us]. reflexivity.
  Qed.

  (* ================= the s vector ================= *)
  Lemma svec_length (us : list K) : length (svec us) = (2 ^ length us)%nat.
  Proof. induction us; simpl; auto. rewrite app_length, !map_length, IHus. lia. Qed.
  Lemma svec_inv_length (us : list K) : length (svec_inv us) = (2 ^ length us)%nat.
  Proof. induction us; simpl; auto. rewrite app_length, !map_length, IHus. lia. Qed.

  Lemma svec_inv_rev (us : list K) : svec_inv us = rev (svec us).
  Proof.
    induction us as [|u us IH]; simpl; auto.
    rewrite rev_app_distr, <- !map_rev, <- IH. reflexivity.
  Qed.

  Lemma s_build_snoc (l : list K) (q : K) (acc : list K) : s_build (l ++ [q]) acc = s_build l acc ++ map (fun x => x * q) (s_build l acc).
  Proof. revert acc; induction l as [|h l IH]; intros acc; simpl; auto. Qed.

  Lemma s_build_scale (l : list K) (c : K) (acc : list K) : s_build l (map (fmul c) acc) = map (fmul c) (s_build l acc).
  Proof.
    revert acc; induction l as [|h l IH]; intros acc; simpl; auto.
    rewrite <- IH. f_equal. rewrite map_app. f_equal. rewrite !map_map. apply map_ext. intros; ring.
  Qed.


  Lemma s_build_svec (us : list K) :
    (forall u, In u us -> u <> f0) ->
    s_build (rev (map (fun u => u * u) us)) [prod_inv us] = svec us.
  Proof.
    induction us as [|u us IH]; intros Hnz; simpl; auto.
    assert (Hu : u <> f0) by (apply Hnz; now left).
    rewrite s_build_snoc.
    replace [finv u * prod_inv us] with (map (fmul (finv u)) [prod_inv us]) by reflexivity.
    rewrite s_build_scale, IH by (intros; apply Hnz; now right).
    f_equal. rewrite map_map. apply map_ext. intros x. field. exact Hu.
  Qed.

  Lemma allinv_prod (us : list K) :
    (forall u, In u us -> u <> f0) -> allinv_of (map inv_or_zero us) = prod_inv us.
  Proof.
    intros Hnz. unfold allinv_of.
    assert (G : forall acc, fold_left (fun acc f => if feqb f f0 then acc else acc * f) (map inv_or_zero us) acc
                            = acc * prod_inv us).
    { induction us as [|u us IH]; intros acc; simpl; [ring|].
      assert (Hu : u <> f0) by (apply Hnz; now left).
      assert (Ei : inv_or_zero u = finv u) by (unfold inv_or_zero; now rewrite (proj2 (feqb_false u f0) Hu)).
      rewrite Ei. rewrite (proj2 (feqb_false (finv u) f0) (finv_neq_0 u Hu)).
      rewrite IH by (intros; apply Hnz; now right). ring. }
    rewrite G. ring.
  Qed.

  Lemma inv_or_zero_nz (us : list K) : (forall u, In u us -> u <> f0) -> map inv_or_zero us = map finv us.
  Proof.
    intros Hnz. apply map_ext_in. intros u Hu. unfold inv_or_zero.
    now rewrite (proj2 (feqb_false u f0) (Hnz u Hu)).
  Qed.

  Lemma msm_map_fold_G (u ui : K) (s : list K) : forall GL GR : list MO,
    length GL = length s -> length GR = length s ->
    msm s (map2 (fold_G u ui) GL GR) = msm (map (fmul ui) s) GL +m msm (map (fmul u) s) GR.
  Proof.
    induction s as [|x s IH]; intros [|g GL] [|h GR]; simpl; intros; try discriminate.
    - mring.
    - rewrite IH by congruence. unfold fold_G. mring.
  Qed.
  Lemma msm_map_fold_H (u ui : K) (s : list K) : forall HL HR : list MO,
    length HL = length s -> length HR = length s ->
    msm s (map2 (fold_H u ui) HL HR) = msm (map (fmul u) s) HL +m msm (map (fmul ui) s) HR.
  Proof.
    induction s as [|x s IH]; intros [|g HL] [|h HR]; simpl; intros; try discriminate.
    - mring.
    - rewrite IH by congruence. unfold fold_H. mring.
  Qed.

  Lemma foldG_svec : forall (us : list K) (G : list MO), length G = (2 ^ length us)%nat -> foldG us G = msm (svec us) G.
  Proof.
    induction us as [|u us IH]; intros G HG.
    - destruct G as [|g [|]]; simpl in HG; try discriminate. simpl. mring.
    - cbn [foldG svec]. cbv zeta. cbn [length] in HG. rewrite pow2_S in HG.
      assert (Hh : Nat.div2 (length G) = (2 ^ length us)%nat) by (rewrite HG; apply Nat.div2_double).
      rewrite Hh. set (n := (2 ^ length us)%nat) in *.
      assert (L1 : length (firstn n G) = n) by (rewrite firstn_length; lia).
      assert (L2 : length (skipn n G) = n) by (rewrite skipn_length; lia).
      rewrite IH by (rewrite map2_length_eq; congruence).
      rewrite msm_map_fold_G by (rewrite svec_length; assumption).
      rewrite <- (firstn_skipn n G) at 3.
      rewrite msm_app by (rewrite map_length, svec_length; auto). reflexivity.
  Qed.
  Lemma foldH_svec : forall (us : list K) (H : list MO), length H = (2 ^ length us)%nat -> foldH us H = msm (svec_inv us) H.
  Proof.
    induction us as [|u us IH]; intros G HG.
    - destruct G as [|g [|]]; simpl in HG; try discriminate. simpl. mring.
    - cbn [foldH svec_inv]. cbv zeta. cbn [length] in HG. rewrite pow2_S in HG.
      assert (Hh : Nat.div2 (length G) = (2 ^ length us)%nat) by (rewrite HG; apply Nat.div2_double).
      rewrite Hh. set (n := (2 ^ length us)%nat) in *.
      assert (L1 : length (firstn n G) = n) by (rewrite firstn_length; lia).
      assert (L2 : length (skipn n G) = n) by (rewrite skipn_length; lia).
      rewrite IH by (rewrite map2_length_eq; congruence).
      rewrite msm_map_fold_H by (rewrite svec_inv_length; assumption).
      rewrite <- (firstn_skipn n G) at 3.
      rewrite msm_app by (rewrite map_length, svec_inv_length; auto). reflexivity.
  Qed.

  (* the acceptance relation as one equation *)
  Lemma accepts_iff : forall (us : list K) (G H : list MO) (P : MO) (Ls Rs : list MO) (a0 b0 : K) (Q : MO),
    length H = length G -> length Ls = length us -> length Rs = length us ->
    (accepts us G H P Ls Rs a0 b0 Q <->
     P +m msm (map (fun u => u * u) us) Ls +m msm (map (fun u => finv u * finv u) us) Rs
     = a0 *s foldG us G +m b0 *s foldH us H +m (a0 * b0) *s Q).
  Proof.
    induction us as [|u us IH]; intros G H P [|L Ls] [|Rr Rs] a0 b0 Q HGH HL HR; simpl in HL, HR; try discriminate.
    - simpl. rewrite !madd_0_r. reflexivity.
    - cbn [accepts foldG foldH map msm]. cbv zeta. rewrite HGH.
      rewrite IH; try congruence.
      + split; intros E.
        * rewrite <- E. mring.
        * rewrite <- E. mring.
      + rewrite !map2_length, !firstn_length, !skipn_length, HGH. reflexivity.
  Qed.

  (* ================= the verifier ================= *)
  Variable meqb : MO -> MO -> bool.
  Hypothesis meqb_spec : forall x y, meqb x y = true <-> x = y.

  Definition all_nonzero (us : list K) := forall u, In u us -> u <> f0.
  Definition no_identity (l : list MO) := forall P, In P l -> mzerob P = false.

  Lemma absorb_length : forall Ls Rs tr us tr',
    length Rs = length Ls -> ipp_absorb RO tr Ls Rs = Some (us, tr') -> length us = length Ls.
  Proof.
    induction Ls as [|L Ls IH]; intros [|Rr Rs] tr us tr' HL E; simpl in HL; try discriminate.
    - simpl in E. inversion E. reflexivity.
    - cbn [ipp_absorb] in E.
      destruct (validate_and_append_point tr "L" L) as [t1|]; [|discriminate].
      destruct (validate_and_append_point t1 "R" Rr) as [t2|]; [|discriminate].
      unfold challenge in E.
      destruct (ipp_absorb RO (t2 ++ [Chal "u"]) Ls Rs) as [[us' t4]|] eqn:E2; [|discriminate].
      inversion E; subst. simpl. f_equal. eapply IH; [|exact E2]. congruence.
  Qed.

  Lemma msm_gas (a0 : K) : forall (gf s : list K) (G : list MO),
    length gf = length G -> length s = length G ->
    msm (firstn (length G) (map2 (fun g s_i => (a0 * s_i) * g) gf s)) G = a0 *s msm s (pscale gf G).
  Proof.
    intros gf s G H1 H2. rewrite <- msm_firstn_l. unfold pscale.
    revert s G H1 H2; induction gf as [|g gf IH]; intros [|x s] [|h G] H1 H2; simpl in *; try discriminate.
    - mring.
    - rewrite IH by congruence. mring.
  Qed.
  Lemma msm_hbs (b0 : K) : forall (hf s : list K) (H : list MO),
    length hf = length H -> length s = length H ->
    msm (map2 (fun h s_i => (b0 * s_i) * h) hf s) H = b0 *s msm s (pscale hf H).
  Proof.
    unfold pscale.
    induction hf as [|g hf IH]; intros [|x s] [|h G] H1 H2; simpl in *; try discriminate.
    - mring.
    - rewrite IH by congruence. mring.
  Qed.

  (* the verdict of InnerProductProof::verify is the explicit-fold relation on the scaled generators *)
  Theorem verify_is_explicit_fold : forall tr n (p : ipp_proof K MO) gf hf P Q G H us tr',
    let k := length (ipp_L p) in
    (k < 32)%nat -> length (ipp_R p) = k -> n = (2 ^ k)%nat ->
    length G = n -> length H = n -> length gf = n -> length hf = n ->
    ipp_absorb RO (innerproduct_domain_sep tr n) (ipp_L p) (ipp_R p) = Some (us, tr') ->
    all_nonzero us ->
    (ipp_verify RO meqb tr n p gf hf P Q G H = Ok tt <->
     accepts us (pscale gf G) (pscale hf H) P (ipp_L p) (ipp_R p) (ipp_a p) (ipp_b p) Q).
  Proof.
    intros tr n p gf hf P Q G H us tr' k Hk HR Hn HG HH Hgf Hhf Habs Hnz.
    unfold ipp_verify, ipp_verification_scalars. fold k.
    assert (E1 : Nat.leb 32 k = false) by (apply Nat.leb_gt; exact Hk).
    rewrite E1, HR, Nat.eqb_refl, Hn, Nat.eqb_refl. cbn [negb].
    rewrite <- Hn, Habs.
    assert (Lus : length us = k) by (eapply absorb_length; [|exact Habs]; exact HR).
    rewrite allinv_prod, inv_or_zero_nz, s_build_svec by assumption.
    assert (Ls : length (svec us) = n) by (rewrite svec_length, Lus; auto).
    rewrite msm_gas, msm_hbs by (rewrite ?rev_length; congruence).
    rewrite <- svec_inv_rev.
    rewrite accepts_iff by (unfold k in *; rewrite ?pscale_length; congruence).
    rewrite <- foldG_svec, <- foldH_svec by (rewrite pscale_length; congruence).
    replace (map (fun u => u * u) (map finv us)) with (map (fun u => finv u * finv u) us) by (now rewrite map_map).
    assert (EL : msm (map fopp (map (fun u => u * u) us)) (ipp_L p) = mopp (msm (map (fun u => u * u) us) (ipp_L p)))
      by apply msm_vopp.
    assert (ER : msm (map fopp (map (fun u => finv u * finv u) us)) (ipp_R p) = mopp (msm (map (fun u => finv u * finv u) us) (ipp_R p)))
      by apply msm_vopp.
    rewrite EL, ER.
    set (X := msm (map (fun u => u * u) us) (ipp_L p)). set (Y := msm (map (fun u => finv u * finv u) us) (ipp_R p)).
    set (A := foldG us (pscale gf G)). set (Bf := foldH us (pscale hf H)).
    destruct (meqb _ P) eqn:Em.
    - apply meqb_spec in Em. split; [intros _|reflexivity]. rewrite <- Em. mring.
    - split; [discriminate|]. intros E. exfalso.
      assert (Em' : meqb ((ipp_a p * ipp_b p) *s Q +m ipp_a p *s A +m ipp_b p *s Bf +m mopp X +m mopp Y) P = true).
      { apply meqb_spec. apply (madd_cancel_r _ _ Y). apply (madd_cancel_r _ _ X).
        replace (P +m Y +m X) with (P +m X +m Y) by mring. rewrite E. mring. }
      congruence.
  Qed.

  (* completeness of the whole argument, through the real entry points *)
  Theorem ipp_complete : forall k tr Q gf hf G H a b,
    (k < 32)%nat ->
    length G = (2 ^ k)%nat -> length H = (2 ^ k)%nat -> length gf = (2 ^ k)%nat -> length hf = (2 ^ k)%nat ->
    length a = (2 ^ k)%nat -> length b = (2 ^ k)%nat ->
    let '(p, tr', us) := ipp_create RO tr Q gf hf G H a b in
    all_nonzero us -> no_identity (ipp_L p) -> no_identity (ipp_R p) ->
    length (ipp_L p) = k /\ length (ipp_R p) = k /\
    ipp_verify RO meqb tr (2 ^ k) p gf hf
               (msm a (pscale gf G) +m msm b (pscale hf H) +m ip a b *s Q) Q G H = Ok tt.
  Proof.
    intros k tr Q gf hf G H a b Hk HG HH Hgf Hhf Ha Hb.
    rewrite (fast_path k) by assumption.
    unfold ipp_create_generic.
    assert (LG : length (pscale gf G) = (2 ^ k)%nat) by (rewrite pscale_length; congruence).
    assert (LH : length (pscale hf H) = (2 ^ k)%nat) by (rewrite pscale_length; congruence).
    rewrite LG, log2_pow2.
    pose proof (rounds_alg k (innerproduct_domain_sep tr (2 ^ k)) Q (pscale gf G) (pscale hf H) a b) as HA.
    pose proof (absorb_rounds k (innerproduct_domain_sep tr (2 ^ k)) Q (pscale gf G) (pscale hf H) a b) as HB.
    destruct (ipp_rounds RO k _ Q _ _ a b) as [[[[[Ls Rs] a0] b0] tr3] us].
    destruct HA as [Lus HA]. intros Hnz HnL HnR. cbn [ipp_L ipp_R] in *.
    pose proof (ipp_complete_alg us (pscale gf G) (pscale hf H) a b Q Hnz) as HC.
    rewrite HA, Lus in HC. destruct HC as (L1 & L2 & Hacc); try assumption.
    split; [exact L1 | split; [exact L2|]].
    refine (proj2 (verify_is_explicit_fold tr (2 ^ k) (mkIPP Ls Rs a0 b0) gf hf _ Q G H us tr3
              _ _ _ HG HH Hgf Hhf _ Hnz) Hacc); cbn [ipp_L ipp_R].
    - lia.
    - congruence.
    - congruence.
    - apply HB; assumption.
  Qed.

  (* the verdict pins P: at most one P is accepted for given proof and transcript *)
  Theorem verify_P_unique : forall tr n p gf hf P P' Q G H,
    ipp_verify RO meqb tr n p gf hf P Q G H = Ok tt ->
    ipp_verify RO meqb tr n p gf hf P' Q G H = Ok tt -> P = P'.
  Proof.
    intros tr n p gf hf P P' Q G H. unfold ipp_verify.
    destruct (ipp_verification_scalars RO tr n p) as [[[[[usq uisq] s] t] us]|e]; [|discriminate].
    destruct (meqb _ P) eqn:E1; [|discriminate]. destruct (meqb _ P') eqn:E2; [|discriminate].
    apply meqb_spec in E1. apply meqb_spec in E2. congruence.
  Qed.

  (* shape errors come before any indexing; degenerate rounds are rejected *)
  Theorem verify_shape : forall tr n (p : ipp_proof K MO),
    (32 <= length (ipp_L p))%nat \/ length (ipp_R p) <> length (ipp_L p) \/ n <> (2 ^ length (ipp_L p))%nat ->
    ipp_verification_scalars RO tr n p = Err EVerification.
  Proof.
    intros tr n p H. unfold ipp_verification_scalars.
    destruct (Nat.leb 32 (length (ipp_L p))) eqn:E1; [reflexivity|].
    apply Nat.leb_gt in E1.
    destruct (Nat.eqb (length (ipp_R p)) (length (ipp_L p))) eqn:E2; [|reflexivity].
    apply Nat.eqb_eq in E2.
    destruct (Nat.eqb n (2 ^ length (ipp_L p))) eqn:E3; [|reflexivity].
    apply Nat.eqb_eq in E3. destruct H as [H|[H|H]]; [lia | contradiction | contradiction].
  Qed.

  Lemma absorb_identity : forall Ls Rs tr,
    length Rs = length Ls ->
    (exists P, (In P Ls \/ In P Rs) /\ mzerob P = true) -> ipp_absorb RO tr Ls Rs = None.
  Proof.
    induction Ls as [|L Ls IH]; intros [|Rr Rs] tr HL [P [HP HZ]]; simpl in HL; try discriminate.
    - destruct HP as [[]|[]].
    - cbn [ipp_absorb]. unfold validate_and_append_point.
      destruct (mzerob L) eqn:EL; [reflexivity|].
      destruct (mzerob Rr) eqn:ER; [reflexivity|].
      unfold challenge. rewrite IH; [reflexivity | congruence |].
      exists P. split; [|exact HZ].
      destruct HP as [[->|HP]|[->|HP]]; try congruence; auto.
  Qed.

  Theorem verify_degenerate_rejected : forall tr n (p : ipp_proof K MO),
    (exists P, (In P (ipp_L p) \/ In P (ipp_R p)) /\ mzerob P = true) ->
    ipp_verification_scalars RO tr n p = Err EVerification.
  Proof.
    intros tr n p H. unfold ipp_verification_scalars.
    destruct (Nat.leb 32 (length (ipp_L p))); [reflexivity|].
    destruct (Nat.eqb (length (ipp_R p)) (length (ipp_L p))) eqn:E2; [|reflexivity].
    apply Nat.eqb_eq in E2. cbn [negb].
    destruct (negb (Nat.eqb n (2 ^ length (ipp_L p)))); [reflexivity|].
    rewrite absorb_identity; auto.
  Qed.
End IPPLemmas.
