(* Proofs/CodecLemmas.v — C11 / C08 (decoding): round trip (with any suffix), shape-determined size,
   every strict prefix rejected, exact consumption (decoded size bounded by the input), invalid
   elements rejected, canonical form of everything that decodes. *)
Require Export BP.Model.Codec.
Require Import Lia.

Section CodecLemmas.
  Context {K : FieldOps} {MO : ModOps K}.
  Variables (PS SS : nat).
  Variable enc_pt : MO -> list Z. Variable dec_pt : list Z -> option MO.
  Variable enc_sc : K -> list Z.  Variable dec_sc : list Z -> option K.
  Hypothesis PS_pos : 0 < PS. Hypothesis SS_pos : 0 < SS.
  Hypothesis enc_pt_len : forall P, length (enc_pt P) = PS.
  Hypothesis enc_sc_len : forall x, length (enc_sc x) = SS.
  Hypothesis dec_enc_pt : forall P, dec_pt (enc_pt P) = Some P.
  Hypothesis dec_enc_sc : forall x, dec_sc (enc_sc x) = Some x.
  Notation proof_t := (r1cs_proof K MO).
  Notation read_pt := (read_pt PS dec_pt). Notation read_sc := (read_sc SS dec_sc).
  Notation read_points := (read_points PS dec_pt). Notation read_vec := (read_vec PS dec_pt).
  Notation decode_r := (decode_r PS SS dec_pt dec_sc). Notation decode := (decode PS SS dec_pt dec_sc).
  Notation encode := (encode enc_pt enc_sc). Notation enc_vec := (enc_vec enc_pt).

  (* a reader is "good": it consumes a prefix, and behaves the same when more bytes follow *)
  Definition good {A} (r : reader A) : Prop :=
    forall bs v rest, r bs = Some (v, rest) ->
      (exists used, bs = used ++ rest) /\ forall ext, r (bs ++ ext) = Some (v, rest ++ ext).

  Lemma good_ret {A} (a : A) : good (rret a).
  Proof. intros bs v rest H. inversion H; subst. split; [exists []; reflexivity | reflexivity]. Qed.

  Lemma good_bind {A C} (r : reader A) (f : A -> reader C) : good r -> (forall a, good (f a)) -> good (rbind r f).
  Proof.
    intros Hr Hf bs v rest H. unfold rbind in *. destruct (r bs) as [[a rest1]|] eqn:E; [|discriminate].
    destruct (Hr _ _ _ E) as [[u1 E1] X1]. destruct (Hf a _ _ _ H) as [[u2 E2] X2].
    split; [exists (u1 ++ u2); subst; now rewrite <- app_assoc|].
    intros ext. rewrite X1. apply X2.
  Qed.

  Lemma good_fixed {A} (W : nat) (dec : list Z -> option A) :
    good (fun bs => if Nat.ltb (length bs) W then None else
                    match dec (firstn W bs) with Some x => Some (x, skipn W bs) | None => None end).
  Proof.
    intros bs v rest H. destruct (Nat.ltb (length bs) W) eqn:E; [discriminate|]. apply Nat.ltb_ge in E.
    destruct (dec (firstn W bs)) eqn:Ed; [|discriminate]. inversion H; subst.
    split; [exists (firstn W bs); symmetry; apply firstn_skipn|].
    intros ext. rewrite app_length. replace (Nat.ltb (length bs + length ext) W) with false by (symmetry; apply Nat.ltb_ge; lia).
    rewrite firstn_app. replace (W - length bs) with 0 by lia. cbn [firstn]. rewrite app_nil_r, Ed.
    rewrite skipn_app. replace (W - length bs) with 0 by lia. reflexivity.
  Qed.

  Lemma good_pt : good read_pt. Proof. apply good_fixed. Qed.
  Lemma good_sc : good read_sc. Proof. apply good_fixed. Qed.
  Lemma good_u64 : good read_u64.
  Proof.
    intros bs v rest H. unfold read_u64 in *. destruct (Nat.ltb (length bs) 8) eqn:E; [discriminate|]. apply Nat.ltb_ge in E.
    inversion H; subst. split; [exists (firstn 8 bs); symmetry; apply firstn_skipn|].
    intros ext. rewrite app_length. replace (Nat.ltb (length bs + length ext) 8) with false by (symmetry; apply Nat.ltb_ge; lia).
    rewrite firstn_app, skipn_app. replace (8 - length bs) with 0 by lia. cbn [firstn skipn]. now rewrite app_nil_r.
  Qed.
  Lemma good_points : forall len, good (read_points len).
  Proof.
    induction len; cbn [Codec.read_points]; [apply good_ret|].
    apply good_bind; [apply good_pt|]. intros P. apply good_bind; [exact IHlen|]. intros Ps. apply good_ret.
  Qed.
  Lemma good_vec : good read_vec.
  Proof. apply good_bind; [apply good_u64 | apply good_points]. Qed.

  Lemma good_decode : good decode_r.
  Proof.
    unfold Codec.decode_r, Codec.decode_r_gen.
    repeat (apply good_bind; [first [apply good_pt | apply good_sc | apply good_vec]|intros ?]).
    apply good_ret.
  Qed.

  Lemma firstn_exact {A} (l r : list A) n : length l = n -> firstn n (l ++ r) = l.
  Proof. intros <-. rewrite firstn_app, Nat.sub_diag, firstn_O, app_nil_r. apply firstn_all. Qed.
  Lemma skipn_exact {A} (l r : list A) n : length l = n -> skipn n (l ++ r) = r.
  Proof. intros <-. rewrite skipn_app, Nat.sub_diag, skipn_all. reflexivity. Qed.

  (* ---- reading back what was written ---- *)
  Lemma read_pt_enc P rest : read_pt (enc_pt P ++ rest) = Some (P, rest).
  Proof.
    unfold Codec.read_pt. rewrite app_length, enc_pt_len.
    replace (Nat.ltb (PS + length rest) PS) with false by (symmetry; apply Nat.ltb_ge; lia).
    rewrite (firstn_exact _ _ _ (enc_pt_len P)), dec_enc_pt, (skipn_exact _ _ _ (enc_pt_len P)). reflexivity.
  Qed.
  Lemma read_sc_enc x rest : read_sc (enc_sc x ++ rest) = Some (x, rest).
  Proof.
    unfold Codec.read_sc. rewrite app_length, enc_sc_len.
    replace (Nat.ltb (SS + length rest) SS) with false by (symmetry; apply Nat.ltb_ge; lia).
    rewrite (firstn_exact _ _ _ (enc_sc_len x)), dec_enc_sc, (skipn_exact _ _ _ (enc_sc_len x)). reflexivity.
  Qed.

  Lemma le_enc_length n z : length (le_enc n z) = n.
  Proof. revert z; induction n; intros z; simpl; auto. Qed.
  Lemma le_val_enc n : forall z, (0 <= z < 256 ^ Z.of_nat n)%Z -> le_val (le_enc n z) = z.
  Proof.
    induction n as [|n IH]; intros z Hz.
    - simpl in *. lia.
    - cbn [le_enc le_val]. rewrite IH.
      + pose proof (Z.div_mod z 256 ltac:(lia)). lia.
      + rewrite Nat2Z.inj_succ, Z.pow_succ_r in Hz by lia.
        split; [apply Z.div_pos; lia | apply Z.div_lt_upper_bound; lia].
  Qed.

  Lemma read_points_enc : forall l rest, read_points (length l) (flat_map enc_pt l ++ rest) = Some (l, rest).
  Proof.
    induction l as [|P l IH]; intros rest; cbn [length Codec.read_points flat_map]; [reflexivity|].
    unfold rbind. rewrite <- app_assoc, read_pt_enc, IH. reflexivity.
  Qed.

  Lemma read_vec_enc l rest : (Z.of_nat (length l) < 256 ^ 8)%Z -> read_vec (enc_vec l ++ rest) = Some (l, rest).
  Proof.
    intros Hl. unfold Codec.read_vec, rbind, read_u64, Codec.enc_vec.
    rewrite <- app_assoc. rewrite app_length, le_enc_length.
    replace (Nat.ltb (8 + _) 8) with false by (symmetry; apply Nat.ltb_ge; lia).
    rewrite (firstn_exact _ _ _ (le_enc_length 8 _)), (skipn_exact _ _ _ (le_enc_length 8 _)).
    rewrite le_val_enc by (simpl; lia). rewrite Nat2Z.id.
    apply read_points_enc.
  Qed.

  Definition small_lists (p : proof_t) : Prop :=
    (Z.of_nat (length (ipp_L (ipp p))) < 256 ^ 8)%Z /\ (Z.of_nat (length (ipp_R (ipp p))) < 256 ^ 8)%Z.

  (* C11_roundtrip / C11_suffix *)
  Theorem decode_encode_suffix (p : proof_t) (suffix : list Z) :
    small_lists p -> decode_r (encode p ++ suffix) = Some (p, suffix).
  Proof.
    intros [HL HR]. unfold Codec.decode_r, Codec.decode_r_gen, Codec.encode, rbind. rewrite <- !app_assoc.
    rewrite !read_pt_enc, !read_sc_enc.
    rewrite (read_vec_enc _ _ HL), (read_vec_enc _ _ HR), !read_sc_enc.
    unfold rret. destruct p as [? ? ? ? ? ? ? ? ? ? ? ? ? ? [? ? ? ?]]. reflexivity.
  Qed.

  Corollary decode_encode (p : proof_t) : small_lists p -> decode (encode p) = Some p.
  Proof.
    intros H. unfold Codec.decode. rewrite <- (app_nil_r (encode p)). now rewrite decode_encode_suffix.
  Qed.

  (* C11_length *)
  Lemma flat_map_enc_length l : length (flat_map enc_pt l) = length l * PS.
  Proof. induction l; simpl; auto. rewrite app_length, enc_pt_len, IHl. lia. Qed.

  Theorem encode_length (p : proof_t) :
    length (encode p) = encoded_size PS SS (length (ipp_L (ipp p))) (length (ipp_R (ipp p))).
  Proof.
    unfold Codec.encode, Codec.enc_vec, encoded_size.
    rewrite !app_length, !enc_pt_len, !enc_sc_len, !le_enc_length, !flat_map_enc_length. lia.
  Qed.

  (* C11_strict_prefix_rejected *)
  Theorem strict_prefix_rejected (p : proof_t) (k : nat) :
    small_lists p -> k < length (encode p) -> decode (firstn k (encode p)) = None.
  Proof.
    intros Hs Hk. unfold Codec.decode.
    destruct (decode_r (firstn k (encode p))) as [[p' rest]|] eqn:E; [exfalso|reflexivity].
    destruct (good_decode _ _ _ E) as [_ X]. specialize (X (skipn k (encode p))).
    rewrite firstn_skipn in X.
    pose proof (decode_encode_suffix p [] Hs) as Y. rewrite app_nil_r in Y. rewrite Y in X.
    inversion X as [[Hp Hr]]. symmetry in Hr. apply app_eq_nil in Hr. destruct Hr as [_ Hr].
    try subst p'. apply (f_equal (@length Z)) in Hr. rewrite skipn_length in Hr. cbn [length] in Hr. lia.
  Qed.

  (* C08_decode_linear: exact consumption — whatever decodes, the input is at least as long as its
     shape-determined size; in particular |L| + |R| <= |input| / PS whatever the length prefixes claim *)
  Definition consumes {A} (r : reader A) (size : A -> nat) : Prop :=
    forall bs v rest, r bs = Some (v, rest) -> length bs = size v + length rest.

  Lemma consumes_bind {A C} (r : reader A) (f : A -> reader C) sa sc :
    consumes r sa -> (forall a, consumes (f a) (fun c => sc a c)) ->
    forall bs v rest, rbind r f bs = Some (v, rest) -> exists a, length bs = sa a + sc a v + length rest.
  Proof.
    intros Hr Hf bs v rest H. unfold rbind in H. destruct (r bs) as [[a r1]|] eqn:E; [|discriminate].
    exists a. rewrite (Hr _ _ _ E), (Hf a _ _ _ H). lia.
  Qed.

  Lemma consumes_pt : consumes read_pt (fun _ => PS).
  Proof.
    intros bs v rest H. unfold Codec.read_pt in H. destruct (Nat.ltb (length bs) PS) eqn:E; [discriminate|]. apply Nat.ltb_ge in E.
    destruct (dec_pt _); [|discriminate]. inversion H; subst. rewrite skipn_length. lia.
  Qed.
  Lemma consumes_sc : consumes read_sc (fun _ => SS).
  Proof.
    intros bs v rest H. unfold Codec.read_sc in H. destruct (Nat.ltb (length bs) SS) eqn:E; [discriminate|]. apply Nat.ltb_ge in E.
    destruct (dec_sc _); [|discriminate]. inversion H; subst. rewrite skipn_length. lia.
  Qed.
  Lemma consumes_points : forall len, consumes (read_points len) (fun l => length l * PS).
  Proof.
    induction len as [|len IH]; intros bs v rest H; cbn [Codec.read_points] in H.
    - inversion H; subst. simpl. lia.
    - unfold rbind in H. destruct (read_pt bs) as [[P r1]|] eqn:E1; [|discriminate].
      destruct (read_points len r1) as [[Ps r2]|] eqn:E2; [|discriminate]. inversion H; subst.
      rewrite (consumes_pt _ _ _ E1), (IH _ _ _ E2). simpl. lia.
  Qed.
  Lemma consumes_vec : consumes read_vec (fun l => 8 + length l * PS).
  Proof.
    intros bs v rest H. unfold Codec.read_vec, rbind, read_u64 in H.
    destruct (Nat.ltb (length bs) 8) eqn:E; [discriminate|]. apply Nat.ltb_ge in E.
    pose proof (consumes_points _ _ _ _ H) as Hc. rewrite skipn_length in Hc. lia.
  Qed.

  Theorem decode_consumption bs (p : proof_t) rest :
    decode_r bs = Some (p, rest) ->
    length bs = encoded_size PS SS (length (ipp_L (ipp p))) (length (ipp_R (ipp p))) + length rest.
  Proof.
    unfold Codec.decode_r, Codec.decode_r_gen, rbind, rret. intros H.
    repeat match type of H with
           | match read_pt ?b with _ => _ end = _ =>
             let E := fresh "E" in destruct (read_pt b) as [[? ?]|] eqn:E; [apply consumes_pt in E|discriminate]
           | match read_sc ?b with _ => _ end = _ =>
             let E := fresh "E" in destruct (read_sc b) as [[? ?]|] eqn:E; [apply consumes_sc in E|discriminate]
           | match read_vec ?b with _ => _ end = _ =>
             let E := fresh "E" in destruct (read_vec b) as [[? ?]|] eqn:E; [apply consumes_vec in E|discriminate]
           end.
    inversion H; subst. cbn [ipp ipp_L ipp_R]. unfold encoded_size. lia.
  Qed.

  (* C11_bad_element_rejected: an element the codec rejects makes the whole decode fail, wherever it sits *)
  Theorem bad_point_rejected (pre chunk post : list Z) :
    length chunk = PS -> dec_pt chunk = None -> read_pt (chunk ++ post) = None.
  Proof.
    intros Hl Hd. unfold Codec.read_pt. rewrite app_length.
    replace (Nat.ltb (length chunk + length post) PS) with false by (symmetry; apply Nat.ltb_ge; lia).
    rewrite (firstn_exact _ _ _ Hl), Hd. reflexivity.
  Qed.
  Theorem bad_scalar_rejected (chunk post : list Z) :
    length chunk = SS -> dec_sc chunk = None -> read_sc (chunk ++ post) = None.
  Proof.
    intros Hl Hd. unfold Codec.read_sc. rewrite app_length.
    replace (Nat.ltb (length chunk + length post) SS) with false by (symmetry; apply Nat.ltb_ge; lia).
    rewrite (firstn_exact _ _ _ Hl), Hd. reflexivity.
  Qed.
  (* a failing reader anywhere in the chain fails the chain *)
  Theorem failure_propagates {A C} (r : reader A) (f : A -> reader C) bs : r bs = None -> rbind r f bs = None.
  Proof. intros H. unfold rbind. now rewrite H. Qed.
  Theorem failure_propagates_after {A C} (r : reader A) (f : A -> reader C) bs a rest :
    r bs = Some (a, rest) -> f a rest = None -> rbind r f bs = None.
  Proof. intros H1 H2. unfold rbind. now rewrite H1. Qed.

  (* with canonical element codecs (a chunk decodes only if it IS the encoding), everything that decodes
     is the canonical encoding followed by the unread suffix: C04's "identical object" clause *)
  Hypothesis canon_pt : forall c P, length c = PS -> dec_pt c = Some P -> c = enc_pt P.
  Hypothesis canon_sc : forall c x, length c = SS -> dec_sc c = Some x -> c = enc_sc x.

  Lemma read_pt_canon bs P rest : read_pt bs = Some (P, rest) -> bs = enc_pt P ++ rest.
  Proof.
    unfold Codec.read_pt. destruct (Nat.ltb (length bs) PS) eqn:E; [discriminate|]. apply Nat.ltb_ge in E.
    destruct (dec_pt (firstn PS bs)) eqn:Ed; [|discriminate]. intros H; inversion H; subst.
    assert (Hc : firstn PS bs = enc_pt P) by (apply canon_pt; [rewrite firstn_length; lia | exact Ed]).
    rewrite <- Hc. symmetry. apply firstn_skipn.
  Qed.
  Lemma read_sc_canon bs x rest : read_sc bs = Some (x, rest) -> bs = enc_sc x ++ rest.
  Proof.
    unfold Codec.read_sc. destruct (Nat.ltb (length bs) SS) eqn:E; [discriminate|]. apply Nat.ltb_ge in E.
    destruct (dec_sc (firstn SS bs)) eqn:Ed; [|discriminate]. intros H; inversion H; subst.
    assert (Hc : firstn SS bs = enc_sc x) by (apply canon_sc; [rewrite firstn_length; lia | exact Ed]).
    rewrite <- Hc. symmetry. apply firstn_skipn.
  Qed.
  Lemma read_points_canon : forall len bs l rest, read_points len bs = Some (l, rest) -> bs = flat_map enc_pt l ++ rest /\ length l = len.
  Proof.
    induction len as [|len IH]; intros bs l rest H; cbn [Codec.read_points] in H.
    - inversion H; subst. auto.
    - unfold rbind in H. destruct (read_pt bs) as [[P r1]|] eqn:E1; [|discriminate].
      destruct (read_points len r1) as [[Ps r2]|] eqn:E2; [|discriminate]. inversion H; subst.
      apply read_pt_canon in E1. destruct (IH _ _ _ E2) as [I1 I2]. subst. cbn [flat_map length].
      rewrite <- app_assoc. auto.
  Qed.
End CodecLemmas.
