(* Proofs/ShapeProverLemmas.v — the proving side reaches no panic site, for all sizes. *)
Require Export BP.Model.ShapeProver BP.Proofs.ShapeLemmas.
Require Import Lia.

Lemma create_rounds_pow2 : forall k fuel lfac, 2 ^ k <= lfac -> forall s, create_rounds fuel (2 ^ k) lfac <> OPanic s.
Proof.
  induction k as [|k IH]; intros fuel lfac Hl s; (destruct fuel as [|fuel]; [cbn [create_rounds]; discriminate|]).
  - cbn [create_rounds]. change (2 ^ 0) with 1. cbn [Nat.eqb]. discriminate.
  - cbn [create_rounds]. pose proof (pow2_pos k) as Hp.
    assert (E1 : Nat.eqb (2 ^ S k) 1 = false) by (apply Nat.eqb_neq; rewrite Nat.pow_succ_r'; lia). rewrite E1.
    assert (Eh : 2 ^ S k / 2 = 2 ^ k) by (rewrite Nat.pow_succ_r', Nat.mul_comm, Nat.div_mul; lia). rewrite Eh.
    assert (E2 : Nat.eqb (2 ^ k) (2 ^ S k - 2 ^ k) = true) by (apply Nat.eqb_eq; rewrite Nat.pow_succ_r'; lia). rewrite E2. cbn [negb].
    assert (E3 : Nat.leb (2 * 2 ^ k) lfac = true) by (apply Nat.leb_le; rewrite Nat.pow_succ_r' in Hl; lia). rewrite E3. cbn [negb].
    apply IH. lia.
Qed.

Lemma next_pow2_is_pow2 n : exists k, next_pow2 n = 2 ^ k.
Proof. exists (Nat.log2 (next_pow2 n)). apply next_pow2_is_pow. Qed.

Theorem create_shape_never_panics m : forall s, create_shape (next_pow2 m) (next_pow2 m) (next_pow2 m) (next_pow2 m) (next_pow2 m) (next_pow2 m) <> OPanic s.
Proof.
  intros s. unfold create_shape. rewrite !Nat.eqb_refl. cbn [negb].
  rewrite eq_pow2_spec. destruct (next_pow2_is_pow2 m) as [k Ek].
  assert (E : Nat.eqb (next_pow2 m) (2 ^ Nat.log2 (next_pow2 m)) = true) by (apply Nat.eqb_eq; rewrite Ek, Nat.log2_pow2 by lia; reflexivity).
  rewrite E. cbn [negb]. rewrite Ek. apply create_rounds_pow2. lia.
Qed.

Theorem prove_shape_never_panics pcap cap n1 n : n1 <= n -> forall s, prove_shape pcap cap n1 n <> OPanic s \/ pcap = 0.
Proof.
  intros Hn s. unfold prove_shape. destruct (Nat.eqb pcap 0) eqn:Ep; [right; now apply Nat.eqb_eq|]. left.
  destruct (Nat.ltb cap n1) eqn:E1; [discriminate|]. apply Nat.ltb_ge in E1.
  rewrite (Nat.min_l n1 cap) by lia. rewrite !Nat.eqb_refl. cbn [negb].
  destruct (Nat.ltb cap (next_pow2 n)) eqn:E2; [discriminate|]. apply Nat.ltb_ge in E2.
  pose proof (next_pow2_ge' n) as Hp.
  rewrite (Nat.min_l n cap) by lia. rewrite !Nat.eqb_refl. rewrite Bool.andb_false_r.
  assert (A1 : Nat.leb (n1 + (n - n1)) n = true) by (apply Nat.leb_le; lia).
  assert (A2 : Nat.leb (n1 + (n - n1)) (next_pow2 n) = true) by (apply Nat.leb_le; lia).
  rewrite A1, A2. cbn [negb orb].
  assert (A3 : Nat.leb (next_pow2 n) (n + (next_pow2 n - n)) = true) by (apply Nat.leb_le; lia). rewrite A3. cbn [negb].
  rewrite (Nat.min_l (next_pow2 n) cap) by lia.
  replace (n + (next_pow2 n - n)) with (next_pow2 n) by lia.
  replace (n1 + (n - n1 + (next_pow2 n - n))) with (next_pow2 n) by lia.
  rewrite Nat.min_id. apply create_shape_never_panics.
Qed.

Theorem prove_shape_total pcap cap n1 n : 1 <= pcap -> n1 <= n -> forall s, prove_shape pcap cap n1 n <> OPanic s.
Proof. intros Hp Hn s. destruct (prove_shape_never_panics pcap cap n1 n Hn s) as [H|H]; [exact H | lia]. Qed.

(* the error is returned exactly below the padded threshold (the first-phase test is implied by it) *)
Theorem prove_shape_threshold pcap cap n1 n : 1 <= pcap -> n1 <= n ->
  (prove_shape pcap cap n1 n = OErr <-> cap < next_pow2 n) /\ (prove_shape pcap cap n1 n = OOk <-> next_pow2 n <= cap).
Proof.
  intros Hp Hn. pose proof (next_pow2_ge' n) as Hge.
  assert (Hcases : (cap < next_pow2 n -> prove_shape pcap cap n1 n = OErr) /\ (next_pow2 n <= cap -> prove_shape pcap cap n1 n = OOk)).
  { split; intros Hc.
    - unfold prove_shape. destruct (Nat.eqb_spec pcap 0); [lia|].
      destruct (Nat.ltb cap n1) eqn:E1; [reflexivity|]. apply Nat.ltb_ge in E1.
      rewrite (Nat.min_l n1 cap) by lia. rewrite !Nat.eqb_refl. cbn [negb].
      rewrite (proj2 (Nat.ltb_lt _ _) Hc). reflexivity.
    - pose proof (prove_shape_total pcap cap n1 n Hp Hn) as Hnp.
      unfold prove_shape in *. destruct (Nat.eqb_spec pcap 0); [lia|].
      assert (E1 : Nat.ltb cap n1 = false) by (apply Nat.ltb_ge; lia). rewrite E1 in *.
      rewrite (Nat.min_l n1 cap) in * by lia. rewrite !Nat.eqb_refl in *. cbn [negb] in *.
      assert (E2 : Nat.ltb cap (next_pow2 n) = false) by (apply Nat.ltb_ge; lia). rewrite E2 in *.
      rewrite (Nat.min_l n cap) in * by lia. rewrite !Nat.eqb_refl in *. rewrite Bool.andb_false_r in *.
      assert (A1 : Nat.leb (n1 + (n - n1)) n = true) by (apply Nat.leb_le; lia).
      assert (A2 : Nat.leb (n1 + (n - n1)) (next_pow2 n) = true) by (apply Nat.leb_le; lia).
      rewrite A1, A2 in *. cbn [negb orb] in *.
      assert (A3 : Nat.leb (next_pow2 n) (n + (next_pow2 n - n)) = true) by (apply Nat.leb_le; lia). rewrite A3 in *. cbn [negb] in *.
      rewrite (Nat.min_l (next_pow2 n) cap) in * by lia.
      replace (n + (next_pow2 n - n)) with (next_pow2 n) in * by lia.
      replace (n1 + (n - n1 + (next_pow2 n - n))) with (next_pow2 n) in * by lia.
      rewrite Nat.min_id in *.
      (* create_shape on equal power-of-two lengths is OOk or a panic; panics are excluded *)
      unfold create_shape in *. rewrite !Nat.eqb_refl in *. cbn [negb] in *.
      rewrite eq_pow2_spec in *.
      assert (E : Nat.eqb (next_pow2 n) (2 ^ Nat.log2 (next_pow2 n)) = true) by (apply Nat.eqb_eq; apply next_pow2_is_pow).
      rewrite E in *. cbn [negb] in *.
      assert (Hr : forall fuel m l, create_rounds fuel m l = OOk \/ exists s, create_rounds fuel m l = OPanic s).
      { induction fuel as [|fuel IH]; intros m l; cbn [create_rounds]; [auto|].
        destruct (Nat.eqb m 1); [auto|]. destruct (negb _); [right; eauto|]. destruct (negb _); [right; eauto|]. apply IH. }
      destruct (Hr (next_pow2 n) (next_pow2 n) (next_pow2 n)) as [H|[s H]]; [exact H | exfalso; exact (Hnp s H)]. }
  destruct Hcases as [C1 C2]. split; split; intros H; auto.
  - destruct (Nat.lt_ge_cases cap (next_pow2 n)) as [L|L]; [exact L|]. rewrite (C2 L) in H. discriminate.
  - destruct (Nat.lt_ge_cases cap (next_pow2 n)) as [L|L]; [|exact L]. rewrite (C1 L) in H. discriminate.
Qed.
