(* Proofs/FlattenLemmas.v — both flattened_constraints are the linear map  lc_q |-> z^(q+1) . lc_q
   into (wL, wR, wO, -wV, -wc); the prover's copy equals the verifier's except for wc. *)
Require Export BP.Model.Flatten BP.Proofs.LCLemmas.

Section FlattenLemmas.
  Context {K : FieldOps} {FL : FieldLaws K}.
  Add Field Fff : (@Fth K FL).
  Open Scope F_scope.

  Lemma add_at_length i (x : K) l : length (add_at i x l) = length l.
  Proof.
    unfold add_at. rewrite app_length, firstn_length. pose proof (skipn_length i l) as H.
    destruct (skipn i l); simpl in *; lia.
  Qed.
  Lemma sub_at_length i (x : K) l : length (sub_at i x l) = length l.
  Proof.
    unfold sub_at. rewrite app_length, firstn_length. pose proof (skipn_length i l) as H.
    destruct (skipn i l); simpl in *; lia.
  Qed.

  Lemma ip_add_at i (c : K) : forall l a, length l = length a -> ip (add_at i c l) a = ip l a + c * nth i a f0.
  Proof.
    unfold add_at. induction i as [|i IH]; intros [|h l] [|y a] H; simpl in *; try discriminate; try ring.
    - rewrite IH by congruence. ring.
  Qed.
  Lemma ip_sub_at i (c : K) : forall l a, length l = length a -> ip (sub_at i c l) a = ip l a - c * nth i a f0.
  Proof.
    unfold sub_at. induction i as [|i IH]; intros [|h l] [|y a] H; simpl in *; try discriminate; try ring.
    - rewrite IH by congruence. ring.
  Qed.

  Definition wlen (n m : nat) (W : weights K) : Prop :=
    length (wL W) = n /\ length (wR W) = n /\ length (wO W) = n /\ length (wV W) = m.

  Lemma v_flat_term_len n m e W t : wlen n m W -> wlen n m (v_flat_term e W t).
  Proof.
    intros (H1 & H2 & H3 & H4). unfold v_flat_term, wlen. destruct (fst t); simpl;
      rewrite ?add_at_length, ?sub_at_length; auto.
  Qed.
  Lemma p_flat_term_len n m e W t : wlen n m W -> wlen n m (p_flat_term e W t).
  Proof.
    intros (H1 & H2 & H3 & H4). unfold p_flat_term, wlen. destruct (fst t); simpl;
      rewrite ?add_at_length, ?sub_at_length; auto.
  Qed.

  Lemma fold_term_len (term : K -> weights K -> var * K -> weights K) n m :
    (forall e W t, wlen n m W -> wlen n m (term e W t)) ->
    forall e c W, wlen n m W -> wlen n m (fold_left (term e) c W).
  Proof. intros Ht e c; induction c as [|t c IH]; intros W HW; simpl; auto. Qed.

  Lemma flat_loop_len (term : K -> weights K -> var * K -> weights K) n m :
    (forall e W t, wlen n m W -> wlen n m (term e W t)) ->
    forall z cons e W, wlen n m W -> wlen n m (flat_loop term z e cons W).
  Proof.
    intros Ht z cons; induction cons as [|c cs IH]; intros e W HW; simpl; auto.
    apply IH. apply fold_term_len; auto.
  Qed.

  Lemma init_len n m : wlen n m (mkW (zeros n) (zeros n) (zeros n) (zeros m) (@f0 K)).
  Proof. unfold wlen; simpl; rewrite !zeros_length; auto. Qed.

  Lemma v_flatten_len z n m cons : wlen n m (v_flatten z n m cons).
  Proof. apply flat_loop_len; [apply v_flat_term_len | apply init_len]. Qed.
  Lemma p_flatten_len z n m cons : wlen n m (p_flatten z n m cons).
  Proof. apply flat_loop_len; [apply p_flat_term_len | apply init_len]. Qed.

  Lemma p_flatten_wL_len (z : K) n m cons : length (wL (p_flatten z n m cons)) = n.
  Proof. apply (p_flatten_len z n m cons). Qed.
  Lemma p_flatten_wR_len (z : K) n m cons : length (wR (p_flatten z n m cons)) = n.
  Proof. apply (p_flatten_len z n m cons). Qed.
  Lemma p_flatten_wO_len (z : K) n m cons : length (wO (p_flatten z n m cons)) = n.
  Proof. apply (p_flatten_len z n m cons). Qed.
  Lemma p_flatten_wV_len (z : K) n m cons : length (wV (p_flatten z n m cons)) = m.
  Proof. apply (p_flatten_len z n m cons). Qed.
  Lemma v_flatten_wL_len (z : K) n m cons : length (wL (v_flatten z n m cons)) = n.
  Proof. apply (v_flatten_len z n m cons). Qed.
  Lemma v_flatten_wR_len (z : K) n m cons : length (wR (v_flatten z n m cons)) = n.
  Proof. apply (v_flatten_len z n m cons). Qed.
  Lemma v_flatten_wO_len (z : K) n m cons : length (wO (v_flatten z n m cons)) = n.
  Proof. apply (v_flatten_len z n m cons). Qed.
  Lemma v_flatten_wV_len (z : K) n m cons : length (wV (v_flatten z n m cons)) = m.
  Proof. apply (v_flatten_len z n m cons). Qed.

  (* the linear functional the weights represent, on an assignment *)
  Variable w : assignment K.
  Definition Phi (W : weights K) : K :=
    ip (wL W) (as_L w) + ip (wR W) (as_R w) + ip (wO W) (as_O w) - ip (wV W) (as_v w) - wc W.

  Definition alen (n m : nat) : Prop :=
    length (as_L w) = n /\ length (as_R w) = n /\ length (as_O w) = n /\ length (as_v w) = m.

  Lemma Phi_term n m e W t :
    alen n m -> wlen n m W -> Phi (v_flat_term e W t) = Phi W + e * (snd t * var_val w (fst t)).
  Proof.
    intros (A1 & A2 & A3 & A4) (H1 & H2 & H3 & H4). unfold Phi, v_flat_term.
    destruct t as [[i|i|i|i| |] c]; simpl;
      rewrite ?ip_add_at, ?ip_sub_at by congruence; ring.
  Qed.

  Lemma Phi_fold n m e : alen n m -> forall c W, wlen n m W ->
    Phi (fold_left (v_flat_term e) c W) = Phi W + e * eval_lc w c.
  Proof.
    intros HA c; induction c as [|t c IH]; intros W HW; simpl.
    - unfold eval_lc; simpl. ring.
    - rewrite IH by (apply v_flat_term_len; exact HW). rewrite (Phi_term n m) by assumption.
      unfold eval_lc; simpl. ring.
  Qed.

  (* sum_q  e.z^q . eval lc_q *)
  Fixpoint zsum (z e : K) (cons : list (lc K)) : K :=
    match cons with [] => f0 | c :: cs => e * eval_lc w c + zsum z (e * z) cs end.

  Lemma Phi_loop n m z : alen n m -> forall cons e W, wlen n m W ->
    Phi (flat_loop v_flat_term z e cons W) = Phi W + zsum z e cons.
  Proof.
    intros HA cons; induction cons as [|c cs IH]; intros e W HW; simpl.
    - ring.
    - rewrite IH by (apply fold_term_len; [apply v_flat_term_len | exact HW]).
      rewrite (Phi_fold n m) by assumption. ring.
  Qed.

  Theorem flatten_sound n m z cons :
    alen n m -> Phi (v_flatten z n m cons) = zsum z z cons.
  Proof.
    intros HA. unfold v_flatten. rewrite (Phi_loop n m) by (auto; apply init_len).
    unfold Phi; simpl. rewrite !ip_zeros_l. ring.
  Qed.

  Lemma zsum_sat z : forall cons e, (forall c, In c cons -> eval_lc w c = f0) -> zsum z e cons = f0.
  Proof.
    induction cons as [|c cs IH]; intros e H; simpl; [reflexivity|].
    rewrite H by (now left). rewrite IH by (intros; apply H; now right). ring.
  Qed.

  (* the prover's copy computes the same wL, wR, wO, wV (it only skips wc) *)
  Definition same4 (W W' : weights K) : Prop := wL W = wL W' /\ wR W = wR W' /\ wO W = wO W' /\ wV W = wV W'.

  Lemma same4_term e W W' t : same4 W W' -> same4 (p_flat_term e W t) (v_flat_term e W' t).
  Proof.
    intros (H1 & H2 & H3 & H4). unfold same4, p_flat_term, v_flat_term.
    destruct (fst t); simpl; rewrite ?H1, ?H2, ?H3, ?H4; auto.
  Qed.
  Lemma same4_fold e : forall c W W', same4 W W' -> same4 (fold_left (p_flat_term e) c W) (fold_left (v_flat_term e) c W').
  Proof. induction c as [|t c IH]; intros W W' H; simpl; auto. apply IH. apply same4_term. exact H. Qed.
  Lemma same4_loop z : forall cons e W W', same4 W W' ->
    same4 (flat_loop p_flat_term z e cons W) (flat_loop v_flat_term z e cons W').
  Proof. induction cons as [|c cs IH]; intros e W W' H; simpl; auto. apply IH. apply same4_fold. exact H. Qed.

  Theorem flatten_twins z n m cons : same4 (p_flatten z n m cons) (v_flatten z n m cons).
  Proof. apply same4_loop. repeat split. Qed.
End FlattenLemmas.
