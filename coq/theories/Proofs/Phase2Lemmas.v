(* Proofs/Phase2Lemmas.v — the second phase only appends: first-phase wires are never touched
   (a pending allocation is cleared at the switch and every later pending index is >= n1). *)
Require Export BP.Proofs.CSLemmas.

Section Phase2Lemmas.
  Context {K : FieldOps} {FL : FieldLaws K} {MO : ModOps K}.
  Add Field Ffq : (@Fth K FL).
  Open Scope F_scope.
  Variable RO : transcript K MO -> K.
  Notation pstate := (pstate K MO).

  Definition Inv2 (n1 : nat) (L0 R0 O0 : list K) (s : pstate) : Prop :=
    length (p_aR s) = length (p_aL s) /\ length (p_aO s) = length (p_aL s) /\ (n1 <= length (p_aL s))%nat
    /\ (forall i, p_pend s = Some i -> (n1 <= i < length (p_aL s))%nat)
    /\ firstn n1 (p_aL s) = L0 /\ firstn n1 (p_aR s) = R0 /\ firstn n1 (p_aO s) = O0.

  Lemma firstn_snoc {A} n (l : list A) x : (n <= length l)%nat -> firstn n (l ++ [x]) = firstn n l.
  Proof. intros H. rewrite firstn_app. replace (n - length l)%nat with 0%nat by lia. simpl. apply app_nil_r. Qed.

  Lemma firstn_set_nth {A} n i (x : A) l : (n <= i)%nat -> firstn n (set_nth i x l) = firstn n l.
  Proof.
    intros H. unfold set_nth. rewrite firstn_app, firstn_firstn, Nat.min_l by lia.
    rewrite firstn_length.
    destruct (Nat.le_gt_cases i (length l)) as [Hl|Hl].
    - rewrite Nat.min_l by lia. replace (n - i)%nat with 0%nat by lia. simpl. apply app_nil_r.
    - rewrite Nat.min_r by lia. rewrite skipn_all2 by lia. rewrite firstn_nil. apply app_nil_r.
  Qed.

  Lemma inv2_multiply n1 L0 R0 O0 s l r : Inv2 n1 L0 R0 O0 s -> Inv2 n1 L0 R0 O0 (fst (p_multiply s l r)).
  Proof.
    intros (H1 & H2 & H3 & H4 & H5 & H6 & H7). unfold p_multiply, p_constrain, Inv2; simpl.
    rewrite !app_length; simpl. rewrite !firstn_snoc by lia.
    repeat split; auto; try lia;
      try (match goal with Hq : p_pend _ = Some ?j |- _ => specialize (H4 j Hq); lia end);
      try (intros j Hj; specialize (H4 j Hj); lia).
  Qed.

  Lemma inv2_allocate_multiplier n1 L0 R0 O0 s a :
    Inv2 n1 L0 R0 O0 s -> Inv2 n1 L0 R0 O0 (fst (p_allocate_multiplier s a)).
  Proof.
    intros HI. pose proof HI as (H1 & H2 & H3 & H4 & H5 & H6 & H7). unfold p_allocate_multiplier. destruct a as [[l r]|]; simpl.
    - unfold Inv2; simpl. rewrite !app_length; simpl. rewrite !firstn_snoc by lia.
      repeat split; auto; try lia;
      try (match goal with Hq : p_pend _ = Some ?j |- _ => specialize (H4 j Hq); lia end);
      try (intros j Hj; specialize (H4 j Hj); lia).
    - exact HI.
  Qed.

  Lemma inv2_allocate n1 L0 R0 O0 s a : Inv2 n1 L0 R0 O0 s -> Inv2 n1 L0 R0 O0 (fst (p_allocate s a)).
  Proof.
    intros HI. pose proof HI as (H1 & H2 & H3 & H4 & H5 & H6 & H7). unfold p_allocate. destruct a as [x|]; [|exact HI].
    destruct (p_pend s) as [i|] eqn:E; simpl.
    - specialize (H4 i eq_refl). unfold Inv2; simpl. rewrite !set_nth_length.
      rewrite !firstn_set_nth by lia. repeat split; auto; try lia; try discriminate.
    - unfold Inv2; simpl. rewrite !app_length; simpl. rewrite !firstn_snoc by lia.
      repeat split; auto; try lia;
        match goal with Hq : Some _ = Some _ |- _ => inversion Hq; subst; lia end.
  Qed.

  Lemma inv2_same n1 L0 R0 O0 (s s' : pstate) :
    p_aL s' = p_aL s -> p_aR s' = p_aR s -> p_aO s' = p_aO s -> p_pend s' = p_pend s ->
    Inv2 n1 L0 R0 O0 s -> Inv2 n1 L0 R0 O0 s'.
  Proof. intros E1 E2 E3 E4. unfold Inv2. rewrite E1, E2, E3, E4. auto. Qed.

  Lemma inv2_run2 n1 L0 R0 O0 (q : rprog K) : forall s,
    Inv2 n1 L0 R0 O0 s -> Inv2 n1 L0 R0 O0 (fst (fst (p_run2 RO q s))).
  Proof.
    induction q as [|e|l k IH|a k IH|a k IH|l r k IH|c k IH|l b k IH|k IH]; intros s HI; cbn [CS.p_run2]; auto.
    - unfold p_challenge, challenge. cbv beta iota zeta.
      match goal with |- context [p_run2 RO (k ?c) ?st] => specialize (IH c st) end.
      destruct (p_run2 RO _ _) as [[? ?] ?]. apply IH. eapply inv2_same; [| | | |exact HI]; reflexivity.
    - pose proof (inv2_allocate n1 L0 R0 O0 s a HI) as H. destruct (p_allocate s a) as [s' x].
      specialize (IH x s' H). destruct (p_run2 RO _ _) as [[? ?] ?]. exact IH.
    - pose proof (inv2_allocate_multiplier n1 L0 R0 O0 s a HI) as H. destruct (p_allocate_multiplier s a) as [s' x].
      specialize (IH x s' H). destruct (p_run2 RO _ _) as [[? ?] ?]. exact IH.
    - pose proof (inv2_multiply n1 L0 R0 O0 s l r HI) as H. destruct (p_multiply s l r) as [s' x].
      specialize (IH x s' H). destruct (p_run2 RO _ _) as [[? ?] ?]. exact IH.
    - specialize (IH (p_constrain s c)). destruct (p_run2 RO _ _) as [[? ?] ?]. apply IH.
      eapply inv2_same; [| | | |exact HI]; reflexivity.
    - specialize (IH (p_msg s l b)). destruct (p_run2 RO _ _) as [[? ?] ?]. apply IH.
      eapply inv2_same; [| | | |exact HI]; reflexivity.
    - specialize (IH (length (p_aL s)) s HI). destruct (p_run2 RO _ _) as [[? ?] ?]. exact IH.
  Qed.

  Lemma inv2_closures n1 L0 R0 O0 : forall cs s,
    Inv2 n1 L0 R0 O0 s -> Inv2 n1 L0 R0 O0 (fst (fst (p_run_closures RO cs s))).
  Proof.
    induction cs as [|c cs IH]; intros s HI; simpl; auto.
    pose proof (inv2_run2 n1 L0 R0 O0 c s HI) as H. destruct (p_run2 RO c s) as [[s' e] r]. simpl in H.
    destruct r; simpl; [|exact H].
    specialize (IH s' H). destruct (p_run_closures RO cs s') as [[? ?] ?]. exact IH.
  Qed.

  (* the phase switch: whatever the closures do, the first-phase wires are a prefix of the final ones *)
  Theorem phase2_prefix (s : pstate) :
    length (p_aR s) = length (p_aL s) -> length (p_aO s) = length (p_aL s) ->
    let s2 := fst (fst (p_phase2 RO s)) in
    let n1 := length (p_aL s) in
    firstn n1 (p_aL s2) = p_aL s /\ firstn n1 (p_aR s2) = p_aR s /\ firstn n1 (p_aO s2) = p_aO s
    /\ (n1 <= length (p_aL s2))%nat /\ length (p_aR s2) = length (p_aL s2) /\ length (p_aO s2) = length (p_aL s2).
  Proof.
    intros HR HO. cbv zeta.
    assert (HI : forall t d, Inv2 (length (p_aL s)) (p_aL s) (p_aR s) (p_aO s)
                               (mkP t (p_cons s) (p_aL s) (p_aR s) (p_aO s) (p_v s) (p_vb s) d None)).
    { intros t d. unfold Inv2; simpl. repeat split; auto; try discriminate.
      - apply firstn_all.
      - rewrite <- HR. apply firstn_all.
      - rewrite <- HO. apply firstn_all. }
    unfold p_phase2. cbn [p_def]. destruct (p_def s) as [|c cs].
    - cbn [fst]. destruct (HI (r1cs_1phase_domain_sep (p_tr s)) []) as (H1 & H2 & H3 & H4 & H5 & H6 & H7).
      repeat split; auto.
    - match goal with |- context [p_run_closures RO ?l ?st] =>
        pose proof (inv2_closures (length (p_aL s)) (p_aL s) (p_aR s) (p_aO s) l st (HI _ _)) as H end.
      destruct H as (H1 & H2 & H3 & H4 & H5 & H6 & H7). repeat split; auto.
  Qed.
End Phase2Lemmas.
