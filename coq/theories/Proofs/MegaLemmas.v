(* Proofs/MegaLemmas.v — C03: the combined multiscalar check decomposes into the two protocol
   relations: mega = R_ipp + r . R_t, for arbitrary proof objects. *)
Require Export BP.Model.Relations BP.Proofs.IPPLemmas.

Section MegaLemmas.
  Context {K : FieldOps} {FL : FieldLaws K} {MO : ModOps K} {ML : ModLaws MO}.
  Add Field Ffg : (@Fth K FL).
  Add Ring Rrg : (@Rth K FL MO ML).
  Open Scope F_scope.
  Notation "x +m y" := (madd x y) (at level 50, left associativity).
  Notation "k *s x" := (smul k x) (at level 40).
  Notation proof_t := (r1cs_proof K MO).
  Variables B Bb : MO.

  Lemma msm_g_scalars (x a : K) : forall (A U S : list K) (G : list MO),
    length U = length A -> length S = length A -> length G = length A ->
    msm (map2 (fun yu s_i => snd yu * (x * fst yu - a * s_i)) (combine A U) S) G
    = msm (vscale x A) (pscale U G) +m (- a) *s msm S (pscale U G).
  Proof.
    unfold vscale, pscale.
    induction A as [|y A IH]; intros [|u U] [|s S] [|g G]; simpl; intros; try discriminate.
    - mring.
    - rewrite IH by congruence. mring.
  Qed.

  Lemma msm_h_scalars (x b : K) : forall (Y U S WL WO : list K) (H : list MO),
    length U = length Y -> length S = length Y -> length WL = length Y -> length WO = length Y ->
    length H = length Y ->
    msm (map2 (fun yus lo => snd (fst yus) * (fst (fst yus) * (x * fst lo + snd lo - b * snd yus) - f1))
              (combine (combine Y U) S) (combine WL WO)) H
    = msm (vadd (vscale x WL) WO) (pscale (map2 fmul Y U) H)
      +m (- b) *s msm S (pscale (map2 fmul Y U) H) +m (- f1) *s msm U H.
  Proof.
    unfold vadd, vscale, pscale.
    induction Y as [|y Y IH]; intros [|u U] [|s S] [|l WL] [|o WO] [|h H]; simpl; intros; try discriminate.
    - mring.
    - rewrite IH by congruence. mring.
  Qed.

  Lemma repeat_app_length {A} (x y : A) n m : length (repeat x n ++ repeat y m) = (n + m)%nat.
  Proof. now rewrite app_length, !repeat_length. Qed.

  Lemma firstn_all2 {A} (l : list A) n : (length l <= n)%nat -> firstn n l = l.
  Proof. apply firstn_all2. Qed.

  Theorem mega_decomp :
    forall (fw : weights K) (n1 n padded_n : nat) (y u x w r : K) (us : list K) (p : proof_t)
           (Gs Hs Vs : list MO),
    padded_n = (2 ^ length us)%nat -> (n1 <= n)%nat -> (n <= padded_n)%nat ->
    length (wL fw) = n -> length (wR fw) = n -> length (wO fw) = n -> length (wV fw) = length Vs ->
    (padded_n <= length Gs)%nat -> (padded_n <= length Hs)%nat ->
    length (ipp_L (ipp p)) = length us -> length (ipp_R (ipp p)) = length us ->
    msm (mega_scalars fw n1 n padded_n y u x w r (map sq us) (map (fun u => sq (finv u)) us) (svec us)
                      (ipp_a (ipp p)) (ipp_b (ipp p)) (t_x p) (t_x_blinding p) (e_blinding p))
        (mega_points B Bb Gs Hs padded_n Vs p)
    = R_ipp B Bb fw y u x w us n1 n padded_n Gs Hs p +m r *s R_t B Bb fw y x n padded_n Vs p.
  Proof.
    intros fw n1 n padded_n y u x w r us p Gs Hs Vs Hp Hn1 Hn HwL HwR HwO HwV HG HH HL HR.
    unfold mega_scalars, mega_points, R_ipp, R_t, P_of, Gprime, Hprime, delta_of, u1_vec.
    set (pad := (padded_n - n)%nat).
    set (yinv := powers (finv y) padded_n).
    set (ywR := map2 fmul (wR fw) yinv ++ zeros pad).
    set (U := repeat f1 n1 ++ repeat u (padded_n - n1)).
    set (G' := firstn padded_n Gs). set (H' := firstn padded_n Hs).
    set (a := ipp_a (ipp p)). set (b := ipp_b (ipp p)).
    assert (Lyinv : length yinv = padded_n) by apply powers_length.
    assert (LywR : length ywR = padded_n).
    { unfold ywR. rewrite app_length, map2_length, zeros_length, HwR, Lyinv. unfold pad. lia. }
    assert (LU : length U = padded_n) by (unfold U; rewrite repeat_app_length; lia).
    assert (LG' : length G' = padded_n) by (unfold G'; rewrite firstn_length; lia).
    assert (LH' : length H' = padded_n) by (unfold H'; rewrite firstn_length; lia).
    assert (Ls : length (svec us) = padded_n) by (rewrite svec_length; auto).
    rewrite (firstn_all2 (svec us)) by lia.
    rewrite (firstn_all2 (rev (svec us))) by (rewrite rev_length; lia).
    rewrite <- svec_inv_rev.
    assert (Lsi : length (svec_inv us) = padded_n) by (rewrite svec_inv_length; auto).
    assert (LwLp : length (wL fw ++ zeros pad) = padded_n) by (rewrite app_length, zeros_length; unfold pad; lia).
    assert (LwOp : length (wO fw ++ zeros pad) = padded_n) by (rewrite app_length, zeros_length; unfold pad; lia).
    (* split the multiscalar multiplication along the segments of the point list *)
    change ([B; Bb] ++ G' ++ H' ++ [A_I1 p; A_O1 p; S1 p; A_I2 p; A_O2 p; S2 p] ++ Vs
            ++ [T_1 p; T_3 p; T_4 p; T_5 p; T_6 p] ++ ipp_L (ipp p) ++ ipp_R (ipp p))
      with ([B; Bb] ++ (G' ++ (H' ++ ([A_I1 p; A_O1 p; S1 p; A_I2 p; A_O2 p; S2 p] ++ (Vs
            ++ ([T_1 p; T_3 p; T_4 p; T_5 p; T_6 p] ++ (ipp_L (ipp p) ++ ipp_R (ipp p)))))))).
    rewrite (msm_app [_; _]) by reflexivity.
    rewrite msm_app by (rewrite map2_length, combine_length; lia).
    rewrite msm_app by (rewrite map2_length, !combine_length; lia).
    rewrite (msm_app [_; _; _; _; _; _]) by reflexivity.
    rewrite msm_app by (rewrite map_length; exact HwV).
    rewrite (msm_app [_; _; _; _; _]) by reflexivity.
    rewrite msm_app by (rewrite map_length; congruence).
    rewrite msm_g_scalars by congruence.
    rewrite msm_h_scalars by congruence.
    rewrite !foldG_svec by (rewrite pscale_length; congruence).
    rewrite !foldH_svec by (rewrite pscale_length; rewrite ?map2_length; try lia; congruence).
    replace (map (fun wVi => wVi * (r * (x * x))) (wV fw)) with (vscale (r * (x * x)) (wV fw))
      by (unfold vscale; apply map_ext; intros; ring).
    rewrite !msm_vscale.
    cbn [msm]. unfold sq.
    mring.
  Qed.
End MegaLemmas.
