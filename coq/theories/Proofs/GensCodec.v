(* Proofs/GensCodec.v — C12: the derived (de)serialisation of BulletproofGens
   { gens_capacity: usize (as u64), party_capacity: usize (as u64), G_vec: Vec<Vec<G>>, H_vec: Vec<Vec<G>> }
   round-trips, over the abstract fixed-width point codec of Model/Codec.v. *)
Require Export BP.Proofs.CodecLemmas BP.Model.Gens.
Require Import Lia.

Section GensCodec.
  Context {K : FieldOps} {MO : ModOps K}.
  Variables (PS SS : nat).
  Variable enc_pt : MO -> list Z. Variable dec_pt : list Z -> option MO.
  Hypothesis PS_pos : 0 < PS. Hypothesis SS_pos : 0 < SS.
  Hypothesis enc_pt_len : forall P, length (enc_pt P) = PS.
  Hypothesis dec_enc_pt : forall P, dec_pt (enc_pt P) = Some P.
  Notation read_vec := (read_vec PS dec_pt). Notation enc_vec := (enc_vec enc_pt).

  Fixpoint read_n {A} (r : reader A) (n : nat) : reader (list A) :=
    match n with
    | O => rret []
    | S n' => rbind r (fun x => rbind (read_n r n') (fun xs => rret (x :: xs)))
    end.
  Definition read_vecs : reader (list (list MO)) := rbind read_u64 (read_n read_vec).
  Definition enc_vecs (ls : list (list MO)) : list Z := le_enc 8 (Z.of_nat (length ls)) ++ flat_map enc_vec ls.

  Definition read_gens : reader (gens MO) :=
    rbind read_u64 (fun cap => rbind read_u64 (fun pcap => rbind read_vecs (fun G => rbind read_vecs (fun H =>
      rret (mkGens MO cap pcap G H))))).
  Definition enc_gens (s : gens MO) : list Z :=
    le_enc 8 (Z.of_nat (g_cap MO s)) ++ le_enc 8 (Z.of_nat (g_pcap MO s)) ++ enc_vecs (g_G MO s) ++ enc_vecs (g_H MO s).

  Definition small (n : nat) : Prop := (Z.of_nat n < 256 ^ 8)%Z.

  Lemma read_u64_enc n rest : small n -> read_u64 (le_enc 8 (Z.of_nat n) ++ rest) = Some (n, rest).
  Proof.
    intros Hn. unfold read_u64. rewrite app_length, le_enc_length.
    replace (Nat.ltb (8 + length rest) 8) with false by (symmetry; apply Nat.ltb_ge; lia).
    rewrite firstn_exact, skipn_exact by apply le_enc_length.
    rewrite (le_val_enc PS SS PS_pos SS_pos) by (unfold small in Hn; change (Z.of_nat 8) with 8%Z; lia). now rewrite Nat2Z.id.
  Qed.

  Lemma read_n_enc : forall (ls : list (list MO)) rest,
    Forall (fun l => small (length l)) ls ->
    read_n read_vec (length ls) (flat_map enc_vec ls ++ rest) = Some (ls, rest).
  Proof.
    induction ls as [|l ls IH]; intros rest H; cbn [read_n length flat_map]; [reflexivity|].
    inversion H as [|? ? Hl Hls]; subst. unfold rbind at 1. rewrite <- app_assoc.
    rewrite (read_vec_enc PS SS enc_pt dec_pt PS_pos SS_pos enc_pt_len dec_enc_pt) by exact Hl.
    unfold rbind. rewrite IH by exact Hls. reflexivity.
  Qed.

  Lemma read_vecs_enc ls rest : small (length ls) -> Forall (fun l => small (length l)) ls ->
    read_vecs (enc_vecs ls ++ rest) = Some (ls, rest).
  Proof.
    intros H1 H2. unfold read_vecs, enc_vecs, rbind. rewrite <- app_assoc, read_u64_enc by exact H1. apply read_n_enc. exact H2.
  Qed.

  Theorem gens_roundtrip (s : gens MO) rest :
    small (g_cap MO s) -> small (g_pcap MO s) ->
    small (length (g_G MO s)) -> Forall (fun l => small (length l)) (g_G MO s) ->
    small (length (g_H MO s)) -> Forall (fun l => small (length l)) (g_H MO s) ->
    read_gens (enc_gens s ++ rest) = Some (s, rest).
  Proof.
    intros A B0 C D E F0. unfold read_gens, enc_gens, rbind. rewrite <- !app_assoc.
    rewrite read_u64_enc by exact A. rewrite read_u64_enc by exact B0.
    rewrite read_vecs_enc by assumption. rewrite read_vecs_enc by assumption.
    destruct s; reflexivity.
  Qed.
End GensCodec.
