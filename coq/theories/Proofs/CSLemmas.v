(* Proofs/CSLemmas.v — C16: prover and verifier bookkeeping run in lock step; gate invariant. *)
Require Export BP.Model.CS BP.Proofs.LCLemmas.

Section CSLemmas.
  Context {K : FieldOps} {FL : FieldLaws K} {MO : ModOps K}.
  Add Field Ffc : (@Fth K FL).
  Open Scope F_scope.
  Variable RO : transcript K MO -> K.
  Variables B Bb : MO.
  Notation pstate := (pstate K MO).
  Notation vstate := (vstate K MO).
  Notation p_run := (p_run B Bb).
  Notation commit := (pedersen_commit B Bb).

  (* ---------- set_nth ---------- *)
  Lemma set_nth_length {A} i (x : A) l : length (set_nth i x l) = length l.
  Proof.
    unfold set_nth. rewrite app_length, firstn_length. pose proof (skipn_length i l) as H.
    destruct (skipn i l); simpl in *; lia.
  Qed.

  Lemma set_nth_nth_eq {A} i (x d : A) l : (i < length l)%nat -> nth i (set_nth i x l) d = x.
  Proof.
    unfold set_nth. revert i; induction l as [|h t IH]; intros [|i] H; simpl in *; try lia; auto.
    apply IH. lia.
  Qed.

  Lemma set_nth_nth_neq {A} i j (x d : A) l : i <> j -> nth j (set_nth i x l) d = nth j l d.
  Proof.
    unfold set_nth. revert i j; induction l as [|h t IH]; intros i j H.
    - rewrite firstn_nil, skipn_nil. reflexivity.
    - destruct i as [|i], j as [|j]; simpl; try congruence; auto.
  Qed.

  (* ---------- the simulation relation ---------- *)
  Definition pend_ok (s : pstate) : Prop :=
    match p_pend s with Some i => (i < length (p_aL s))%nat | None => True end.

  Record Rel (ps : pstate) (vs : vstate) : Prop := mkRel {
    R_len  : length (p_aL ps) = v_num vs;
    R_lenR : length (p_aR ps) = length (p_aL ps);
    R_lenO : length (p_aO ps) = length (p_aL ps);
    R_pend : p_pend ps = v_pend vs;
    R_pok  : pend_ok ps;
    R_cons : p_cons ps = v_cons vs;
    R_V    : length (p_v ps) = length (v_V vs);
    R_vb   : length (p_vb ps) = length (p_v ps);
    R_Vs   : v_V vs = map2 commit (p_v ps) (p_vb ps);
    R_tr   : p_tr ps = v_tr vs;
    R_def  : p_def ps = v_def vs }.

  Lemma Rel_init tr : Rel (p_new tr) (v_new tr).
  Proof. constructor; simpl; auto. exact I. Qed.

  (* programs in which every allocation carries an assignment *)
  Inductive assigned_r : rprog K -> Prop :=
  | ar_done : assigned_r RDone
  | ar_fail e : assigned_r (RFail e)
  | ar_chal l k : (forall c, assigned_r (k c)) -> assigned_r (RChal l k)
  | ar_alloc a k : (forall r, assigned_r (k r)) -> assigned_r (RAlloc (Some a) k)
  | ar_allocmul a k : (forall r, assigned_r (k r)) -> assigned_r (RAllocMul (Some a) k)
  | ar_mul l r k : (forall x, assigned_r (k x)) -> assigned_r (RMul l r k)
  | ar_constrain c k : assigned_r k -> assigned_r (RConstrain c k)
  | ar_msg l b k : assigned_r k -> assigned_r (RMsg l b k)
  | ar_len k : (forall n, assigned_r (k n)) -> assigned_r (RLen k).

  Inductive assigned : prog K -> Prop :=
  | as_done : assigned PDone
  | as_commit v vb k : (forall x, assigned (k x)) -> assigned (PCommit v vb k)
  | as_alloc a k : (forall r, assigned (k r)) -> assigned (PAlloc (Some a) k)
  | as_allocmul a k : (forall r, assigned (k r)) -> assigned (PAllocMul (Some a) k)
  | as_mul l r k : (forall x, assigned (k x)) -> assigned (PMul l r k)
  | as_constrain c k : assigned k -> assigned (PConstrain c k)
  | as_msg l b k : assigned k -> assigned (PMsg l b k)
  | as_len k : (forall n, assigned (k n)) -> assigned (PLen k)
  | as_rand c k : assigned_r c -> assigned k -> assigned (PRandomize c k).

  (* ---------- single calls ---------- *)
  Lemma step_multiply ps vs l r :
    Rel ps vs -> Rel (fst (p_multiply ps l r)) (fst (v_multiply vs l r))
                 /\ snd (p_multiply ps l r) = snd (v_multiply vs l r).
  Proof.
    intros [H1 H2 H3 H4 H5 H6 H7 H8 H9 H10 H11]. unfold p_multiply, v_multiply, p_constrain, v_constrain; simpl.
    split.
    - constructor; simpl; rewrite ?app_length; simpl; try lia; auto.
      + unfold pend_ok in *; simpl. destruct (p_pend ps); auto. rewrite app_length; simpl; lia.
      + rewrite ?H6, ?H2, ?H3, ?H1. reflexivity.
    - rewrite ?H2, ?H3, ?H1. reflexivity.
  Qed.

  Lemma step_allocate ps vs a :
    Rel ps vs -> Rel (fst (p_allocate ps (Some a))) (fst (v_allocate vs (Some a)))
                 /\ snd (p_allocate ps (Some a)) = snd (v_allocate vs (Some a)).
  Proof.
    intros [H1 H2 H3 H4 H5 H6 H7 H8 H9 H10 H11]. unfold p_allocate, v_allocate.
    rewrite <- H4. unfold pend_ok in H5. destruct (p_pend ps) as [i|] eqn:E; simpl.
    - split; [|reflexivity]. constructor; simpl; rewrite ?set_nth_length; auto. exact I.
    - split; [|now rewrite H1]. constructor; simpl; rewrite ?app_length; simpl; try lia; auto.
      unfold pend_ok; simpl. rewrite app_length; simpl; lia.
  Qed.

  Lemma step_allocate_multiplier ps vs a :
    Rel ps vs -> Rel (fst (p_allocate_multiplier ps (Some a))) (fst (v_allocate_multiplier vs (Some a)))
                 /\ snd (p_allocate_multiplier ps (Some a)) = snd (v_allocate_multiplier vs (Some a)).
  Proof.
    intros [H1 H2 H3 H4 H5 H6 H7 H8 H9 H10 H11]. unfold p_allocate_multiplier, v_allocate_multiplier.
    destruct a as [l r]; simpl. split.
    - constructor; simpl; rewrite ?app_length; simpl; try lia; auto.
      unfold pend_ok in *; simpl. destruct (p_pend ps); auto. rewrite app_length; simpl; lia.
    - rewrite H2, H3, H1. reflexivity.
  Qed.

  Lemma step_constrain ps vs c : Rel ps vs -> Rel (p_constrain ps c) (v_constrain vs c).
  Proof. intros [H1 H2 H3 H4 H5 H6 H7 H8 H9 H10 H11]. constructor; simpl; auto. now rewrite H6. Qed.

  Lemma step_msg ps vs l b : Rel ps vs -> Rel (p_msg ps l b) (v_msg vs l b).
  Proof. intros [H1 H2 H3 H4 H5 H6 H7 H8 H9 H10 H11]. constructor; simpl; auto. unfold append_message. now rewrite H10. Qed.

  Lemma step_defer ps vs c : Rel ps vs -> Rel (p_defer ps c) (v_defer vs c).
  Proof. intros [H1 H2 H3 H4 H5 H6 H7 H8 H9 H10 H11]. constructor; simpl; auto. now rewrite H11. Qed.

  Lemma step_challenge ps vs l :
    Rel ps vs -> Rel (fst (p_challenge RO ps l)) (fst (v_challenge RO vs l))
                 /\ snd (p_challenge RO ps l) = snd (v_challenge RO vs l).
  Proof.
    intros [H1 H2 H3 H4 H5 H6 H7 H8 H9 H10 H11]. unfold p_challenge, v_challenge, challenge. rewrite H10. simpl.
    split; [constructor; simpl; auto | reflexivity].
  Qed.

  Lemma map2_snoc {X Y Z} (f : X -> Y -> Z) l r x y :
    length l = length r -> map2 f (l ++ [x]) (r ++ [y]) = map2 f l r ++ [f x y].
  Proof.
    revert r; induction l as [|a l IH]; intros [|b r] H; simpl in *; try discriminate; auto.
    f_equal. apply IH. congruence.
  Qed.

  (* the verifier is handed the prover's commitment *)
  Lemma step_commit ps vs v vb :
    Rel ps vs ->
    Rel (fst (p_commit B Bb ps v vb)) (fst (v_commit vs (commit v vb)))
    /\ snd (snd (p_commit B Bb ps v vb)) = snd (v_commit vs (commit v vb)).
  Proof.
    intros [H1 H2 H3 H4 H5 H6 H7 H8 H9 H10 H11]. unfold p_commit, v_commit; simpl. split.
    - constructor; simpl; rewrite ?app_length; simpl; auto; try lia.
      + rewrite H9. symmetry. apply map2_snoc. auto.
      + unfold append_point. now rewrite H10.
    - now rewrite H7.
  Qed.

  (* ---------- first phase, all programs ---------- *)
  (* [Vs] hands the verifier, at its i-th commit call, the commitment the prover computed there *)
  Fixpoint commitments_of (p : prog K) (s : pstate) : list MO :=
    match p with
    | PDone => []
    | PCommit v vb k => let '(s', (V, x)) := p_commit B Bb s v vb in V :: commitments_of (k x) s'
    | PAlloc a k => let '(s', r) := p_allocate s a in commitments_of (k r) s'
    | PAllocMul a k => let '(s', r) := p_allocate_multiplier s a in commitments_of (k r) s'
    | PMul l r k => let '(s', x) := p_multiply s l r in commitments_of (k x) s'
    | PConstrain c k => commitments_of k (p_constrain s c)
    | PMsg l b k => commitments_of k (p_msg s l b)
    | PLen k => commitments_of (k (length (p_aL s))) s
    | PRandomize c k => commitments_of k (p_defer s c)
    end.

  Theorem lockstep_phase1 (p : prog K) : forall ps vs (Vs : nat -> MO),
    assigned p -> Rel ps vs ->
    (forall i, (i < length (commitments_of p ps))%nat ->
               Vs (length (v_V vs) + i)%nat = nth i (commitments_of p ps) m0) ->
    Rel (fst (p_run p ps)) (fst (v_run Vs p vs)) /\ snd (p_run p ps) = snd (v_run Vs p vs).
  Proof.
    induction p as [|v vb k IH|a k IH|a k IH|l r k IH|c k IH|l b k IH|k IH|c k IH];
      intros ps vs Vs Ha HR HV; cbn [CS.p_run CS.v_run].
    - split; [exact HR | reflexivity].
    - inversion Ha as [|? ? ? Hk| | | | | | |]; subst.
      simpl in HV.
      assert (E : Vs (length (v_V vs)) = commit v vb).
      { specialize (HV 0%nat). rewrite Nat.add_0_r in HV. apply HV. simpl. lia. }
      rewrite E. unfold p_commit, v_commit. cbv beta iota zeta.
      destruct (step_commit ps vs v vb HR) as [HR' Hx]. simpl in HR', Hx.
      assert (EL : length (p_v ps) = length (v_V vs)) by apply HR.
      rewrite EL in *.
      match type of HR' with Rel ?a ?b => set (ps1 := a) in *; set (vs1 := b) in * end.
      specialize (IH (VCommitted (length (v_V vs))) ps1 vs1 Vs (Hk _) HR').
      destruct IH as [IH1 IH2].
      { intros i Hi. unfold vs1 at 1; simpl. rewrite app_length; simpl.
        replace (length (v_V vs) + 1 + i)%nat with (length (v_V vs) + S i)%nat by lia.
        rewrite (HV (S i)); [reflexivity | simpl; lia]. }
      destruct (p_run _ ps1) as [s1 e1]; destruct (v_run _ _ vs1) as [s2 e2]; simpl in *.
      split; [exact IH1 | congruence].
    - inversion Ha as [| |? ? Hk| | | | | |]; subst.
      destruct (step_allocate ps vs a0 HR) as [HR' Hx].
      destruct (p_allocate ps (Some a0)) as [ps' r1] eqn:E1; destruct (v_allocate vs (Some a0)) as [vs' r2] eqn:E2.
      simpl in HR', Hx. subst r2.
      assert (EV : v_V vs' = v_V vs).
      { unfold v_allocate in E2. destruct (v_pend vs); inversion E2; reflexivity. }
      specialize (IH r1 ps' vs' Vs (Hk _) HR'). rewrite EV in IH.
      cbn [commitments_of] in HV. rewrite E1 in HV.
      destruct (IH HV) as [IH1 IH2].
      destruct (p_run _ ps') as [s1 e1]; destruct (v_run _ _ vs') as [s2 e2]; simpl in *.
      split; [exact IH1 | congruence].
    - inversion Ha as [| | |? ? Hk| | | | |]; subst.
      destruct (step_allocate_multiplier ps vs a0 HR) as [HR' Hx].
      destruct (p_allocate_multiplier ps (Some a0)) as [ps' r1] eqn:E1;
        destruct (v_allocate_multiplier vs (Some a0)) as [vs' r2] eqn:E2.
      simpl in HR', Hx. subst r2.
      assert (EV : v_V vs' = v_V vs) by (unfold v_allocate_multiplier in E2; inversion E2; reflexivity).
      specialize (IH r1 ps' vs' Vs (Hk _) HR'). rewrite EV in IH.
      cbn [commitments_of] in HV. rewrite E1 in HV.
      destruct (IH HV) as [IH1 IH2].
      destruct (p_run _ ps') as [s1 e1]; destruct (v_run _ _ vs') as [s2 e2]; simpl in *.
      split; [exact IH1 | congruence].
    - inversion Ha as [| | | |? ? ? Hk| | | |]; subst.
      destruct (step_multiply ps vs l r HR) as [HR' Hx].
      destruct (p_multiply ps l r) as [ps' r1] eqn:E1; destruct (v_multiply vs l r) as [vs' r2] eqn:E2.
      simpl in HR', Hx. subst r2.
      assert (EV : v_V vs' = v_V vs) by (unfold v_multiply in E2; inversion E2; reflexivity).
      specialize (IH r1 ps' vs' Vs (Hk _) HR'). rewrite EV in IH.
      cbn [commitments_of] in HV. rewrite E1 in HV.
      destruct (IH HV) as [IH1 IH2].
      destruct (p_run _ ps') as [s1 e1]; destruct (v_run _ _ vs') as [s2 e2]; simpl in *.
      split; [exact IH1 | congruence].
    - inversion Ha as [| | | | |? ? Hk| | |]; subst.
      specialize (IH (p_constrain ps c) (v_constrain vs c) Vs Hk (step_constrain ps vs c HR)).
      simpl in IH, HV. destruct (IH HV) as [IH1 IH2].
      destruct (p_run _ _) as [s1 e1]; destruct (v_run _ _ _) as [s2 e2]; simpl in *.
      split; [exact IH1 | congruence].
    - inversion Ha as [| | | | | |? ? ? Hk| |]; subst.
      specialize (IH (p_msg ps l b) (v_msg vs l b) Vs Hk (step_msg ps vs l b HR)).
      simpl in IH, HV. destruct (IH HV) as [IH1 IH2].
      destruct (p_run _ _) as [s1 e1]; destruct (v_run _ _ _) as [s2 e2]; simpl in *.
      split; [exact IH1 | congruence].
    - inversion Ha as [| | | | | | |? Hk|]; subst.
      rewrite <- (R_len _ _ HR).
      specialize (IH (length (p_aL ps)) ps vs Vs (Hk _) HR). simpl in HV.
      destruct (IH HV) as [IH1 IH2].
      destruct (p_run _ _) as [s1 e1]; destruct (v_run _ _ _) as [s2 e2]; simpl in *.
      split; [exact IH1 | congruence].
    - inversion Ha as [| | | | | | | |? ? Hc Hk]; subst.
      specialize (IH (p_defer ps c) (v_defer vs c) Vs Hk (step_defer ps vs c HR)).
      simpl in IH, HV. destruct (IH HV) as [IH1 IH2].
      destruct (p_run _ _) as [s1 e1]; destruct (v_run _ _ _) as [s2 e2]; simpl in *.
      split; [exact IH1 | congruence].
  Qed.

  (* ---------- second phase ---------- *)
  Theorem lockstep_closure (p : rprog K) : forall ps vs,
    assigned_r p -> Rel ps vs ->
    let '(ps', ep, rp) := p_run2 RO p ps in
    let '(vs', ev, rv) := v_run2 RO p vs in
    Rel ps' vs' /\ ep = ev /\ rp = rv.
  Proof.
    induction p as [|e|l k IH|a k IH|a k IH|l r k IH|c k IH|l b k IH|k IH]; intros ps vs Ha HR; cbn [CS.p_run2 CS.v_run2].
    - simpl; auto.
    - simpl; auto.
    - inversion Ha as [| |? ? Hk| | | | | |]; subst.
      destruct (step_challenge ps vs l HR) as [HR' Hx].
      destruct (p_challenge RO ps l) as [ps' c1]; destruct (v_challenge RO vs l) as [vs' c2]; simpl in *. subst c2.
      specialize (IH c1 ps' vs' (Hk _) HR').
      destruct (p_run2 RO (k c1) ps') as [[s1 e1] r1]; destruct (v_run2 RO (k c1) vs') as [[s2 e2] r2].
      destruct IH as (I1 & I2 & I3). subst. auto.
    - inversion Ha as [| | |? ? Hk| | | | |]; subst.
      destruct (step_allocate ps vs a0 HR) as [HR' Hx].
      destruct (p_allocate ps (Some a0)) as [ps' c1]; destruct (v_allocate vs (Some a0)) as [vs' c2]; simpl in *. subst c2.
      specialize (IH c1 ps' vs' (Hk _) HR').
      destruct (p_run2 RO (k c1) ps') as [[s1 e1] r1]; destruct (v_run2 RO (k c1) vs') as [[s2 e2] r2].
      destruct IH as (I1 & I2 & I3). subst. auto.
    - inversion Ha as [| | | |? ? Hk| | | |]; subst.
      destruct (step_allocate_multiplier ps vs a0 HR) as [HR' Hx].
      destruct (p_allocate_multiplier ps (Some a0)) as [ps' c1]; destruct (v_allocate_multiplier vs (Some a0)) as [vs' c2]; simpl in *. subst c2.
      specialize (IH c1 ps' vs' (Hk _) HR').
      destruct (p_run2 RO (k c1) ps') as [[s1 e1] r1]; destruct (v_run2 RO (k c1) vs') as [[s2 e2] r2].
      destruct IH as (I1 & I2 & I3). subst. auto.
    - inversion Ha as [| | | | |? ? ? Hk| | |]; subst.
      destruct (step_multiply ps vs l r HR) as [HR' Hx].
      destruct (p_multiply ps l r) as [ps' c1]; destruct (v_multiply vs l r) as [vs' c2]; simpl in *. subst c2.
      specialize (IH c1 ps' vs' (Hk _) HR').
      destruct (p_run2 RO (k c1) ps') as [[s1 e1] r1]; destruct (v_run2 RO (k c1) vs') as [[s2 e2] r2].
      destruct IH as (I1 & I2 & I3). subst. auto.
    - inversion Ha as [| | | | | |? ? Hk| |]; subst.
      specialize (IH (p_constrain ps c) (v_constrain vs c) Hk (step_constrain ps vs c HR)).
      destruct (p_run2 RO k _) as [[s1 e1] r1]; destruct (v_run2 RO k _) as [[s2 e2] r2].
      destruct IH as (I1 & I2 & I3). subst. auto.
    - inversion Ha as [| | | | | | |? ? ? Hk|]; subst.
      specialize (IH (p_msg ps l b) (v_msg vs l b) Hk (step_msg ps vs l b HR)).
      destruct (p_run2 RO k _) as [[s1 e1] r1]; destruct (v_run2 RO k _) as [[s2 e2] r2].
      destruct IH as (I1 & I2 & I3). subst. auto.
    - inversion Ha as [| | | | | | | |? Hk]; subst.
      rewrite <- (R_len _ _ HR).
      specialize (IH (length (p_aL ps)) ps vs (Hk _) HR).
      destruct (p_run2 RO (k _) ps) as [[s1 e1] r1]; destruct (v_run2 RO (k _) vs) as [[s2 e2] r2].
      destruct IH as (I1 & I2 & I3). subst. auto.
  Qed.

  Lemma lockstep_closures (cs : list (rprog K)) : forall ps vs,
    Forall assigned_r cs -> Rel ps vs ->
    let '(ps', ep, rp) := p_run_closures RO cs ps in
    let '(vs', ev, rv) := v_run_closures RO cs vs in
    Rel ps' vs' /\ ep = ev /\ rp = rv.
  Proof.
    induction cs as [|c cs IH]; intros ps vs Ha HR; simpl; auto.
    inversion Ha as [|? ? Hc Hcs]; subst.
    pose proof (lockstep_closure c ps vs Hc HR) as H.
    destruct (p_run2 RO c ps) as [[s1 e1] r1]; destruct (v_run2 RO c vs) as [[s2 e2] r2].
    destruct H as (I1 & I2 & I3). subst.
    destruct r2 as [u|e]; [|auto].
    specialize (IH s1 s2 Hcs I1).
    destruct (p_run_closures RO cs s1) as [[s1' e1'] r1']; destruct (v_run_closures RO cs s2) as [[s2' e2'] r2'].
    destruct IH as (J1 & J2 & J3). subst. auto.
  Qed.

  (* the phase switch: pending cleared on both sides, same separator, closures in registration order *)
  Theorem lockstep_phase2 ps vs :
    Forall assigned_r (p_def ps) -> Rel ps vs ->
    let '(ps', ep, rp) := p_phase2 RO ps in
    let '(vs', ev, rv) := v_phase2 RO vs in
    Rel ps' vs' /\ ep = ev /\ rp = rv /\ p_def ps' = [].
  Proof.
    intros Ha HR. unfold p_phase2, v_phase2. cbv beta zeta. cbn [CS.p_def CS.v_def].
    pose proof HR as [H1 H2 H3 H4 H5 H6 H7 H8 H9 H10 H11].
    rewrite <- H11. destruct (p_def ps) as [|c cs] eqn:E.
    - split; [|repeat split; reflexivity].
      constructor; simpl; auto; try (unfold pend_ok; simpl; exact I);
        try (unfold r1cs_1phase_domain_sep, append_message; now rewrite H10).
    - set (ps1 := mkP _ _ _ _ _ _ _ _ _). set (vs1 := mkV _ _ _ _ _ _).
      assert (HR1 : Rel ps1 vs1).
      { constructor; simpl; auto; try (unfold pend_ok; simpl; exact I);
          try (unfold r1cs_2phase_domain_sep, append_message; now rewrite H10). }
      pose proof (lockstep_closures (c :: cs) ps1 vs1 Ha HR1) as H.
      destruct (p_run_closures RO (c :: cs) ps1) as [[s1 e1] r1] eqn:Ep;
        destruct (v_run_closures RO (c :: cs) vs1) as [[s2 e2] r2].
      destruct H as (I1 & I2 & I3). split; [exact I1|split; [exact I2|split; [exact I3|]]].
      (* closures cannot register closures: p_def stays [] *)
      assert (Hdef : forall cs0 s, p_def s = [] -> p_def (fst (fst (p_run_closures RO cs0 s))) = []).
      { assert (Hone : forall p s, p_def s = [] -> p_def (fst (fst (p_run2 RO p s))) = []).
        { induction p as [|e|l k IHp|a k IHp|a k IHp|l r k IHp|c0 k IHp|l b k IHp|k IHp]; intros s Hs; simpl; auto.
          - unfold p_challenge, challenge. simpl.
            specialize (IHp (RO (p_tr s ++ [Chal l])) (mkP (p_tr s ++ [Chal l]) (p_cons s) (p_aL s) (p_aR s) (p_aO s) (p_v s) (p_vb s) (p_def s) (p_pend s)) Hs).
            destruct (p_run2 RO _ _) as [[? ?] ?]. exact IHp.
          - destruct (p_allocate s a) as [s' x] eqn:Ea.
            assert (p_def s' = []).
            { unfold p_allocate in Ea. destruct a; [destruct (p_pend s)|]; inversion Ea; subst; simpl; auto. }
            specialize (IHp x s' H). destruct (p_run2 RO _ _) as [[? ?] ?]. exact IHp.
          - destruct (p_allocate_multiplier s a) as [s' x] eqn:Ea.
            assert (p_def s' = []).
            { unfold p_allocate_multiplier in Ea. destruct a as [[? ?]|]; inversion Ea; subst; simpl; auto. }
            specialize (IHp x s' H). destruct (p_run2 RO _ _) as [[? ?] ?]. exact IHp.
          - specialize (IHp (snd (p_multiply s l r)) (fst (p_multiply s l r)) Hs).
            simpl in IHp. destruct (p_run2 RO _ _) as [[? ?] ?]. exact IHp.
          - specialize (IHp (p_constrain s c0) Hs). destruct (p_run2 RO _ _) as [[? ?] ?]. exact IHp.
          - specialize (IHp (p_msg s l b) Hs). destruct (p_run2 RO _ _) as [[? ?] ?]. exact IHp.
          - specialize (IHp (length (p_aL s)) s Hs). destruct (p_run2 RO _ _) as [[? ?] ?]. exact IHp. }
        induction cs0 as [|c0 cs0 IHc]; intros s Hs; simpl; auto.
        specialize (Hone c0 s Hs). destruct (p_run2 RO c0 s) as [[s' e'] r'] eqn:E2. simpl in Hone.
        destruct r'; simpl; auto.
        specialize (IHc s' Hone). destruct (p_run_closures RO cs0 s') as [[? ?] ?]. exact IHc. }
      specialize (Hdef (c :: cs) ps1 eq_refl). rewrite Ep in Hdef. exact Hdef.
  Qed.

  (* ---------- allocation pairing and missing assignments ---------- *)
  Theorem alloc_first (ps : pstate) a :
    p_pend ps = None ->
    let ps' := fst (p_allocate ps (Some a)) in
    snd (p_allocate ps (Some a)) = Ok (VLeft (length (p_aL ps))) /\ p_pend ps' = Some (length (p_aL ps))
    /\ p_aL ps' = p_aL ps ++ [a] /\ p_aR ps' = p_aR ps ++ [f0] /\ p_aO ps' = p_aO ps ++ [f0].
  Proof. intros H. unfold p_allocate. rewrite H. simpl. auto. Qed.

  Theorem alloc_second (ps : pstate) i a :
    p_pend ps = Some i -> (i < length (p_aL ps))%nat -> length (p_aR ps) = length (p_aL ps) ->
    length (p_aO ps) = length (p_aL ps) ->
    let ps' := fst (p_allocate ps (Some a)) in
    snd (p_allocate ps (Some a)) = Ok (VRight i) /\ p_pend ps' = None /\ p_aL ps' = p_aL ps
    /\ nth i (p_aR ps') f0 = a /\ nth i (p_aO ps') f0 = nth i (p_aL ps) f0 * a
    /\ length (p_aL ps') = length (p_aL ps).
  Proof.
    intros H Hi HR HO. unfold p_allocate. rewrite H. simpl.
    repeat split; rewrite ?set_nth_nth_eq by lia; auto.
  Qed.

  Theorem missing_assignment (ps : pstate) :
    p_allocate ps None = (ps, Err EMissing) /\ p_allocate_multiplier ps None = (ps, Err EMissing).
  Proof. split; reflexivity. Qed.

  Theorem verifier_ignores_assignment (vs : vstate) a b :
    v_allocate vs a = v_allocate vs b /\ forall a' b', v_allocate_multiplier vs a' = v_allocate_multiplier vs b'.
  Proof. split; reflexivity. Qed.

  (* an allocation left open at the phase switch is never paired with one from the next phase *)
  Theorem pending_closed_at_phase_end (ps : pstate) :
    p_def ps = [] ->
    let ps' := fst (fst (p_phase2 RO ps)) in
    p_pend ps' = None /\ p_aL ps' = p_aL ps /\ p_aR ps' = p_aR ps /\ p_aO ps' = p_aO ps.
  Proof. intros E. unfold p_phase2; simpl. rewrite E; simpl; auto. Qed.

  Theorem pending_cleared_before_closures (ps : pstate) (vs : vstate) :
    (forall c cs, p_def ps = c :: cs ->
       p_phase2 RO ps = p_run_closures RO (c :: cs)
         (mkP (r1cs_2phase_domain_sep (p_tr ps)) (p_cons ps) (p_aL ps) (p_aR ps) (p_aO ps) (p_v ps) (p_vb ps) [] None))
    /\ (forall c cs, v_def vs = c :: cs ->
       v_phase2 RO vs = v_run_closures RO (c :: cs)
         (mkV (r1cs_2phase_domain_sep (v_tr vs)) (v_cons vs) (v_num vs) (v_V vs) [] None)).
  Proof. split; intros c cs E; [unfold p_phase2 | unfold v_phase2]; simpl; rewrite E; reflexivity. Qed.

  (* ---------- gate invariant: a_O = a_L * a_R on every gate, after any API calls ---------- *)
  Definition gates_ok (aL aR aO : list K) : Prop :=
    length aR = length aL /\ length aO = length aL /\
    forall i, (i < length aL)%nat -> nth i aO f0 = nth i aL f0 * nth i aR f0.
  Definition Inv (s : pstate) : Prop := gates_ok (p_aL s) (p_aR s) (p_aO s) /\ pend_ok s.

  Lemma gates_ok_snoc aL aR aO l r :
    gates_ok aL aR aO -> gates_ok (aL ++ [l]) (aR ++ [r]) (aO ++ [l * r]).
  Proof.
    intros (H1 & H2 & H3). repeat split; rewrite ?app_length; simpl; try lia.
    intros i Hi.
    destruct (Nat.eq_dec i (length aL)) as [->|Hn].
    - rewrite <- H2 at 1. rewrite nth_middle. rewrite nth_middle. rewrite <- H1 at 1. rewrite nth_middle. reflexivity.
    - rewrite !app_nth1 by lia. apply H3. lia.
  Qed.

  Lemma inv_multiply s l r : Inv s -> Inv (fst (p_multiply s l r)).
  Proof.
    intros [H Hp]. unfold p_multiply, Inv; simpl. split.
    - apply gates_ok_snoc. exact H.
    - unfold pend_ok in *; simpl. destruct (p_pend s); auto. rewrite app_length; simpl; lia.
  Qed.

  Lemma inv_allocate_multiplier s a : Inv s -> Inv (fst (p_allocate_multiplier s a)).
  Proof.
    intros [H Hp]. unfold p_allocate_multiplier. destruct a as [[l r]|]; simpl; [|split; auto]. split.
    - apply gates_ok_snoc. exact H.
    - unfold pend_ok in *; simpl. destruct (p_pend s); auto. rewrite app_length; simpl; lia.
  Qed.

  Lemma inv_allocate s a : Inv s -> Inv (fst (p_allocate s a)).
  Proof.
    intros [H Hp]. unfold p_allocate. destruct a as [x|]; [|split; auto].
    unfold pend_ok in Hp. destruct (p_pend s) as [i|] eqn:E; simpl.
    - destruct H as (H1 & H2 & H3). split; [|exact I]. repeat split; simpl; rewrite ?set_nth_length; auto.
      intros j Hj. destruct (Nat.eq_dec i j) as [<-|Hn].
      + rewrite !set_nth_nth_eq by lia. reflexivity.
      + rewrite !set_nth_nth_neq by auto. apply H3. exact Hj.
    - split.
      + simpl. assert (E0 : gates_ok (p_aL s ++ [x]) (p_aR s ++ [f0]) (p_aO s ++ [x * f0])) by (apply gates_ok_snoc; exact H).
        replace (x * f0) with (@f0 K) in E0 by ring. exact E0.
      + unfold pend_ok; simpl. rewrite app_length; simpl; lia.
  Qed.

  Lemma inv_run (p : prog K) : forall s, Inv s -> Inv (fst (p_run p s)).
  Proof.
    induction p as [|v vb k IH|a k IH|a k IH|l r k IH|c k IH|l b k IH|k IH|c k IH]; intros s HI; cbn [CS.p_run]; auto.
    - unfold p_commit; cbv beta iota zeta. specialize (IH (VCommitted (length (p_v s))) (fst (p_commit B Bb s v vb))). simpl in IH.
      destruct (p_run _ _) as [s1 e1]. apply IH. exact HI.
    - pose proof (inv_allocate s a HI) as H. destruct (p_allocate s a) as [s' x].
      specialize (IH x s' H). destruct (p_run _ _) as [s1 e1]. exact IH.
    - pose proof (inv_allocate_multiplier s a HI) as H. destruct (p_allocate_multiplier s a) as [s' x].
      specialize (IH x s' H). destruct (p_run _ _) as [s1 e1]. exact IH.
    - pose proof (inv_multiply s l r HI) as H. destruct (p_multiply s l r) as [s' x].
      specialize (IH x s' H). destruct (p_run _ _) as [s1 e1]. exact IH.
    - specialize (IH (p_constrain s c) HI). destruct (p_run _ _) as [s1 e1]. exact IH.
    - specialize (IH (p_msg s l b) HI). destruct (p_run _ _) as [s1 e1]. exact IH.
    - specialize (IH (length (p_aL s)) s HI). destruct (p_run _ _) as [s1 e1]. exact IH.
    - specialize (IH (p_defer s c) HI). destruct (p_run _ _) as [s1 e1]. exact IH.
  Qed.
End CSLemmas.
