(* Proofs/Completeness.v — C01 / C02: for a proof produced by the proving procedure from ANY secrets
   state, the verifier accepts exactly when r . x^2 . E(y,z) = 0, where E is the error polynomial of
   the witness; in particular it accepts every satisfying witness. *)
Require Export BP.Proofs.SyncLemmas BP.Proofs.Phase2Lemmas.

Section Completeness.
  Context {K : FieldOps} {FL : FieldLaws K} {MO : ModOps K} {ML : ModLaws MO}.
  Add Field Ffz : (@Fth K FL).
  Add Ring Rrz : (@Rth K FL MO ML).
  Open Scope F_scope.
  Notation "x +m y" := (madd x y) (at level 50, left associativity).
  Notation "k *s x" := (smul k x) (at level 40).
  Notation tr_t := (transcript K MO).
  Notation proof_t := (r1cs_proof K MO).
  Variable RO : tr_t -> K.
  Variables B Bb : MO.
  Notation commit := (pedersen_commit B Bb).

  (* what a successful run of the proving procedure produced *)
  Lemma prove_inv (Gs Hs : list MO) (d : nat -> K) (ps : pstate K MO) (po : prover_out K MO) :
    prove RO B Bb Gs Hs d ps = Ok po ->
    let n1 := length (p_aL ps) in let s2 := po_state po in
    let n := length (p_aL s2) in let pn := next_pow2 n in
    exists y z u x w tr9 ev tr1,
      po_chal po = [y; z; u; x; w] /\ po_n1 po = n1 /\ po_n po = n /\ (pn <= length Gs)%nat /\
      p_phase2 RO (mkP tr1 (p_cons ps) (p_aL ps) (p_aR ps) (p_aO ps) (p_v ps) (p_vb ps) (p_def ps) (p_pend ps))
        = (s2, ev, Ok tt) /\
      let fwp := p_flatten z n (length (p_v s2)) (p_cons s2) in
      let pl := p_polys fwp y (p_aL s2) (p_aR s2) (p_aO s2) (mask_L d n1 (n - n1)) (mask_R d n1 (n - n1)) in
      let b3 := base3_of n1 (n - n1) in
      let pf := po_proof po in
      (A_I1 pf, A_O1 pf, S1 pf) = p_commit1 Bb Gs Hs d (p_aL ps) (p_aR ps) (p_aO ps) /\
      (A_I2 pf, A_O2 pf, S2 pf) = p_commit2 Bb Gs Hs d n1 (p_aL s2) (p_aR s2) (p_aO s2) /\
      T_1 pf = commit (pt1 pl) (d b3) /\ T_3 pf = commit (pt3 pl) (d (b3 + 1)%nat) /\
      T_4 pf = commit (pt4 pl) (d (b3 + 2)%nat) /\ T_5 pf = commit (pt5 pl) (d (b3 + 3)%nat) /\
      T_6 pf = commit (pt6 pl) (d (b3 + 4)%nat) /\
      t_x pf = poly6_eval x (pt1 pl) (pt2 pl) (pt3 pl) (pt4 pl) (pt5 pl) (pt6 pl) /\
      t_x_blinding pf = poly6_eval x (d b3) (vsum (map2 (fun c vb => vb * c) (wV fwp) (p_vb s2)))
                                   (d (b3 + 1)%nat) (d (b3 + 2)%nat) (d (b3 + 3)%nat) (d (b3 + 4)%nat) /\
      e_blinding pf = x * ((d 0%nat + u * blind2 d n1 (n - n1) 0) + x * ((d 1%nat + u * blind2 d n1 (n - n1) 1)
                           + x * (d 2%nat + u * blind2 d n1 (n - n1) 2))) /\
      ipp_create RO tr9 (w *s B) (g_factors u n1 n pn) (h_factors y u n1 n pn)
                 (firstn pn Gs) (firstn pn Hs) (p_lvec pl x n (pn - n)) (p_rvec pl x y n pn)
      = (ipp pf, po_tr po, po_ipp_chal po).
  Proof.
    intros Hp. unfold prove in Hp.
    destruct (Nat.ltb (length Gs) (length (p_aL ps))) eqn:Ec1; [discriminate|].
    destruct (p_commit1 Bb Gs Hs d (p_aL ps) (p_aR ps) (p_aO ps)) as [[AI1 AO1] SS1] eqn:Ecm1.
    match type of Hp with context [p_phase2 RO ?st] => destruct (p_phase2 RO st) as [[s2 ev] r2] eqn:Eph end.
    destruct r2 as [[]|e]; [|discriminate].
    destruct (Nat.ltb (length Gs) (next_pow2 (length (p_aL s2)))) eqn:Ec2; [discriminate|].
    destruct (p_commit2 Bb Gs Hs d (length (p_aL ps)) (p_aL s2) (p_aR s2) (p_aO s2)) as [[AI2 AO2] SS2] eqn:Ecm2.
    match type of Hp with context [challenge RO ?t "y"] => destruct (challenge RO t "y") as [y tr3] eqn:Ey end.
    match type of Hp with context [challenge RO ?t "z"] => destruct (challenge RO t "z") as [z tr4] eqn:Ez end.
    cbv zeta in Hp.
    match type of Hp with context [challenge RO ?t "u"] => destruct (challenge RO t "u") as [u tr6] eqn:Eu end.
    match type of Hp with context [challenge RO ?t "x"] => destruct (challenge RO t "x") as [x tr7] eqn:Ex end.
    match type of Hp with context [challenge RO ?t "w"] => destruct (challenge RO t "w") as [w tr9] eqn:Ew end.
    match type of Hp with context [ipp_create RO ?t ?q ?gf ?hf ?g ?h ?a ?b] =>
      destruct (ipp_create RO t q gf hf g h a b) as [[ip_pf tr10] us] eqn:Eipp end.
    assert (Hpo : forall A (a b : A), @Ok A a = Ok b -> a = b) by (intros A a b E; injection E; auto).
    apply Hpo in Hp. subst po. clear Hpo.
    cbv beta iota zeta delta [po_proof po_n po_chal po_ipp_chal po_tr po_n1 po_state
                              A_I1 A_O1 S1 A_I2 A_O2 S2 T_1 T_3 T_4 T_5 T_6 t_x t_x_blinding e_blinding ipp].
    exists y, z, u, x, w, tr9, ev. eexists.
    split; [reflexivity|]. split; [reflexivity|]. split; [reflexivity|].
    split; [apply Nat.ltb_ge; exact Ec2|].
    split; [exact Eph|].
    repeat split; try reflexivity; try (symmetry; assumption). exact Eipp.
  Qed.

  (* ---------- the error polynomial of an assignment ---------- *)
  Definition E_poly (y z : K) (w : assignment K) (cons : list (lc K)) : K :=
    ip (map2 fsub (map2 fmul (as_L w) (as_R w)) (as_O w)) (powers y (length (as_L w))) + zsum w z z cons.

  (* P_of / R_t only look at the four weight vectors and wc *)
  Lemma P_of_ext (fw fw' : weights K) y u x n1 n pn Gs Hs (p : proof_t) :
    wL fw = wL fw' -> wR fw = wR fw' -> wO fw = wO fw' ->
    P_of Bb fw y u x n1 n pn Gs Hs p = P_of Bb fw' y u x n1 n pn Gs Hs p.
  Proof. intros E1 E2 E3. unfold P_of. rewrite E1, E2, E3. reflexivity. Qed.

  Lemma delta_simpl (fw : weights K) (y : K) n pn :
    length (wR fw) = n -> (n <= pn)%nat ->
    delta_of fw y n pn = ip (map2 fmul (wR fw) (powers (finv y) n)) (wL fw).
  Proof.
    intros LR Hn. unfold delta_of. f_equal.
    replace pn with (n + (pn - n))%nat at 1 by lia. rewrite powers_app.
    rewrite <- (app_nil_r (wR fw)) at 1. rewrite map2_app by (rewrite powers_length; lia).
    cbn [map2]. rewrite app_nil_r.
    apply firstn_app_exact. rewrite map2_length, powers_length. lia.
  Qed.

  (* R_ipp of a proof whose components have the prover's form vanishes identically *)
  Lemma Ripp_honest (Gs Hs : list MO) (d : nat -> K) (fwp fwv : weights K) (aL aR aO : list K)
        (n1 n pn : nat) (y u x w : K) (us : list K) (tr9 tr10 : tr_t) (p : proof_t) :
    y <> f0 -> all_nz us ->
    length aL = n -> length aR = n -> length aO = n ->
    length (wL fwp) = n -> length (wR fwp) = n -> length (wO fwp) = n ->
    wL fwv = wL fwp -> wR fwv = wR fwp -> wO fwv = wO fwp ->
    (n1 <= n)%nat -> (n <= pn)%nat -> pn = (2 ^ length us)%nat -> (pn <= length Gs)%nat -> (pn <= length Hs)%nat ->
    (A_I1 p, A_O1 p, S1 p) = p_commit1 Bb Gs Hs d (firstn n1 aL) (firstn n1 aR) (firstn n1 aO) ->
    (A_I2 p, A_O2 p, S2 p) = p_commit2 Bb Gs Hs d n1 aL aR aO ->
    e_blinding p = x * ((d 0%nat + u * blind2 d n1 (n - n1) 0) + x * ((d 1%nat + u * blind2 d n1 (n - n1) 1)
                        + x * (d 2%nat + u * blind2 d n1 (n - n1) 2))) ->
    let pl := p_polys fwp y aL aR aO (mask_L d n1 (n - n1)) (mask_R d n1 (n - n1)) in
    t_x p = poly6_eval x (pt1 pl) (pt2 pl) (pt3 pl) (pt4 pl) (pt5 pl) (pt6 pl) ->
    create_alg us (pscale (g_factors u n1 n pn) (firstn pn Gs)) (pscale (h_factors y u n1 n pn) (firstn pn Hs))
               (p_lvec pl x n (pn - n)) (p_rvec pl x y n pn) (w *s B)
    = (ipp_L (ipp p), ipp_R (ipp p), ipp_a (ipp p), ipp_b (ipp p)) ->
    R_ipp B Bb fwv y u x w us n1 n pn Gs Hs p = m0.
  Proof.
    intros Hy Hnz LaL LaR LaO LwL LwR LwO EwL EwR EwO Hn1 Hn Hpn HG HH E1 E2 Eeb pl Etx Ealg.
    unfold R_ipp.
    rewrite (P_of_ext fwv fwp) by assumption.
    rewrite (P_identity Bb Gs Hs d fwp aL aR aO n1 n pn y u x p) by assumption. fold pl.
    set (l := p_lvec pl x n (pn - n)) in *. set (r := p_rvec pl x y n pn) in *.
    assert (LsL : length (mask_L d n1 (n - n1)) = n) by (rewrite mask_L_length; lia).
    assert (LsR : length (mask_R d n1 (n - n1)) = n) by (rewrite mask_R_length; lia).
    assert (Ll : length l = pn).
    { unfold l, p_lvec. rewrite app_length, zeros_length.
      rewrite vecpoly3_eval_length with (n := n); unfold pl, p_polys; cbn [pl1 pl2 pl3];
        rewrite ?zeros_length, ?map2_length, ?powers_length; lia. }
    assert (Lr : length r = pn).
    { unfold r, p_rvec. rewrite app_length, map_length, skipn_length, powers_length.
      rewrite vecpoly3_eval_length with (n := n); unfold pl, p_polys; cbn [pr0 pr1 pr3];
        rewrite ?zeros_length, ?map2_length, ?powers_length; lia. }
    (* t_x = <l, r> *)
    assert (Etxip : t_x p = ip l r).
    { rewrite Etx. unfold l, r, p_lvec, p_rvec.
      rewrite ip_app by (rewrite !vecpoly3_eval_length with (n := n); unfold pl, p_polys; cbn [pl1 pl2 pl3 pr0 pr1 pr3];
                          rewrite ?zeros_length, ?map2_length, ?powers_length; lia).
      rewrite ip_zeros_l.
      unfold pl, p_polys. cbn [pl1 pl2 pl3 pr0 pr1 pr3 pt1 pt2 pt3 pt4 pt5 pt6]. rewrite LaL.
      rewrite tpoly_is_ip by (rewrite ?map2_length, ?powers_length; lia). ring. }
    (* the inner-product argument *)
    set (G' := Gprime u n1 pn Gs) in *. set (H' := Hprime y u n1 pn Hs) in *.
    assert (EG : pscale (g_factors u n1 n pn) (firstn pn Gs) = G') by reflexivity.
    assert (EH : pscale (h_factors y u n1 n pn) (firstn pn Hs) = H') by reflexivity.
    rewrite EG, EH in Ealg.
    assert (LG' : length G' = pn).
    { unfold G', Gprime. rewrite pscale_length; unfold u1_vec; rewrite ?app_length, ?repeat_length, ?firstn_length; lia. }
    assert (LH' : length H' = pn).
    { unfold H', Hprime. rewrite pscale_length; unfold u1_vec;
        rewrite ?map2_length, ?powers_length, ?app_length, ?repeat_length, ?firstn_length; lia. }
    pose proof (ipp_complete_alg us G' H' l r (w *s B) Hnz) as HC.
    rewrite Ealg in HC. destruct HC as (L1 & L2 & Hacc); try congruence.
    apply accepts_iff in Hacc; try congruence.
    rewrite Etxip. unfold sq.
    transitivity ((msm l G' +m msm r H' +m ip l r *s (w *s B)
                   +m msm (map (fun u0 => u0 * u0) us) (ipp_L (ipp p))
                   +m msm (map (fun u0 => finv u0 * finv u0) us) (ipp_R (ipp p)))
                  +m (- f1) *s (ipp_a (ipp p) *s foldG us G' +m ipp_b (ipp p) *s foldH us H'
                                +m (ipp_a (ipp p) * ipp_b (ipp p)) *s (w *s B))); [mring|].
    rewrite Hacc. mring.
  Qed.

  (* R_t of a proof produced by the procedure: -x^2 . E(y,z) . B, for ANY secrets *)
  Lemma Rt_procedure (d : nat -> K) (fwp : weights K) (aL aR aO v vb sL sR : list K) (cons : list (lc K))
        (n pn b3 : nat) (y z x : K) (p : proof_t) :
    y <> f0 ->
    length aL = n -> length aR = n -> length aO = n -> length vb = length v -> (n <= pn)%nat ->
    let fwv := v_flatten z n (length v) cons in
    wL fwv = wL fwp -> wR fwv = wR fwp -> wO fwv = wO fwp -> wV fwv = wV fwp ->
    let pl := p_polys fwp y aL aR aO sL sR in
    T_1 p = commit (pt1 pl) (d b3) -> T_3 p = commit (pt3 pl) (d (b3 + 1)%nat) ->
    T_4 p = commit (pt4 pl) (d (b3 + 2)%nat) -> T_5 p = commit (pt5 pl) (d (b3 + 3)%nat) ->
    T_6 p = commit (pt6 pl) (d (b3 + 4)%nat) ->
    t_x p = poly6_eval x (pt1 pl) (pt2 pl) (pt3 pl) (pt4 pl) (pt5 pl) (pt6 pl) ->
    t_x_blinding p = poly6_eval x (d b3) (vsum (map2 (fun c vb => vb * c) (wV fwp) vb))
                                 (d (b3 + 1)%nat) (d (b3 + 2)%nat) (d (b3 + 3)%nat) (d (b3 + 4)%nat) ->
    R_t B Bb fwv y x n pn (map2 commit v vb) p
    = (- (sq x * E_poly y z (mkAsg aL aR aO v) cons)) *s B.
  Proof.
    intros Hy LaL LaR LaO Lvb Hn fwv EwL EwR EwO EwV pl E1 E3 E4 E5 E6 Etx Etxb.
    assert (LV : length (wV fwv) = length v) by apply v_flatten_wV_len.
    assert (LL : length (wL fwv) = n) by apply v_flatten_wL_len.
    assert (LR : length (wR fwv) = n) by apply v_flatten_wR_len.
    assert (LO : length (wO fwv) = n) by apply v_flatten_wO_len.
    rewrite (Rt_honest_form B Bb fwv y x n pn v vb (pt1 pl) (pt2 pl) (pt3 pl) (pt4 pl) (pt5 pl) (pt6 pl)
                            (d b3) (d (b3 + 1)%nat) (d (b3 + 2)%nat) (d (b3 + 3)%nat) (d (b3 + 4)%nat) p);
      try assumption; try congruence.
    2:{ rewrite Etxb, vsum_map2_ip, EwV. reflexivity. }
    f_equal.
    (* t_2 through the identity, the weights through flatten_sound *)
    assert (Hyy : y * finv y = f1) by (apply finv_r; exact Hy).
    pose proof (t2_gen y (finv y) Hyy aL aR aO (wL fwp) (wR fwp) (wO fwp) f1 f1 ltac:(ring)
                       ltac:(congruence) ltac:(congruence) ltac:(congruence) ltac:(congruence) ltac:(congruence)) as Ht2.
    cbv zeta in Ht2. rewrite LaL in Ht2.
    assert (Et2 : pt2 pl = ip (map2 fsub (map2 fmul aL aR) aO) (powers y n) + ip (wL fwp) aL + ip (wR fwp) aR
                           + ip (wO fwp) aO + ip (map2 fmul (wR fwp) (powers (finv y) n)) (wL fwp)).
    { unfold pl, p_polys. cbn [pt2]. rewrite LaL. exact Ht2. }
    pose proof (flatten_sound (mkAsg aL aR aO v) n (length v) z cons) as Hfs.
    unfold Phi in Hfs. cbn [as_L as_R as_O as_v] in Hfs. fold fwv in Hfs.
    specialize (Hfs ltac:(repeat split; assumption)).
    rewrite (delta_simpl fwv y n pn LR Hn).
    unfold E_poly. cbn [as_L as_R as_O]. rewrite LaL, <- Hfs, Et2, <- EwL, <- EwR, <- EwO. unfold sq. ring.
  Qed.

  (* ---------- the verdict on a proof produced by the proving procedure ---------- *)
  Theorem verdict_of_procedure (Gs Hs Gv Hv : list MO) (d : nat -> K)
          (ps : pstate K MO) (vs : vstate K MO) (po : prover_out K MO) (y z u x w : K) :
    Rel B Bb ps vs -> Forall assigned_r (p_def ps) ->
    prove RO B Bb Gs Hs d ps = Ok po ->
    length Hs = length Gs -> length Hv = length Gv ->
    let pn := next_pow2 (po_n po) in
    (pn <= length Gv)%nat -> firstn pn Gv = firstn pn Gs -> firstn pn Hv = firstn pn Hs ->
    (Nat.log2 pn < 32)%nat ->
    ID (po_proof po) ->
    po_chal po = [y; z; u; x; w] -> y <> f0 -> all_nz (po_ipp_chal po) -> B <> m0 ->
    let s2 := po_state po in
    exists r,
      (verify RO B Bb Gv Hv vs (po_proof po) = Ok (po_tr po) <->
       r * sq x * E_poly y z (p_asg s2) (p_cons s2) = f0)
      /\ (verify RO B Bb Gv Hv vs (po_proof po) <> Ok (po_tr po) ->
          verify RO B Bb Gv Hv vs (po_proof po) = Err EVerification).
  Proof.
    intros HR Hdef Hp HHs HHv pn HGv EGv EHv Hk32 HID Hch Hy Hnz HB s2.
    destruct (roles_in_sync RO B Bb Gs Hs (length Gv) d ps vs po HR Hdef Hp HHs HGv Hk32 HID)
      as (vo & r & Hvs & Hvch & Hvus & Hvtr & Hvn1 & Hvn & Hvpn & Hvcons & HvV & LaL & LaR & LaO & Lvb).
    exists r.
    pose proof (verify_iff_relations RO B Bb Gv Hv vs (po_proof po) vo Hvs) as HV.
    rewrite Hvpn in HV. fold pn in HV. specialize (HV ltac:(lia)). rewrite Hvus in HV. specialize (HV Hnz).
    destruct HV as (y' & z' & u' & x' & w' & r' & Hch' & Hiff & Herr).
    rewrite Hvch, Hch in Hch'. cbn [app] in Hch'. inversion Hch'; subst y' z' u' x' w' r'. clear Hch'.
    cbv zeta in Hiff. rewrite ?Hvtr, ?Hvn1, ?Hvn, ?Hvpn in Hiff. fold pn in Hiff.
    rewrite Hvtr in Herr. split; [|exact Herr].
    rewrite Hiff. clear Hiff Herr.
    (* the prover's side *)
    destruct (prove_inv Gs Hs d ps po Hp) as (y' & z' & u' & x' & w' & tr9 & ev & tr1 & Hch' & Hn1 & Hn & Hcap & Eph
                                             & Ec1 & Ec2 & ET1 & ET3 & ET4 & ET5 & ET6 & Etx & Etxb & Eeb & Eipp).
    rewrite Hch in Hch'. inversion Hch'; subst y' z' u' x' w'. clear Hch'.
    fold s2 in Eph, Ec2, ET1, ET3, ET4, ET5, ET6, Etx, Etxb, Eeb, Eipp, LaL, LaR, LaO, Lvb, Hvcons, HvV, Hn.
    set (n1 := length (p_aL ps)) in *. set (n := length (p_aL s2)) in *.
    subst pn. rewrite Hn in *. rewrite Hn1 in *. set (pn := next_pow2 n) in *.
    (* first-phase wires are a prefix of the final ones *)
    pose proof (phase2_prefix RO _ (R_lenR _ _ _ _ (Rel_with_tr B Bb ps vs tr1 HR)) (R_lenO _ _ _ _ (Rel_with_tr B Bb ps vs tr1 HR))) as HP.
    rewrite Eph in HP. cbn [fst p_aL p_aR p_aO] in HP. fold s2 n1 in HP.
    destruct HP as (PL & PR & PO & Hn1n & _ & _).
    assert (Hnpn : (n <= pn)%nat) by (unfold pn; apply next_pow2_ge).
    (* the verifier's weights are the prover's *)
    set (fwp := p_flatten z n (length (p_v s2)) (p_cons s2)) in *.
    assert (Em : length (v_V (vo_state vo)) = length (p_v s2)) by (rewrite HvV, map2_length, Lvb; apply Nat.min_id).
    assert (Efw : vo_w vo = v_flatten z n (length (p_v s2)) (p_cons s2)).
    { destruct (vf_ipp _ _ _ _ _ (vs_inv RO _ _ _ _ Hvs)) as (t15 & usq & uisq & t16 & _ & y' & z' & u' & x' & w' & r' & Hc' & Hw' & _).
      rewrite Hvch, Hch in Hc'. cbn [app] in Hc'. inversion Hc'; subst.
      rewrite Hw', Hvn, Em, Hvcons. reflexivity. }
    destruct (flatten_twins z n (length (p_v s2)) (p_cons s2)) as (S1 & S2 & S3 & S4). fold fwp in S1, S2, S3, S4.
    (* generators beyond the first n' do not matter *)
    assert (ERi : R_ipp B Bb (vo_w vo) y u x w (po_ipp_chal po) n1 n pn Gv Hv (po_proof po)
                  = R_ipp B Bb (vo_w vo) y u x w (po_ipp_chal po) n1 n pn Gs Hs (po_proof po)).
    { unfold R_ipp, P_of, Gprime, Hprime. rewrite EGv, EHv. reflexivity. }
    rewrite ERi, Efw, HvV.
    (* R_ipp vanishes, R_t is -x^2 E B *)
    set (pl := p_polys fwp y (p_aL s2) (p_aR s2) (p_aO s2) (mask_L d n1 (n - n1)) (mask_R d n1 (n - n1))) in *.
    pose proof (create_sync RO (Nat.log2 pn) tr9 (w *s B) (g_factors u n1 n pn) (h_factors y u n1 n pn)
                            (firstn pn Gs) (firstn pn Hs) (p_lvec pl x n (pn - n)) (p_rvec pl x y n pn)) as HCS.
    rewrite Eipp in HCS.
    assert (Epn : pn = (2 ^ Nat.log2 pn)%nat) by apply next_pow2_pow.
    assert (LsL : length (mask_L d n1 (n - n1)) = n) by (rewrite mask_L_length; lia).
    assert (LsR : length (mask_R d n1 (n - n1)) = n) by (rewrite mask_R_length; lia).
    assert (LwLp : length (wL fwp) = n) by apply p_flatten_wL_len.
    assert (LwRp : length (wR fwp) = n) by apply p_flatten_wR_len.
    assert (LwOp : length (wO fwp) = n) by apply p_flatten_wO_len.
    assert (HcapG : (pn <= length Gs)%nat) by exact Hcap.
    assert (HcapH : (pn <= length Hs)%nat) by (rewrite HHs; exact Hcap).
    destruct HCS as (HLk & HRk & Husk & _ & Ealg).
    { rewrite <- Epn, firstn_length. lia. }
    { rewrite <- Epn, firstn_length. lia. }
    { rewrite <- Epn. unfold g_factors. rewrite app_length, !repeat_length. lia. }
    { rewrite <- Epn. unfold h_factors, g_factors. rewrite map2_length, powers_length, app_length, !repeat_length. lia. }
    { rewrite <- Epn. unfold p_lvec. rewrite app_length, zeros_length.
      rewrite vecpoly3_eval_length with (n := n); unfold pl, p_polys; cbn [pl1 pl2 pl3];
        rewrite ?zeros_length, ?map2_length, ?powers_length; lia. }
    { rewrite <- Epn. unfold p_rvec. rewrite app_length, map_length, skipn_length, powers_length.
      rewrite vecpoly3_eval_length with (n := n); unfold pl, p_polys; cbn [pr0 pr1 pr3];
        rewrite ?zeros_length, ?map2_length, ?powers_length; lia. }
    rewrite (Ripp_honest Gs Hs d fwp _ (p_aL s2) (p_aR s2) (p_aO s2) n1 n pn y u x w (po_ipp_chal po) tr9 (po_tr po) (po_proof po));
      try assumption; try congruence; try lia.
    rewrite (Rt_procedure d fwp (p_aL s2) (p_aR s2) (p_aO s2) (p_v s2) (p_vb s2) _ _ (p_cons s2) n pn _ y z x (po_proof po)
                          Hy LaL LaR LaO Lvb Hnpn (eq_sym S1) (eq_sym S2) (eq_sym S3) (eq_sym S4) ET1 ET3 ET4 ET5 ET6 Etx Etxb).
    change (mkAsg (p_aL s2) (p_aR s2) (p_aO s2) (p_v s2)) with (p_asg s2).
    set (E := E_poly y z (p_asg s2) (p_cons s2)).
    rewrite madd_0_l, <- smul_mul.
    split.
    - intros Hz. destruct (smul_cancel _ _ Hz) as [H0|H0]; [|contradiction].
      transitivity (- (r * - (sq x * E))); [ring | rewrite H0; ring].
    - intros Hz.
      replace (r * - (sq x * E)) with (- (r * sq x * E)) by ring. rewrite Hz.
      replace (- f0) with (@f0 K) by ring. apply smul_0_l.
  Qed.

  (* a satisfying assignment has zero error polynomial, for every y and z *)
  Lemma E_poly_sat (y z : K) (w : assignment K) (cons : list (lc K)) : sat cons w -> E_poly y z w cons = f0.
  Proof.
    intros (Hc & HR & HO & Hg). unfold E_poly. rewrite zsum_sat by exact Hc.
    assert (Ez : forall (aL aR aO : list K) (P : list K),
               length aR = length aL -> length aO = length aL ->
               (forall i, (i < length aL)%nat -> nth i aO f0 = nth i aL f0 * nth i aR f0) ->
               ip (map2 fsub (map2 fmul aL aR) aO) P = f0).
    { induction aL as [|a aL IH]; intros [|b aR] [|o aO] P H1 H2 H3; simpl in *; try discriminate; auto.
      destruct P as [|p P]; [reflexivity|].
      rewrite (IH aR aO P) by (try congruence; intros i Hi; apply (H3 (S i)); lia).
      specialize (H3 0%nat ltac:(lia)). simpl in H3. rewrite H3. ring. }
    rewrite Ez by assumption. ring.
  Qed.

  Theorem completeness (Gs Hs Gv Hv : list MO) (d : nat -> K)
          (ps : pstate K MO) (vs : vstate K MO) (po : prover_out K MO) (y z u x w : K) :
    Rel B Bb ps vs -> Forall assigned_r (p_def ps) ->
    prove RO B Bb Gs Hs d ps = Ok po ->
    length Hs = length Gs -> length Hv = length Gv ->
    let pn := next_pow2 (po_n po) in
    (pn <= length Gv)%nat -> firstn pn Gv = firstn pn Gs -> firstn pn Hv = firstn pn Hs ->
    (Nat.log2 pn < 32)%nat ->
    ID (po_proof po) ->
    po_chal po = [y; z; u; x; w] -> y <> f0 -> all_nz (po_ipp_chal po) -> B <> m0 ->
    sat (p_cons (po_state po)) (p_asg (po_state po)) ->
    verify RO B Bb Gv Hv vs (po_proof po) = Ok (po_tr po).
  Proof.
    intros HR Hdef Hp HHs HHv pn HGv EGv EHv Hk32 HID Hch Hy Hnz HB Hsat.
    destruct (verdict_of_procedure Gs Hs Gv Hv d ps vs po y z u x w HR Hdef Hp HHs HHv HGv EGv EHv Hk32 HID Hch Hy Hnz HB)
      as (r & Hiff & _).
    apply Hiff. rewrite (E_poly_sat y z _ _ Hsat). ring.
  Qed.

  (* closures registered by an assigned program are assigned *)
  Lemma assigned_def (q : prog K) : forall s,
    assigned q -> Forall assigned_r (p_def s) -> Forall assigned_r (p_def (fst (p_run B Bb q s))).
  Proof.
    induction q as [|v vb k IH|a k IH|a k IH|l r k IH|c k IH|l b k IH|k IH|c k IH]; intros s Ha Hd; cbn [CS.p_run]; auto.
    - inversion Ha as [|? ? ? Hk| | | | | | |]; subst. unfold p_commit. cbv beta iota zeta.
      match goal with |- context [p_run B Bb (k ?x) ?st] => specialize (IH x st (Hk _) Hd) end.
      destruct (p_run B Bb _ _) as [? ?]. exact IH.
    - inversion Ha as [| |? ? Hk| | | | | |]; subst.
      destruct (p_allocate s (Some a0)) as [s' x] eqn:E.
      assert (p_def s' = p_def s) by (unfold p_allocate in E; destruct (p_pend s); inversion E; reflexivity).
      specialize (IH x s' (Hk _)). rewrite H in IH. specialize (IH Hd). destruct (p_run B Bb _ _) as [? ?]. exact IH.
    - inversion Ha as [| | |? ? Hk| | | | |]; subst.
      destruct (p_allocate_multiplier s (Some a0)) as [s' x] eqn:E.
      assert (p_def s' = p_def s) by (unfold p_allocate_multiplier in E; destruct a0; inversion E; reflexivity).
      specialize (IH x s' (Hk _)). rewrite H in IH. specialize (IH Hd). destruct (p_run B Bb _ _) as [? ?]. exact IH.
    - inversion Ha as [| | | |? ? ? Hk| | | |]; subst.
      specialize (IH (snd (p_multiply s l r)) (fst (p_multiply s l r)) (Hk _) Hd).
      destruct (p_multiply s l r) as [s' x]. simpl in IH. destruct (p_run B Bb _ _) as [? ?]. exact IH.
    - inversion Ha as [| | | | |? ? Hk| | |]; subst.
      specialize (IH (p_constrain s c) Hk Hd). destruct (p_run B Bb _ _) as [? ?]. exact IH.
    - inversion Ha as [| | | | | |? ? ? Hk| |]; subst.
      specialize (IH (p_msg s l b) Hk Hd). destruct (p_run B Bb _ _) as [? ?]. exact IH.
    - inversion Ha as [| | | | | | |? Hk|]; subst.
      specialize (IH (length (p_aL s)) s (Hk _) Hd). destruct (p_run B Bb _ _) as [? ?]. exact IH.
    - inversion Ha as [| | | | | | | |? ? Hc Hk]; subst.
      specialize (IH (p_defer s c) Hk). destruct (p_run B Bb _ _) as [? ?]. apply IH.
      unfold p_defer; simpl. apply Forall_app. split; [exact Hd | constructor; [exact Hc | constructor]].
  Qed.
End Completeness.
