(* Proofs/VerifierLemmas.v — the model verifier's verdict in terms of the separate relations. *)
Require Export BP.Proofs.MegaLemmas BP.Proofs.FlattenLemmas BP.Proofs.CSLemmas.

Section VerifierLemmas.
  Context {K : FieldOps} {FL : FieldLaws K} {MO : ModOps K} {ML : ModLaws MO}.
  Add Field Ffv2 : (@Fth K FL).
  Add Ring Rrv2 : (@Rth K FL MO ML).
  Open Scope F_scope.
  Notation "x +m y" := (madd x y) (at level 50, left associativity).
  Notation "k *s x" := (smul k x) (at level 40).
  Notation proof_t := (r1cs_proof K MO).
  Notation tr_t := (transcript K MO).
  Variable RO : tr_t -> K.
  Variables B Bb : MO.

  (* ---------- what ipp_verification_scalars returns ---------- *)
  Lemma ipp_vs_inv tr n (q : ipp_proof K MO) usq uisq sv tr' us :
    ipp_verification_scalars RO tr n q = Ok (usq, uisq, sv, tr', us) ->
    (length (ipp_L q) < 32)%nat /\ length (ipp_R q) = length (ipp_L q) /\ n = (2 ^ length (ipp_L q))%nat
    /\ ipp_absorb RO (innerproduct_domain_sep tr n) (ipp_L q) (ipp_R q) = Some (us, tr')
    /\ length us = length (ipp_L q)
    /\ usq = map sq us /\ uisq = map sq (map inv_or_zero us)
    /\ sv = s_build (rev (map sq us)) [allinv_of (map inv_or_zero us)].
  Proof.
    unfold ipp_verification_scalars. intros H.
    destruct (Nat.leb 32 (length (ipp_L q))) eqn:E1; [discriminate|].
    destruct (Nat.eqb (length (ipp_R q)) (length (ipp_L q))) eqn:E2; [|discriminate].
    destruct (Nat.eqb n (2 ^ length (ipp_L q))) eqn:E3; [|discriminate]. cbn [negb] in H.
    destruct (ipp_absorb RO _ (ipp_L q) (ipp_R q)) as [[us0 t0]|] eqn:E4; [|discriminate].
    inversion H; subst; clear H.
    apply Nat.leb_gt in E1. apply Nat.eqb_eq in E2. apply Nat.eqb_eq in E3.
    repeat split; auto. eapply absorb_length; [|exact E4]. exact E2.
  Qed.

  Lemma absorb_no_identity : forall Ls Rs tr us tr',
    length Rs = length Ls -> ipp_absorb RO tr Ls Rs = Some (us, tr') ->
    (forall P, In P Ls -> mzerob P = false) /\ (forall P, In P Rs -> mzerob P = false).
  Proof.
    induction Ls as [|L Ls IH]; intros [|Rr Rs] tr us tr' HL E; simpl in HL; try discriminate.
    - split; intros P [].
    - cbn [ipp_absorb] in E. unfold validate_and_append_point in E.
      destruct (mzerob L) eqn:EL; [discriminate|]. destruct (mzerob Rr) eqn:ER; [discriminate|].
      unfold challenge in E.
      destruct (ipp_absorb RO _ Ls Rs) as [[us' t4]|] eqn:E2; [|discriminate].
      destruct (IH Rs _ _ _ ltac:(congruence) E2) as [I1 I2].
      split; intros P [<-|HP]; auto.
  Qed.


  Lemma ipp_vs_ok tr n (q : ipp_proof K MO) us tr' :
    (length (ipp_L q) < 32)%nat -> length (ipp_R q) = length (ipp_L q) -> n = (2 ^ length (ipp_L q))%nat ->
    ipp_absorb RO (innerproduct_domain_sep tr n) (ipp_L q) (ipp_R q) = Some (us, tr') ->
    ipp_verification_scalars RO tr n q
    = Ok (map sq us, map sq (map inv_or_zero us), s_build (rev (map sq us)) [allinv_of (map inv_or_zero us)], tr', us).
  Proof.
    intros H1 H2 H3 H4. unfold ipp_verification_scalars.
    rewrite (proj2 (Nat.leb_gt 32 _) H1), H2, Nat.eqb_refl, H3, Nat.eqb_refl. cbn [negb].
    rewrite <- H3, H4. reflexivity.
  Qed.

  (* ---------- gate counts only grow in the second phase ---------- *)
  Lemma v_run2_mono (q : rprog K) : forall s, (v_num s <= v_num (fst (fst (v_run2 RO q s))))%nat.
  Proof.
    induction q as [|e|l k IH|a k IH|a k IH|l r k IH|c k IH|l b k IH|k IH]; intros s; cbn [CS.v_run2]; auto.
    - unfold v_challenge, challenge. cbv beta iota zeta.
      match goal with |- context [v_run2 RO (k ?c) ?st] => specialize (IH c st) end.
      destruct (v_run2 RO _ _) as [[? ?] ?]. exact IH.
    - destruct (v_allocate s a) as [s' x] eqn:E.
      assert (v_num s <= v_num s')%nat by (unfold v_allocate in E; destruct (v_pend s); inversion E; simpl; lia).
      specialize (IH x s'). destruct (v_run2 RO _ _) as [[? ?] ?]. simpl in *. lia.
    - specialize (IH (snd (v_allocate_multiplier s a)) (fst (v_allocate_multiplier s a))).
      unfold v_allocate_multiplier in *. cbv beta iota zeta. simpl in IH.
      destruct (v_run2 RO _ _) as [[? ?] ?]. simpl in *. lia.
    - specialize (IH (snd (v_multiply s l r)) (fst (v_multiply s l r))).
      unfold v_multiply, v_constrain in *. cbv beta iota zeta. simpl in IH.
      destruct (v_run2 RO _ _) as [[? ?] ?]. simpl in *. lia.
    - specialize (IH (v_constrain s c)). destruct (v_run2 RO _ _) as [[? ?] ?]. exact IH.
    - specialize (IH (v_msg s l b)). destruct (v_run2 RO _ _) as [[? ?] ?]. exact IH.
    - specialize (IH (v_num s) s). destruct (v_run2 RO _ _) as [[? ?] ?]. exact IH.
  Qed.

  Lemma v_run_closures_mono : forall cs s, (v_num s <= v_num (fst (fst (v_run_closures RO cs s))))%nat.
  Proof.
    induction cs as [|c cs IH]; intros s; simpl; auto.
    pose proof (v_run2_mono c s) as H. destruct (v_run2 RO c s) as [[s' e] r]. simpl in H.
    destruct r; simpl; [|exact H].
    specialize (IH s'). destruct (v_run_closures RO cs s') as [[? ?] ?]. simpl in *. lia.
  Qed.

  Lemma v_phase2_mono s : (v_num s <= v_num (fst (fst (v_phase2 RO s))))%nat.
  Proof.
    unfold v_phase2. cbn [v_def]. destruct (v_def s) as [|c cs]; simpl; auto.
    match goal with |- context [v_run2 RO c ?st] =>
      pose proof (v_run_closures_mono (c :: cs) st) as H end.
    simpl in H. exact H.
  Qed.

  (* ---------- padding ---------- *)
  Lemma next_pow2_ge n : (n <= next_pow2 n)%nat.
  Proof.
    unfold next_pow2. destruct n as [|[|n]]; [simpl; lia | simpl; lia |].
    cbn [Nat.eqb]. apply (Nat.log2_up_spec (S (S n))). lia.
  Qed.
  (* what a successful run of verification_scalars establishes *)
  Record vs_facts (cap : nat) (s : vstate K MO) (p : proof_t) (vo : verifier_out K MO) : Prop := mkVSF {
    vf_id1 : mzerob (A_I1 p) = false /\ mzerob (A_O1 p) = false /\ mzerob (S1 p) = false;
    vf_idT : mzerob (T_1 p) = false /\ mzerob (T_3 p) = false /\ mzerob (T_4 p) = false /\
             mzerob (T_5 p) = false /\ mzerob (T_6 p) = false;
    vf_cap : (vo_padded vo <= cap)%nat;
    vf_n1 : vo_n1 vo = v_num s;
    vf_mono : (vo_n1 vo <= v_num (vo_state vo))%nat;
    vf_padded : vo_padded vo = next_pow2 (v_num (vo_state vo));
    vf_ipp : exists tr15 usq uisq tr16,
        ipp_verification_scalars RO tr15 (vo_padded vo) (ipp p) = Ok (usq, uisq, vo_s vo, tr16, vo_ipp_chal vo)
        /\ exists y z u x w r,
            vo_chal vo = [y; z; u; x; w; r]
            /\ vo_w vo = v_flatten z (v_num (vo_state vo)) (length (v_V (vo_state vo))) (v_cons (vo_state vo))
            /\ vo_scalars vo = mega_scalars (vo_w vo) (vo_n1 vo) (v_num (vo_state vo)) (vo_padded vo)
                                            y u x w r usq uisq (vo_s vo)
                                            (ipp_a (ipp p)) (ipp_b (ipp p)) (t_x p) (t_x_blinding p) (e_blinding p) }.

  Lemma vs_inv cap s p vo : verification_scalars RO cap s p = Ok vo -> vs_facts cap s p vo.
  Proof.
    unfold verification_scalars, opt_bind, validate_and_append_point, challenge.
    intros H.
    repeat match type of H with
           | context [if mzerob ?c then _ else _] => destruct (mzerob c) eqn:?; try discriminate
           | context [if Nat.ltb ?a ?b then _ else _] => destruct (Nat.ltb a b) eqn:?; try discriminate
           | context [v_phase2 ?r ?st] => destruct (v_phase2 r st) as [[? ?] [[]|?]] eqn:?; try discriminate
           | context [ipp_verification_scalars ?r ?t ?n ?q] =>
             destruct (ipp_verification_scalars r t n q) as [[[[[? ?] ?] ?] ?]|?] eqn:?; try discriminate
           end.
    inversion H; subst; clear H. constructor; cbn [vo_padded vo_n1 vo_state vo_s vo_ipp_chal vo_chal vo_w vo_scalars v_num v_V v_cons]; auto.
    - apply Nat.ltb_ge. assumption.
    - match goal with H : v_phase2 RO ?st = (?v, _, _) |- _ =>
        pose proof (v_phase2_mono st) as Hm; rewrite H in Hm; simpl in Hm; exact Hm end.
    - do 4 eexists. split; [eassumption|]. do 6 eexists. repeat split.
  Qed.


  (* ---------- the verdict in terms of the separate relations ---------- *)
  Definition all_nz (us : list K) := forall u, In u us -> u <> f0.

  Theorem verify_iff_relations (Gs Hs : list MO) (s : vstate K MO) (p : proof_t) (vo : verifier_out K MO) :
    verification_scalars RO (length Gs) s p = Ok vo ->
    (vo_padded vo <= length Hs)%nat ->
    all_nz (vo_ipp_chal vo) ->
    exists y z u x w r,
      vo_chal vo = [y; z; u; x; w; r] /\
      let fw := vo_w vo in let n1 := vo_n1 vo in let n := v_num (vo_state vo) in let pn := vo_padded vo in
      (verify RO B Bb Gs Hs s p = Ok (v_tr (vo_state vo)) <->
       R_ipp B Bb fw y u x w (vo_ipp_chal vo) n1 n pn Gs Hs p
       +m r *s R_t B Bb fw y x n pn (v_V (vo_state vo)) p = m0)
      /\ (verify RO B Bb Gs Hs s p <> Ok (v_tr (vo_state vo)) -> verify RO B Bb Gs Hs s p = Err EVerification).
  Proof.
    intros Hvs HH Hnz. pose proof (vs_inv _ _ _ _ Hvs) as F.
    destruct (vf_ipp _ _ _ _ F) as (tr15 & usq & uisq & tr16 & Hipp & y & z & u & x & w & r & Hch & Hw & Hsc).
    exists y, z, u, x, w, r. split; [exact Hch|]. cbv zeta.
    destruct (ipp_vs_inv _ _ _ _ _ _ _ _ Hipp) as (Hk & HR & Hpn & Habs & Lus & Eusq & Euisq & Esv).
    unfold verify. rewrite Hvs.
    pose proof (v_flatten_len z (v_num (vo_state vo)) (length (v_V (vo_state vo))) (v_cons (vo_state vo))) as (L1 & L2 & L3 & L4).
    rewrite <- Hw in L1, L2, L3, L4.
    assert (Esc : msm (vo_scalars vo) (mega_points B Bb Gs Hs (vo_padded vo) (v_V (vo_state vo)) p)
                  = R_ipp B Bb (vo_w vo) y u x w (vo_ipp_chal vo) (vo_n1 vo) (v_num (vo_state vo)) (vo_padded vo) Gs Hs p
                    +m r *s R_t B Bb (vo_w vo) y x (v_num (vo_state vo)) (vo_padded vo) (v_V (vo_state vo)) p).
    { rewrite Hsc. rewrite Eusq, Euisq, Esv. unfold sq.
      rewrite allinv_prod, inv_or_zero_nz, s_build_svec by exact Hnz.
      rewrite map_map.
      apply mega_decomp; auto.
      - rewrite Lus. exact Hpn.
      - apply (vf_mono _ _ _ _ F).
      - rewrite (vf_padded _ _ _ _ F). apply next_pow2_ge.
      - pose proof (vf_cap _ _ _ _ F). lia.
      - congruence. }
    rewrite Esc. split.
    - destruct (mzerob _) eqn:Ez.
      + apply mzerob_spec in Ez. split; auto.
      + split; [discriminate|]. intros E. apply mzerob_spec in E. congruence.
    - destruct (mzerob _); [intros C; exfalso; apply C; reflexivity | reflexivity].
  Qed.

  (* an identity point among the mandatory ones is an error, whatever else the proof contains *)
  Theorem identity_rejected cap (s : vstate K MO) (p : proof_t) :
    mzerob (A_I1 p) = true \/ mzerob (A_O1 p) = true \/ mzerob (S1 p) = true ->
    verification_scalars RO cap s p = Err EVerification.
  Proof.
    unfold verification_scalars, opt_bind, validate_and_append_point.
    intros [H|[H|H]].
    - rewrite H. reflexivity.
    - destruct (mzerob (A_I1 p)); [reflexivity|]. rewrite H. reflexivity.
    - destruct (mzerob (A_I1 p)); [reflexivity|]. destruct (mzerob (A_O1 p)); [reflexivity|]. rewrite H. reflexivity.
  Qed.

  (* with the same transcript prefix, acceptance pins r to one value whenever R_t <> 0 *)
  Theorem r_unique (Rt Ri : MO) (r r' : K) :
    Rt <> m0 -> Ri +m r *s Rt = m0 -> Ri +m r' *s Rt = m0 -> r = r'.
  Proof.
    intros Hn E1 E2.
    assert (E : (r - r') *s Rt = m0).
    { transitivity ((Ri +m r *s Rt) +m mopp (Ri +m r' *s Rt)); [mring | rewrite E1, E2; mring]. }
    destruct (smul_cancel _ _ E) as [H|H]; [|contradiction].
    apply fsub_eq_0. exact H.
  Qed.

  (* reaching the combined check at all requires every mandatory point to be non-identity *)
  Theorem vs_ok_ID cap (s : vstate K MO) (p : proof_t) vo :
    verification_scalars RO cap s p = Ok vo -> ID p.
  Proof.
    intros Hvs. pose proof (vs_inv _ _ _ _ Hvs) as F.
    destruct (vf_id1 _ _ _ _ F) as (I1 & I2 & I3). destruct (vf_idT _ _ _ _ F) as (T1 & T3 & T4 & T5 & T6).
    destruct (vf_ipp _ _ _ _ F) as (tr15 & usq & uisq & tr16 & Hipp & _).
    destruct (ipp_vs_inv _ _ _ _ _ _ _ _ Hipp) as (Hk & HR & Hpn & Habs & _).
    destruct (absorb_no_identity _ _ _ _ _ HR Habs) as [NL NR].
    unfold ID. repeat split; auto.
  Qed.

  Theorem relations_corollaries (Ri Rt : MO) (r : K) :
    (Ri = m0 /\ Rt = m0 -> Ri +m r *s Rt = m0)
    /\ (Ri +m r *s Rt = m0 -> ~ (Ri = m0 /\ Rt = m0) -> Rt <> m0 /\ Ri = (- r) *s Rt).
  Proof.
    split.
    - intros [-> ->]. mring.
    - intros E Hn. assert (Ei : Ri = (- r) *s Rt).
      { transitivity ((Ri +m r *s Rt) +m (- r) *s Rt); [mring | rewrite E; mring]. }
      split; [|exact Ei]. intros Ht. apply Hn. split; [|exact Ht]. rewrite Ei, Ht. mring.
  Qed.
End VerifierLemmas.
