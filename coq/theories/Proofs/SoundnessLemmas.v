(* Proofs/SoundnessLemmas.v — the error polynomial of a violating witness vanishes on few challenges. *)
Require Export BP.Proofs.Completeness BP.Proofs.PolyLemmas.

Section SoundnessLemmas.
  Context {K : FieldOps} {FL : FieldLaws K}.
  Add Field Ffso : (@Fth K FL).
  Open Scope F_scope.

  Definition gate_errors (w : assignment K) : list K := map2 fsub (map2 fmul (as_L w) (as_R w)) (as_O w).
  Definition constraint_values (w : assignment K) (cons : list (lc K)) : list K := map (eval_lc w) cons.

  Lemma zsum_peval (w : assignment K) (z : K) : forall cons e,
    zsum w z e cons = e * peval (constraint_values w cons) z.
  Proof. induction cons as [|c cs IH]; intros e; simpl; [ring|]. rewrite IH. ring. Qed.

  (* E as a polynomial in z (y fixed) and in y (z fixed); the coefficient lists do not mention the variable *)
  Lemma E_poly_in_z (y z : K) (w : assignment K) cons :
    E_poly y z w cons
    = peval (ip (gate_errors w) (powers y (length (as_L w))) :: constraint_values w cons) z.
  Proof. unfold E_poly. rewrite zsum_peval. simpl. reflexivity. Qed.

  Lemma E_poly_in_y (y z : K) (w : assignment K) cons :
    length (as_R w) = length (as_L w) -> length (as_O w) = length (as_L w) ->
    E_poly y z w cons = peval (gate_errors w) y + zsum w z z cons.
  Proof.
    intros HR HO. unfold E_poly. f_equal.
    assert (L : length (gate_errors w) = length (as_L w)).
    { unfold gate_errors. rewrite !map2_length, HR, HO, !Nat.min_id. reflexivity. }
    rewrite <- L. unfold powers. rewrite ip_powers_peval. fold (gate_errors w). ring.
  Qed.

  (* a violated constraint: for every y, at most Q values of z make E vanish *)
  Theorem few_bad_z (y : K) (w : assignment K) (cons : list (lc K)) (zs : list K) :
    (exists c, In c cons /\ eval_lc w c <> f0) ->
    NoDup zs -> (forall z, In z zs -> E_poly y z w cons = f0) ->
    (length zs <= length cons)%nat.
  Proof.
    intros (c & Hc & Hne) Hnd Hz.
    pose proof (roots_bound zs (ip (gate_errors w) (powers y (length (as_L w))) :: constraint_values w cons)) as HB.
    assert (Hnz : nonzero_poly (ip (gate_errors w) (powers y (length (as_L w))) :: constraint_values w cons)).
    { exists (eval_lc w c). split; [right; unfold constraint_values; apply in_map; exact Hc | exact Hne]. }
    specialize (HB Hnz Hnd). simpl in HB. unfold constraint_values in HB. rewrite map_length in HB.
    assert (forall r, In r zs -> peval (ip (gate_errors w) (powers y (length (as_L w))) :: map (eval_lc w) cons) r = f0).
    { intros r Hr. rewrite <- (Hz r Hr). rewrite E_poly_in_z. reflexivity. }
    specialize (HB H). lia.
  Qed.

  (* all linear constraints hold but a gate is violated: for every z, at most n-1 values of y *)
  Theorem few_bad_y (z : K) (w : assignment K) (cons : list (lc K)) (ys : list K) :
    length (as_R w) = length (as_L w) -> length (as_O w) = length (as_L w) ->
    (forall c, In c cons -> eval_lc w c = f0) ->
    (exists e, In e (gate_errors w) /\ e <> f0) ->
    NoDup ys -> (forall y, In y ys -> E_poly y z w cons = f0) ->
    (length ys < length (as_L w))%nat.
  Proof.
    intros HR HO Hc Hg Hnd Hy.
    assert (L : length (gate_errors w) = length (as_L w)).
    { unfold gate_errors. rewrite !map2_length, HR, HO, !Nat.min_id. reflexivity. }
    rewrite <- L. apply roots_bound; auto.
    intros y Hin. specialize (Hy y Hin). rewrite (E_poly_in_y y z w cons HR HO) in Hy.
    rewrite zsum_sat in Hy by exact Hc. rewrite <- Hy. ring.
  Qed.

  (* a violated gate shows up as a non-zero coefficient of the y-polynomial *)
  Lemma gate_error_nonzero (w : assignment K) i :
    length (as_R w) = length (as_L w) -> length (as_O w) = length (as_L w) -> (i < length (as_L w))%nat ->
    nth i (as_O w) f0 <> nth i (as_L w) f0 * nth i (as_R w) f0 ->
    exists e, In e (gate_errors w) /\ e <> f0.
  Proof.
    intros HR HO Hi Hv. unfold gate_errors.
    assert (G : forall (aL aR aO : list K) i, length aR = length aL -> length aO = length aL -> (i < length aL)%nat ->
               nth i aO f0 <> nth i aL f0 * nth i aR f0 ->
               exists e, In e (map2 fsub (map2 fmul aL aR) aO) /\ e <> f0).
    { induction aL as [|a aL IH]; intros [|b aR] [|o aO] j H1 H2 Hj Hne; simpl in *; try discriminate; try lia.
      destruct j as [|j].
      - simpl in Hne. exists (a * b - o). split; [now left|]. intro E. apply Hne. symmetry. apply (proj1 (fsub_eq_0 (a * b) o)). exact E.
      - simpl in Hne. destruct (IH aR aO j) as (e & He & Hen); try congruence; try lia. exists e. split; [now right | exact Hen]. }
    apply (G _ _ _ i); assumption.
  Qed.
End SoundnessLemmas.
