(* Properties/C03.v — the verifier's verdict equals the unbatched Bulletproofs verification relations. *)
Require Import BP.Proofs.VerifierLemmas.
Open Scope F_scope.
Open Scope M_scope.

(* The combined multiscalar check is R_ipp + r . R_t, for ARBITRARY proof objects (any points, any
   scalars), any weights/sizes, over any field and F-module: R_t is relation (b), R_ipp relation (c)
   with the generator vectors folded explicitly round by round (foldG/foldH). *)
Theorem C03_mega_decomp :
  forall (K : FieldOps) (FL : FieldLaws K) (MO : ModOps K) (ML : ModLaws MO) (B Bb : MO)
         (fw : weights K) (n1 n padded_n : nat) (y u x w r : K) (us : list K) (p : r1cs_proof K MO)
         (Gs Hs Vs : list MO),
    padded_n = (2 ^ length us)%nat -> (n1 <= n)%nat -> (n <= padded_n)%nat ->
    length (wL fw) = n -> length (wR fw) = n -> length (wO fw) = n -> length (wV fw) = length Vs ->
    (padded_n <= length Gs)%nat -> (padded_n <= length Hs)%nat ->
    length (ipp_L (ipp p)) = length us -> length (ipp_R (ipp p)) = length us ->
    msm (mega_scalars fw n1 n padded_n y u x w r (map sq us) (map (fun u => sq (finv u)) us) (svec us)
                      (ipp_a (ipp p)) (ipp_b (ipp p)) (t_x p) (t_x_blinding p) (e_blinding p))
        (mega_points B Bb Gs Hs padded_n Vs p)
    = R_ipp B Bb fw y u x w us n1 n padded_n Gs Hs p + r • R_t B Bb fw y x n padded_n Vs p.
Proof. intros; apply mega_decomp; assumption. Qed.
Print Assumptions C03_mega_decomp.

(* For the model verifier (all programs, all proofs): once the transcript-side checks pass, verify
   accepts exactly when R_ipp + r . R_t = 0 under the challenges it derived, and otherwise returns
   VerificationError. *)
Theorem C03_verdict_iff_relations :
  forall (K : FieldOps) (FL : FieldLaws K) (MO : ModOps K) (ML : ModLaws MO)
         (RO : transcript K MO -> K) (B Bb : MO) (Gs Hs : list MO) (s : vstate K MO)
         (p : r1cs_proof K MO) (vo : verifier_out K MO),
    verification_scalars RO (length Gs) s p = Ok vo ->
    (vo_padded vo <= length Hs)%nat ->
    all_nz (vo_ipp_chal vo) ->
    exists y z u x w r,
      vo_chal vo = [y; z; u; x; w; r] /\
      let fw := vo_w vo in let n1 := vo_n1 vo in let n := v_num (vo_state vo) in let pn := vo_padded vo in
      (verify RO B Bb Gs Hs s p = Ok (v_tr (vo_state vo)) <->
       R_ipp B Bb fw y u x w (vo_ipp_chal vo) n1 n pn Gs Hs p
       + r • R_t B Bb fw y x n pn (v_V (vo_state vo)) p = m0)
      /\ (verify RO B Bb Gs Hs s p <> Ok (v_tr (vo_state vo)) -> verify RO B Bb Gs Hs s p = Err EVerification).
Proof. intros; eapply verify_iff_relations; eassumption. Qed.
Print Assumptions C03_verdict_iff_relations.

(* Nothing the separate relations accept is rejected; anything they reject is accepted only if
   R_t <> 0 and R_ipp = -r . R_t, which at most one value of r satisfies (r is drawn from the
   transcript after every proof element except the final scalars a, b). *)
Theorem C03_no_false_reject_and_false_accept_pins_r :
  forall (K : FieldOps) (FL : FieldLaws K) (MO : ModOps K) (ML : ModLaws MO) (Ri Rt : MO) (r r' : K),
    (Ri = m0 /\ Rt = m0 -> Ri + r • Rt = m0)
    /\ (Ri + r • Rt = m0 -> ~ (Ri = m0 /\ Rt = m0) -> Rt <> m0 /\ Ri = (- r)%F • Rt)
    /\ (Rt <> m0 -> Ri + r • Rt = m0 -> Ri + r' • Rt = m0 -> r = r').
Proof.
  intros. destruct (relations_corollaries Ri Rt r) as [H1 H2].
  split; [exact H1 | split; [exact H2 | apply r_unique]].
Qed.
Print Assumptions C03_no_false_reject_and_false_accept_pins_r.

(* (a): every mandatory point must be non-identity for the combined check to be reached at all,
   and an identity among the first three is reported before anything else. *)
Theorem C03_identity_checks :
  forall (K : FieldOps) (FL : FieldLaws K) (MO : ModOps K) (ML : ModLaws MO)
         (RO : transcript K MO -> K) cap (s : vstate K MO) (p : r1cs_proof K MO),
    (forall vo, verification_scalars RO cap s p = Ok vo -> ID p)
    /\ (mzerob (A_I1 p) = true \/ mzerob (A_O1 p) = true \/ mzerob (S1 p) = true ->
        verification_scalars RO cap s p = Err EVerification).
Proof. intros; split; [intros vo; apply vs_ok_ID | apply identity_rejected]. Qed.
Print Assumptions C03_identity_checks.
