(* Properties/C18.v — Wire stability: the reference revision's wire format, spelled out a second time as
   literals.  The model (Model/Transcript.v, Proofs/ScheduleLemmas.v, Model/Codec.v) was written from
   revision b4846a6 and is tied to /repo on every run; these theorems pin the model itself to the recorded
   format, so a change made consistently to prover, verifier AND model still breaks an obligation here.
   The recorded proofs, generators and bases themselves are bytes from outside Coq: they are replayed on the
   implementation by the fixture component (no theorem can speak about them). *)
Require Import BP.Proofs.ScheduleLemmas BP.Proofs.CodecLemmas.
Require Import Coq.Strings.String.
Open Scope string_scope. Open Scope list_scope.

Definition op_label {K : FieldOps} {MO : ModOps K} (o : tr_op K MO) : string * bool :=
  match o with App l _ => (l, false) | Chal l => (l, true) end.

(* (label, is-challenge) of everything a verifier run absorbs after the commitments, in order *)
Theorem C18_schedule_labels_pinned :
  forall (K : FieldOps) (MO : ModOps K) (p : r1cs_proof K MO) (m pn : nat) (sep : string) (Ls Rs : list MO),
    List.length Rs = List.length Ls ->
    map op_label (head_ops m p ++ App "dom-sep" (PStr sep) :: tail_ops p pn ++ ipp_ops Ls Rs)
    = [("m", false); ("A_I1", false); ("A_O1", false); ("S1", false); ("dom-sep", false);
       ("A_I2", false); ("A_O2", false); ("S2", false); ("y", true); ("z", true);
       ("T_1", false); ("T_3", false); ("T_4", false); ("T_5", false); ("T_6", false);
       ("u", true); ("x", true); ("t_x", false); ("t_x_blinding", false); ("e_blinding", false);
       ("w", true); ("dom-sep", false); ("n", false)]
      ++ List.concat (repeat [("L", false); ("R", false); ("u", true)] (List.length Ls)).
Proof.
  intros K MO p m pn sep Ls Rs HL. unfold head_ops, tail_ops. cbn [map app op_label].
  do 23 f_equal. revert Rs HL. induction Ls as [|L Ls IH]; intros [|R Rs] HL; cbn in HL; try discriminate; [reflexivity|].
  cbn [ipp_ops map op_label List.length repeat List.concat app]. do 3 f_equal. apply IH. now injection HL.
Qed.
Print Assumptions C18_schedule_labels_pinned.

(* domain separators and the payload kinds *)
Theorem C18_domain_separators_pinned :
  forall (K : FieldOps) (MO : ModOps K) (tr : transcript K MO) (n : nat),
    r1cs_domain_sep tr = tr ++ [App "dom-sep" (PStr "r1cs v1")]
    /\ r1cs_1phase_domain_sep tr = tr ++ [App "dom-sep" (PStr "r1cs-1phase")]
    /\ r1cs_2phase_domain_sep tr = tr ++ [App "dom-sep" (PStr "r1cs-2phase")]
    /\ innerproduct_domain_sep tr n = (tr ++ [App "dom-sep" (PStr "ipp v1")]) ++ [App "n" (PU64 n)].
Proof. intros; repeat split. Qed.
Print Assumptions C18_domain_separators_pinned.

(* the encoding: eleven points in this order, three scalars, counted L, counted R, a, b *)
Theorem C18_field_order_pinned :
  forall (K : FieldOps) (MO : ModOps K) (enc_pt : MO -> list Z) (enc_sc : K -> list Z) (p : r1cs_proof K MO),
    encode enc_pt enc_sc p
    = List.concat (map enc_pt [A_I1 p; A_O1 p; S1 p; A_I2 p; A_O2 p; S2 p; T_1 p; T_3 p; T_4 p; T_5 p; T_6 p])
      ++ List.concat (map enc_sc [t_x p; t_x_blinding p; e_blinding p])
      ++ (le_enc 8 (Z.of_nat (List.length (ipp_L (ipp p)))) ++ flat_map enc_pt (ipp_L (ipp p)))
      ++ (le_enc 8 (Z.of_nat (List.length (ipp_R (ipp p)))) ++ flat_map enc_pt (ipp_R (ipp p)))
      ++ enc_sc (ipp_a (ipp p)) ++ enc_sc (ipp_b (ipp p)).
Proof.
  intros. unfold encode, enc_vec. cbn [map List.concat]. rewrite !app_nil_r, <- !app_assoc. reflexivity.
Qed.
Print Assumptions C18_field_order_pinned.
