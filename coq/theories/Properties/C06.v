(* Properties/C06.v — Fiat-Shamir discipline: challenges bind all prior messages; roles stay in sync. *)
Require Import BP.Proofs.ScheduleLemmas.
Open Scope F_scope.

(* The transcript a successful verifier run ends with IS the protocol's schedule, spelled out as a
   literal table (head_ops / tail_ops / ipp_ops: labels, order, whole objects as payloads, the counts
   m and n' absorbed), with only user data and challenge requests in the randomized phase; and every
   challenge (y, z, u, x, w, each inner-product u_j, and the clone-drawn r) is the oracle's value on the
   prefix of that schedule ending with its own request — hence a function of the domain separators,
   every commitment and their count, and every proof element placed before it. *)
Theorem C06_verifier_follows_schedule :
  forall (K : FieldOps) (FL : FieldLaws K) (MO : ModOps K) (ML : ModLaws MO) (RO : transcript K MO -> K)
         cap (s : vstate K MO) (p : r1cs_proof K MO) (vo : verifier_out K MO),
    verification_scalars RO cap s p = Ok vo ->
    exists sep ops2,
      Forall user_op ops2
      /\ ((v_def s = [] /\ sep = "r1cs-1phase"%string /\ ops2 = []) \/ (v_def s <> [] /\ sep = "r1cs-2phase"%string))
      /\ let pre := v_tr s ++ head_ops (length (v_V s)) p ++ App "dom-sep" (PStr sep) :: ops2 in
         let tl := tail_ops p (vo_padded vo) in
         v_tr (vo_state vo) = pre ++ tl ++ ipp_ops (ipp_L (ipp p)) (ipp_R (ipp p))
         /\ vo_chal vo = [RO (pre ++ firstn 4 tl); RO (pre ++ firstn 5 tl); RO (pre ++ firstn 11 tl);
                          RO (pre ++ firstn 12 tl); RO (pre ++ firstn 16 tl);
                          RO ((pre ++ tl ++ ipp_ops (ipp_L (ipp p)) (ipp_R (ipp p))) ++ [Chal "r"])]
         /\ vo_ipp_chal vo
            = map (fun j => RO ((pre ++ tl) ++ ipp_ops (firstn (S j) (ipp_L (ipp p))) (firstn (S j) (ipp_R (ipp p)))))
                  (seq 0 (length (ipp_L (ipp p)))).
Proof. intros; eapply verifier_schedule; eassumption. Qed.
Print Assumptions C06_verifier_follows_schedule.

(* On an honest run (same program, the verifier handed the prover's commitments) the verifier's
   transcript equals the prover's, so the prover's transcript is that same schedule and both derive the
   same challenges; the transcripts handed back drive identical follow-up challenges. *)
Theorem C06_roles_in_sync_and_prover_follows_schedule :
  forall (K : FieldOps) (FL : FieldLaws K) (MO : ModOps K) (ML : ModLaws MO)
         (RO : transcript K MO -> K) (B Bb : MO) (Gs Hs : list MO) (cap_v : nat) (d : nat -> K)
         (ps : pstate K MO) (vs : vstate K MO) (po : prover_out K MO),
    Rel B Bb ps vs -> Forall assigned_r (p_def ps) ->
    prove RO B Bb Gs Hs d ps = Ok po ->
    length Hs = length Gs ->
    (next_pow2 (po_n po) <= cap_v)%nat ->
    (Nat.log2 (next_pow2 (po_n po)) < 32)%nat ->
    ID (po_proof po) ->
    exists vo r sep ops2,
      verification_scalars RO cap_v vs (po_proof po) = Ok vo
      /\ v_tr (vo_state vo) = po_tr po
      /\ vo_chal vo = po_chal po ++ [r] /\ vo_ipp_chal vo = po_ipp_chal po
      /\ (forall l, RO (v_tr (vo_state vo) ++ [Chal l]) = RO (po_tr po ++ [Chal l]))
      /\ Forall user_op ops2
      /\ po_tr po = (v_tr vs ++ head_ops (length (v_V vs)) (po_proof po) ++ App "dom-sep" (PStr sep) :: ops2)
                    ++ tail_ops (po_proof po) (next_pow2 (po_n po))
                    ++ ipp_ops (ipp_L (ipp (po_proof po))) (ipp_R (ipp (po_proof po))).
Proof.
  intros K FL MO ML RO B Bb Gs Hs cap_v d ps vs po HR Hd Hp HH Hc Hk HI.
  destruct (roles_in_sync RO B Bb Gs Hs cap_v d ps vs po HR Hd Hp HH Hc Hk HI)
    as (vo & r & H1 & H2 & H3 & H4 & _ & _ & H7 & _).
  destruct (verifier_schedule RO cap_v vs (po_proof po) vo H1) as (sep & ops2 & F & _ & Etr & _).
  exists vo, r, sep, ops2. repeat split; auto.
  - intros l. rewrite H4. reflexivity.
  - rewrite <- H4, <- H7. exact Etr.
Qed.
Print Assumptions C06_roles_in_sync_and_prover_follows_schedule.

(* Unambiguous: the op lists determine every absorbed object (labels, whole payloads, counts). *)
Theorem C06_unambiguous :
  forall (K : FieldOps) (MO : ModOps K) (p p' : r1cs_proof K MO) (pn pn' : nat) (Ls Rs Ls' Rs' : list MO),
    (tail_ops p pn = tail_ops p' pn' ->
     A_I2 p = A_I2 p' /\ A_O2 p = A_O2 p' /\ S2 p = S2 p' /\ T_1 p = T_1 p' /\ T_3 p = T_3 p' /\ T_4 p = T_4 p'
     /\ T_5 p = T_5 p' /\ T_6 p = T_6 p' /\ t_x p = t_x p' /\ t_x_blinding p = t_x_blinding p'
     /\ e_blinding p = e_blinding p' /\ pn = pn')
    /\ (length Rs = length Ls -> length Rs' = length Ls' -> ipp_ops Ls Rs = ipp_ops Ls' Rs' -> Ls = Ls' /\ Rs = Rs').
Proof. intros; split; [apply tail_ops_injective | apply ipp_ops_injective]. Qed.
Print Assumptions C06_unambiguous.

(* Closures can only append user data and challenge requests: nothing is absorbed out of order. *)
Theorem C06_closures_only_append :
  forall (K : FieldOps) (MO : ModOps K) (RO : transcript K MO -> K) (s : vstate K MO),
    exists sep ops, v_tr (fst (fst (v_phase2 RO s))) = v_tr s ++ App "dom-sep" (PStr sep) :: ops /\ Forall user_op ops
                    /\ ((v_def s = [] /\ sep = "r1cs-1phase"%string /\ ops = []) \/ (v_def s <> [] /\ sep = "r1cs-2phase"%string)).
Proof. intros; apply v_phase2_extends. Qed.
Print Assumptions C06_closures_only_append.
