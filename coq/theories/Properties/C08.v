(* Properties/C08.v — Hostile proofs and byte strings yield errors, never panics or runaway memory. *)
Require Import BP.Proofs.ShapeLemmas BP.Proofs.CodecLemmas.

(* Shape model of every shape-dependent site of verify (indexing challenges[i] / challenges_sq[..] / s[i-k],
   1 << lg_n, zip/take truncations, &yneg_wR[0..n], inner_product's length test, the base/scalar count of
   msm(..).unwrap()): for ALL |L|, |R|, gate counts, commitment counts and capacities, the repaired tree
   never reaches a panic site. *)
Theorem C08_verify_never_panics :
  forall cap n1 n m lL lR : nat, n1 <= n -> forall site, verify_shape true cap n1 n m lL lR <> OPanic site.
Proof. exact verify_shape_never_panics. Qed.
Print Assumptions C08_verify_never_panics.

Theorem C08_batch_never_panics :
  forall (cap : nat) (insts : list inst_shape), Forall inst_wf insts -> forall site, batch_verify_shape true cap insts <> OPanic site.
Proof. exact batch_shape_never_panics. Qed.
Print Assumptions C08_batch_never_panics.

(* On the pinned tree the statement is false (finding F1, repaired by fix: d4a08f3): both failure modes. *)
Theorem C08_pinned_tree_refuted :
  verify_shape false 2 2 2 0 1 0 = OPanic 294 /\ verify_shape false 2 2 2 0 1 2 = OPanic 593.
Proof. exact pinned_tree_panics. Qed.
Print Assumptions C08_pinned_tree_refuted.

(* Decoding: whatever the two length prefixes claim, a successful decode consumed exactly the
   shape-determined number of bytes, so |L| + |R| <= |input| / PS: the decoded object (and the work and
   memory to build it, one element per loop step with no pre-allocation) is linear in the input;
   failure is a value, the reader being a total function. *)
Theorem C08_decode_linear :
  forall (K : FieldOps) (MO : ModOps K) (PS SS : nat) (dec_pt : list Z -> option MO) (dec_sc : list Z -> option K)
         (bs : list Z) (p : r1cs_proof K MO) (rest : list Z),
    0 < PS -> 0 < SS ->
    decode_r PS SS dec_pt dec_sc bs = Some (p, rest) ->
    length bs = encoded_size PS SS (length (ipp_L (ipp p))) (length (ipp_R (ipp p))) + length rest.
Proof. intros; eapply decode_consumption; eassumption. Qed.
Print Assumptions C08_decode_linear.
