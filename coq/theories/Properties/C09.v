(* Properties/C09.v — Hiding: every commitment carries fresh independent blinding from the prover RNG.
   Structural statement (simulation-based zero knowledge is not formalised, see DESIGN.md §9). *)
Require Import BP.Proofs.HidingLemmas.
Require Import BP.Proofs.IndepLemmas.
Open Scope F_scope.
Open Scope M_scope.

(* Every component of an emitted proof, in terms of the witness and the i-th RNG draw [d i]:
   witness part + (fresh draw) . B~ for A_I1, A_O1, (A_I2, A_O2); masking vectors and blinding from
   further draws for S1, S2; t_i.B + (fresh draw).B~ for the five T_i; the two published blinding
   scalars as the stated combinations. *)
Theorem C09_blinding_layout :
  forall (K : FieldOps) (MO : ModOps K) (RO : transcript K MO -> K) (B Bb : MO)
         (Gs Hs : list MO) (d : nat -> K) (ps : pstate K MO) (po : prover_out K MO),
    prove RO B Bb Gs Hs d ps = Ok po ->
    let n1 := length (p_aL ps) in let s2 := po_state po in
    let n := length (p_aL s2) in let n2 := (n - n1)%nat in
    let pf := po_proof po in
    let G1 := firstn n1 Gs in let H1 := firstn n1 Hs in
    let G2 := skipn n1 (firstn n Gs) in let H2 := skipn n1 (firstn n Hs) in
    A_I1 pf = d 0%nat • Bb + msm (p_aL ps) G1 + msm (p_aR ps) H1
    /\ A_O1 pf = d 1%nat • Bb + msm (p_aO ps) G1
    /\ S1 pf = d 2%nat • Bb + msm (map d (seq 3 n1)) G1 + msm (map d (seq (3 + n1) n1)) H1
    /\ (n2 = 0%nat -> A_I2 pf = m0 /\ A_O2 pf = m0 /\ S2 pf = m0)
    /\ ((0 < n2)%nat ->
        A_I2 pf = d (base_of n1) • Bb + msm (skipn n1 (p_aL s2)) G2 + msm (skipn n1 (p_aR s2)) H2
        /\ A_O2 pf = d (base_of n1 + 1)%nat • Bb + msm (skipn n1 (p_aO s2)) G2
        /\ S2 pf = d (base_of n1 + 2)%nat • Bb + msm (map d (seq (base2_of n1 n2) n2)) G2
                   + msm (map d (seq (base2_of n1 n2 + n2) n2)) H2)
    /\ (exists t1 t3 t4 t5 t6 : K,
          let b3 := base3_of n1 n2 in
          T_1 pf = t1 • B + d b3 • Bb /\ T_3 pf = t3 • B + d (b3 + 1)%nat • Bb
          /\ T_4 pf = t4 • B + d (b3 + 2)%nat • Bb /\ T_5 pf = t5 • B + d (b3 + 3)%nat • Bb
          /\ T_6 pf = t6 • B + d (b3 + 4)%nat • Bb)
    /\ po_ndraws po = (base3_of n1 n2 + 5)%nat.
Proof.
  intros K MO RO B Bb Gs Hs d ps po Hp. cbv zeta.
  destruct (prove_inv RO B Bb Gs Hs d ps po Hp)
    as (y & z & u & x & w & tr9 & ev & tr1 & _ & _ & _ & _ & _ & E1 & E2 & T1 & T3 & T4 & T5 & T6 & _).
  unfold p_commit1 in E1. injection E1 as A1 A2 A3.
  unfold p_commit2, blind2 in E2.
  split; [exact A1|]. split; [exact A2|]. split; [exact A3|].
  split.
  { intros Hn2. rewrite Hn2 in E2. simpl in E2. injection E2 as B1 B2 B3. auto. }
  split.
  { intros Hn2. rewrite (proj2 (Nat.ltb_lt _ _) Hn2) in E2. rewrite Nat.add_0_r in E2. injection E2 as B1 B2 B3. auto. }
  split.
  { do 5 eexists. cbv zeta. repeat split; eassumption. }
  clear - Hp. unfold prove in Hp.
  destruct (Nat.ltb _ _); [discriminate|]. destruct (p_commit1 _ _ _ _ _ _ _) as [[? ?] ?].
  destruct (p_phase2 RO _) as [[s2 ?] [[]|?]]; [|discriminate].
  destruct (Nat.ltb _ _); [discriminate|]. destruct (p_commit2 _ _ _ _ _ _ _ _) as [[? ?] ?].
  unfold challenge in Hp. cbv zeta in Hp.
  match type of Hp with context [ipp_create RO ?t ?q ?gf ?hf ?g ?h ?a ?b] =>
    destruct (ipp_create RO t q gf hf g h a b) as [[? ?] ?] end.
  inversion Hp. reflexivity.
Qed.
Print Assumptions C09_blinding_layout.

(* The draw indices used are exactly 0 .. ndraws-1, each once: all blinding scalars and masking-vector
   entries are mutually distinct fresh draws, none skipped, none reused. *)
Theorem C09_draws_used_exactly_once :
  forall n1 n2 : nat, layout n1 n2 = seq 0 (base3_of n1 n2 + 5) /\ NoDup (layout n1 n2).
Proof. intros; split; [apply layout_is_identity | apply layout_nodup]. Qed.
Print Assumptions C09_draws_used_exactly_once.

(* A component really depends on its draw: with B~ <> 0, equal commitments force equal blinding. *)
Theorem C09_component_injective :
  forall (K : FieldOps) (FL : FieldLaws K) (MO : ModOps K) (ML : ModLaws MO) (Bb W : MO) (k k' : K),
    Bb <> m0 -> k • Bb + W = k' • Bb + W -> k = k'.
Proof. intros; eapply blinding_injective; eassumption. Qed.
Print Assumptions C09_component_injective.

(* What the statement fixes: for a gate-free circuit t_x = 0 and the final scalars are 0 and -1. *)
Theorem C09_fixed_components_gate_free :
  forall (K : FieldOps) (FL : FieldLaws K) (MO : ModOps K) (ML : ModLaws MO) (RO : transcript K MO -> K)
         (fw : weights K) (y x : K) tr Q gf hf (G H : list MO),
    length G = 1%nat ->
    let pl := @p_polys K fw y [] [] [] [] [] in
    poly6_eval x (pt1 pl) (pt2 pl) (pt3 pl) (pt4 pl) (pt5 pl) (pt6 pl) = f0
    /\ let '(p, _, _) := ipp_create RO tr Q gf hf G H (p_lvec pl x 0 1) (p_rvec pl x y 0 1) in
       ipp_a p = f0 /\ ipp_b p = (- f1)%F /\ ipp_L p = [] /\ ipp_R p = [].
Proof. intros; split; [apply gate_free_tx | apply gate_free_ab; assumption]. Qed.
Print Assumptions C09_fixed_components_gate_free.

(* Perfect hiding of each blinded component in a cyclic group (every point a multiple of B~): a commitment
   to v under r is a commitment to any v' under exactly one r', and a blinded vector commitment d.B~ + W is
   d'.B~ + W' for exactly one d'.  With d uniform (a fresh draw, C09_blinding_layout) the component is therefore
   uniform whatever the witness. *)
Theorem C09_pedersen_perfectly_hiding :
  forall (K : FieldOps) (FL : FieldLaws K) (MO : ModOps K) (ML : ModLaws MO) (B Bb : MO) (beta v r v' : K),
    Bb <> m0 -> B = beta • Bb ->
    pedersen_commit B Bb v r = pedersen_commit B Bb v' (r + beta * (v - v'))%F
    /\ (forall r' : K, pedersen_commit B Bb v r = pedersen_commit B Bb v' r' -> r' = (r + beta * (v - v'))%F).
Proof. intros; apply pedersen_perfectly_hiding; assumption. Qed.
Print Assumptions C09_pedersen_perfectly_hiding.

Theorem C09_blinded_component_perfectly_hiding :
  forall (K : FieldOps) (FL : FieldLaws K) (MO : ModOps K) (ML : ModLaws MO) (Bb W W' : MO) (omega omega' d : K),
    Bb <> m0 -> W = omega • Bb -> W' = omega' • Bb ->
    d • Bb + W = (d + (omega - omega'))%F • Bb + W'
    /\ (forall d' : K, d • Bb + W = d' • Bb + W' -> d' = (d + (omega - omega'))%F).
Proof. intros; apply blinded_component_perfectly_hiding; assumption. Qed.
Print Assumptions C09_blinded_component_perfectly_hiding.
