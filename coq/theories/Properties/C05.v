(* Properties/C05.v — Statement and context binding.
   (1) the label and the commitments (values, count, order) are read off the history every challenge is
   derived from; user data appended before / during construction is part of that history (C06);
   (2) with the history — hence all challenges — unchanged, changing the committed-value part of the
   constraints moves the check by r x^2 ((dwc + <dwV, v>) B + <dwV, v~> B~): zero only if the changed
   constraints hold on the committed values for this z, or B, B~ are related;
   (3) changing the bases moves it by c_B (B' - B) + c_B~ (B~' - B~) with the first two verification scalars. *)
Require Import BP.Proofs.IntegrityLemmas.
Require Import BP.Proofs.IndepLemmas.
Open Scope F_scope.

Theorem C05_commitments_in_history :
  forall (K : FieldOps) (MO : ModOps K) (Vs : nat -> MO) (p : prog K) (s : vstate K MO),
    Vs_of (v_tr s) = v_V s -> Vs_of (v_tr (fst (v_run Vs p s))) = v_V (fst (v_run Vs p s)).
Proof. intros; apply commitments_in_history; assumption. Qed.
Print Assumptions C05_commitments_in_history.

Theorem C05_equal_history_equal_statement :
  forall (K : FieldOps) (MO : ModOps K) (Vs1 Vs2 : nat -> MO) (p1 p2 : prog K) (lab1 lab2 : list Z),
    let s1 := fst (v_run Vs1 p1 (v_start lab1)) in let s2 := fst (v_run Vs2 p2 (v_start lab2)) in
    v_tr s1 = v_tr s2 -> lab1 = lab2 /\ v_V s1 = v_V s2.
Proof.
  intros K MO Vs1 Vs2 p1 p2 lab1 lab2 s1 s2 E. split.
  - eapply equal_history_equal_label; exact E.
  - eapply equal_history_equal_statement; exact E.
Qed.
Print Assumptions C05_equal_history_equal_statement.

Section C05b.
  Context {K : FieldOps} {FL : FieldLaws K} {MO : ModOps K} {ML : ModLaws MO}.
  Add Ring Rc05 : (@Rth K FL MO ML).

  Theorem C05_changed_committed_constraints :
    forall (B Bb : MO) (fw fw' : weights K) (y u x w r : K)
           (us : list K) (n1 n pn : nat) (Gs Hs : list MO) (vs vbs : list K) (p : r1cs_proof K MO),
      wL fw' = wL fw -> wR fw' = wR fw -> wO fw' = wO fw ->
      length vs = length (wV fw) -> length vbs = length (wV fw) -> length (wV fw') = length (wV fw) ->
      let Vs := map2 (fun v vb => (v • B + vb • Bb)%M) vs vbs in
      (check B Bb fw' y u x w r us n1 n pn Gs Hs Vs p - check B Bb fw y u x w r us n1 n pn Gs Hs Vs p)%M
      = ((r * sq x) • (((wc fw' + ip (wV fw') vs) - (wc fw + ip (wV fw) vs))%F • B + (ip (wV fw') vbs - ip (wV fw) vbs)%F • Bb))%M.
  Proof.
    intros B Bb fw fw' y u x w r us n1 n pn Gs Hs vs vbs p EL ER EO L1 L2 L3 Vs.
    rewrite (changed_committed_part B Bb fw fw') by assumption.
    unfold Vs. rewrite !(msm_commitments B Bb) by congruence.
    mring_prep. ring.
  Qed.
End C05b.
Print Assumptions C05_changed_committed_constraints.

Theorem C05_changed_bases :
  forall (K : FieldOps) (FL : FieldLaws K) (MO : ModOps K) (ML : ModLaws MO) (B Bb B' Bb' : MO) (c0 c1 : K) (rest : list K) (pts : list MO),
    (msm (c0 :: c1 :: rest) ([B'; Bb'] ++ pts) - msm (c0 :: c1 :: rest) ([B; Bb] ++ pts))%M
    = (c0 • (B' - B) + c1 • (Bb' - Bb))%M.
Proof. intros; apply changed_bases. Qed.
Print Assumptions C05_changed_bases.

(* Under independence of the two Pedersen bases: at the same challenges a changed committed-value part
   (coefficients or constant) is accepted only if it takes the same value on the committed openings —
   i.e. only if the committed values satisfy the changed statement too (for this z). *)
Theorem C05_changed_committed_constraints_rejected :
  forall (K : FieldOps) (FL : FieldLaws K) (MO : ModOps K) (ML : ModLaws MO) (B Bb : MO) (fw fw' : weights K) (y u x w r : K)
         (us : list K) (n1 n pn : nat) (Gs Hs : list MO) (vs vbs : list K) (p : r1cs_proof K MO),
    indep2 B Bb -> r <> f0 -> x <> f0 ->
    wL fw' = wL fw -> wR fw' = wR fw -> wO fw' = wO fw ->
    length vs = length (wV fw) -> length vbs = length (wV fw) -> length (wV fw') = length (wV fw) ->
    let Vs := map2 (fun v vb => (v • B + vb • Bb)%M) vs vbs in
    check B Bb fw y u x w r us n1 n pn Gs Hs Vs p = m0 ->
    check B Bb fw' y u x w r us n1 n pn Gs Hs Vs p = m0 ->
    (wc fw' + ip (wV fw') vs = wc fw + ip (wV fw) vs)%F /\ ip (wV fw') vbs = ip (wV fw) vbs.
Proof. intros K FL MO ML B Bb fw fw' y u x w r us n1 n pn Gs Hs vs vbs p; apply changed_committed_constraints_rejected. Qed.
Print Assumptions C05_changed_committed_constraints_rejected.

(* a different blinding base (its verification scalar c1 non-zero), or a different value base (c0 non-zero:
   the circuit has a gate or a non-trivial evaluation), cannot both satisfy the combined check *)
Theorem C05_changed_single_base_rejected :
  forall (K : FieldOps) (FL : FieldLaws K) (MO : ModOps K) (ML : ModLaws MO) (B Bb X : MO) (c0 c1 : K) (rest : list K) (pts : list MO),
    msm (c0 :: c1 :: rest) ([B; Bb] ++ pts) = m0 ->
    (c1 <> f0 -> msm (c0 :: c1 :: rest) ([B; X] ++ pts) = m0 -> X = Bb)
    /\ (c0 <> f0 -> msm (c0 :: c1 :: rest) ([X; Bb] ++ pts) = m0 -> X = B).
Proof.
  intros K FL MO ML B Bb X c0 c1 rest pts H. split; intros Hc H'.
  - eapply changed_blinding_base_rejected; eassumption.
  - eapply changed_value_base_rejected; eassumption.
Qed.
Print Assumptions C05_changed_single_base_rejected.
