(* Properties/C14.v — Zorro is a prime-order curve whose order is its declared scalar field modulus.
   Constants and mul_by_a are REGENERATED from the source on every run (Gen/ZorroConstsGen.v). *)
Require Import ZArith Znumtheory.
Require Import BP.Gen.ZorroConstsGen BP.Zorro.Cert BP.Zorro.Curve.
Open Scope Z_scope.

(* base-field modulus and scalar-field modulus are prime (Pratt certificates, Lucas' theorem) *)
Theorem C14_q_prime : prime q.
Proof. exact q_prime. Qed.
Print Assumptions C14_q_prime.

Theorem C14_r_prime_and_value : prime r_fr /\ r_fr = 2 ^ 255 - 19.
Proof. split; [exact r_prime | exact r_is_2_255_minus_19]. Qed.
Print Assumptions C14_r_prime_and_value.

(* the declared generator lies on y^2 = x^3 + a x + b with the declared coefficients; the curve is non-singular *)
Theorem C14_generator_on_curve :
  on_curve_affine gx gy = true /\ discriminant_nonzero = true
  /\ (0 <= gx < q /\ 0 <= gy < q /\ 0 <= coeff_a < q /\ 0 <= coeff_b < q).
Proof. split; [exact generator_on_curve | split; [exact curve_nonsingular | exact generator_in_range]]. Qed.
Print Assumptions C14_generator_on_curve.

(* the specialised multiply-by-a routine is multiplication by the declared a, for every element *)
Theorem C14_mul_by_a : forall x : Z, mul_by_a_gen x = coeff_a * x.
Proof. exact mul_by_a_correct. Qed.
Print Assumptions C14_mul_by_a.

(* r.G = infinity and G <> infinity by the double-and-add ladder (so, r being prime, G has order r);
   cofactor 1; and the Hasse interval around q+1 contains exactly one multiple of r.
   NOT formalised (DESIGN.md §9): associativity of the chord-and-tangent law, Lagrange, Hasse's bound —
   with these three textbook facts the statements below give #E = r exactly. *)
Theorem C14_order :
  jis_inf (jmul r_fr G) = true /\ jis_inf G = false /\ cofactor = 1
  /\ (forall N : Z, (r_fr | N) -> 0 < N -> (q + 1 - N) * (q + 1 - N) <= 4 * q -> N = r_fr).
Proof.
  split; [exact rG_is_infinity | split; [exact G_not_infinity | split; [exact cofactor_is_one | exact order_pinned_by_hasse]]].
Qed.
Print Assumptions C14_order.
