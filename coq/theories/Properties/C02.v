(* Properties/C02.v — Soundness against invalid witnesses: violated constraints are never accepted
   (the proof the proving procedure emits for ANY secrets state). *)
Require Import BP.Proofs.SoundnessLemmas.
Open Scope F_scope.

(* The exact acceptance condition.  E(y,z) = sum_i y^i (a_L[i] a_R[i] - a_O[i]) + sum_q z^(q+1) eval(lc_q)
   is the error polynomial of the final secrets state (arbitrary: hook H2 reaches every state) and
   constraint list (for 2-phase programs, the one the closures produced).  The verifier accepts the
   emitted proof iff r . x^2 . E(y,z) = 0 — for every field and F-module with B <> 0; otherwise it
   returns VerificationError.  The three guards of the code are exactly the terms of E: the
   r-weighted t_2 check, the -y^n term, the verifier-only constant term wc. *)
Theorem C02_verdict_iff :
  forall (K : FieldOps) (FL : FieldLaws K) (MO : ModOps K) (ML : ModLaws MO)
         (RO : transcript K MO -> K) (B Bb : MO) (Gs Hs Gv Hv : list MO) (d : nat -> K)
         (ps : pstate K MO) (vs : vstate K MO) (po : prover_out K MO) (y z u x w : K),
    Rel B Bb ps vs -> Forall assigned_r (p_def ps) ->
    prove RO B Bb Gs Hs d ps = Ok po ->
    length Hs = length Gs -> length Hv = length Gv ->
    let pn := next_pow2 (po_n po) in
    (pn <= length Gv)%nat -> firstn pn Gv = firstn pn Gs -> firstn pn Hv = firstn pn Hs ->
    (Nat.log2 pn < 32)%nat ->
    ID (po_proof po) ->
    po_chal po = [y; z; u; x; w] -> y <> f0 -> all_nz (po_ipp_chal po) -> B <> m0 ->
    let s2 := po_state po in
    exists r,
      (verify RO B Bb Gv Hv vs (po_proof po) = Ok (po_tr po) <->
       r * sq x * E_poly y z (p_asg s2) (p_cons s2) = f0)
      /\ (verify RO B Bb Gv Hv vs (po_proof po) <> Ok (po_tr po) ->
          verify RO B Bb Gv Hv vs (po_proof po) = Err EVerification).
Proof. intros; eapply verdict_of_procedure; eassumption. Qed.
Print Assumptions C02_verdict_iff.

(* E is a polynomial in z (resp. y) whose coefficients are fixed before that challenge is drawn:
   they are the values of the constraints and the gate errors. *)
Theorem C02_error_polynomial :
  forall (K : FieldOps) (FL : FieldLaws K) (y z : K) (w : assignment K) (cons : list (lc K)),
    E_poly y z w cons = peval (ip (gate_errors w) (powers y (length (as_L w))) :: constraint_values w cons) z
    /\ (length (as_R w) = length (as_L w) -> length (as_O w) = length (as_L w) ->
        E_poly y z w cons = peval (gate_errors w) y + zsum w z z cons).
Proof. intros; split; [apply E_poly_in_z | apply E_poly_in_y]. Qed.
Print Assumptions C02_error_polynomial.

(* A violated linear constraint (any position, constant-only and committed-only included): for every
   y, at most Q = #constraints values of z make E vanish.  All constraints satisfied but a gate
   violated: for every z, at most n-1 values of y.  (The deterministic content of "rejected except
   with probability <= max(Q, n-1)/|F|" per challenge; r and x are further non-zero challenges.) *)
Theorem C02_few_bad_challenges :
  forall (K : FieldOps) (FL : FieldLaws K) (w : assignment K) (cons : list (lc K)),
    (forall (y : K) (zs : list K),
        (exists c, In c cons /\ eval_lc w c <> f0) ->
        NoDup zs -> (forall z, In z zs -> E_poly y z w cons = f0) -> (length zs <= length cons)%nat)
    /\ (forall (z : K) (ys : list K),
        length (as_R w) = length (as_L w) -> length (as_O w) = length (as_L w) ->
        (forall c, In c cons -> eval_lc w c = f0) ->
        (exists e, In e (gate_errors w) /\ e <> f0) ->
        NoDup ys -> (forall y, In y ys -> E_poly y z w cons = f0) -> (length ys < length (as_L w))%nat).
Proof. intros; split; intros; [eapply few_bad_z | eapply few_bad_y]; eassumption. Qed.
Print Assumptions C02_few_bad_challenges.

Theorem C02_violated_gate_gives_nonzero_coefficient :
  forall (K : FieldOps) (FL : FieldLaws K) (w : assignment K) (i : nat),
    length (as_R w) = length (as_L w) -> length (as_O w) = length (as_L w) -> (i < length (as_L w))%nat ->
    nth i (as_O w) f0 <> nth i (as_L w) f0 * nth i (as_R w) f0 ->
    exists e, In e (gate_errors w) /\ e <> f0.
Proof. intros; eapply gate_error_nonzero; eassumption. Qed.
Print Assumptions C02_violated_gate_gives_nonzero_coefficient.

(* and a satisfying witness has E = 0 identically *)
Theorem C02_satisfying_witness_has_zero_error :
  forall (K : FieldOps) (FL : FieldLaws K) (y z : K) (w : assignment K) (cons : list (lc K)),
    sat cons w -> E_poly y z w cons = f0.
Proof. intros; apply E_poly_sat; assumption. Qed.
Print Assumptions C02_satisfying_witness_has_zero_error.
