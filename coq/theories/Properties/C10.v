(* Properties/C10.v — Inner-product argument accepts exactly the correct openings, for all lengths 2^k. *)
Require Import BP.Proofs.IPPLemmas BP.Proofs.SLoopLemmas.
Open Scope F_scope.
Open Scope M_scope.

(* Completeness through the real entry points (create with the unrolled first round and arbitrary
   factor vectors; verify with the s-vector), for every k < 32, every field and F-module:
   exactly k rounds, and the proof verifies against P = <a,gf.G> + <b,hf.H> + <a,b>Q, provided the
   challenges are non-zero and no round point degenerates to the identity. *)
Theorem C10_complete :
  forall (K : FieldOps) (FL : FieldLaws K) (MO : ModOps K) (ML : ModLaws MO)
         (RO : transcript K MO -> K) (meqb : MO -> MO -> bool),
    (forall x y, meqb x y = true <-> x = y) ->
    forall k tr Q gf hf G H a b,
    (k < 32)%nat ->
    length G = (2 ^ k)%nat -> length H = (2 ^ k)%nat -> length gf = (2 ^ k)%nat -> length hf = (2 ^ k)%nat ->
    length a = (2 ^ k)%nat -> length b = (2 ^ k)%nat ->
    let '(p, tr', us) := ipp_create RO tr Q gf hf G H a b in
    all_nonzero us -> no_identity (ipp_L p) -> no_identity (ipp_R p) ->
    length (ipp_L p) = k /\ length (ipp_R p) = k /\
    ipp_verify RO meqb tr (2 ^ k) p gf hf
               (msm a (pscale gf G) + msm b (pscale hf H) + ip a b • Q) Q G H = Ok tt.
Proof. intros K FL MO ML RO meqb Hm. exact (ipp_complete RO meqb Hm). Qed.
Print Assumptions C10_complete.

(* The unrolled first round with factor vectors is the generic round on pre-scaled generators:
   same L, R, a, b, same transcript, same challenges — for non-unit factors, all k. *)
Theorem C10_fast_path :
  forall (K : FieldOps) (FL : FieldLaws K) (MO : ModOps K) (ML : ModLaws MO) (RO : transcript K MO -> K)
         k tr Q gf hf G H a b,
    length G = (2 ^ k)%nat -> length H = (2 ^ k)%nat -> length gf = (2 ^ k)%nat -> length hf = (2 ^ k)%nat ->
    length a = (2 ^ k)%nat -> length b = (2 ^ k)%nat ->
    ipp_create RO tr Q gf hf G H a b = ipp_create_generic RO tr Q (pscale gf G) (pscale hf H) a b.
Proof. intros; eapply fast_path; eassumption. Qed.
Print Assumptions C10_fast_path.

(* The verdict coincides with explicitly folding the (scaled) generators round by round with the
   transcript challenges. *)
Theorem C10_verify_is_explicit_fold :
  forall (K : FieldOps) (FL : FieldLaws K) (MO : ModOps K) (ML : ModLaws MO) (RO : transcript K MO -> K)
         (meqb : MO -> MO -> bool),
    (forall x y, meqb x y = true <-> x = y) ->
    forall tr n (p : ipp_proof K MO) gf hf P Q G H us tr',
    (length (ipp_L p) < 32)%nat -> length (ipp_R p) = length (ipp_L p) -> n = (2 ^ length (ipp_L p))%nat ->
    length G = n -> length H = n -> length gf = n -> length hf = n ->
    ipp_absorb RO (innerproduct_domain_sep tr n) (ipp_L p) (ipp_R p) = Some (us, tr') ->
    all_nonzero us ->
    (ipp_verify RO meqb tr n p gf hf P Q G H = Ok tt <->
     accepts us (pscale gf G) (pscale hf H) P (ipp_L p) (ipp_R p) (ipp_a p) (ipp_b p) Q).
Proof. intros K FL MO ML RO meqb Hm. exact (verify_is_explicit_fold RO meqb Hm). Qed.
Print Assumptions C10_verify_is_explicit_fold.

(* The explicit-fold relation itself is complete for every challenge list (induction on k). *)
Theorem C10_explicit_fold_complete :
  forall (K : FieldOps) (FL : FieldLaws K) (MO : ModOps K) (ML : ModLaws MO)
         (us : list K) (G H : list MO) (a b : list K) (Q : MO),
    (forall u, In u us -> u <> f0) ->
    length a = (2 ^ length us)%nat -> length b = (2 ^ length us)%nat ->
    length G = (2 ^ length us)%nat -> length H = (2 ^ length us)%nat ->
    let '(Ls, Rs, a0, b0) := create_alg us G H a b Q in
    length Ls = length us /\ length Rs = length us /\
    accepts us G H (msm a G + msm b H + ip a b • Q) Ls Rs a0 b0 Q.
Proof. intros K FL MO ML. exact ipp_complete_alg. Qed.
Print Assumptions C10_explicit_fold_complete.

(* The s vector the verifier builds is the vector of folding coefficients, and its reverse is the
   vector of inverse coefficients. *)
Theorem C10_s_vector :
  forall (K : FieldOps) (FL : FieldLaws K) (MO : ModOps K) (ML : ModLaws MO) (us : list K) (G H : list MO),
    (forall u, In u us -> u <> f0) ->
    length G = (2 ^ length us)%nat -> length H = (2 ^ length us)%nat ->
    s_build (rev (map (fun u => (u * u)%F) us)) [allinv_of (map inv_or_zero us)] = svec us
    /\ rev (svec us) = svec_inv us
    /\ foldG us G = msm (svec us) G /\ foldH us H = msm (svec_inv us) H.
Proof.
  intros K FL MO ML us G H Hnz HG HH. repeat split.
  - rewrite allinv_prod by exact Hnz. apply s_build_svec. exact Hnz.
  - symmetry. apply svec_inv_rev.
  - apply foldG_svec. exact HG.
  - apply foldH_svec. exact HH.
Qed.
Print Assumptions C10_s_vector.

(* At most one P is accepted for a given proof: any other P — in particular a wrong claimed product
   P + d.Q with d.Q <> 0 — is rejected. *)
Theorem C10_P_unique :
  forall (K : FieldOps) (FL : FieldLaws K) (MO : ModOps K) (ML : ModLaws MO) (RO : transcript K MO -> K)
         (meqb : MO -> MO -> bool),
    (forall x y, meqb x y = true <-> x = y) ->
    forall tr n p gf hf P P' Q G H,
    ipp_verify RO meqb tr n p gf hf P Q G H = Ok tt ->
    ipp_verify RO meqb tr n p gf hf P' Q G H = Ok tt -> P = P'.
Proof. intros K FL MO ML RO meqb Hm. exact (verify_P_unique RO meqb Hm). Qed.
Print Assumptions C10_P_unique.

(* A claimed length that does not match the rounds, 32 or more rounds, or unequal L/R lists are
   rejected before anything is indexed. *)
Theorem C10_length :
  forall (K : FieldOps) (MO : ModOps K) (RO : transcript K MO -> K) tr n (p : ipp_proof K MO),
    (32 <= length (ipp_L p))%nat \/ length (ipp_R p) <> length (ipp_L p) \/ n <> (2 ^ length (ipp_L p))%nat ->
    ipp_verification_scalars RO tr n p = Err EVerification.
Proof. intros; apply verify_shape; assumption. Qed.
Print Assumptions C10_length.

(* A round whose L or R is the identity is rejected by design. *)
Theorem C10_degenerate_rejected :
  forall (K : FieldOps) (MO : ModOps K) (RO : transcript K MO -> K) tr n (p : ipp_proof K MO),
    (exists P, (In P (ipp_L p) \/ In P (ipp_R p)) /\ mzerob P = true) ->
    ipp_verification_scalars RO tr n p = Err EVerification.
Proof. intros; apply verify_degenerate_rejected; assumption. Qed.
Print Assumptions C10_degenerate_rejected.

(* the s vector computed index by index as in the code —
     s[0] = prod u_j^-1;  for i in 1..n: s[i] = s[i - 2^(lg i)] * u_sq[(lg_n - 1) - lg i]
   — is the specification's s vector (and the blocked form the model evaluates) *)
Theorem C10_s_loop_index_exact :
  forall (K : FieldOps) (FL : FieldLaws K) (us : list K),
    (forall u, In u us -> u <> f0) ->
    s_index (map (fun u => (u * u)%F) us) (prod_inv us) = svec us
    /\ forall (u_sq : list K) (allinv : K), s_index u_sq allinv = s_build (rev u_sq) [allinv].
Proof. intros K FL us H. split; [apply s_index_is_svec; exact H | intros; apply s_index_eq_build]. Qed.
Print Assumptions C10_s_loop_index_exact.
