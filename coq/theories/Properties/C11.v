(* Properties/C11.v — Proof encoding round-trips, has shape-determined size, rejects invalid encodings.
   Element codecs (arkworks' validated compressed mode) are abstract fixed-width codecs with the stated
   hypotheses; their concrete behaviour is measured by K7. *)
Require Import BP.Proofs.CodecLemmas BP.Proofs.CodecFast BP.Proofs.ScalarCodec.

Section C11.
  Context {K : FieldOps} {MO : ModOps K}.
  Variables (PS SS : nat).
  Variable enc_pt : MO -> list Z. Variable dec_pt : list Z -> option MO.
  Variable enc_sc : K -> list Z.  Variable dec_sc : list Z -> option K.
  Hypothesis PS_pos : 0 < PS. Hypothesis SS_pos : 0 < SS.
  Hypothesis enc_pt_len : forall P, length (enc_pt P) = PS.
  Hypothesis enc_sc_len : forall x, length (enc_sc x) = SS.
  Hypothesis dec_enc_pt : forall P, dec_pt (enc_pt P) = Some P.
  Hypothesis dec_enc_sc : forall x, dec_sc (enc_sc x) = Some x.

  (* decoding an encoding (followed by anything) returns the proof; encoding is a function, so re-encoding
     gives the same bytes *)
  Theorem C11_roundtrip_and_suffix :
    forall (p : r1cs_proof K MO) (suffix : list Z),
      small_lists p ->
      decode_r PS SS dec_pt dec_sc (encode enc_pt enc_sc p ++ suffix) = Some (p, suffix)
      /\ decode PS SS dec_pt dec_sc (encode enc_pt enc_sc p) = Some p.
  Proof. intros; split; [apply decode_encode_suffix | apply decode_encode]; assumption. Qed.

  (* 11 points + 5 scalars + two 8-byte counts + (|L| + |R|) points *)
  Theorem C11_length :
    forall p : r1cs_proof K MO,
      length (encode enc_pt enc_sc p) = 11 * PS + 5 * SS + 16 + (length (ipp_L (ipp p)) + length (ipp_R (ipp p))) * PS.
  Proof. intros. rewrite (encode_length PS SS enc_pt enc_sc) by assumption. reflexivity. Qed.

  Theorem C11_strict_prefix_rejected :
    forall (p : r1cs_proof K MO) (k : nat),
      small_lists p -> k < length (encode enc_pt enc_sc p) ->
      decode PS SS dec_pt dec_sc (firstn k (encode enc_pt enc_sc p)) = None.
  Proof. intros; apply strict_prefix_rejected; assumption. Qed.

  (* an element the codec rejects fails the read, and a failed read fails everything that follows it *)
  Theorem C11_bad_element_rejected :
    (forall chunk post, length chunk = PS -> dec_pt chunk = None -> read_pt PS dec_pt (chunk ++ post) = None)
    /\ (forall chunk post, length chunk = SS -> dec_sc chunk = None -> read_sc SS dec_sc (chunk ++ post) = None)
    /\ (forall A C (r : reader A) (f : A -> reader C) bs, r bs = None -> rbind r f bs = None)
    /\ (forall A C (r : reader A) (f : A -> reader C) bs a rest, r bs = Some (a, rest) -> f a rest = None -> rbind r f bs = None).
  Proof.
    repeat split; intros.
    - apply (bad_point_rejected PS SS dec_pt PS_pos SS_pos [] chunk post); assumption.
    - eapply bad_scalar_rejected; eassumption.
    - apply failure_propagates; assumption.
    - eapply failure_propagates_after; eassumption.
  Qed.

  (* the reader that Run/Codec.v evaluates on the implementation's byte strings is the model's reader *)
  Theorem C11_executed_reader_is_model :
    forall bs, Forall (fun b => (0 <= b)%Z) bs ->
      decode_r_fast PS SS dec_pt dec_sc bs = decode_r PS SS dec_pt dec_sc bs.
  Proof. intros. apply decode_r_fast_eq; assumption. Qed.
End C11.

Print Assumptions C11_roundtrip_and_suffix.
Print Assumptions C11_length.
Print Assumptions C11_strict_prefix_rejected.
Print Assumptions C11_bad_element_rejected.
Print Assumptions C11_executed_reader_is_model.

(* The concrete scalar codec executed by Run/Codec.v (SS little-endian bytes, canonical iff below the modulus r,
   ark-ff's compressed Fp codec) meets the section hypotheses above (width, decode-after-encode), is canonical
   (what decodes re-encodes to the same bytes, so two byte strings never give one scalar) and rejects every
   value not below the modulus. *)
Theorem C11_scalar_codec :
  forall (SS : nat) (r : Z), (0 < r <= 256 ^ Z.of_nat SS)%Z ->
    (forall x, (0 <= x < r)%Z ->
       length (enc_sc_le SS x) = SS /\ is_bytes (enc_sc_le SS x) /\ dec_sc_le r (enc_sc_le SS x) = Some x)
    /\ (forall c x, is_bytes c -> length c = SS -> dec_sc_le r c = Some x -> (0 <= x < r)%Z /\ enc_sc_le SS x = c)
    /\ (forall c, (r <= le_val c)%Z -> dec_sc_le r c = None)
    /\ (forall c c' x, is_bytes c -> is_bytes c' -> length c = SS -> length c' = SS ->
          dec_sc_le r c = Some x -> dec_sc_le r c' = Some x -> c = c').
Proof.
  intros SS r Hr. split; [|split; [|split]].
  - intros x Hx. apply (scalar_codec_roundtrip SS r Hr x Hx).
  - intros c x H1 H2 H3. eapply scalar_codec_canonical; eassumption.
  - intros c H. eapply scalar_codec_rejects_noncanonical; eassumption.
  - intros c c' x H1 H2 H3 H4 H5 H6. eapply scalar_codec_injective; eassumption.
Qed.
Print Assumptions C11_scalar_codec.
