(* Properties/C17.v — Too few generators gives a clean error at exactly the padded-size threshold. *)
Require Import BP.Proofs.CapacityLemmas BP.Proofs.ShapeProverLemmas.
Open Scope F_scope.

(* Prover: capacity below the first-phase gate count -> InvalidGeneratorsLength before the closures;
   otherwise the closures run and, unless one of them fails, the error is returned exactly when
   capacity < next_power_of_two(total gates) (zero gates count as one); at or above it proving succeeds. *)
Theorem C17_prover_threshold :
  forall (K : FieldOps) (MO : ModOps K) (RO : transcript K MO -> K) (B Bb : MO)
         (Gs Hs : list MO) (d : nat -> K) (s : pstate K MO),
    let cap := length Gs in let n1 := length (p_aL s) in
    (cap < n1 -> prove RO B Bb Gs Hs d s = Err EGens)%nat
    /\ (n1 <= cap ->
        forall s2 ev r, p_phase2 RO (p_state1 Bb Gs Hs d s) = (s2, ev, r) ->
        match r with
        | Err e => prove RO B Bb Gs Hs d s = Err e
        | Ok _ =>
          let pn := next_pow2 (length (p_aL s2)) in
          (cap < pn -> prove RO B Bb Gs Hs d s = Err EGens)
          /\ (pn <= cap -> exists po, prove RO B Bb Gs Hs d s = Ok po)
        end)%nat.
Proof. intros; apply prover_threshold. Qed.
Print Assumptions C17_prover_threshold.

(* Verifier: once the first three points passed the identity check and the closures ran, the error
   is InvalidGeneratorsLength exactly when capacity < padded size. *)
Theorem C17_verifier_threshold :
  forall (K : FieldOps) (MO : ModOps K) (RO : transcript K MO -> K) (cap : nat) (s : vstate K MO) (p : r1cs_proof K MO),
    mzerob (A_I1 p) = false -> mzerob (A_O1 p) = false -> mzerob (S1 p) = false ->
    let tr3 := append_point (append_point (append_point (append_u64 (v_tr s) "m" (length (v_V s))) "A_I1" (A_I1 p)) "A_O1" (A_O1 p)) "S1" (S1 p) in
    forall s2 ev r, v_phase2 RO (mkV tr3 (v_cons s) (v_num s) (v_V s) (v_def s) (v_pend s)) = (s2, ev, r) ->
    match r with
    | Err e => verification_scalars RO cap s p = Err e
    | Ok _ =>
      let pn := next_pow2 (v_num s2) in
      (cap < pn -> verification_scalars RO cap s p = Err EGens)%nat
      /\ (pn <= cap -> verification_scalars RO cap s p <> Err EGens)%nat
    end.
Proof. intros; eapply verifier_threshold; eassumption. Qed.
Print Assumptions C17_verifier_threshold.

(* Above the threshold neither the proof nor the verdict depends on how much larger the capacity is:
   only the first n' generators are ever read. *)
Theorem C17_capacity_independent :
  forall (K : FieldOps) (FL : FieldLaws K) (MO : ModOps K) (ML : ModLaws MO) (RO : transcript K MO -> K) (B Bb : MO)
         (Gs Hs Gs' Hs' : list MO) (d : nat -> K) (ps : pstate K MO) (po : prover_out K MO)
         (vs : vstate K MO) (p : r1cs_proof K MO) (vo : verifier_out K MO),
    (length (p_aR ps) = length (p_aL ps) -> length (p_aO ps) = length (p_aL ps) ->
     prove RO B Bb Gs Hs d ps = Ok po ->
     let pn := next_pow2 (po_n po) in
     (pn <= length Gs')%nat -> firstn pn Gs' = firstn pn Gs -> firstn pn Hs' = firstn pn Hs ->
     prove RO B Bb Gs' Hs' d ps = Ok po)
    /\ (verification_scalars RO (length Gs) vs p = Ok vo ->
        (vo_padded vo <= length Gs')%nat ->
        firstn (vo_padded vo) Gs' = firstn (vo_padded vo) Gs -> firstn (vo_padded vo) Hs' = firstn (vo_padded vo) Hs ->
        verify RO B Bb Gs' Hs' vs p = verify RO B Bb Gs Hs vs p).
Proof.
  intros; split; intros; [eapply prove_capacity_independent | eapply verify_capacity_independent]; eassumption.
Qed.
Print Assumptions C17_capacity_independent.

(* The proving side on sizes: Model/ShapeProver.v lists the panic sites of prove_and_return_transcript and
   InnerProductProof::create (share(0), every msm(..).unwrap(), the indexed loops, the length and
   power-of-two assertions, the slices in create); none is reachable, and the clean error is returned
   exactly below the padded threshold. *)
Theorem C17_prover_never_panics :
  forall pcap cap n1 n, (1 <= pcap)%nat -> (n1 <= n)%nat -> forall s, prove_shape pcap cap n1 n <> OPanic s.
Proof. exact prove_shape_total. Qed.
Print Assumptions C17_prover_never_panics.

Theorem C17_prover_shape_threshold :
  forall pcap cap n1 n, (1 <= pcap)%nat -> (n1 <= n)%nat ->
    (prove_shape pcap cap n1 n = OErr <-> (cap < next_pow2 n)%nat) /\ (prove_shape pcap cap n1 n = OOk <-> (next_pow2 n <= cap)%nat).
Proof. exact prove_shape_threshold. Qed.
Print Assumptions C17_prover_shape_threshold.
