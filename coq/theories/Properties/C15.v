(* Properties/C15.v — Linear-combination arithmetic preserves meaning.
   Only statements, each closed by [exact]; Print Assumptions beneath. *)
Require Import BP.Proofs.LCLemmas.
Open Scope F_scope.

Theorem C15_operators_sound :
  forall (K : FieldOps) (FL : FieldLaws K) (w : assignment K) (a b : lc K) (s c : K) (v : var),
    eval_lc w (lc_of_var v) = var_val w v
    /\ eval_lc w (lc_of_const c) = c
    /\ eval_lc w (lc_neg a) = - eval_lc w a
    /\ eval_lc w (lc_add a b) = eval_lc w a + eval_lc w b
    /\ eval_lc w (lc_sub a b) = eval_lc w a - eval_lc w b
    /\ eval_lc w (lc_scale a s) = eval_lc w a * s
    /\ eval_lc w (var_neg v) = - var_val w v
    /\ eval_lc w (var_add v b) = var_val w v + eval_lc w b
    /\ eval_lc w (var_sub v b) = var_val w v - eval_lc w b
    /\ eval_lc w (var_scale v s) = var_val w v * s.
Proof.
  intros. repeat split;
    [apply eval_of_var | apply eval_of_const | apply eval_neg | apply eval_add | apply eval_sub
     | apply eval_scale | apply eval_var_neg | apply eval_var_add | apply eval_var_sub | apply eval_var_scale].
Qed.
Print Assumptions C15_operators_sound.

Theorem C15_denotation :
  forall (K : FieldOps) (FL : FieldLaws K) (w : assignment K) (t : lcexpr K),
    eval_lc w (compile t) = denote w t.
Proof. exact @compile_denote. Qed.
Print Assumptions C15_denotation.

Theorem C15_repeated_zero_phantom :
  forall (K : FieldOps) (FL : FieldLaws K) (w : assignment K) (v : var) (c1 c2 : K) (a : lc K),
    eval_lc w ((v, c1) :: (v, c2) :: a) = eval_lc w ((v, c1 + c2) :: a)
    /\ eval_lc w ((v, f0) :: a) = eval_lc w a
    /\ eval_lc w ((VPhantom, c1) :: a) = eval_lc w a.
Proof. intros. repeat split; [apply eval_repeated | apply eval_zero_coeff | apply eval_phantom]. Qed.
Print Assumptions C15_repeated_zero_phantom.
