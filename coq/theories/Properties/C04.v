(* Properties/C04.v — Proof integrity.  An altered proof object is rejected unless a discrete-log relation
   between independently derived generators holds or the challenges (oracle values on a different history)
   happen to satisfy an equation: the deterministic content proved here is
   (1) the verdict is `check = 0` (C03); (2) check is affine in every proof field with an explicit
   coefficient; (3) every coefficient is non-zero for non-zero challenges, so with the challenges held
   fixed no single changed point, round point or absorbed scalar leaves an accepted proof accepted;
   (4) every field except (a, b) is determined by the history the challenges are derived from, so changing
   it changes the oracle's input; (5) two accepted (a, b) give a relation between folded generators and B. *)
Require Import BP.Proofs.IntegrityLemmas BP.Proofs.VerifierLemmas BP.Proofs.CodecLemmas.
Require Import BP.Proofs.IndepLemmas.
Open Scope F_scope.

Theorem C04_verdict_is_check :
  forall (K : FieldOps) (FL : FieldLaws K) (MO : ModOps K) (ML : ModLaws MO) (RO : transcript K MO -> K) (B Bb : MO)
         (Gs Hs : list MO) (s : vstate K MO) (p : r1cs_proof K MO) (vo : verifier_out K MO),
    verification_scalars RO (length Gs) s p = Ok vo -> (vo_padded vo <= length Hs)%nat -> all_nz (vo_ipp_chal vo) ->
    exists y z u x w r,
      vo_chal vo = [y; z; u; x; w; r] /\
      (verify RO B Bb Gs Hs s p = Ok (v_tr (vo_state vo)) <->
       check B Bb (vo_w vo) y u x w r (vo_ipp_chal vo) (vo_n1 vo) (v_num (vo_state vo)) (vo_padded vo) Gs Hs (v_V (vo_state vo)) p = m0).
Proof.
  intros K FL MO ML RO B Bb Gs Hs s p vo H1 H2 H3.
  destruct (verify_iff_relations RO B Bb Gs Hs s p vo H1 H2 H3) as (y & z & u & x & w & r & E & H & _).
  exists y, z, u, x, w, r. split; [exact E | exact H].
Qed.
Print Assumptions C04_verdict_is_check.

Theorem C04_check_affine_in_every_field :
  forall (K : FieldOps) (FL : FieldLaws K) (MO : ModOps K) (ML : ModLaws MO) (B Bb : MO) (fw : weights K) (y u x w r : K)
         (us : list K) (n1 n pn : nat) (Gs Hs Vs : list MO) (p p' : r1cs_proof K MO),
    let a := ipp_a (ipp p) in let b := ipp_b (ipp p) in
    let a' := ipp_a (ipp p') in let b' := ipp_b (ipp p') in
    (check B Bb fw y u x w r us n1 n pn Gs Hs Vs p' - check B Bb fw y u x w r us n1 n pn Gs Hs Vs p)%M
    = (x • (A_I1 p' - A_I1 p) + sq x • (A_O1 p' - A_O1 p) + (x * sq x) • (S1 p' - S1 p)
       + (x * u) • (A_I2 p' - A_I2 p) + (sq x * u) • (A_O2 p' - A_O2 p) + (x * sq x * u) • (S2 p' - S2 p)
       + (r * x) • (T_1 p' - T_1 p) + (r * (x * sq x)) • (T_3 p' - T_3 p) + (r * (sq x * sq x)) • (T_4 p' - T_4 p)
       + (r * (x * sq x * sq x)) • (T_5 p' - T_5 p) + (r * (sq x * sq x * sq x)) • (T_6 p' - T_6 p)
       + ((w - r) * (t_x p' - t_x p))%F • B
       + (- (r * (t_x_blinding p' - t_x_blinding p)))%F • Bb
       + (- (e_blinding p' - e_blinding p))%F • Bb
       + (msm (map sq us) (ipp_L (ipp p')) - msm (map sq us) (ipp_L (ipp p)))
       + (msm (map (fun u0 => sq (finv u0)) us) (ipp_R (ipp p')) - msm (map (fun u0 => sq (finv u0)) us) (ipp_R (ipp p)))
       + (- (a' - a))%F • foldG us (Gprime u n1 pn Gs)
       + (- (b' - b))%F • foldH us (Hprime y u n1 pn Hs)
       + (- (w * (a' * b' - a * b)))%F • B)%M.
Proof. intros; apply check_difference. Qed.
Print Assumptions C04_check_affine_in_every_field.

Theorem C04_changed_point_rejected :
  forall (K : FieldOps) (FL : FieldLaws K) (MO : ModOps K) (ML : ModLaws MO) (B Bb : MO) (fw : weights K) (y u x w r : K)
         (us : list K) (n1 n pn : nat) (Gs Hs Vs : list MO) (p : r1cs_proof K MO) (i : nat) (X' : MO),
    x <> f0 -> u <> f0 -> r <> f0 -> (i < 11)%nat ->
    check B Bb fw y u x w r us n1 n pn Gs Hs Vs p = m0 ->
    check B Bb fw y u x w r us n1 n pn Gs Hs Vs (with_point i X' p) = m0 ->
    X' = nth i (fixed_points p) m0.
Proof. intros K FL MO ML B Bb fw y u x w r us n1 n pn Gs Hs Vs p i X'; intros; apply (changed_point_rejected B Bb fw y u x w r us n1 n pn Gs Hs Vs p i X'); assumption. Qed.
Print Assumptions C04_changed_point_rejected.

Theorem C04_changed_round_point_rejected :
  forall (K : FieldOps) (FL : FieldLaws K) (MO : ModOps K) (ML : ModLaws MO) (B Bb : MO) (fw : weights K) (y u x w r : K)
         (us : list K) (n1 n pn : nat) (Gs Hs Vs : list MO) (p : r1cs_proof K MO) (j : nat) (X' : MO),
    Forall (fun uj => uj <> f0) us -> (j < length us)%nat ->
    length (ipp_L (ipp p)) = length us -> length (ipp_R (ipp p)) = length us ->
    check B Bb fw y u x w r us n1 n pn Gs Hs Vs p = m0 ->
    (check B Bb fw y u x w r us n1 n pn Gs Hs Vs (with_L j X' p) = m0 -> X' = nth j (ipp_L (ipp p)) m0)
    /\ (check B Bb fw y u x w r us n1 n pn Gs Hs Vs (with_R j X' p) = m0 -> X' = nth j (ipp_R (ipp p)) m0).
Proof. intros K FL MO ML B Bb fw y u x w r us n1 n pn Gs Hs Vs p j X'; intros; apply (changed_round_point_rejected B Bb fw y u x w r us n1 n pn Gs Hs Vs p j X'); assumption. Qed.
Print Assumptions C04_changed_round_point_rejected.

Theorem C04_changed_scalars_give_relation :
  forall (K : FieldOps) (FL : FieldLaws K) (MO : ModOps K) (ML : ModLaws MO) (B Bb : MO) (fw : weights K) (y u x w r : K)
         (us : list K) (n1 n pn : nat) (Gs Hs Vs : list MO) (p : r1cs_proof K MO) (tx txb eb : K),
    check B Bb fw y u x w r us n1 n pn Gs Hs Vs p = m0 ->
    check B Bb fw y u x w r us n1 n pn Gs Hs Vs (with_scalars tx txb eb p) = m0 ->
    (((w - r) * (tx - t_x p))%F • B + (- (r * (txb - t_x_blinding p) + (eb - e_blinding p)))%F • Bb)%M = m0.
Proof. intros K FL MO ML B Bb fw y u x w r us n1 n pn Gs Hs Vs p tx txb eb; intros; apply (changed_scalars B Bb fw y u x w r us n1 n pn Gs Hs Vs p tx txb eb); assumption. Qed.
Print Assumptions C04_changed_scalars_give_relation.

Theorem C04_final_scalars_give_relation :
  forall (K : FieldOps) (FL : FieldLaws K) (MO : ModOps K) (ML : ModLaws MO) (B Bb : MO) (fw : weights K) (y u x w r : K)
         (us : list K) (n1 n pn : nat) (Gs Hs Vs : list MO) (p p' : r1cs_proof K MO),
    A_I1 p' = A_I1 p -> A_O1 p' = A_O1 p -> S1 p' = S1 p -> A_I2 p' = A_I2 p -> A_O2 p' = A_O2 p -> S2 p' = S2 p ->
    T_1 p' = T_1 p -> T_3 p' = T_3 p -> T_4 p' = T_4 p -> T_5 p' = T_5 p -> T_6 p' = T_6 p ->
    t_x p' = t_x p -> t_x_blinding p' = t_x_blinding p -> e_blinding p' = e_blinding p ->
    ipp_L (ipp p') = ipp_L (ipp p) -> ipp_R (ipp p') = ipp_R (ipp p) ->
    check B Bb fw y u x w r us n1 n pn Gs Hs Vs p = m0 -> check B Bb fw y u x w r us n1 n pn Gs Hs Vs p' = m0 ->
    ((ipp_a (ipp p') - ipp_a (ipp p))%F • foldG us (Gprime u n1 pn Gs)
     + (ipp_b (ipp p') - ipp_b (ipp p))%F • foldH us (Hprime y u n1 pn Hs)
     + (w * (ipp_a (ipp p') * ipp_b (ipp p') - ipp_a (ipp p) * ipp_b (ipp p)))%F • B)%M = m0.
Proof. intros K FL MO ML B Bb fw y u x w r us n1 n pn Gs Hs Vs p p'; intros; apply (ab_relation B Bb fw y u x w r us n1 n pn Gs Hs Vs p p'); assumption. Qed.
Print Assumptions C04_final_scalars_give_relation.

Theorem C04_history_determines_all_but_final_scalars :
  forall (K : FieldOps) (MO : ModOps K) (p p' : r1cs_proof K MO) (m m' pn pn' : nat),
    length (ipp_R (ipp p)) = length (ipp_L (ipp p)) -> length (ipp_R (ipp p')) = length (ipp_L (ipp p')) ->
    head_ops m p = head_ops m' p' ->
    tail_ops p pn ++ ipp_ops (ipp_L (ipp p)) (ipp_R (ipp p)) = tail_ops p' pn' ++ ipp_ops (ipp_L (ipp p')) (ipp_R (ipp p')) ->
    m = m' /\ A_I1 p = A_I1 p' /\ A_O1 p = A_O1 p' /\ S1 p = S1 p'
    /\ A_I2 p = A_I2 p' /\ A_O2 p = A_O2 p' /\ S2 p = S2 p' /\ T_1 p = T_1 p' /\ T_3 p = T_3 p' /\ T_4 p = T_4 p'
    /\ T_5 p = T_5 p' /\ T_6 p = T_6 p' /\ t_x p = t_x p' /\ t_x_blinding p = t_x_blinding p' /\ e_blinding p = e_blinding p'
    /\ ipp_L (ipp p) = ipp_L (ipp p') /\ ipp_R (ipp p) = ipp_R (ipp p').
Proof. intros K MO p p' m m' pn pn' H1 H2 H3 H4. eapply (history_determines_fields p p' m m' pn pn' EmptyString EmptyString); eassumption. Qed.
Print Assumptions C04_history_determines_all_but_final_scalars.

(* Closing the two "relation" theorems under the independence (discrete-log) hypothesis, stated on the
   points involved: at the same challenges an accepted proof has exactly one pair of final scalars, exactly one
   t_x, and the two blinding scalars can only move along r.dt~ + de~ = 0 (which changes the history w and r are
   derived from, by C04_history_determines_all_but_final_scalars).  Non-vacuity: unit_vectors_indep2/3. *)
Theorem C04_final_scalars_unique_under_independence :
  forall (K : FieldOps) (FL : FieldLaws K) (MO : ModOps K) (ML : ModLaws MO) (B Bb : MO) (fw : weights K) (y u x w r : K)
         (us : list K) (n1 n pn : nat) (Gs Hs Vs : list MO) (p p' : r1cs_proof K MO),
    indep3 (foldG us (Gprime u n1 pn Gs)) (foldH us (Hprime y u n1 pn Hs)) B ->
    A_I1 p' = A_I1 p -> A_O1 p' = A_O1 p -> S1 p' = S1 p -> A_I2 p' = A_I2 p -> A_O2 p' = A_O2 p -> S2 p' = S2 p ->
    T_1 p' = T_1 p -> T_3 p' = T_3 p -> T_4 p' = T_4 p -> T_5 p' = T_5 p -> T_6 p' = T_6 p ->
    t_x p' = t_x p -> t_x_blinding p' = t_x_blinding p -> e_blinding p' = e_blinding p ->
    ipp_L (ipp p') = ipp_L (ipp p) -> ipp_R (ipp p') = ipp_R (ipp p) ->
    check B Bb fw y u x w r us n1 n pn Gs Hs Vs p = m0 -> check B Bb fw y u x w r us n1 n pn Gs Hs Vs p' = m0 ->
    ipp_a (ipp p') = ipp_a (ipp p) /\ ipp_b (ipp p') = ipp_b (ipp p).
Proof. intros K FL MO ML B Bb fw y u x w r us n1 n pn Gs Hs Vs p p'; apply final_scalars_unique. Qed.
Print Assumptions C04_final_scalars_unique_under_independence.

Theorem C04_changed_scalars_unique_under_independence :
  forall (K : FieldOps) (FL : FieldLaws K) (MO : ModOps K) (ML : ModLaws MO) (B Bb : MO) (fw : weights K) (y u x w r : K)
         (us : list K) (n1 n pn : nat) (Gs Hs Vs : list MO) (p : r1cs_proof K MO) (tx txb eb : K),
    indep2 B Bb -> w <> r ->
    check B Bb fw y u x w r us n1 n pn Gs Hs Vs p = m0 ->
    check B Bb fw y u x w r us n1 n pn Gs Hs Vs (with_scalars tx txb eb p) = m0 ->
    tx = t_x p /\ (r * (txb - t_x_blinding p) + (eb - e_blinding p))%F = f0.
Proof. intros K FL MO ML B Bb fw y u x w r us n1 n pn Gs Hs Vs p tx txb eb; apply changed_scalars_unique. Qed.
Print Assumptions C04_changed_scalars_unique_under_independence.
