(* Properties/C07.v — Batch verification accepts exactly when every instance verifies individually. *)
Require Import BP.Proofs.BatchLemmas.
Open Scope F_scope.
Open Scope M_scope.

(* The aggregated multiscalar check of batch_verify — instances of mixed sizes and phases, G/H
   scalars added at offsets 2+i and 2+max+i, per-instance tails appended in order — is the
   alpha-weighted sum of the instances' OWN combined checks over the first n'_i generators;
   any batch length including 0 and 1. *)
Theorem C07_batch_is_weighted_sum :
  forall (K : FieldOps) (FL : FieldLaws K) (MO : ModOps K) (ML : ModLaws MO)
         (RO : transcript K MO -> K) (B Bb : MO) (Gs Hs : list MO) (alphas : list K)
         (insts : list (vstate K MO * r1cs_proof K MO)) (l : list (verifier_out K MO * r1cs_proof K MO)),
    batch_collect RO (length Gs) insts = Ok l ->
    length Hs = length Gs -> length alphas = length l ->
    (batch_verify RO B Bb Gs Hs alphas insts = Ok tt <-> weighted_sum B Bb Gs Hs l alphas = m0)
    /\ (batch_verify RO B Bb Gs Hs alphas insts <> Ok tt -> batch_verify RO B Bb Gs Hs alphas insts = Err EVerification).
Proof. intros; eapply batch_verify_iff; eassumption. Qed.
Print Assumptions C07_batch_is_weighted_sum.

(* "if": when every instance's own check vanishes the sum vanishes for all weights. *)
Theorem C07_if :
  forall (K : FieldOps) (FL : FieldLaws K) (MO : ModOps K) (ML : ModLaws MO) (B Bb : MO) (Gs Hs : list MO)
         (l : list (verifier_out K MO * r1cs_proof K MO)) (alphas : list K),
    Forall (fun vp => mega_of B Bb Gs Hs vp = m0) l -> weighted_sum B Bb Gs Hs l alphas = m0.
Proof. intros; apply weighted_sum_zero; assumption. Qed.
Print Assumptions C07_if.

(* exact "only if": if the batch accepts under weights alphas and also with the j-th weight replaced
   by any other value, instance j's own check vanishes.  Equivalently, with an invalid member j and
   the other weights fixed, at most one value of alpha_j makes the batch accept (the weights are drawn
   after all proofs are fixed).  Residuals that cancel under equal weights (+d / -d) are covered. *)
Theorem C07_only_if_exact :
  forall (K : FieldOps) (FL : FieldLaws K) (MO : ModOps K) (ML : ModLaws MO) (B Bb : MO) (Gs Hs : list MO)
         (l : list (verifier_out K MO * r1cs_proof K MO)) (alphas : list K) (j : nat) (a' : K)
         (vp : verifier_out K MO * r1cs_proof K MO),
    nth_error l j = Some vp -> length alphas = length l ->
    a' <> nth j alphas f0 ->
    weighted_sum B Bb Gs Hs l alphas = m0 -> weighted_sum B Bb Gs Hs l (set_weight j a' alphas) = m0 ->
    mega_of B Bb Gs Hs vp = m0.
Proof. intros; eapply only_if_exact; eassumption. Qed.
Print Assumptions C07_only_if_exact.

(* errors: the batch returns the first failing instance's error exactly when that instance alone returns it *)
Theorem C07_errors :
  forall (K : FieldOps) (MO : ModOps K) (RO : transcript K MO -> K) cap (insts : list (vstate K MO * r1cs_proof K MO)),
    match batch_collect RO cap insts with
    | Err e => exists pre s p rest, insts = pre ++ (s, p) :: rest
               /\ verification_scalars RO cap s p = Err e
               /\ Forall (fun sp => exists vo, verification_scalars RO cap (fst sp) (snd sp) = Ok vo) pre
    | Ok l => length l = length insts
              /\ Forall2 (fun sp vp => verification_scalars RO cap (fst sp) (snd sp) = Ok (fst vp) /\ snd vp = snd sp) insts l
    end.
Proof. intros; apply batch_first_error. Qed.
Print Assumptions C07_errors.

(* Two members whose residuals cancel (R and -R, e.g. one proof with its unabsorbed final scalar shifted by +d and
   by -d), all other members valid: the batch accepts exactly when the two positions carry EQUAL weights.  With
   independently drawn weights that is one value of the second weight; any structure in the weights (a constant,
   a shared table entry, a repeated power) shows up as an accepted pair — the position-pair sweep of K10. *)
Theorem C07_cancelling_pair_accepted_iff_equal_weights :
  forall (K : FieldOps) (FL : FieldLaws K) (MO : ModOps K) (ML : ModLaws MO) (B Bb : MO) (Gs Hs : list MO)
         (l : list (verifier_out K MO * r1cs_proof K MO)) (alphas : list K) (i j : nat) (R : MO) vi vj,
    i <> j -> nth_error l i = Some vi -> nth_error l j = Some vj -> length alphas = length l -> R <> m0 ->
    mega_of B Bb Gs Hs vi = R -> mega_of B Bb Gs Hs vj = mopp R ->
    (forall k vp, nth_error l k = Some vp -> k <> i -> k <> j -> mega_of B Bb Gs Hs vp = m0) ->
    (weighted_sum B Bb Gs Hs l alphas = m0 <-> nth i alphas f0 = nth j alphas f0).
Proof. intros; eapply cancelling_pair_accepted_iff_equal_weights; eassumption. Qed.
Print Assumptions C07_cancelling_pair_accepted_iff_equal_weights.

(* Two members whose residuals are multiples a.R and b.R of one point, the rest valid: accepted exactly when
   alpha_i a + alpha_j b = 0 — one value of alpha_j when the weights are independent draws. *)
Theorem C07_scaled_pair_accepted_iff :
  forall (K : FieldOps) (FL : FieldLaws K) (MO : ModOps K) (ML : ModLaws MO) (B Bb : MO) (Gs Hs : list MO)
         (l : list (verifier_out K MO * r1cs_proof K MO)) (alphas : list K) (i j : nat) (R : MO) (a b : K) vi vj,
    i <> j -> nth_error l i = Some vi -> nth_error l j = Some vj -> length alphas = length l -> R <> m0 ->
    mega_of B Bb Gs Hs vi = a • R -> mega_of B Bb Gs Hs vj = b • R ->
    (forall k vp, nth_error l k = Some vp -> k <> i -> k <> j -> mega_of B Bb Gs Hs vp = m0) ->
    (weighted_sum B Bb Gs Hs l alphas = m0 <-> (nth i alphas f0 * a + nth j alphas f0 * b)%F = f0).
Proof. intros; eapply scaled_pair_accepted_iff; eassumption. Qed.
Print Assumptions C07_scaled_pair_accepted_iff.

(* Why the weights must be independent fresh draws (what the RNG-consumption correspondence of K10 ties to the
   code): weights rho * c_k that share one secret factor, with publicly computable c_k, accept — for EVERY rho — a
   batch with two invalid members whose residuals are c_j d . R and - c_i d . R. *)
Theorem C07_shared_factor_weights_are_forgeable :
  forall (K : FieldOps) (FL : FieldLaws K) (MO : ModOps K) (ML : ModLaws MO) (B Bb : MO) (Gs Hs : list MO)
         (l : list (verifier_out K MO * r1cs_proof K MO)) (cs : list K) (rho d : K) (i j : nat) (R : MO) vi vj,
    i <> j -> nth_error l i = Some vi -> nth_error l j = Some vj -> length cs = length l -> R <> m0 ->
    mega_of B Bb Gs Hs vi = (nth j cs f0 * d)%F • R -> mega_of B Bb Gs Hs vj = (- (nth i cs f0 * d))%F • R ->
    (forall k vp, nth_error l k = Some vp -> k <> i -> k <> j -> mega_of B Bb Gs Hs vp = m0) ->
    weighted_sum B Bb Gs Hs l (map (fun c => (rho * c)%F) cs) = m0.
Proof. intros; eapply shared_factor_weights_forgeable; eassumption. Qed.
Print Assumptions C07_shared_factor_weights_are_forgeable.
