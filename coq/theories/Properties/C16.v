(* Properties/C16.v — Prover and verifier assign identical variables for identical call sequences. *)
Require Import BP.Proofs.CSLemmas.
Open Scope F_scope.

(* First phase: for every program (interaction tree) whose allocations carry assignments, from related
   states, when the verifier is handed the prover's commitments, both roles return the same results call
   by call (variables, gate counts) and end in related states (same counters, pending index, constraints,
   transcript, registered closures). *)
Theorem C16_lockstep_phase1 :
  forall (K : FieldOps) (FL : FieldLaws K) (MO : ModOps K) (B Bb : MO) (p : prog K)
         (ps : pstate K MO) (vs : vstate K MO) (Vs : nat -> MO),
    assigned p -> Rel B Bb ps vs ->
    (forall i, (i < length (commitments_of B Bb p ps))%nat ->
               Vs (length (v_V vs) + i)%nat = nth i (commitments_of B Bb p ps) m0) ->
    Rel B Bb (fst (p_run B Bb p ps)) (fst (v_run Vs p vs))
    /\ snd (p_run B Bb p ps) = snd (v_run Vs p vs).
Proof. intros; eapply lockstep_phase1; eassumption. Qed.
Print Assumptions C16_lockstep_phase1.

(* Phase switch and second phase: pending index cleared on both sides, same separator, closures in
   registration order, same challenges, same results, same final error if any. *)
Theorem C16_lockstep_phase2 :
  forall (K : FieldOps) (FL : FieldLaws K) (MO : ModOps K) (RO : transcript K MO -> K) (B Bb : MO)
         (ps : pstate K MO) (vs : vstate K MO),
    Forall assigned_r (p_def ps) -> Rel B Bb ps vs ->
    let '(ps', ep, rp) := p_phase2 RO ps in
    let '(vs', ev, rv) := v_phase2 RO vs in
    Rel B Bb ps' vs' /\ ep = ev /\ rp = rv /\ p_def ps' = [].
Proof. intros; eapply lockstep_phase2; eassumption. Qed.
Print Assumptions C16_lockstep_phase2.

Theorem C16_initial_states_related :
  forall (K : FieldOps) (MO : ModOps K) (B Bb : MO) (tr : transcript K MO),
    Rel B Bb (p_new tr) (v_new tr).
Proof. intros; apply Rel_init. Qed.
Print Assumptions C16_initial_states_related.

(* Two consecutive single allocations share one gate. *)
Theorem C16_alloc_pairing :
  forall (K : FieldOps) (FL : FieldLaws K) (MO : ModOps K) (ps : pstate K MO) (i : nat) (a : K),
    (p_pend ps = None ->
       let ps' := fst (p_allocate ps (Some a)) in
       snd (p_allocate ps (Some a)) = Ok (VLeft (length (p_aL ps))) /\ p_pend ps' = Some (length (p_aL ps))
       /\ p_aL ps' = p_aL ps ++ [a] /\ p_aR ps' = p_aR ps ++ [f0] /\ p_aO ps' = p_aO ps ++ [f0])
    /\ (p_pend ps = Some i -> (i < length (p_aL ps))%nat -> length (p_aR ps) = length (p_aL ps) ->
        length (p_aO ps) = length (p_aL ps) ->
       let ps' := fst (p_allocate ps (Some a)) in
       snd (p_allocate ps (Some a)) = Ok (VRight i) /\ p_pend ps' = None /\ p_aL ps' = p_aL ps
       /\ nth i (p_aR ps') f0 = a /\ nth i (p_aO ps') f0 = nth i (p_aL ps) f0 * a
       /\ length (p_aL ps') = length (p_aL ps)).
Proof. intros; split; [apply alloc_first | apply alloc_second]. Qed.
Print Assumptions C16_alloc_pairing.

(* An allocation left open at the end of a phase stays (l, 0, 0) and is never paired across the switch. *)
Theorem C16_pending_closed_at_phase_end :
  forall (K : FieldOps) (MO : ModOps K) (RO : transcript K MO -> K) (ps : pstate K MO) (vs : vstate K MO),
    (p_def ps = [] ->
       let ps' := fst (fst (p_phase2 RO ps)) in
       p_pend ps' = None /\ p_aL ps' = p_aL ps /\ p_aR ps' = p_aR ps /\ p_aO ps' = p_aO ps)
    /\ (forall c cs, p_def ps = c :: cs ->
       p_phase2 RO ps = p_run_closures RO (c :: cs)
         (mkP (r1cs_2phase_domain_sep (p_tr ps)) (p_cons ps) (p_aL ps) (p_aR ps) (p_aO ps) (p_v ps) (p_vb ps) [] None))
    /\ (forall c cs, v_def vs = c :: cs ->
       v_phase2 RO vs = v_run_closures RO (c :: cs)
         (mkV (r1cs_2phase_domain_sep (v_tr vs)) (v_cons vs) (v_num vs) (v_V vs) [] None)).
Proof.
  intros. split; [apply pending_closed_at_phase_end | apply pending_cleared_before_closures].
Qed.
Print Assumptions C16_pending_closed_at_phase_end.

Theorem C16_missing_assignment :
  forall (K : FieldOps) (MO : ModOps K) (ps : pstate K MO) (vs : vstate K MO) (a b : option K),
    p_allocate ps None = (ps, Err EMissing) /\ p_allocate_multiplier ps None = (ps, Err EMissing)
    /\ v_allocate vs a = v_allocate vs b.
Proof. intros. repeat split. Qed.
Print Assumptions C16_missing_assignment.

(* After any first-phase program through the API every gate satisfies a_O = a_L * a_R. *)
Theorem C16_gate_invariant :
  forall (K : FieldOps) (FL : FieldLaws K) (MO : ModOps K) (B Bb : MO) (p : prog K) (s : pstate K MO),
    Inv s -> Inv (fst (p_run B Bb p s)).
Proof. intros; eapply inv_run; eassumption. Qed.
Print Assumptions C16_gate_invariant.
