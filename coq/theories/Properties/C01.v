(* Properties/C01.v — Completeness: every satisfied constraint system yields an accepted proof. *)
Require Import BP.Proofs.Completeness.
Open Scope F_scope.

(* Any first-phase program (interaction tree over the whole API, any interleaving, single and paired
   allocations, user transcript data, registered closures) drives prover and verifier into related
   states, provided the verifier is handed the prover's commitments. *)
Theorem C01_same_calls_give_related_states :
  forall (K : FieldOps) (FL : FieldLaws K) (MO : ModOps K) (B Bb : MO) (p : prog K)
         (tr : transcript K MO) (Vs : nat -> MO),
    assigned p ->
    (forall i, (i < length (commitments_of B Bb p (p_new tr)))%nat ->
               Vs i = nth i (commitments_of B Bb p (p_new tr)) m0) ->
    let ps := fst (p_run B Bb p (p_new tr)) in
    let vs := fst (v_run Vs p (v_new tr)) in
    Rel B Bb ps vs /\ Forall assigned_r (p_def ps).
Proof.
  intros K FL MO B Bb p tr Vs Ha HV. split.
  - apply (lockstep_phase1 B Bb p (p_new tr) (v_new tr) Vs Ha (Rel_init B Bb tr)). exact HV.
  - apply assigned_def; [exact Ha | constructor].
Qed.
Print Assumptions C01_same_calls_give_related_states.

(* Completeness of the whole procedure, any field, any F-module (any group of prime order), any
   number of gates in either phase (0, 1, non-powers of two, gates only in the randomized phase), any
   capacities >= the padded size on either side whose generator lists agree on the first n' entries:
   if the final assignment satisfies every constraint and every gate, the proof produced is accepted.
   NZ hypotheses: y and the inner-product challenges are non-zero (the code unwraps their inverses);
   ID: the mandatory proof points are non-identity (the verifier rejects identity points by design). *)
Theorem C01_completeness :
  forall (K : FieldOps) (FL : FieldLaws K) (MO : ModOps K) (ML : ModLaws MO)
         (RO : transcript K MO -> K) (B Bb : MO) (Gs Hs Gv Hv : list MO) (d : nat -> K)
         (ps : pstate K MO) (vs : vstate K MO) (po : prover_out K MO) (y z u x w : K),
    Rel B Bb ps vs -> Forall assigned_r (p_def ps) ->
    prove RO B Bb Gs Hs d ps = Ok po ->
    length Hs = length Gs -> length Hv = length Gv ->
    let pn := next_pow2 (po_n po) in
    (pn <= length Gv)%nat -> firstn pn Gv = firstn pn Gs -> firstn pn Hv = firstn pn Hs ->
    (Nat.log2 pn < 32)%nat ->
    ID (po_proof po) ->
    po_chal po = [y; z; u; x; w] -> y <> f0 -> all_nz (po_ipp_chal po) -> B <> m0 ->
    sat (p_cons (po_state po)) (p_asg (po_state po)) ->
    verify RO B Bb Gv Hv vs (po_proof po) = Ok (po_tr po).
Proof. intros; eapply completeness; eassumption. Qed.
Print Assumptions C01_completeness.

(* Honest runs keep the roles in sync: the verifier re-derives the prover's transcript and challenges
   (so the transcripts handed back are equal lists). *)
Theorem C01_roles_in_sync :
  forall (K : FieldOps) (FL : FieldLaws K) (MO : ModOps K) (ML : ModLaws MO)
         (RO : transcript K MO -> K) (B Bb : MO) (Gs Hs : list MO) (cap_v : nat) (d : nat -> K)
         (ps : pstate K MO) (vs : vstate K MO) (po : prover_out K MO),
    Rel B Bb ps vs -> Forall assigned_r (p_def ps) ->
    prove RO B Bb Gs Hs d ps = Ok po ->
    length Hs = length Gs ->
    (next_pow2 (po_n po) <= cap_v)%nat ->
    (Nat.log2 (next_pow2 (po_n po)) < 32)%nat ->
    ID (po_proof po) ->
    exists vo r,
      verification_scalars RO cap_v vs (po_proof po) = Ok vo /\
      vo_chal vo = po_chal po ++ [r] /\ vo_ipp_chal vo = po_ipp_chal po /\
      v_tr (vo_state vo) = po_tr po.
Proof.
  intros K FL MO ML RO B Bb Gs Hs cap_v d ps vs po HR Hd Hp HH Hc Hk HI.
  destruct (roles_in_sync RO B Bb Gs Hs cap_v d ps vs po HR Hd Hp HH Hc Hk HI) as (vo & r & H1 & H2 & H3 & H4 & _).
  exists vo, r. auto.
Qed.
Print Assumptions C01_roles_in_sync.

(* The second phase never touches first-phase wires: what A_I1/A_O1/S1 committed to is a prefix of
   the final witness (a pending allocation is closed at the switch). *)
Theorem C01_first_phase_wires_are_prefix :
  forall (K : FieldOps) (FL : FieldLaws K) (MO : ModOps K) (RO : transcript K MO -> K) (s : pstate K MO),
    length (p_aR s) = length (p_aL s) -> length (p_aO s) = length (p_aL s) ->
    let s2 := fst (fst (p_phase2 RO s)) in
    let n1 := length (p_aL s) in
    firstn n1 (p_aL s2) = p_aL s /\ firstn n1 (p_aR s2) = p_aR s /\ firstn n1 (p_aO s2) = p_aO s
    /\ (n1 <= length (p_aL s2))%nat /\ length (p_aR s2) = length (p_aL s2) /\ length (p_aO s2) = length (p_aL s2).
Proof. intros; apply phase2_prefix; assumption. Qed.
Print Assumptions C01_first_phase_wires_are_prefix.
