(* Properties/C13.v — Pedersen commitments equal v*B + r*B_blinding and are additively homomorphic. *)
Require Import BP.Proofs.PedersenLemmas.
Require Import BP.Proofs.IndepLemmas.
Open Scope F_scope.
Open Scope M_scope.

Theorem C13_commit_is_linear_form :
  forall (K : FieldOps) (MO : ModOps K) (B Bb : MO) (v r : K),
    pedersen_commit B Bb v r = v • B + r • Bb.
Proof. reflexivity. Qed.
Print Assumptions C13_commit_is_linear_form.

(* for all scalars of any field, any pair of bases, in any F-module *)
Theorem C13_homomorphic_zero_scale :
  forall (K : FieldOps) (FL : FieldLaws K) (MO : ModOps K) (ML : ModLaws MO) (B Bb : MO) (v1 r1 v2 r2 k : K),
    pedersen_commit B Bb v1 r1 + pedersen_commit B Bb v2 r2 = pedersen_commit B Bb (v1 + v2)%F (r1 + r2)%F
    /\ pedersen_commit B Bb (f0 : K) f0 = m0
    /\ k • pedersen_commit B Bb v1 r1 = pedersen_commit B Bb (k * v1)%F (k * r1)%F
    /\ - pedersen_commit B Bb v1 r1 = pedersen_commit B Bb (- v1)%F (- r1)%F.
Proof.
  intros. repeat split; [apply commit_hom | apply commit_zero | apply commit_scale | apply commit_opp].
Qed.
Print Assumptions C13_homomorphic_zero_scale.

(* The prover's commit returns exactly this function of its inputs, absorbs it under label "V", and
   hands out the next Committed index; the verifier's commit hands out the same index. *)
Theorem C13_prover_commit :
  forall (K : FieldOps) (MO : ModOps K) (B Bb : MO) (ps : pstate K MO) (vs : vstate K MO) (v vb : K) (V : MO),
    let '(ps', (C, x)) := p_commit B Bb ps v vb in
    C = pedersen_commit B Bb v vb /\ x = VCommitted (length (p_v ps))
    /\ p_tr ps' = p_tr ps ++ [App "V" (PPoint C)] /\ p_v ps' = p_v ps ++ [v] /\ p_vb ps' = p_vb ps ++ [vb]
    /\ snd (v_commit vs V) = VCommitted (length (v_V vs))
    /\ v_tr (fst (v_commit vs V)) = v_tr vs ++ [App "V" (PPoint V)].
Proof. intros. unfold p_commit, v_commit, append_point. simpl. repeat split. Qed.
Print Assumptions C13_prover_commit.

(* binding: with independent bases a commitment has exactly one opening *)
Theorem C13_binding_under_independence :
  forall (K : FieldOps) (FL : FieldLaws K) (MO : ModOps K) (ML : ModLaws MO) (B Bb : MO) (v r v' r' : K),
    indep2 B Bb -> pedersen_commit B Bb v r = pedersen_commit B Bb v' r' -> v = v' /\ r = r'.
Proof. intros; eapply pedersen_binding; eassumption. Qed.
Print Assumptions C13_binding_under_independence.
