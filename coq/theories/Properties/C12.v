(* Properties/C12.v — Generators are deterministic, history-independent (structural part).
   [ch kind party i] is the i-th output of the hash-to-point stream of the label (kind, party); the values
   of that stream (distinctness, subgroup membership, pinned digests) are measured on the real code by K8. *)
Require Import BP.Proofs.GensLemmas BP.Proofs.GensCodec.

Theorem C12_history_independent :
  forall (P : Type) (ch : bool -> nat -> nat -> P) (reqs : list nat) (cap pcap : nat),
    fold_left (increase P ch) reqs (new P ch cap pcap) = new P ch (fold_left Nat.max reqs cap) pcap.
Proof. exact history_independent. Qed.
Print Assumptions C12_history_independent.

Theorem C12_entry_is_stream_output :
  forall (P : Type) (ch : bool -> nat -> nat -> P) (reqs : list nat) (cap pcap j i : nat),
    let s := fold_left (increase P ch) reqs (new P ch cap pcap) in
    j < pcap -> i < g_cap P s ->
    g_cap P s = fold_left Nat.max reqs cap /\
    (exists v, nth_error (g_G P s) j = Some v /\ nth_error v i = Some (ch true j i)) /\
    (exists v, nth_error (g_H P s) j = Some v /\ nth_error v i = Some (ch false j i)).
Proof. exact entry_is_stream_output. Qed.
Print Assumptions C12_entry_is_stream_output.

Theorem C12_aggregated_view :
  forall (P : Type) (ch : bool -> nat -> nat -> P) (reqs : list nat) (cap pcap n m : nat),
    let s := fold_left (increase P ch) reqs (new P ch cap pcap) in
    n <= g_cap P s -> m <= pcap ->
    collect P (g_G P s) n m = Some (flat_map (fun j => chain_take P ch true j 0 n) (seq 0 m)) /\
    collect P (g_H P s) n m = Some (flat_map (fun j => chain_take P ch false j 0 n) (seq 0 m)).
Proof. exact aggregated_view. Qed.
Print Assumptions C12_aggregated_view.

Theorem C12_share_view :
  forall (P : Type) (ch : bool -> nat -> nat -> P) (reqs : list nat) (cap pcap j n : nat),
    let s := fold_left (increase P ch) reqs (new P ch cap pcap) in
    j < pcap -> n <= g_cap P s ->
    share_view P (g_G P s) j n = Some (chain_take P ch true j 0 n) /\
    share_view P (g_H P s) j n = Some (chain_take P ch false j 0 n).
Proof. exact share_is_stream_prefix. Qed.
Print Assumptions C12_share_view.

(* on any array: the iterator yields the flat-map view, never indexes out of range (collect is Some) *)
Theorem C12_iterator_is_flat_map :
  forall (P : Type) (ch : bool -> nat -> nat -> P) (arr : list (list P)) (n m : nat),
    m <= length arr -> (forall j, j < m -> n <= length (nth j arr [])) ->
    collect P arr n m = Some (view_spec P arr n m).
Proof. exact collect_is_view. Qed.
Print Assumptions C12_iterator_is_flat_map.

Theorem C12_size_hint_defined :
  forall n m party gen, party <= m -> gen <= n -> (party = m -> gen = 0) -> size_hint n m party gen <> None.
Proof. exact size_hint_defined. Qed.
Print Assumptions C12_size_hint_defined.

(* the pinned revision's iterator (finding F2, repaired by a697de8) *)
Theorem C12_pinned_view_refuted :
  collect_pinned nat [[10; 11]; [20; 21]] 0 2 = Some [20] /\ view_spec nat [[10; 11]; [20; 21]] 0 2 = []
  /\ collect_pinned nat [[]; []] 0 2 = None.
Proof. exact pinned_view_refuted. Qed.
Print Assumptions C12_pinned_view_refuted.

Theorem C12_labels_injective :
  forall k1 k2 j1 j2, (0 <= j1 < 4294967296)%Z -> (0 <= j2 < 4294967296)%Z ->
    chain_input k1 j1 = chain_input k2 j2 -> k1 = k2 /\ j1 = j2.
Proof. exact labels_injective. Qed.
Print Assumptions C12_labels_injective.

(* the derived (de)serialisation of the generators object round-trips (any suffix left unread), so a
   decoded object is the object that was encoded and continues to grow as the original would *)
Theorem C12_serialization_roundtrip :
  forall (K : FieldOps) (MO : ModOps K) (PS SS : nat) (enc_pt : MO -> list Z) (dec_pt : list Z -> option MO),
    0 < PS -> 0 < SS -> (forall P, length (enc_pt P) = PS) -> (forall P, dec_pt (enc_pt P) = Some P) ->
    forall (s : gens MO) (rest : list Z),
      small (g_cap MO s) -> small (g_pcap MO s) ->
      small (length (g_G MO s)) -> Forall (fun l => small (length l)) (g_G MO s) ->
      small (length (g_H MO s)) -> Forall (fun l => small (length l)) (g_H MO s) ->
      read_gens PS dec_pt (enc_gens enc_pt s ++ rest) = Some (s, rest).
Proof. intros; eapply gens_roundtrip; eassumption. Qed.
Print Assumptions C12_serialization_roundtrip.
