(* Base/Field.v — scalar field interface.
   The model is written over a record of operations [FieldOps]; the laws are a
   separate class [FieldLaws] that only the proofs assume.  Executed instances
   (Run/) supply operations only. *)
Require Export Ring Field Setoid List Lia Arith ZArith Bool.
Export ListNotations.

Record FieldOps := mkFieldOps {
  F    :> Type;
  f0   : F;
  f1   : F;
  fadd : F -> F -> F;
  fmul : F -> F -> F;
  fsub : F -> F -> F;
  fopp : F -> F;
  finv : F -> F;
  fdiv : F -> F -> F;
  feqb : F -> F -> bool
}.

Arguments f0 {_}. Arguments f1 {_}. Arguments fadd {_}. Arguments fmul {_}.
Arguments fsub {_}. Arguments fopp {_}. Arguments finv {_}. Arguments fdiv {_}.
Arguments feqb {_}.

Declare Scope F_scope.
Delimit Scope F_scope with F.
Infix "+" := fadd : F_scope.
Infix "*" := fmul : F_scope.
Infix "-" := fsub : F_scope.
Notation "- x" := (fopp x) : F_scope.
Infix "/" := fdiv : F_scope.

Class FieldLaws (K : FieldOps) := {
  Fth : field_theory (@f0 K) f1 fadd fmul fsub fopp fdiv finv (@eq K);
  feqb_spec : forall x y : K, feqb x y = true <-> x = y
}.

Section FieldFacts.
  Context {K : FieldOps} {FL : FieldLaws K}.
  Add Field Ff : (@Fth K FL).
  Open Scope F_scope.

  Lemma f1_neq_f0 : (@f1 K) <> f0.
  Proof. exact (F_1_neq_0 Fth). Qed.

  Lemma finv_l (x : K) : x <> f0 -> finv x * x = f1.
  Proof. intros; field; assumption. Qed.

  Lemma finv_r (x : K) : x <> f0 -> x * finv x = f1.
  Proof. intros; field; assumption. Qed.

  Lemma fmul_eq_0 (x y : K) : x * y = f0 -> x = f0 \/ y = f0.
  Proof.
    intros H. destruct (feqb x f0) eqn:E.
    - left. now apply feqb_spec.
    - right. assert (Hx : x <> f0) by (intro Hx; apply feqb_spec in Hx; congruence).
      transitivity (finv x * (x * y)); [field; assumption | rewrite H; ring].
  Qed.

  Lemma fmul_neq_0 (x y : K) : x <> f0 -> y <> f0 -> x * y <> f0.
  Proof. intros Hx Hy H. destruct (fmul_eq_0 _ _ H); contradiction. Qed.

  Lemma finv_neq_0 (x : K) : x <> f0 -> finv x <> f0.
  Proof.
    intros Hx H. apply f1_neq_f0. rewrite <- (finv_l x Hx), H. ring.
  Qed.

  Lemma feqb_refl (x : K) : feqb x x = true.
  Proof. now apply feqb_spec. Qed.

  Lemma feqb_false (x y : K) : feqb x y = false <-> x <> y.
  Proof.
    split.
    - intros H E. apply feqb_spec in E. congruence.
    - intros H. destruct (feqb x y) eqn:E; [apply feqb_spec in E; contradiction | reflexivity].
  Qed.

  Lemma f_eq_dec (x y : K) : {x = y} + {x <> y}.
  Proof.
    destruct (feqb x y) eqn:E; [left; now apply feqb_spec | right; now apply feqb_false].
  Qed.

  Lemma fsub_eq_0 (x y : K) : x - y = f0 <-> x = y.
  Proof.
    split; intros H.
    - transitivity ((x - y) + y); [ring | rewrite H; ring].
    - subst; ring.
  Qed.

  Lemma fmul_cancel_l (k x y : K) : k <> f0 -> k * x = k * y -> x = y.
  Proof.
    intros Hk H. apply fsub_eq_0.
    destruct (fmul_eq_0 k (x - y)) as [E|E]; [ | contradiction | exact E].
    transitivity (k * x - k * y); [ring | rewrite H; ring].
  Qed.
End FieldFacts.
