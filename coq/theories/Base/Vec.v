(* Base/Vec.v — lists as vectors over a FieldOps: definitions only (executable). *)
Require Export BP.Base.Field.

Section VecDefs.
  Context {K : FieldOps}.
  Open Scope F_scope.

  Fixpoint map2 {A B C} (f : A -> B -> C) (l : list A) (r : list B) : list C :=
    match l, r with x :: l', y :: r' => f x y :: map2 f l' r' | _, _ => [] end.

  (* inner_product (inner_product_proof.rs:390); the length test is in RustSem/Shape *)
  Fixpoint ip (a b : list K) : K :=
    match a, b with x :: a', y :: b' => x * y + ip a' b' | _, _ => f0 end.

  Definition vadd (a b : list K) : list K := map2 fadd a b.
  Definition vsub (a b : list K) : list K := map2 fsub a b.
  Definition vmul (a b : list K) : list K := map2 fmul a b.     (* Hadamard *)
  Definition vscale (k : K) (a : list K) : list K := map (fmul k) a.
  Definition vopp (a : list K) : list K := map fopp a.
  Definition vsum (a : list K) : K := fold_right fadd f0 a.

  (* util::exp_iter(x).take(n): 1, x, x^2, ... *)
  Fixpoint powers_from (c x : K) (n : nat) : list K :=
    match n with O => [] | S n' => c :: powers_from (c * x) x n' end.
  Definition powers (x : K) (n : nat) : list K := powers_from f1 x n.

  Fixpoint fpow (x : K) (n : nat) : K := match n with O => f1 | S n' => x * fpow x n' end.

  Definition zeros (n : nat) : list K := repeat f0 n.
  Definition pad_to (n : nat) (a : list K) : list K := a ++ zeros (n - length a).

  Definition all_zero (a : list K) : bool := forallb (fun x => feqb x f0) a.
End VecDefs.
