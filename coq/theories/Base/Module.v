(* Base/Module.v — points: an F-module interface (operations), its laws (class),
   multiscalar multiplication, and the executable free module of coefficient vectors. *)
Require Export BP.Base.Vec.

Record ModOps (K : FieldOps) := mkModOps {
  M      :> Type;
  m0     : M;
  madd   : M -> M -> M;
  mopp   : M -> M;
  smul   : K -> M -> M;
  mzerob : M -> bool          (* point.is_zero() *)
}.
Arguments m0 {_ _}. Arguments madd {_ _}. Arguments mopp {_ _}. Arguments smul {_ _}.
Arguments mzerob {_ _}.

Declare Scope M_scope.
Delimit Scope M_scope with M.
Infix "+" := madd : M_scope.
Notation "- x" := (mopp x) : M_scope.
Notation "k • x" := (smul k x) (at level 40, left associativity) : M_scope.

Class ModLaws {K : FieldOps} (MO : ModOps K) := {
  madd_comm  : forall a b : MO, madd a b = madd b a;
  madd_assoc : forall a b c : MO, madd a (madd b c) = madd (madd a b) c;
  madd_0_l   : forall a : MO, madd m0 a = a;
  madd_opp   : forall a : MO, madd a (mopp a) = m0;
  smul_add_r : forall (k : K) (a b : MO), smul k (madd a b) = madd (smul k a) (smul k b);
  smul_add_l : forall (j k : K) (a : MO), smul (fadd j k) a = madd (smul j a) (smul k a);
  smul_mul   : forall (j k : K) (a : MO), smul (fmul j k) a = smul j (smul k a);
  smul_1     : forall a : MO, smul f1 a = a;
  mzerob_spec : forall a : MO, mzerob a = true <-> a = m0
}.

Section ModDefs.
  Context {K : FieldOps} {MO : ModOps K}.
  Open Scope M_scope.

  (* VariableBaseMSM::msm on equal-length slices; the length test + unwrap is in Shape *)
  Fixpoint msm (a : list K) (G : list MO) : MO :=
    match a, G with x :: a', g :: G' => x • g + msm a' G' | _, _ => m0 end.

  Definition msub (a b : MO) : MO := a + (- b).
  (* scaling the points instead of the scalars *)
  Definition pscale (c : list K) (G : list MO) : list MO := map2 smul c G.
  Definition msum (l : list MO) : MO := fold_right madd m0 l.
End ModDefs.
Infix "-" := msub : M_scope.

(* The free module on a finite basis: coefficient vectors, all of one fixed length
   (operations are pointwise on lists; [fm_zero n] is the zero vector of length n). *)
Section FreeModule.
  Context (K : FieldOps) (dim : nat).
  Definition fm_ops : ModOps K :=
    {| M := list K;
       m0 := zeros dim;
       madd := vadd;
       mopp := vopp;
       smul := vscale;
       mzerob := all_zero |}.
End FreeModule.
