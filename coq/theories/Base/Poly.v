(* Base/Poly.v — univariate polynomials as coefficient lists (low degree first), Horner evaluation. *)
Require Export BP.Base.Vec.

Section Poly.
  Context {K : FieldOps}.
  Open Scope F_scope.
  Fixpoint peval (c : list K) (x : K) : K :=
    match c with [] => f0 | a :: c' => a + x * peval c' x end.
  (* synthetic division by (X - r): (remainder, quotient) *)
  Fixpoint hq (c : list K) (r : K) : K * list K :=
    match c with
    | [] => (f0, [])
    | [a] => (a, [])
    | a :: c' => let '(v, q) := hq c' r in (a + r * v, v :: q)
    end.
End Poly.
