(* Run/Exec.v — the executable instances used by the correspondence check:
   scalars = residues mod p on Bignums' BigZ (fast under vm_compute), points = coefficient
   vectors over the basis [B; B~; G_0..; H_0..; extra..].  Operations only; no laws are used
   to *run* the model.  (Uses the Uint63 primitives through Bignums.) *)
Require Export BP.Model.Verifier.
Require Import Bignums.BigZ.BigZ.

Section ExecField.
  Variable p : bigZ.
  Definition bz_red (x : bigZ) : bigZ := BigZ.modulo x p.
  Fixpoint bz_powm (a : bigZ) (e : positive) : bigZ :=
    match e with
    | xH => a
    | xO e' => let h := bz_powm a e' in bz_red (BigZ.mul h h)
    | xI e' => let h := bz_powm a e' in bz_red (BigZ.mul (bz_red (BigZ.mul h h)) a)
    end.
  Definition bz_inv (a : bigZ) : bigZ :=
    match (BigZ.to_Z p - 2)%Z with
    | Zpos e => bz_powm a e
    | _ => a
    end.
  Definition bz_ops : FieldOps :=
    {| F := bigZ; f0 := BigZ.zero; f1 := BigZ.one;
       fadd := fun a b => bz_red (BigZ.add a b);
       fmul := fun a b => bz_red (BigZ.mul a b);
       fsub := fun a b => bz_red (BigZ.sub a b);
       fopp := fun a => bz_red (BigZ.opp a);
       finv := bz_inv;
       fdiv := fun a b => bz_red (BigZ.mul a (bz_inv b));
       feqb := BigZ.eqb |}.
End ExecField.

Definition ofZ (z : Z) : bigZ := BigZ.of_Z z.
Definition toZ (x : bigZ) : Z := BigZ.to_Z x.

(* i-th unit vector of length dim *)
Definition unit_vec (K : FieldOps) (dim i : nat) : list K :=
  repeat f0 i ++ (if Nat.ltb i dim then [f1] else []) ++ repeat f0 (dim - i - 1).
