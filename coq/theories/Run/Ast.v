(* Run/Ast.v — first-order program AST for executed cases (mirrors harness/src/ast.rs) and its
   denotation into the model's interaction trees. *)
Require Export BP.Model.Verifier.

Section Ast.
  Context {K : FieldOps}.
  Open Scope F_scope.

  Inductive sx := SC (c : K) | SCh (i : nat) | SAdd (a b : sx) | SMul (a b : sx) | SNeg (a : sx).
  Fixpoint sx_eval (env : list K) (e : sx) : K :=
    match e with
    | SC c => c | SCh i => nth i env f0
    | SAdd a b => sx_eval env a + sx_eval env b
    | SMul a b => sx_eval env a * sx_eval env b
    | SNeg a => - sx_eval env a
    end.
  Definition lcx := list (var * sx).
  Definition lcx_eval (env : list K) (l : lcx) : lc K := map (fun t => (fst t, sx_eval env (snd t))) l.

  Inductive rop :=
  | ROChal (l : string) | ROAlloc (a : option sx) | ROAllocMul (a : option (sx * sx))
  | ROMul (l r : lcx) | ROConstrain (c : lcx) | ROMsg (l : string) (b : list Z) | ROLen | ROFail.

  Inductive cop :=
  | COCommit (v vb : K) | COAlloc (a : option K) | COAllocMul (a : option (K * K))
  | COMul (l r : lcx) | COConstrain (c : lcx) | COMsg (l : string) (b : list Z) | COLen
  | CORandomize (ops : list rop).

  (* a failed allocation ends the closure with that error (`?`) *)
  Fixpoint denote_r (ops : list rop) (env : list K) : rprog K :=
    match ops with
    | [] => RDone
    | ROChal l :: rest => RChal l (fun c => denote_r rest (env ++ [c]))
    | ROAlloc a :: rest =>
      RAlloc (option_map (sx_eval env) a)
             (fun r => match r with Ok _ => denote_r rest env | Err e => RFail e end)
    | ROAllocMul a :: rest =>
      RAllocMul (option_map (fun xy => (sx_eval env (fst xy), sx_eval env (snd xy))) a)
                (fun r => match r with Ok _ => denote_r rest env | Err e => RFail e end)
    | ROMul l r :: rest => RMul (lcx_eval env l) (lcx_eval env r) (fun _ => denote_r rest env)
    | ROConstrain c :: rest => RConstrain (lcx_eval env c) (denote_r rest env)
    | ROMsg l b :: rest => RMsg l b (denote_r rest env)
    | ROLen :: rest => RLen (fun _ => denote_r rest env)
    | ROFail :: _ => RFail EGadget
    end.

  (* first phase: a failed allocation stops the program there *)
  Fixpoint denote_c (ops : list cop) : prog K :=
    match ops with
    | [] => PDone
    | COCommit v vb :: rest => PCommit v vb (fun _ => denote_c rest)
    | COAlloc a :: rest => PAlloc a (fun r => match r with Ok _ => denote_c rest | Err _ => PDone end)
    | COAllocMul a :: rest => PAllocMul a (fun r => match r with Ok _ => denote_c rest | Err _ => PDone end)
    | COMul l r :: rest => PMul (lcx_eval [] l) (lcx_eval [] r) (fun _ => denote_c rest)
    | COConstrain c :: rest => PConstrain (lcx_eval [] c) (denote_c rest)
    | COMsg l b :: rest => PMsg l b (denote_c rest)
    | COLen :: rest => PLen (fun _ => denote_c rest)
    | CORandomize ops :: rest => PRandomize (denote_r ops []) (denote_c rest)
    end.

  (* the verifier drives every op (it never sees a missing assignment) *)
  Fixpoint denote_cv (ops : list cop) : prog K :=
    match ops with
    | [] => PDone
    | COCommit v vb :: rest => PCommit v vb (fun _ => denote_cv rest)
    | COAlloc a :: rest => PAlloc a (fun _ => denote_cv rest)
    | COAllocMul a :: rest => PAllocMul a (fun _ => denote_cv rest)
    | COMul l r :: rest => PMul (lcx_eval [] l) (lcx_eval [] r) (fun _ => denote_cv rest)
    | COConstrain c :: rest => PConstrain (lcx_eval [] c) (denote_cv rest)
    | COMsg l b :: rest => PMsg l b (denote_cv rest)
    | COLen :: rest => PLen (fun _ => denote_cv rest)
    | CORandomize ops :: rest => PRandomize (denote_r ops []) (denote_cv rest)
    end.
End Ast.
Arguments sx : clear implicits. Arguments lcx : clear implicits.
Arguments rop : clear implicits. Arguments cop : clear implicits.
