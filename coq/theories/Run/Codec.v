(* Run/Codec.v — evaluates the container codec (Model/Codec.v) on real byte strings.  Scalars are decoded
   concretely (little-endian, canonical iff < r); a point chunk is valid iff it is in the case's table
   of chunks that arkworks' validated compressed decoder accepts (supplied for every offset of the input). *)
Require Export BP.Model.Codec.
Require Export ZArith.

Definition rawK : FieldOps := mkFieldOps Z 0%Z 1%Z Z.add Z.mul Z.sub Z.opp (fun x => x) Z.mul Z.eqb.
Definition rawM : ModOps rawK :=
  mkModOps rawK (list Z) [] (@app Z) (fun x => x) (fun _ x => x) (fun x => match x with [] => true | _ => false end).

Fixpoint list_eqb (a b : list Z) : bool :=
  match a, b with
  | [], [] => true
  | x :: a', y :: b' => Z.eqb x y && list_eqb a' b'
  | _, _ => false
  end.

Definition dec_pt_tbl (tbl : list (list Z)) (c : list Z) : option rawM :=
  if existsb (list_eqb c) tbl then Some (c : rawM) else None.
Definition dec_sc_mod (r : Z) (c : list Z) : option rawK :=
  let v := le_val c in if (v <? r)%Z then Some (v : rawK) else None.

Definition run_decode (PS SS : nat) (r : Z) (tbl : list (list Z)) (bs : list Z) : list Z :=
  match @decode_r_fast rawK rawM PS SS (dec_pt_tbl tbl) (dec_sc_mod r) bs with
  | Some (p, rest) =>
    let nL := length (ipp_L (ipp p)) in
    let nR := length (ipp_R (ipp p)) in
    [1%Z; Z.of_nat nL; Z.of_nat nR; Z.of_nat (length bs - length rest);
     (if list_eqb (@encode rawK rawM (fun c : rawM => c) (fun x : rawK => le_enc SS x) p ++ rest) bs then 1 else 0)%Z;
     Z.of_nat (encoded_size PS SS nL nR)]
  | None => [0%Z]
  end.
