(* Run/Lc.v — executed LinearCombination operator cases (K2). *)
Require Export BP.Run.R1cs.
Require Import Bignums.BigZ.BigZ.

Fixpoint lcexpr_map {K1 K2 : FieldOps} (f : K1 -> K2) (t : lcexpr K1) : lcexpr K2 :=
  match t with
  | XVar v => XVar v | XConst c => XConst (f c)
  | XTerms l => XTerms (map (fun t => (fst t, f (snd t))) l)
  | XNeg a => XNeg (lcexpr_map f a) | XAdd a b => XAdd (lcexpr_map f a) (lcexpr_map f b)
  | XSub a b => XSub (lcexpr_map f a) (lcexpr_map f b) | XScale a s => XScale (lcexpr_map f a) (f s)
  | XVNeg v => XVNeg v | XVAdd v b => XVAdd v (lcexpr_map f b) | XVSub v b => XVSub v (lcexpr_map f b)
  | XVScale v s => XVScale v (f s)
  end.

Definition enc_var_z (v : var) : list Z :=
  match v with
  | VCommitted i => [0; Z.of_nat i] | VLeft i => [1; Z.of_nat i] | VRight i => [2; Z.of_nat i]
  | VOut i => [3; Z.of_nat i] | VOne => [4; 0] | VPhantom => [5; 0]
  end%Z.

Definition run_lc (p : Z) (t : lcexpr Zc) : list (list Z) :=
  let K := bz_ops (ofZ p) in
  let terms : lc K := compile (@lcexpr_map Zc K ofZ t) in
  [ 1%Z :: flat_map (fun t => enc_var_z (fst t) ++ [toZ (snd t)]) terms ].
