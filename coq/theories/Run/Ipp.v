(* Run/Ipp.v — executed inner-product-argument cases (K5). *)
Require Export BP.Run.R1cs.
Require Import Bignums.BigZ.BigZ.

Record ipp_case := mkIppCase {
  ic_p : Z; ic_k : nat; ic_a : list Z; ic_b : list Z; ic_gf : list Z; ic_hf : list Z;
  ic_P : list Z; ic_chal_c : list Z; ic_chal_v : list Z; ic_variant : nat;
  ic_pa : Z; ic_pb : Z; ic_nclaim : nat }.

Definition run_ipp (c : ipp_case) : list (list Z) :=
  let K := bz_ops (ofZ (ic_p c)) in
  let n := (2 ^ ic_k c)%nat in
  let dim := (2 + 2 * n + 1)%nat in
  let MO := fm_ops K dim in
  let cv (z : Z) : K := ofZ z in
  let vecK (l : list Z) : list K := map cv l in
  let Gs : list MO := map (fun i => unit_vec K dim (2 + i)) (seq 0 n) in
  let Hs : list MO := map (fun i => unit_vec K dim (2 + n + i)) (seq 0 n) in
  let Q : MO := unit_vec K dim (2 + 2 * n) in
  let oracle (rec : list Z) (tr : transcript K MO) : K := cv (nth (count_chal tr - 1) rec 0%Z) in
  let tr0 : transcript K MO := [App "dom-sep" (PBytes [105; 110; 110; 101; 114; 112; 114; 111; 100; 117; 99; 116; 116; 101; 115; 116]%Z)] in
  let '(pf, tr1, us) := ipp_create (oracle (ic_chal_c c)) tr0 Q (vecK (ic_gf c)) (vecK (ic_hf c)) Gs Hs (vecK (ic_a c)) (vecK (ic_b c)) in
  let enc_pts (l : list MO) := flat_map (fun P : MO => Z.of_nat (length P) :: map toZ P) l in
  let L' := if Nat.eqb (ic_variant c) 4 then removelast (ipp_L pf) else ipp_L pf in
  let R' := if Nat.eqb (ic_variant c) 4 then removelast (ipp_R pf) else ipp_R pf in
  let vpf := mkIPP L' R' (cv (ic_pa c)) (cv (ic_pb c)) in
  let vs := ipp_verification_scalars (oracle (ic_chal_v c)) tr0 (ic_nclaim c) vpf in
  let meqb (x y : MO) : bool := forallb (fun t => BigZ.eqb (fst t) (snd t)) (combine x y) && Nat.eqb (length x) (length y) in
  let verdict := ipp_verify (oracle (ic_chal_v c)) meqb tr0 (ic_nclaim c) vpf (vecK (ic_gf c)) (vecK (ic_hf c)) (vecK (ic_P c) : MO) Q Gs Hs in
  [ [1; Z.of_nat (length (ipp_L pf)); Z.of_nat (length (ipp_R pf)); toZ (ipp_a pf); toZ (ipp_b pf)]%Z;
    (6 :: enc_pts (ipp_L pf ++ ipp_R pf))%Z;
    (7 :: flat_map (fun o => @enc_op (mkCase (ic_p c) [] [] [] 0 0 n 1 [] [] [] [] [] [] None []) o) tr1)%Z ]
  ++ match vs with
     | Err _ => [ [12; 1]%Z ]
     | Ok (usq, uisq, s, _, _) =>
       [ [12; 0]%Z;
         (13 :: Z.of_nat (length usq) :: map toZ usq ++ Z.of_nat (length uisq) :: map toZ uisq ++ Z.of_nat (length s) :: map toZ s)%Z ]
     end
  ++ [ [15; match verdict with Ok _ => 0 | Err _ => 1 end]%Z ].
