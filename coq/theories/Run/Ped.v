(* Run/Ped.v — executed Pedersen commitment cases (K9): commit in the free module on [B; B~]. *)
Require Export BP.Run.R1cs.
Require Import Bignums.BigZ.BigZ.

Definition run_ped (p v r v2 r2 k : Z) : list (list Z) :=
  let K := bz_ops (ofZ p) in
  let MO := fm_ops K 2 in
  let B : MO := unit_vec K 2 0 in let Bb : MO := unit_vec K 2 1 in
  let c1 := pedersen_commit B Bb (ofZ v : K) (ofZ r : K) in
  let c2 := pedersen_commit B Bb (ofZ v2 : K) (ofZ r2 : K) in
  let eqv (x y : MO) : bool := forallb (fun t => BigZ.eqb (fst t) (snd t)) (combine x y) in
  let b2z (b : bool) : Z := if b then 1%Z else 0%Z in
  (* model-side laws, evaluated: homomorphism, zero, scaling *)
  [ [2%Z; toZ (nth 0 c1 f0); toZ (nth 1 c1 f0)];
    [3%Z; b2z (eqv (madd c1 c2) (pedersen_commit B Bb (fadd (ofZ v : K) (ofZ v2)) (fadd (ofZ r : K) (ofZ r2))));
          b2z (mzerob (pedersen_commit B Bb (f0 : K) f0));
          b2z (eqv (smul (ofZ k : K) c1) (pedersen_commit B Bb (fmul (ofZ k : K) (ofZ v)) (fmul (ofZ k : K) (ofZ r))))] ].
