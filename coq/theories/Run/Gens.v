(* Run/Gens.v — evaluates the generator bookkeeping model on histories and views; a point is named by
   the triple (kind, party, position) of the stream output it must be. *)
Require Export BP.Model.Gens.

Definition chZ (k : bool) (j i : nat) : Z := ((if k then 0 else 1000000) + 1000 * Z.of_nat j + Z.of_nat i)%Z.

(* history: initial (cap, pcap) and requests; observable: capacity, then every vector flattened *)
Definition run_history (cap pcap : nat) (reqs : list nat) : list Z :=
  let s := fold_left (increase Z chZ) reqs (new Z chZ cap pcap) in
  Z.of_nat (g_cap Z s) :: concat (g_G Z s) ++ (-1)%Z :: concat (g_H Z s).

(* view (n, m) of a fresh object: [1; items...] or [9] on an index panic *)
Definition run_view (cap pcap n m : nat) : list Z :=
  let s := new Z chZ cap pcap in
  match collect Z (g_G Z s) n m, collect Z (g_H Z s) n m with
  | Some a, Some b => 1%Z :: a ++ (-1)%Z :: b
  | _, _ => [9%Z]
  end.
