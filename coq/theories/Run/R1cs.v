(* Run/R1cs.v — executed R1CS cases: the model's prover and verifier on a harness-generated
   program, with the recorded challenges and RNG draws; prints every observable as list (list Z). *)
Require Export BP.Run.Exec BP.Run.Ast BP.Model.Relations.
Require Import Bignums.BigZ.BigZ.
Require Import Coq.Strings.Ascii.
Export List ListNotations.

(* container for literals written by the harness: plain Z constants *)
Definition Zc : FieldOps :=
  {| F := Z; f0 := 0%Z; f1 := 1%Z; fadd := Z.add; fmul := Z.mul; fsub := Z.sub; fopp := Z.opp;
     finv := fun x => x; fdiv := Z.div; feqb := Z.eqb |}.
Canonical Structure Zc.

Section MapAst.
  Context {K1 K2 : FieldOps} (f : K1 -> K2).
  Fixpoint sx_map (e : sx K1) : sx K2 :=
    match e with
    | SC c => SC (f c) | SCh i => SCh i | SAdd a b => SAdd (sx_map a) (sx_map b)
    | SMul a b => SMul (sx_map a) (sx_map b) | SNeg a => SNeg (sx_map a)
    end.
  Definition lcx_map (l : lcx K1) : lcx K2 := map (fun t => (fst t, sx_map (snd t))) l.
  Definition rop_map (o : rop K1) : rop K2 :=
    match o with
    | ROChal l => ROChal l
    | ROAlloc a => ROAlloc (option_map sx_map a)
    | ROAllocMul a => ROAllocMul (option_map (fun xy => (sx_map (fst xy), sx_map (snd xy))) a)
    | ROMul l r => ROMul (lcx_map l) (lcx_map r)
    | ROConstrain c => ROConstrain (lcx_map c)
    | ROMsg l b => ROMsg l b | ROLen => ROLen | ROFail => ROFail
    end.
  Definition cop_map (o : cop K1) : cop K2 :=
    match o with
    | COCommit v vb => COCommit (f v) (f vb)
    | COAlloc a => COAlloc (option_map f a)
    | COAllocMul a => COAllocMul (option_map (fun xy => (f (fst xy), f (snd xy))) a)
    | COMul l r => COMul (lcx_map l) (lcx_map r)
    | COConstrain c => COConstrain (lcx_map c)
    | COMsg l b => COMsg l b | COLen => COLen
    | CORandomize ops => CORandomize (map rop_map ops)
    end.
End MapAst.

(* proof mutations applied identically by the harness (on real points) and here (on coefficient vectors).
   point selectors: (0, j) fixed point j of the 11; (1, j) L_j; (2, j) R_j *)
Inductive mutation :=
| MPointAdd (sel : nat * nat) (coeffs : list Z)
| MPointNeg (sel : nat * nat)
| MPointZero (sel : nat * nat)
| MPointSwap (s1 s2 : nat * nat)
| MScalarAdd (idx : nat) (delta : Z)     (* 0 t_x, 1 t_x_blinding, 2 e_blinding, 3 a, 4 b *)
| MDropRound | MDupRound | MSwapRounds (i j : nat) | MDropL | MDropR | MExtraL | MExtraR.

Record r1cs_case := mkCase {
  rc_p : Z;                       (* scalar field modulus *)
  rc_label : list Z;              (* Transcript::new label bytes *)
  rc_prog : list (cop Zc);
  rc_gates : list (nat * Z * Z * Z);   (* hook H2 overrides after phase 1 *)
  rc_cap_p : nat; rc_cap_v : nat;
  rc_cap_basis : nat;             (* G_i = e_(2+i), H_i = e_(2+cap_basis+i) *)
  rc_extra : nat;                 (* further independent basis points *)
  rc_draws : list Z;
  rc_chal_p : list Z;
  rc_chal_v : list Z;
  rc_vlabel : list Z;
  rc_vprog : list (cop Zc);
  rc_vcommit : list (option (list Z));  (* per commit call on the verifier: None = the prover's, Some c = this point *)
  rc_vbases : option (list Z * list Z); (* verifier's (B, B~) if different *)
  rc_muts : list mutation
}.

Section Run.
  Variable c : r1cs_case.
  Let p := ofZ (rc_p c).
  Let K : FieldOps := bz_ops p.
  Let dim := (2 + 2 * rc_cap_basis c + rc_extra c)%nat.
  Let MO : ModOps K := fm_ops K dim.
  Let cv (z : Z) : K := ofZ z.
  Let vec (l : list Z) : MO := map cv l.

  Definition basis (i : nat) : MO := unit_vec K dim i.
  Definition gensG (cap : nat) : list MO := map (fun i => basis (2 + i)) (seq 0 cap).
  Definition gensH (cap : nat) : list MO := map (fun i => basis (2 + rc_cap_basis c + i)) (seq 0 cap).

  (* the oracle: the k-th challenge request in a history gets the k-th recorded value *)
  Definition oracle (rec : list Z) (tr : transcript K MO) : K := cv (nth (count_chal tr - 1) rec 0%Z).
  Definition draws (i : nat) : K := cv (nth i (rc_draws c) 0%Z).

  Definition init_tr (label : list Z) : transcript K MO := [App "dom-sep" (PBytes label)].

  (* ---------- encoders: everything becomes list Z ---------- *)
  Definition nz (n : nat) : Z := Z.of_nat n.
  Definition enc_var (v : var) : list Z :=
    match v with
    | VCommitted i => [0; nz i] | VLeft i => [1; nz i] | VRight i => [2; nz i] | VOut i => [3; nz i]
    | VOne => [4; 0] | VPhantom => [5; 0]
    end%Z.
  Definition enc_err (e : rerr) : Z :=
    match e with EVerification => 1 | EFormat => 2 | EGens => 3 | EMissing => 4 | EGadget => 5 end%Z.
  Definition with_len (l : list Z) : list Z := nz (length l) :: l.
  Definition enc_event (e : event K MO) : list Z * list MO :=
    match e with
    | EvVar (Ok v) => (with_len (1 :: enc_var v), [])
    | EvVar (Err e) => (with_len [2; enc_err e], [])
    | EvVars (Ok (a, b, d)) => (with_len (3 :: enc_var a ++ enc_var b ++ enc_var d), [])
    | EvVars (Err e) => (with_len [4; enc_err e], [])
    | EvLen n => (with_len [5; nz n], [])
    | EvCommit P v => (with_len (6 :: enc_var v), [P])
    | EvChal x => (with_len [7; toZ x], [])
    | EvUnit => (with_len [8], [])
    end%Z.
  Definition enc_events (l : list (event K MO)) : list Z * list MO :=
    fold_right (fun e acc => let '(z, ps) := enc_event e in (z ++ fst acc, ps ++ snd acc)) ([], []) l.

  Definition enc_point (P : MO) : list Z := with_len (map toZ P).
  Definition enc_points (l : list MO) : list Z := flat_map enc_point l.

  Definition str_bytes (s : string) : list Z := map (fun a => Z.of_nat (nat_of_ascii a)) (list_ascii_of_string s).
  Fixpoint le_bytes (n : nat) (z : Z) : list Z :=
    match n with O => [] | S n' => (z mod 256)%Z :: le_bytes n' (z / 256)%Z end.
  (* kind 0 bytes, 1 scalar, 2 point, 3 challenge; [kind; |label|; label; |payload|; payload] *)
  Definition enc_op (o : tr_op K MO) : list Z :=
    match o with
    | App l (PBytes b) => 0%Z :: with_len (str_bytes l) ++ with_len b
    | App l (PStr s) => 0%Z :: with_len (str_bytes l) ++ with_len (str_bytes s)
    | App l (PU64 n) => 0%Z :: with_len (str_bytes l) ++ with_len (le_bytes 8 (nz n))
    | App l (PScalar x) => 1%Z :: with_len (str_bytes l) ++ with_len [toZ x]
    | App l (PPoint P) => 2%Z :: with_len (str_bytes l) ++ with_len (map toZ P)
    | Chal l => 3%Z :: with_len (str_bytes l) ++ with_len []
    end.
  Definition enc_tr (t : transcript K MO) : list Z := flat_map enc_op t.

  Definition code_of {A} (r : result A) : Z := match r with Ok _ => 0%Z | Err e => enc_err e end.

  (* ---------- mutations on the model's proof ---------- *)
  Notation proof_t := (r1cs_proof K MO).
  Definition fixed_points (pf : proof_t) : list MO :=
    [A_I1 pf; A_O1 pf; S1 pf; A_I2 pf; A_O2 pf; S2 pf; T_1 pf; T_3 pf; T_4 pf; T_5 pf; T_6 pf].
  Definition with_fixed (pf : proof_t) (l : list MO) : proof_t :=
    let g i := nth i l m0 in
    mkProof (g 0%nat) (g 1%nat) (g 2%nat) (g 3%nat) (g 4%nat) (g 5%nat) (g 6%nat) (g 7%nat) (g 8%nat) (g 9%nat) (g 10%nat)
            (t_x pf) (t_x_blinding pf) (e_blinding pf) (ipp pf).
  Definition with_ipp (pf : proof_t) (ip : ipp_proof K MO) : proof_t :=
    mkProof (A_I1 pf) (A_O1 pf) (S1 pf) (A_I2 pf) (A_O2 pf) (S2 pf) (T_1 pf) (T_3 pf) (T_4 pf) (T_5 pf) (T_6 pf)
            (t_x pf) (t_x_blinding pf) (e_blinding pf) ip.
  Definition get_pt (pf : proof_t) (sel : nat * nat) : MO :=
    match fst sel with
    | 0%nat => nth (snd sel) (fixed_points pf) m0
    | 1%nat => nth (snd sel) (ipp_L (ipp pf)) m0
    | _ => nth (snd sel) (ipp_R (ipp pf)) m0
    end.
  Definition set_pt (pf : proof_t) (sel : nat * nat) (P : MO) : proof_t :=
    match fst sel with
    | 0%nat => with_fixed pf (set_nth (snd sel) P (fixed_points pf))
    | 1%nat => with_ipp pf (mkIPP (set_nth (snd sel) P (ipp_L (ipp pf))) (ipp_R (ipp pf)) (ipp_a (ipp pf)) (ipp_b (ipp pf)))
    | _ => with_ipp pf (mkIPP (ipp_L (ipp pf)) (set_nth (snd sel) P (ipp_R (ipp pf))) (ipp_a (ipp pf)) (ipp_b (ipp pf)))
    end.
  Definition swap_nth {A} (i j : nat) (d : A) (l : list A) : list A :=
    set_nth j (nth i l d) (set_nth i (nth j l d) l).
  Definition apply_mut (pf : proof_t) (m : mutation) : proof_t :=
    let ip := ipp pf in
    match m with
    | MPointAdd sel co => set_pt pf sel (madd (get_pt pf sel) (vec co))
    | MPointNeg sel => set_pt pf sel (mopp (get_pt pf sel))
    | MPointZero sel => set_pt pf sel m0
    | MPointSwap s1 s2 => let a := get_pt pf s1 in let b := get_pt pf s2 in set_pt (set_pt pf s1 b) s2 a
    | MScalarAdd i d =>
      let dd := cv d in
      match i with
      | 0%nat => mkProof (A_I1 pf) (A_O1 pf) (S1 pf) (A_I2 pf) (A_O2 pf) (S2 pf) (T_1 pf) (T_3 pf) (T_4 pf) (T_5 pf) (T_6 pf)
                      (fadd (t_x pf) dd) (t_x_blinding pf) (e_blinding pf) ip
      | 1%nat => mkProof (A_I1 pf) (A_O1 pf) (S1 pf) (A_I2 pf) (A_O2 pf) (S2 pf) (T_1 pf) (T_3 pf) (T_4 pf) (T_5 pf) (T_6 pf)
                      (t_x pf) (fadd (t_x_blinding pf) dd) (e_blinding pf) ip
      | 2%nat => mkProof (A_I1 pf) (A_O1 pf) (S1 pf) (A_I2 pf) (A_O2 pf) (S2 pf) (T_1 pf) (T_3 pf) (T_4 pf) (T_5 pf) (T_6 pf)
                      (t_x pf) (t_x_blinding pf) (fadd (e_blinding pf) dd) ip
      | 3%nat => with_ipp pf (mkIPP (ipp_L ip) (ipp_R ip) (fadd (ipp_a ip) dd) (ipp_b ip))
      | _ => with_ipp pf (mkIPP (ipp_L ip) (ipp_R ip) (ipp_a ip) (fadd (ipp_b ip) dd))
      end
    | MDropRound => with_ipp pf (mkIPP (removelast (ipp_L ip)) (removelast (ipp_R ip)) (ipp_a ip) (ipp_b ip))
    | MDupRound => with_ipp pf (mkIPP (ipp_L ip ++ [last (ipp_L ip) (basis 2)]) (ipp_R ip ++ [last (ipp_R ip) (basis 2)]) (ipp_a ip) (ipp_b ip))
    | MSwapRounds i j => with_ipp pf (mkIPP (swap_nth i j m0 (ipp_L ip)) (swap_nth i j m0 (ipp_R ip)) (ipp_a ip) (ipp_b ip))
    | MDropL => with_ipp pf (mkIPP (removelast (ipp_L ip)) (ipp_R ip) (ipp_a ip) (ipp_b ip))
    | MDropR => with_ipp pf (mkIPP (ipp_L ip) (removelast (ipp_R ip)) (ipp_a ip) (ipp_b ip))
    | MExtraL => with_ipp pf (mkIPP (ipp_L ip ++ [basis 2]) (ipp_R ip) (ipp_a ip) (ipp_b ip))
    | MExtraR => with_ipp pf (mkIPP (ipp_L ip) (ipp_R ip ++ [basis 2]) (ipp_a ip) (ipp_b ip))
    end.

  (* ---------- the run ---------- *)
  Definition B0 : MO := basis 0. Definition Bb0 : MO := basis 1.

  Definition apply_gates (s : pstate K MO) : pstate K MO :=
    fold_left (fun s g => let '(i, l, r, o) := g in
      mkP (p_tr s) (p_cons s) (set_nth i (cv l) (p_aL s)) (set_nth i (cv r) (p_aR s)) (set_nth i (cv o) (p_aO s))
          (p_v s) (p_vb s) (p_def s) (p_pend s)) (rc_gates c) s.

  (* all constraints evaluate to zero and every gate multiplies, on a final prover state *)
  Definition sat_state (aL aR aO v : list K) (cons : list (lc K)) : bool :=
    forallb (fun l => feqb (eval_lc (mkAsg aL aR aO v) l) f0) cons
    && forallb (fun t => feqb (fmul (fst (fst t)) (snd (fst t))) (snd t)) (combine (combine aL aR) aO).

  (* an instance as data (the section's case only fixes field, basis size): the model prover's proof on d's
     program with d's recorded draws/challenges, d's mutations, and the verifier's first-phase state *)
  Definition inst_of (d : r1cs_case) : option (vstate K MO * proof_t) :=
    let RO_p := oracle (rc_chal_p d) in
    let prog_p := denote_c (map (@cop_map Zc K cv) (rc_prog d)) in
    let '(s1, ev1) := p_run B0 Bb0 prog_p (p_new (init_tr (rc_label d))) in
    let '(_, e1p) := enc_events ev1 in
    let s1g := fold_left (fun s g => let '(i, l, r, o) := g in
      mkP (p_tr s) (p_cons s) (set_nth i (cv l) (p_aL s)) (set_nth i (cv r) (p_aR s)) (set_nth i (cv o) (p_aO s))
          (p_v s) (p_vb s) (p_def s) (p_pend s)) (rc_gates d) s1 in
    match prove RO_p B0 Bb0 (gensG (rc_cap_p d)) (gensH (rc_cap_p d)) (fun i => cv (nth i (rc_draws d) 0%Z)) s1g with
    | Err _ => None
    | Ok po =>
      let pf := fold_left apply_mut (rc_muts d) (po_proof po) in
      let Vs (i : nat) : MO :=
        match nth i (rc_vcommit d) None with Some co => vec co | None => nth i e1p m0 end in
      let prog_v := denote_cv (map (@cop_map Zc K cv) (rc_vprog d)) in
      let '(v1, _) := v_run Vs prog_v (v_new (init_tr (rc_vlabel d))) in
      Some (v1, pf)
    end.

  (* oracle for several transcripts at once: the recorded list is selected by the transcript's initial label *)
  Definition label_of (tr : transcript K MO) : list Z :=
    match tr with App _ (PBytes b) :: _ => b | _ => [] end.
  Definition zlist_eqb (a b : list Z) : bool := (Nat.eqb (length a) (length b)) && forallb (fun t => Z.eqb (fst t) (snd t)) (combine a b).
  Definition oracle_multi (table : list (list Z * list Z)) (tr : transcript K MO) : K :=
    let rec := match find (fun e => zlist_eqb (fst e) (label_of tr)) table with Some e => snd e | None => [] end in
    cv (nth (count_chal tr - 1) rec 0%Z).

  (* K10: batch_verify on instances given as data, weights as drawn by the implementation *)
  Definition run_batch (ds : list r1cs_case) (alphas : list Z) (table : list (list Z * list Z)) (cap : nat) : list (list Z) :=
    let insts := flat_map (fun d => match inst_of d with Some i => [i] | None => [] end) ds in
    let RO := oracle_multi table in
    let verdict := batch_verify RO B0 Bb0 (gensG cap) (gensH cap) (map cv alphas) insts in
    let singles := map (fun i => code_of (verify RO B0 Bb0 (gensG cap) (gensH cap) (fst i) (snd i))) insts in
    [ [15; code_of verdict]; (20 :: singles); [21; nz (length insts)] ]%Z.

  Definition run_r1cs : list (list Z) :=
    let RO_p := oracle (rc_chal_p c) in
    (* the verifier's recorded challenges; if the implementation stopped early, continue with the prover's
       (equal on an honest run; only used to evaluate the relations for the search) *)
    let RO_v := oracle (rc_chal_v c ++ skipn (length (rc_chal_v c)) (rc_chal_p c)) in
    let prog_p := denote_c (map (@cop_map Zc K cv) (rc_prog c)) in
    let '(s1, ev1) := p_run B0 Bb0 prog_p (p_new (init_tr (rc_label c))) in
    let '(e1z, e1p) := enc_events ev1 in
    let s1g := apply_gates s1 in
    let obs_p1 := [ (1 :: e1z); (2 :: with_len (map toZ (p_aL s1)) ++ with_len (map toZ (p_aR s1)) ++ with_len (map toZ (p_aO s1)));
                    (16 :: enc_points e1p) ]%Z in
    let pr := prove RO_p B0 Bb0 (gensG (rc_cap_p c)) (gensH (rc_cap_p c)) draws s1g in
    let commitments := e1p in
    let obs_p2 :=
      match pr with
      | Err e => [ [3; enc_err e] ]%Z
      | Ok po =>
        let pf := po_proof po in
        let '(e2z, _) := enc_events (po_events po) in
        [ [3; 0]; (4 :: e2z);
          [5; toZ (t_x pf); toZ (t_x_blinding pf); toZ (e_blinding pf); toZ (ipp_a (ipp pf)); toZ (ipp_b (ipp pf))];
          (6 :: enc_points (fixed_points pf ++ ipp_L (ipp pf) ++ ipp_R (ipp pf)));
          (7 :: enc_tr (po_tr po));
          [9; nz (po_ndraws po); nz (po_n1 po); nz (po_n po)] ]%Z
      end in
    (* verifier *)
    let obs_v :=
      match pr with
      | Err _ => []
      | Ok po =>
        let pf := fold_left apply_mut (rc_muts c) (po_proof po) in
        let Vs (i : nat) : MO :=
          match nth i (rc_vcommit c) None with
          | Some co => vec co
          | None => nth i commitments m0
          end in
        let '(Bv, Bbv) := match rc_vbases c with Some (b, bb) => (vec b, vec bb) | None => (B0, Bb0) end in
        let prog_v := denote_cv (map (@cop_map Zc K cv) (rc_vprog c)) in
        let '(v1, evv1) := v_run Vs prog_v (v_new (init_tr (rc_vlabel c))) in
        let '(ev1z, _) := enc_events evv1 in
        let vs := verification_scalars RO_v (rc_cap_v c) v1 pf in
        let obs_s :=
          match vs with
          | Err e => [ [12; enc_err e] ]%Z
          | Ok vo =>
            let '(ev2z, _) := enc_events (vo_events vo) in
            (* the separate relations (a), (b), (c), evaluated from their specification with explicit folding *)
            let b2z (b : bool) : Z := if b then 1%Z else 0%Z in
            let ch := vo_chal vo in
            let cy := nth 0 ch f0 in let cu := nth 2 ch f0 in let cx := nth 3 ch f0 in let cw := nth 4 ch f0 in
            let n := v_num (vo_state vo) in
            let id_ok := negb (existsb mzerob ([A_I1 pf; A_O1 pf; S1 pf; T_1 pf; T_3 pf; T_4 pf; T_5 pf; T_6 pf]
                                               ++ ipp_L (ipp pf) ++ ipp_R (ipp pf))) in
            let rt := R_t Bv Bbv (vo_w vo) cy cx n (vo_padded vo) (v_V (vo_state vo)) pf in
            let ri := R_ipp Bv Bbv (vo_w vo) cy cu cx cw (vo_ipp_chal vo) (vo_n1 vo) n (vo_padded vo)
                            (gensG (rc_cap_v c)) (gensH (rc_cap_v c)) pf in
            [ [12; 0]; (11 :: ev2z); (13 :: map toZ (vo_scalars vo)); (14 :: enc_tr (v_tr (vo_state vo)));
              [17; b2z id_ok; b2z (mzerob rt); b2z (mzerob ri)] ]%Z
          end in
        let verdict := verify RO_v Bv Bbv (gensG (rc_cap_v c)) (gensH (rc_cap_v c)) v1 pf in
        (10 :: ev1z)%Z :: obs_s ++ [ [15; code_of verdict] ]%Z
      end in
    (* model-only: is the (possibly overridden) final witness satisfying? *)
    let obs_sat :=
      match pr with
      | Err _ => []
      | Ok po =>
        let s2 := po_state po in
        [ [8; if sat_state (p_aL s2) (p_aR s2) (p_aO s2) (p_v s2) (p_cons s2) then 1 else 0]%Z ]
      end in
    obs_p1 ++ obs_p2 ++ obs_v ++ obs_sat.
End Run.
