(* Run/Shape.v — evaluates the shape model (Model/Shape.v, repaired tree) on the harness's grid. *)
Require Export BP.Model.Shape BP.Model.ShapeProver.
Require Export ZArith.

Definition class_of (o : outcome) : Z := match o with OPanic _ => 9%Z | _ => 0%Z end.

Definition grid_classes (l : list (nat * nat * nat * nat * nat * nat)) : list Z :=
  map (fun t => let '(cap, n1, n, m, lL, lR) := t in class_of (verify_shape true cap n1 n m lL lR)) l.

Definition batch_classes (cap : nat) (l : list (list inst_shape)) : list Z :=
  map (fun b => class_of (batch_verify_shape true cap b)) l.

(* proving side: 0 = Ok, 3 = InvalidGeneratorsLength, 9 = panic (codes of the harness) *)
Definition prove_class (pcap cap n1 n : nat) : Z :=
  match prove_shape pcap cap n1 n with OOk => 0%Z | OErr => 3%Z | OPanic _ => 9%Z end.
