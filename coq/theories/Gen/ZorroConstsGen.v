(* GENERATED on every run by tools/gen_zorro_consts.py from /repo/src/curve/zorro/{fq,fr,g1}.rs and
   ark_ed25519 0.4.0 -> ark_curve25519 0.4.0 (followed through `pub use ... as Fr`).  Do not edit. *)
Require Import ZArith.
Open Scope Z_scope.
Definition q : Z := 57896044618658097711785492504343953927116110621106131396339151912985063395361.
Definition fq_generator : Z := 3.
Definition r_fr : Z := 57896044618658097711785492504343953926634992332820282019728792003956564819949.
Definition coeff_a : Z := 6.
Definition coeff_b : Z := 7277470329389939148381533754641607518092114590371880995609984561067837624798.
Definition gx : Z := 2.
Definition gy : Z := 19711758720854384559191066596451394956860102304684364148268676039962145446511.
Definition cofactor : Z := 1.
(* fn mul_by_a, statement by statement *)
Definition mul_by_a_gen (x : Z) : Z :=
  let y := x + x + x in
  y + y.
