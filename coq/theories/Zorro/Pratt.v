Require Import ZArith Znumtheory Lia List Zpow_facts Bool.
Require Import BP.Zorro.Lucas.
Import ListNotations.
Open Scope Z_scope.

Definition prod (l : list Z) := fold_right Z.mul 1 l.

Definition check_entry (known : list Z) (e : Z * Z * list Z) : bool :=
  let '(n, a, fs) := e in
  (1 <? n) && (prod fs =? n - 1)
  && forallb (fun f => existsb (Z.eqb f) known) fs
  && (Zpow_mod a (n - 1) n =? 1)
  && forallb (fun f => negb (Zpow_mod a ((n - 1) / f) n =? 1)) fs.

Fixpoint check_all (known : list Z) (l : list (Z * Z * list Z)) : bool :=
  match l with
  | [] => true
  | e :: l' => check_entry known e && check_all (fst (fst e) :: known) l'
  end.

Lemma prime_in_prod p fs : prime p -> (forall f, In f fs -> prime f) -> (p | prod fs) -> In p fs.
Proof.
  intros Hp. induction fs as [|f fs IH]; simpl; intros Hall Hd.
  - exfalso. destruct Hp as [Hp1 _]. apply Z.divide_1_r_nonneg in Hd; lia.
  - destruct (prime_mult p Hp _ _ Hd) as [H|H].
    + left. symmetry. apply prime_div_prime; auto.
    + right. apply IH; auto.
Qed.

Lemma check_entry_sound known e :
  (forall k, In k known -> prime k) -> check_entry known e = true -> prime (fst (fst e)).
Proof.
  destruct e as [[n a] fs]. unfold check_entry. simpl fst.
  intros Hk H. repeat (apply andb_prop in H; destruct H as [H ?]).
  apply Z.ltb_lt in H. apply Z.eqb_eq in H3. apply Z.eqb_eq in H1.
  rewrite Zpow_mod_correct in H1 by lia.
  assert (Hfs : forall f, In f fs -> prime f).
  { intros f Hf. rewrite forallb_forall in H2. specialize (H2 f Hf).
    apply existsb_exists in H2. destruct H2 as (k & Hkin & Ek). apply Z.eqb_eq in Ek. subst. auto. }
  apply (lucas n a); auto.
  intros p Hp Hd. rewrite <- H3 in Hd. pose proof (prime_in_prod p fs Hp Hfs Hd) as Hin.
  rewrite forallb_forall in H0. specialize (H0 p Hin).
  apply negb_true_iff, Z.eqb_neq in H0. rewrite Zpow_mod_correct in H0 by lia. exact H0.
Qed.

Lemma check_all_sound l : forall known, (forall k, In k known -> prime k) -> check_all known l = true ->
  forall e, In e l -> prime (fst (fst e)).
Proof.
  induction l as [|e l IH]; simpl; intros known Hk H x Hx; [tauto|].
  apply andb_prop in H. destruct H as [H1 H2].
  pose proof (check_entry_sound known e Hk H1) as Hp.
  destruct Hx as [<-|Hx]; auto.
  apply (IH (fst (fst e) :: known)); auto. intros k [<-|Hin]; auto.
Qed.
