(* Zorro/Curve.v — short-Weierstrass arithmetic over Z mod q in Jacobian coordinates (no inversions),
   scalar multiplication, the curve equation, and the arithmetic that pins the group order. *)
Require Import ZArith Znumtheory Lia List.
Require Import BP.Gen.ZorroConstsGen BP.Zorro.Cert.
Open Scope Z_scope.

Definition fm (x : Z) : Z := x mod q.

(* Jacobian point (X, Y, Z): x = X/Z^2, y = Y/Z^3; Z = 0 is the point at infinity *)
Definition jpoint := (Z * Z * Z)%type.
Definition jinf : jpoint := (1, 1, 0).
Definition jis_inf (P : jpoint) : bool := let '(_, _, z) := P in fm z =? 0.

(* doubling, general a:  M = 3X^2 + a Z^4, S = 4XY^2, X' = M^2 - 2S, Y' = M(S - X') - 8Y^4, Z' = 2YZ *)
Definition jdouble (P : jpoint) : jpoint :=
  let '(x, y, z) := P in
  if fm z =? 0 then jinf else if fm y =? 0 then jinf else
  let yy := fm (y * y) in
  let s := fm (4 * x * yy) in
  let zz := fm (z * z) in
  let m := fm (3 * x * x + coeff_a * fm (zz * zz)) in
  let x' := fm (m * m - 2 * s) in
  let y' := fm (m * (s - x') - 8 * fm (yy * yy)) in
  let z' := fm (2 * y * z) in
  (x', y', z').

(* addition of distinct-or-equal points:
   U1 = X1 Z2^2, U2 = X2 Z1^2, S1 = Y1 Z2^3, S2 = Y2 Z1^3, H = U2 - U1, R = S2 - S1 *)
Definition jadd (P Q : jpoint) : jpoint :=
  let '(x1, y1, z1) := P in let '(x2, y2, z2) := Q in
  if fm z1 =? 0 then Q else if fm z2 =? 0 then P else
  let z1z1 := fm (z1 * z1) in let z2z2 := fm (z2 * z2) in
  let u1 := fm (x1 * z2z2) in let u2 := fm (x2 * z1z1) in
  let s1 := fm (y1 * fm (z2 * z2z2)) in let s2 := fm (y2 * fm (z1 * z1z1)) in
  let h := fm (u2 - u1) in let r := fm (s2 - s1) in
  if h =? 0 then (if r =? 0 then jdouble P else jinf) else
  let hh := fm (h * h) in let hhh := fm (h * hh) in
  let v := fm (u1 * hh) in
  let x3 := fm (r * r - hhh - 2 * v) in
  let y3 := fm (r * (v - x3) - s1 * hhh) in
  let z3 := fm (fm (z1 * z2) * h) in
  (x3, y3, z3).

(* double-and-add over the binary expansion of a positive scalar (most significant bit first) *)
Fixpoint jmul_pos (k : positive) (P : jpoint) : jpoint :=
  match k with
  | xH => P
  | xO k' => jdouble (jmul_pos k' P)
  | xI k' => jadd (jdouble (jmul_pos k' P)) P
  end.
Definition jmul (k : Z) (P : jpoint) : jpoint :=
  match k with Zpos p => jmul_pos p P | _ => jinf end.

Definition G : jpoint := (gx, gy, 1).

Definition on_curve_affine (x y : Z) : bool := fm (y * y) =? fm (x * x * x + coeff_a * x + coeff_b).
Definition discriminant_nonzero : bool := negb (fm (4 * coeff_a * coeff_a * coeff_a + 27 * coeff_b * coeff_b) =? 0).

Lemma generator_on_curve : on_curve_affine gx gy = true.
Proof. vm_compute. reflexivity. Qed.
Lemma generator_in_range : (0 <= gx < q /\ 0 <= gy < q /\ 0 <= coeff_a < q /\ 0 <= coeff_b < q).
Proof. vm_compute. intuition discriminate. Qed.
Lemma curve_nonsingular : discriminant_nonzero = true.
Proof. vm_compute. reflexivity. Qed.
Lemma rG_is_infinity : jis_inf (jmul r_fr G) = true.
Proof. vm_compute. reflexivity. Qed.
Lemma G_not_infinity : jis_inf G = false.
Proof. vm_compute. reflexivity. Qed.
(* no smaller multiple that a proper divisor of r could give: r is prime, so the order of G is 1 or r *)

(* the Hasse interval contains exactly one multiple of r *)
Lemma order_pinned_by_hasse : forall N : Z, (r_fr | N) -> 0 < N -> (q + 1 - N) * (q + 1 - N) <= 4 * q -> N = r_fr.
Proof.
  intros N [k Hk] Hpos Hh. subst N.
  assert (Hr : 0 < r_fr) by (vm_compute; reflexivity).
  assert (Hk1 : 1 <= k) by nia.
  destruct (Z.eq_dec k 1) as [->|Hne]; [lia|]. exfalso.
  assert (Hk2 : 2 <= k) by lia.
  set (c0 := 2 * r_fr - q - 1).
  assert (Hc0 : 0 < c0) by (vm_compute; reflexivity).
  assert (Hbig : 4 * q < c0 * c0) by (vm_compute; reflexivity).
  assert (Hd : c0 <= k * r_fr - q - 1) by (unfold c0; nia).
  assert (Hsq : c0 * c0 <= (k * r_fr - q - 1) * (k * r_fr - q - 1)) by (apply Z.mul_le_mono_nonneg; lia).
  replace ((q + 1 - k * r_fr) * (q + 1 - k * r_fr)) with ((k * r_fr - q - 1) * (k * r_fr - q - 1)) in Hh by ring.
  lia.
Qed.

Lemma r_is_2_255_minus_19 : r_fr = 2 ^ 255 - 19.
Proof. vm_compute. reflexivity. Qed.

Lemma mul_by_a_correct : forall x : Z, mul_by_a_gen x = coeff_a * x.
Proof. intros x. unfold mul_by_a_gen, coeff_a. ring. Qed.

Lemma mul_by_a_correct_mod : forall x : Z, fm (mul_by_a_gen x) = fm (coeff_a * x).
Proof. intros x. now rewrite mul_by_a_correct. Qed.

Lemma cofactor_is_one : cofactor = 1.
Proof. reflexivity. Qed.
