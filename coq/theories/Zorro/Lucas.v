Require Import ZArith Znumtheory Lia List Zpow_facts FinFun.
Import ListNotations.
Open Scope Z_scope.

Definition pm (a e n : Z) := (a ^ e) mod n.

Lemma pm_add a e f n : 0 < n -> 0 <= e -> 0 <= f -> pm a (e + f) n = (pm a e n * pm a f n) mod n.
Proof. intros; unfold pm. rewrite Z.pow_add_r by lia. now rewrite Zmult_mod. Qed.

Lemma pm_mul_one a e k n : 1 < n -> 0 <= e -> 0 <= k -> pm a e n = 1 -> pm a (e * k) n = 1.
Proof.
  intros Hn He Hk H1. unfold pm in *. rewrite Z.pow_mul_r by lia.
  rewrite Zpower_mod by lia. rewrite H1. rewrite Z.pow_1_l by lia. apply Z.mod_1_l; lia.
Qed.

Lemma prime_divisor k : 1 < k -> exists p, prime p /\ (p | k).
Proof.
  intros Hk0. assert (H0 : 0 <= k) by lia. revert Hk0. pattern k. apply Z_lt_induction; [|exact H0].
  clear k H0; intros k IH Hk.
  destruct (prime_dec k) as [Hp|Hnp].
  - exists k; split; auto with zarith.
  - destruct (not_prime_divide k Hk Hnp) as (d & Hd & Hdk).
    destruct (IH d ltac:(lia) ltac:(lia)) as (p & Hp & Hpd).
    exists p; split; auto. eapply Z.divide_trans; eauto.
Qed.

Section Lucas.
Variables (n a : Z).
Hypothesis Hn : 1 < n.
Hypothesis Ha1 : pm a (n - 1) n = 1.
Hypothesis Hq : forall p, prime p -> (p | n - 1) -> pm a ((n - 1) / p) n <> 1.

Lemma no_small_order : forall e, 0 < e < n - 1 -> pm a e n <> 1.
Proof.
  intros e He0. assert (H0 : 0 <= e) by lia. revert He0. pattern e. apply Z_lt_induction; [|exact H0].
  clear e H0; intros e IH He H1.
  pose proof (Z_div_mod_eq_full (n - 1) e) as Hdiv.
  pose proof (Z.mod_pos_bound (n - 1) e ltac:(lia)) as Hr.
  set (q := (n - 1) / e) in *. set (r := (n - 1) mod e) in *.
  assert (Hq0 : 0 <= q) by (apply Z.div_pos; lia).
  assert (Hr1 : pm a r n = 1).
  { assert (E : pm a (n - 1) n = (pm a (e * q) n * pm a r n) mod n).
    { rewrite Hdiv at 1. apply pm_add; nia. }
    rewrite (pm_mul_one a e q n) in E by (try lia; auto).
    rewrite Ha1, Z.mul_1_l in E. unfold pm in *. rewrite Z.mod_mod in E by lia. auto. }
  destruct (Z.eq_dec r 0) as [Hr0|Hr0].
  - (* e | n-1 *)
    assert (Hk : 1 < q) by nia.
    destruct (prime_divisor q Hk) as (p & Hp & (c & Hc)).
    assert (Hp1 : 1 < p) by (destruct Hp; lia).
    assert (Hpn : (p | n - 1)). { exists (e * c). rewrite Hdiv, Hr0, Hc. ring. }
    apply (Hq p Hp Hpn).
    assert (E : (n - 1) / p = e * c).
    { rewrite Hdiv, Hr0, Hc. replace (e * (c * p) + 0) with (e * c * p) by ring. apply Z.div_mul; lia. }
    rewrite E. apply pm_mul_one; auto; try lia; try nia.
  - apply (IH r); auto; lia.
Qed.

Lemma a_inv : (a * pm a (n - 2) n) mod n = 1.
Proof.
  unfold pm. rewrite Zmult_mod_idemp_r. rewrite <- Z.pow_succ_r by lia.
  replace (Z.succ (n - 2)) with (n - 1) by lia. exact Ha1.
Qed.

(* every power is a unit: a^i * a^(n-1-i) = 1 *)
Lemma pow_unit i : 0 <= i <= n - 1 -> (pm a i n * pm a (n - 1 - i) n) mod n = 1.
Proof. intros. rewrite <- pm_add by lia. replace (i + (n - 1 - i)) with (n - 1) by lia. exact Ha1. Qed.

Lemma pow_inj i j : 0 <= i < j -> j < n - 1 -> pm a i n <> pm a j n.
Proof.
  intros Hij Hj E.
  apply (no_small_order (j - i)); [lia|].
  (* a^j = a^i * a^(j-i); multiply by inverse of a^i *)
  assert (E2 : pm a j n = (pm a i n * pm a (j - i) n) mod n).
  { replace j with (i + (j - i)) at 1 by lia. apply pm_add; lia. }
  pose proof (pow_unit i ltac:(lia)) as Hu.
  set (x := pm a i n) in *. set (xi := pm a (n - 1 - i) n) in *. set (d := pm a (j - i) n) in *.
  assert (Hd : d mod n = d) by (unfold d, pm; apply Z.mod_mod; lia).
  (* d = d * (x*xi) = (x*d)*xi = x * xi = 1 mod n *)
  assert (d mod n = ((x * d) mod n * xi) mod n).
  { rewrite Zmult_mod_idemp_l. replace (x * d * xi) with (d * (x * xi)) by ring.
    rewrite <- Zmult_mod_idemp_r, Hu, Z.mul_1_r. reflexivity. }
  rewrite <- E2, <- E, Hu in H. lia.
Qed.

Lemma pow_range i : 0 <= i <= n - 1 -> 1 <= pm a i n < n.
Proof.
  intros Hi. pose proof (Z.mod_pos_bound (a ^ i) n ltac:(lia)) as Hb. fold (pm a i n) in Hb.
  pose proof (pow_unit i Hi) as Hu.
  destruct (Z.eq_dec (pm a i n) 0) as [E|E]; [|lia].
  rewrite E, Z.mul_0_l, Z.mod_0_l in Hu; lia.
Qed.

Definition idx := map Z.of_nat (seq 0 (Z.to_nat (n - 1))).
Definition pows := map (fun i => pm a i n) idx.
Definition targets := map (fun i => 1 + i) idx.

Lemma idx_spec i : In i idx <-> 0 <= i < n - 1.
Proof.
  unfold idx. rewrite in_map_iff. split.
  - intros (k & <- & Hk). apply in_seq in Hk. lia.
  - intros Hi. exists (Z.to_nat i). split; [lia|]. apply in_seq. lia.
Qed.

Lemma idx_nodup : NoDup idx.
Proof. unfold idx. apply FinFun.Injective_map_NoDup; [intros x y; lia | apply seq_NoDup]. Qed.

Lemma pows_nodup : NoDup pows.
Proof.
  unfold pows. assert (Hall : forall i, In i idx -> 0 <= i < n - 1) by (intros; now apply idx_spec).
  pose proof idx_nodup as Hnd. revert Hall Hnd. generalize idx. induction l as [|i l IH]; intros Hall Hnd; simpl; constructor.
  - rewrite in_map_iff. intros (j & Ej & Hj). inversion Hnd; subst.
    assert (i <> j) by (intro; subst; auto).
    pose proof (Hall i (or_introl eq_refl)). pose proof (Hall j (or_intror Hj)).
    destruct (Z_lt_le_dec i j); [apply (pow_inj i j); auto; lia | apply (pow_inj j i); auto; lia].
  - inversion Hnd; subst. apply IH; auto. intros; apply Hall; now right.
Qed.

Lemma all_units x : 1 <= x < n -> exists y, (x * y) mod n = 1.
Proof.
  intros Hx.
  assert (Hin : In x pows).
  { apply (NoDup_length_incl pows_nodup (l' := targets)).
    - unfold pows, targets. now rewrite !map_length.
    - intros y Hy. unfold pows in Hy. apply in_map_iff in Hy. destruct Hy as (i & <- & Hi).
      apply idx_spec in Hi. pose proof (pow_range i ltac:(lia)).
      unfold targets. apply in_map_iff. exists (pm a i n - 1). split; [lia|]. apply idx_spec. lia.
    - unfold targets. apply in_map_iff. exists (x - 1). split; [lia|]. apply idx_spec. lia. }
  unfold pows in Hin. apply in_map_iff in Hin. destruct Hin as (i & <- & Hi). apply idx_spec in Hi.
  exists (pm a (n - 1 - i) n). apply pow_unit. lia.
Qed.

Theorem lucas : prime n.
Proof.
  apply prime_intro; [lia|]. intros x Hx.
  destruct (all_units x Hx) as (y & Hy).
  apply bezout_rel_prime. 
  (* x*y = 1 + n*k *)
  pose proof (Z_div_mod_eq_full (x * y) n) as E. rewrite Hy in E.
  apply Bezout_intro with (u := y) (v := - ((x * y) / n)). lia.
Qed.
End Lucas.
Check lucas.
Print Assumptions lucas.
