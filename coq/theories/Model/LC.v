(* Model/LC.v — Variable, LinearCombination and their operators, as in
   src/r1cs/linear_combination.rs; evaluation as in prover.rs (fn eval). *)
Require Export BP.Base.Module.

Inductive var :=
| VCommitted (i : nat) | VLeft (i : nat) | VRight (i : nat) | VOut (i : nat) | VOne | VPhantom.

Definition var_eqb (a b : var) : bool :=
  match a, b with
  | VCommitted i, VCommitted j | VLeft i, VLeft j | VRight i, VRight j | VOut i, VOut j => Nat.eqb i j
  | VOne, VOne | VPhantom, VPhantom => true
  | _, _ => false
  end.

Section LC.
  Context {K : FieldOps}.
  Open Scope F_scope.

  Definition lc := list (var * K).

  (* impl From<Variable> / From<F> for LinearCombination *)
  Definition lc_of_var (v : var) : lc := [(v, f1)].
  Definition lc_of_const (c : K) : lc := [(VOne, c)].
  (* FromIterator: the term list itself *)
  Definition lc_of_terms (l : list (var * K)) : lc := l.

  (* impl Neg / Add / Sub / Mul for LinearCombination *)
  Definition lc_neg (a : lc) : lc := map (fun t => (fst t, - snd t)) a.
  Definition lc_add (a b : lc) : lc := a ++ b.
  Definition lc_sub (a b : lc) : lc := a ++ map (fun t => (fst t, - snd t)) b.
  Definition lc_scale (a : lc) (s : K) : lc := map (fun t => (fst t, snd t * s)) a.

  (* impl Neg / Add / Sub / Mul for Variable *)
  Definition var_neg (v : var) : lc := lc_neg (lc_of_var v).
  Definition var_add (v : var) (b : lc) : lc := lc_add (lc_of_var v) b.
  Definition var_sub (v : var) (b : lc) : lc := lc_sub (lc_of_var v) b.
  Definition var_scale (v : var) (s : K) : lc := [(v, s)].

  (* An assignment of the low- and high-level variables *)
  Record assignment := mkAsg { as_L : list K; as_R : list K; as_O : list K; as_v : list K }.

  Definition var_val (w : assignment) (x : var) : K :=
    match x with
    | VLeft i => nth i (as_L w) f0
    | VRight i => nth i (as_R w) f0
    | VOut i => nth i (as_O w) f0
    | VCommitted i => nth i (as_v w) f0
    | VOne => f1
    | VPhantom => f0
    end.

  (* Prover::eval: sum over terms of coeff * value *)
  Definition eval_lc (w : assignment) (a : lc) : K :=
    fold_right (fun t acc => snd t * var_val w (fst t) + acc) f0 a.

  (* Expression trees over the operators (for C15) *)
  Inductive lcexpr :=
  | XVar (v : var) | XConst (c : K) | XTerms (l : list (var * K))
  | XNeg (a : lcexpr) | XAdd (a b : lcexpr) | XSub (a b : lcexpr) | XScale (a : lcexpr) (s : K)
  | XVNeg (v : var) | XVAdd (v : var) (b : lcexpr) | XVSub (v : var) (b : lcexpr) | XVScale (v : var) (s : K).

  Fixpoint compile (t : lcexpr) : lc :=
    match t with
    | XVar v => lc_of_var v | XConst c => lc_of_const c | XTerms l => lc_of_terms l
    | XNeg a => lc_neg (compile a) | XAdd a b => lc_add (compile a) (compile b)
    | XSub a b => lc_sub (compile a) (compile b) | XScale a s => lc_scale (compile a) s
    | XVNeg v => var_neg v | XVAdd v b => var_add v (compile b) | XVSub v b => var_sub v (compile b)
    | XVScale v s => var_scale v s
    end.

  (* the field expression the tree spells *)
  Fixpoint denote (w : assignment) (t : lcexpr) : K :=
    match t with
    | XVar v => var_val w v | XConst c => c
    | XTerms l => fold_right (fun t acc => snd t * var_val w (fst t) + acc) f0 l
    | XNeg a => - denote w a | XAdd a b => denote w a + denote w b
    | XSub a b => denote w a - denote w b | XScale a s => denote w a * s
    | XVNeg v => - var_val w v | XVAdd v b => var_val w v + denote w b
    | XVSub v b => var_val w v - denote w b | XVScale v s => var_val w v * s
    end.
End LC.
Arguments lc : clear implicits.
Arguments assignment : clear implicits.
Arguments lcexpr : clear implicits.
