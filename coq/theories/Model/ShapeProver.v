(* Model/ShapeProver.v — Rust failure semantics of Prover::prove_and_return_transcript and
   InnerProductProof::create on sizes only (C17: "without panicking" on the proving side).
   Assumes what the constraint-system step functions guarantee (C16_gate_invariant): |a_L| = |a_R| = |a_O| = n,
   first-phase prefix n1 <= n, flattened weight vectors of length n. *)
Require Export BP.Model.Shape.

(* the halving loop of create: split_at_mut(n/2); inner_product asserts equal lengths; the two msm calls get
   (n/2) + (n/2) + 1 bases and as many scalars; slices G_factors[h..2h], H_factors[0..h] need 2h <= len *)
Fixpoint create_rounds (fuel n lfac : nat) : outcome :=
  match fuel with
  | O => OOk
  | S f =>
    if Nat.eqb n 1 then OOk else
    let h := n / 2 in
    if negb (Nat.eqb h (n - h)) then OPanic 83            (* inner_product(a_L, b_R): |a_L| = h, |b_R| = n - h *)
    else if negb (Nat.leb (2 * h) lfac) then OPanic 94     (* G_factors[n..2n] in the unrolled first round *)
    else create_rounds f h (2 * h)                        (* later rounds use no factor slices *)
  end.

Definition create_shape (lG lH la lb lgf lhf : nat) : outcome :=
  let n := lG in
  if negb (Nat.eqb lH n) then OPanic 59
  else if negb (Nat.eqb la n) then OPanic 60
  else if negb (Nat.eqb lb n) then OPanic 61
  else if negb (Nat.eqb lgf n) then OPanic 62
  else if negb (Nat.eqb lhf n) then OPanic 63
  else if negb (eq_pow2 n (Nat.log2 n)) then OPanic 66     (* assert!(n.is_power_of_two()) *)
  else create_rounds n n lgf.

(* prove: [pcap] parties of the generators object, [cap] its capacity, [n1] first-phase gates, [n] all gates *)
Definition prove_shape (pcap cap n1 n : nat) : outcome :=
  if Nat.eqb pcap 0 then OPanic 313                                       (* share(0): G_vec[0] *)
  else if Nat.ltb cap n1 then OErr                                        (* InvalidGeneratorsLength, before the closures *)
  else
    let g1 := Nat.min n1 cap in                                           (* gens.G(n1) = G_vec[0].iter().take(n1) *)
    if negb (Nat.eqb (1 + g1 + g1) (1 + n1 + n1)) then OPanic 528          (* A_I1: msm(..).unwrap() *)
    else if negb (Nat.eqb (1 + g1) (1 + n1)) then OPanic 541               (* A_O1 *)
    else
      let padded_n := next_pow2 n in
      let pad := padded_n - n in
      let n2 := n - n1 in
      if Nat.ltb cap padded_n then OErr
      else
        let g2 := Nat.min n cap - n1 in                                   (* gens.G(n).skip(n1) *)
        if negb (Nat.eqb n2 0) && negb (Nat.eqb (1 + g2 + g2) (1 + n2 + n2)) then OPanic 617
        else
          (* main loop: i < n1 + n2 indexes vectors of length n and exp_y_inv of length padded_n *)
          if negb (Nat.leb (n1 + n2) n) || negb (Nat.leb (n1 + n2) padded_n) then OPanic 692
          (* r_vec[i] for i in n..padded_n: |r_vec| = n + pad *)
          else if negb (Nat.leb padded_n (n + pad)) then OPanic 763
          else
            let lfac := n1 + (n2 + pad) in
            create_shape (Nat.min padded_n cap) (Nat.min padded_n cap) (n + pad) (n + pad) lfac (Nat.min padded_n lfac).
