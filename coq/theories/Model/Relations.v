(* Model/Relations.v — the unbatched Bulletproofs R1CS verification relations, stated separately
   from the combined check: (a) mandatory points non-identity, (b) the committed evaluation relation,
   (c) the inner-product opening relation with the generators folded explicitly round by round. *)
Require Export BP.Model.Verifier BP.Model.IPPSpec.

Section Relations.
  Context {K : FieldOps} {MO : ModOps K}.
  Open Scope F_scope.
  Variables B Bb : MO.
  Notation proof_t := (r1cs_proof K MO).

  Definition sq (x : K) : K := x * x.

  (* u1 = 1^n1 || u^(n' - n1): the per-lane factor separating the two phases *)
  Definition u1_vec (u : K) (n1 padded_n : nat) : list K := repeat f1 n1 ++ repeat u (padded_n - n1).
  (* G' = u1 . G,  H' = (y^-i . u1) . H  on the first n' generators *)
  Definition Gprime (u : K) (n1 padded_n : nat) (Gs : list MO) : list MO :=
    pscale (u1_vec u n1 padded_n) (firstn padded_n Gs).
  Definition Hprime (y u : K) (n1 padded_n : nat) (Hs : list MO) : list MO :=
    pscale (map2 fmul (powers (finv y) padded_n) (u1_vec u n1 padded_n)) (firstn padded_n Hs).

  (* delta(y, z) = < y^-n . wR, wL > *)
  Definition delta_of (fw : weights K) (y : K) (n padded_n : nat) : K :=
    ip (firstn n (map2 fmul (wR fw) (powers (finv y) padded_n) ++ zeros (padded_n - n))) (wL fw).

  (* (a) *)
  Definition ID (p : proof_t) : Prop :=
    mzerob (A_I1 p) = false /\ mzerob (A_O1 p) = false /\ mzerob (S1 p) = false /\
    mzerob (T_1 p) = false /\ mzerob (T_3 p) = false /\ mzerob (T_4 p) = false /\
    mzerob (T_5 p) = false /\ mzerob (T_6 p) = false /\
    (forall P, In P (ipp_L (ipp p)) -> mzerob P = false) /\ (forall P, In P (ipp_R (ipp p)) -> mzerob P = false).

  (* (b)  R_t = 0  <->  t_x.B + t~_x.B~ = x^2 (wc + delta).B + x^2 sum wV_j.V_j + sum x^i.T_i *)
  Definition R_t (fw : weights K) (y x : K) (n padded_n : nat) (Vs : list MO) (p : proof_t) : MO :=
    ((sq x * (wc fw + delta_of fw y n padded_n) - t_x p)%F • B + (- t_x_blinding p)%F • Bb
     + sq x • msm (wV fw) Vs
     + x • T_1 p + (x * sq x) • T_3 p + (sq x * sq x) • T_4 p + (x * sq x * sq x) • T_5 p
     + (sq x * sq x * sq x) • T_6 p)%M.

  (* (c) the commitment P the inner-product argument opens *)
  Definition P_of (fw : weights K) (y u x : K) (n1 n padded_n : nat) (Gs Hs : list MO) (p : proof_t) : MO :=
    let pad := (padded_n - n)%nat in
    let yneg_wR := map2 fmul (wR fw) (powers (finv y) padded_n) ++ zeros pad in
    let wLp := wL fw ++ zeros pad in let wOp := wO fw ++ zeros pad in
    (x • (A_I1 p + u • A_I2 p) + sq x • (A_O1 p + u • A_O2 p) + (x * sq x) • (S1 p + u • S2 p)
     + (- e_blinding p)%F • Bb
     + msm (vscale x yneg_wR) (Gprime u n1 padded_n Gs)
     + msm (vadd (vscale x wLp) wOp) (Hprime y u n1 padded_n Hs)
     + (- f1)%F • msm (u1_vec u n1 padded_n) (firstn padded_n Hs))%M.

  Definition R_ipp (fw : weights K) (y u x w : K) (us : list K) (n1 n padded_n : nat)
             (Gs Hs : list MO) (p : proof_t) : MO :=
    let a := ipp_a (ipp p) in let b := ipp_b (ipp p) in
    let Qw := (w • B)%M in
    (P_of fw y u x n1 n padded_n Gs Hs p + t_x p • Qw
     + msm (map sq us) (ipp_L (ipp p)) + msm (map (fun u => sq (finv u)) us) (ipp_R (ipp p))
     + (- a)%F • foldG us (Gprime u n1 padded_n Gs) + (- b)%F • foldH us (Hprime y u n1 padded_n Hs)
     + (- (a * b))%F • Qw)%M.

  (* the statement an assignment has to satisfy *)
  Definition sat (cons : list (lc K)) (w : assignment K) : Prop :=
    (forall c, In c cons -> eval_lc w c = f0)
    /\ length (as_R w) = length (as_L w) /\ length (as_O w) = length (as_L w)
    /\ forall i, (i < length (as_L w))%nat -> nth i (as_O w) f0 = nth i (as_L w) f0 * nth i (as_R w) f0.
End Relations.
