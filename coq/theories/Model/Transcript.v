(* Model/Transcript.v — Merlin transcript as an operation history; challenges from an
   oracle on the history (random-oracle idealisation); src/transcript.rs. *)
Require Export BP.Base.Module.
Require Export Coq.Strings.String.
Export List ListNotations.

Section Transcript.
  Context {K : FieldOps} {MO : ModOps K}.

  Inductive payload :=
  | PBytes (b : list Z)      (* raw message bytes *)
  | PStr (s : string)        (* raw message given as ASCII (domain separators) *)
  | PU64 (n : nat)           (* append_u64 *)
  | PScalar (x : K)          (* serialize_uncompressed of a scalar *)
  | PPoint (P : MO).         (* serialize_uncompressed of a point *)

  Inductive tr_op := App (label : string) (p : payload) | Chal (label : string).
  Definition transcript := list tr_op.

  Variable RO : transcript -> K.

  Definition append_message (tr : transcript) l p : transcript := tr ++ [App l p].
  Definition append_point (tr : transcript) l (P : MO) : transcript := tr ++ [App l (PPoint P)].
  Definition append_scalar (tr : transcript) l (x : K) : transcript := tr ++ [App l (PScalar x)].
  Definition append_u64 (tr : transcript) l n : transcript := tr ++ [App l (PU64 n)].
  (* validate_and_append_point: identity rejected, nothing appended *)
  Definition validate_and_append_point (tr : transcript) l (P : MO) : option transcript :=
    if mzerob P then None else Some (tr ++ [App l (PPoint P)]).
  (* challenge_scalar: the history is extended by the request; the value is the oracle's *)
  Definition challenge (tr : transcript) l : K * transcript :=
    let tr' := tr ++ [Chal l] in (RO tr', tr').

  Definition r1cs_domain_sep tr := append_message tr "dom-sep" (PStr "r1cs v1").
  Definition r1cs_1phase_domain_sep tr := append_message tr "dom-sep" (PStr "r1cs-1phase").
  Definition r1cs_2phase_domain_sep tr := append_message tr "dom-sep" (PStr "r1cs-2phase").
  Definition innerproduct_domain_sep tr n :=
    append_u64 (append_message tr "dom-sep" (PStr "ipp v1")) "n" n.

  Definition is_chal (o : tr_op) : bool := match o with Chal _ => true | _ => false end.
  Definition count_chal (tr : transcript) : nat := List.length (filter is_chal tr).
End Transcript.
Arguments payload : clear implicits.
Arguments tr_op : clear implicits.
Arguments transcript : clear implicits.
