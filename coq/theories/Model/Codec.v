(* Model/Codec.v — R1CSProof::{to_bytes, from_bytes}: the derived CanonicalSerialize/Deserialize layout
   (proof.rs:25-59, inner_product_proof.rs:17-23) over two abstract fixed-width element codecs.
   Bytes are Z values; a reader consumes a prefix and returns the rest. *)
Require Export BP.Model.Prover.

Section Codec.
  Context {K : FieldOps} {MO : ModOps K}.
  Variables (PS SS : nat).                          (* compressed widths of a point / a scalar *)
  Variable enc_pt : MO -> list Z. Variable dec_pt : list Z -> option MO.
  Variable enc_sc : K -> list Z.  Variable dec_sc : list Z -> option K.
  Notation proof_t := (r1cs_proof K MO).

  Definition reader (A : Type) := list Z -> option (A * list Z).
  Definition rbind {A C} (r : reader A) (f : A -> reader C) : reader C :=
    fun bs => match r bs with Some (a, rest) => f a rest | None => None end.
  Definition rret {A} (a : A) : reader A := fun bs => Some (a, bs).

  (* one element: exactly W bytes are looked at *)
  Definition read_pt : reader MO := fun bs =>
    if Nat.ltb (length bs) PS then None else
    match dec_pt (firstn PS bs) with Some P => Some (P, skipn PS bs) | None => None end.
  Definition read_sc : reader K := fun bs =>
    if Nat.ltb (length bs) SS then None else
    match dec_sc (firstn SS bs) with Some x => Some (x, skipn SS bs) | None => None end.

  (* u64 length prefix, little endian *)
  Fixpoint le_val (bs : list Z) : Z := match bs with [] => 0%Z | b :: r => (b + 256 * le_val r)%Z end.
  Fixpoint le_enc (n : nat) (z : Z) : list Z := match n with O => [] | S n' => (z mod 256)%Z :: le_enc n' (z / 256)%Z end.
  Definition read_u64 : reader nat := fun bs =>
    if Nat.ltb (length bs) 8 then None else Some (Z.to_nat (le_val (firstn 8 bs)), skipn 8 bs).

  (* Vec<G>: `for _ in 0..len { push(G::deserialize(..)?) }` — no pre-allocation, stops at the first failure *)
  Fixpoint read_points (len : nat) : reader (list MO) :=
    match len with
    | O => rret []
    | S len' => rbind read_pt (fun P => rbind (read_points len') (fun Ps => rret (P :: Ps)))
    end.
  Definition read_vec : reader (list MO) := rbind read_u64 read_points.

  (* the struct reader, with the Vec reader as a parameter (Run/ substitutes a provably equal early-exit one) *)
  Definition decode_r_gen (read_vec : reader (list MO)) : reader proof_t :=
    rbind read_pt (fun p0 =>
    rbind read_pt (fun p1 =>
    rbind read_pt (fun p2 =>
    rbind read_pt (fun p3 =>
    rbind read_pt (fun p4 =>
    rbind read_pt (fun p5 =>
    rbind read_pt (fun p6 =>
    rbind read_pt (fun p7 =>
    rbind read_pt (fun p8 =>
    rbind read_pt (fun p9 =>
    rbind read_pt (fun p10 =>
    rbind read_sc (fun s0 =>
    rbind read_sc (fun s1 =>
    rbind read_sc (fun s2 =>
    rbind read_vec (fun Ls =>
    rbind read_vec (fun Rs =>
    rbind read_sc (fun a =>
    rbind read_sc (fun b =>
    rret (mkProof p0 p1 p2 p3 p4 p5 p6 p7 p8 p9 p10 s0 s1 s2 (mkIPP Ls Rs a b)))))))))))))))))))).
  Definition decode_r : reader proof_t := decode_r_gen read_vec.

  (* early-exit Vec reader for evaluation inside Coq: equal to read_vec on byte lists (Proofs/CodecFast.v) *)
  Definition read_vec_fast : reader (list MO) := fun bs =>
    if Nat.ltb (length bs) 8 then None else
    let c := le_val (firstn 8 bs) in
    if (Z.of_nat (length bs - 8) <? c * Z.of_nat PS)%Z then None
    else read_points (Z.to_nat c) (skipn 8 bs).

  Definition decode_r_fast : reader proof_t := decode_r_gen read_vec_fast.

  (* from_bytes: the cursor need not be exhausted *)
  Definition decode (bs : list Z) : option proof_t :=
    match decode_r bs with Some (p, _) => Some p | None => None end.

  Definition enc_vec (l : list MO) : list Z := le_enc 8 (Z.of_nat (length l)) ++ flat_map enc_pt l.

  Definition encode (p : proof_t) : list Z :=
    enc_pt (A_I1 p) ++ enc_pt (A_O1 p) ++ enc_pt (S1 p) ++ enc_pt (A_I2 p) ++ enc_pt (A_O2 p) ++ enc_pt (S2 p)
    ++ enc_pt (T_1 p) ++ enc_pt (T_3 p) ++ enc_pt (T_4 p) ++ enc_pt (T_5 p) ++ enc_pt (T_6 p)
    ++ enc_sc (t_x p) ++ enc_sc (t_x_blinding p) ++ enc_sc (e_blinding p)
    ++ enc_vec (ipp_L (ipp p)) ++ enc_vec (ipp_R (ipp p)) ++ enc_sc (ipp_a (ipp p)) ++ enc_sc (ipp_b (ipp p)).

  Definition encoded_size (nL nR : nat) : nat := 11 * PS + 5 * SS + 16 + (nL + nR) * PS.
End Codec.
