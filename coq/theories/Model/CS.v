(* Model/CS.v — constraint-system bookkeeping of both roles.
   Prover:   src/r1cs/prover.rs   (multiply/allocate/allocate_multiplier/constrain/commit, phase switch)
   Verifier: src/r1cs/verifier.rs (the twin implementation with a counter instead of vectors)
   Programs are interaction trees: every call's continuation receives what the call returned. *)
Require Export BP.Model.LC BP.Model.Transcript.

Inductive rerr := EVerification | EFormat | EGens | EMissing | EGadget.
Inductive result (A : Type) := Ok (a : A) | Err (e : rerr).
Arguments Ok {_}. Arguments Err {_}.

Definition set_nth {A} (i : nat) (x : A) (l : list A) : list A :=
  firstn i l ++ match skipn i l with [] => [] | _ :: t => x :: t end.

Section CS.
  Context {K : FieldOps} {MO : ModOps K}.
  Open Scope F_scope.
  Variable RO : transcript K MO -> K.
  Variables B Bb : MO.            (* PedersenGens: B, B_blinding *)

  Definition var3 := (var * var * var)%type.

  (* second-phase closures: Fn(&mut RandomizedCS) -> Result<(), R1CSError> *)
  Inductive rprog :=
  | RDone                                                  (* Ok(()) *)
  | RFail (e : rerr)                                       (* Err(e) *)
  | RChal (l : string) (k : K -> rprog)                    (* challenge_scalar *)
  | RAlloc (a : option K) (k : result var -> rprog)        (* allocate *)
  | RAllocMul (a : option (K * K)) (k : result var3 -> rprog)
  | RMul (l r : lc K) (k : var3 -> rprog)                  (* multiply *)
  | RConstrain (c : lc K) (k : rprog)
  | RMsg (l : string) (b : list Z) (k : rprog)             (* transcript().append_message *)
  | RLen (k : nat -> rprog).                               (* multipliers_len *)

  (* first-phase programs *)
  Inductive prog :=
  | PDone
  | PCommit (v vb : K) (k : var -> prog)                   (* prover: commit(v, v_blinding); verifier: commit(V) *)
  | PAlloc (a : option K) (k : result var -> prog)
  | PAllocMul (a : option (K * K)) (k : result var3 -> prog)
  | PMul (l r : lc K) (k : var3 -> prog)
  | PConstrain (c : lc K) (k : prog)
  | PMsg (l : string) (b : list Z) (k : prog)
  | PLen (k : nat -> prog)
  | PRandomize (c : rprog) (k : prog).                     (* specify_randomized_constraints *)

  (* what a call returned, for call-by-call comparison *)
  Inductive event :=
  | EvVar (r : result var) | EvVars (r : result var3) | EvLen (n : nat)
  | EvCommit (P : MO) (v : var) | EvChal (c : K) | EvUnit.

  (* ---------------- prover ---------------- *)
  Record pstate := mkP {
    p_tr : transcript K MO; p_cons : list (lc K);
    p_aL : list K; p_aR : list K; p_aO : list K;
    p_v : list K; p_vb : list K;
    p_def : list rprog; p_pend : option nat }.

  Definition p_new (tr : transcript K MO) : pstate :=
    mkP (r1cs_domain_sep tr) [] [] [] [] [] [] [] None.

  Definition p_asg (s : pstate) : assignment K := mkAsg (p_aL s) (p_aR s) (p_aO s) (p_v s).

  (* PedersenGens::commit *)
  Definition pedersen_commit (v r : K) : MO := (v • B + r • Bb)%M.

  Definition p_commit (s : pstate) (v vb : K) : pstate * (MO * var) :=
    let i := length (p_v s) in
    let V := pedersen_commit v vb in
    (mkP (append_point (p_tr s) "V" V) (p_cons s) (p_aL s) (p_aR s) (p_aO s)
         (p_v s ++ [v]) (p_vb s ++ [vb]) (p_def s) (p_pend s), (V, VCommitted i)).

  Definition p_constrain (s : pstate) (c : lc K) : pstate :=
    mkP (p_tr s) (p_cons s ++ [c]) (p_aL s) (p_aR s) (p_aO s) (p_v s) (p_vb s) (p_def s) (p_pend s).

  Definition p_multiply (s : pstate) (l r : lc K) : pstate * var3 :=
    let lv := eval_lc (p_asg s) l in
    let rv := eval_lc (p_asg s) r in
    let ov := lv * rv in
    let l_var := VLeft (length (p_aL s)) in
    let r_var := VRight (length (p_aR s)) in
    let o_var := VOut (length (p_aO s)) in
    let s1 := mkP (p_tr s) (p_cons s) (p_aL s ++ [lv]) (p_aR s ++ [rv]) (p_aO s ++ [ov])
                  (p_v s) (p_vb s) (p_def s) (p_pend s) in
    let s2 := p_constrain s1 (l ++ [(l_var, - f1)]) in
    let s3 := p_constrain s2 (r ++ [(r_var, - f1)]) in
    (s3, (l_var, r_var, o_var)).

  Definition p_allocate (s : pstate) (a : option K) : pstate * result var :=
    match a with
    | None => (s, Err EMissing)
    | Some x =>
      match p_pend s with
      | None =>
        let i := length (p_aL s) in
        (mkP (p_tr s) (p_cons s) (p_aL s ++ [x]) (p_aR s ++ [f0]) (p_aO s ++ [f0])
             (p_v s) (p_vb s) (p_def s) (Some i), Ok (VLeft i))
      | Some i =>
        let aR' := set_nth i x (p_aR s) in
        let aO' := set_nth i (nth i (p_aL s) f0 * nth i aR' f0) (p_aO s) in
        (mkP (p_tr s) (p_cons s) (p_aL s) aR' aO' (p_v s) (p_vb s) (p_def s) None, Ok (VRight i))
      end
    end.

  Definition p_allocate_multiplier (s : pstate) (a : option (K * K)) : pstate * result var3 :=
    match a with
    | None => (s, Err EMissing)
    | Some (l, r) =>
      let o := l * r in
      (mkP (p_tr s) (p_cons s) (p_aL s ++ [l]) (p_aR s ++ [r]) (p_aO s ++ [o])
           (p_v s) (p_vb s) (p_def s) (p_pend s),
       Ok (VLeft (length (p_aL s)), VRight (length (p_aR s)), VOut (length (p_aO s))))
    end.

  Definition p_msg (s : pstate) l b : pstate :=
    mkP (append_message (p_tr s) l (PBytes b)) (p_cons s) (p_aL s) (p_aR s) (p_aO s)
        (p_v s) (p_vb s) (p_def s) (p_pend s).

  Definition p_defer (s : pstate) (c : rprog) : pstate :=
    mkP (p_tr s) (p_cons s) (p_aL s) (p_aR s) (p_aO s) (p_v s) (p_vb s) (p_def s ++ [c]) (p_pend s).

  Definition p_challenge (s : pstate) l : pstate * K :=
    let '(c, tr') := challenge RO (p_tr s) l in
    (mkP tr' (p_cons s) (p_aL s) (p_aR s) (p_aO s) (p_v s) (p_vb s) (p_def s) (p_pend s), c).

  Fixpoint p_run (p : prog) (s : pstate) : pstate * list event :=
    match p with
    | PDone => (s, [])
    | PCommit v vb k =>
      let '(s', (V, x)) := p_commit s v vb in
      let '(s'', ev) := p_run (k x) s' in (s'', EvCommit V x :: ev)
    | PAlloc a k =>
      let '(s', r) := p_allocate s a in
      let '(s'', ev) := p_run (k r) s' in (s'', EvVar r :: ev)
    | PAllocMul a k =>
      let '(s', r) := p_allocate_multiplier s a in
      let '(s'', ev) := p_run (k r) s' in (s'', EvVars r :: ev)
    | PMul l r k =>
      let '(s', x) := p_multiply s l r in
      let '(s'', ev) := p_run (k x) s' in (s'', EvVars (Ok x) :: ev)
    | PConstrain c k =>
      let '(s'', ev) := p_run k (p_constrain s c) in (s'', EvUnit :: ev)
    | PMsg l b k =>
      let '(s'', ev) := p_run k (p_msg s l b) in (s'', EvUnit :: ev)
    | PLen k =>
      let n := length (p_aL s) in
      let '(s'', ev) := p_run (k n) s in (s'', EvLen n :: ev)
    | PRandomize c k =>
      let '(s'', ev) := p_run k (p_defer s c) in (s'', EvUnit :: ev)
    end.

  (* one closure, run against the RandomizingProver *)
  Fixpoint p_run2 (p : rprog) (s : pstate) : pstate * list event * result unit :=
    match p with
    | RDone => (s, [], Ok tt)
    | RFail e => (s, [], Err e)
    | RChal l k =>
      let '(s', c) := p_challenge s l in
      let '(s'', ev, r) := p_run2 (k c) s' in (s'', EvChal c :: ev, r)
    | RAlloc a k =>
      let '(s', x) := p_allocate s a in
      let '(s'', ev, r) := p_run2 (k x) s' in (s'', EvVar x :: ev, r)
    | RAllocMul a k =>
      let '(s', x) := p_allocate_multiplier s a in
      let '(s'', ev, r) := p_run2 (k x) s' in (s'', EvVars x :: ev, r)
    | RMul l r k =>
      let '(s', x) := p_multiply s l r in
      let '(s'', ev, r) := p_run2 (k x) s' in (s'', EvVars (Ok x) :: ev, r)
    | RConstrain c k =>
      let '(s'', ev, r) := p_run2 k (p_constrain s c) in (s'', EvUnit :: ev, r)
    | RMsg l b k =>
      let '(s'', ev, r) := p_run2 k (p_msg s l b) in (s'', EvUnit :: ev, r)
    | RLen k =>
      let n := length (p_aL s) in
      let '(s'', ev, r) := p_run2 (k n) s in (s'', EvLen n :: ev, r)
    end.

  (* callbacks.drain(..): in registration order, stop at the first Err *)
  Fixpoint p_run_closures (cs : list rprog) (s : pstate) : pstate * list event * result unit :=
    match cs with
    | [] => (s, [], Ok tt)
    | c :: cs' =>
      let '(s', ev, r) := p_run2 c s in
      match r with
      | Err e => (s', ev, Err e)
      | Ok _ => let '(s'', ev', r') := p_run_closures cs' s' in (s'', ev ++ ev', r')
      end
    end.

  (* Prover::create_randomized_constraints *)
  Definition p_phase2 (s : pstate) : pstate * list event * result unit :=
    let s0 := mkP (p_tr s) (p_cons s) (p_aL s) (p_aR s) (p_aO s) (p_v s) (p_vb s) (p_def s) None in
    match p_def s0 with
    | [] =>
      (mkP (r1cs_1phase_domain_sep (p_tr s0)) (p_cons s0) (p_aL s0) (p_aR s0) (p_aO s0)
           (p_v s0) (p_vb s0) [] None, [], Ok tt)
    | cs =>
      let s1 := mkP (r1cs_2phase_domain_sep (p_tr s0)) (p_cons s0) (p_aL s0) (p_aR s0) (p_aO s0)
                    (p_v s0) (p_vb s0) [] None in
      p_run_closures cs s1
    end.

  (* ---------------- verifier ---------------- *)
  Record vstate := mkV {
    v_tr : transcript K MO; v_cons : list (lc K); v_num : nat; v_V : list MO;
    v_def : list rprog; v_pend : option nat }.

  Definition v_new (tr : transcript K MO) : vstate := mkV (r1cs_domain_sep tr) [] 0 [] [] None.

  Definition v_commit (s : vstate) (V : MO) : vstate * var :=
    let i := length (v_V s) in
    (mkV (append_point (v_tr s) "V" V) (v_cons s) (v_num s) (v_V s ++ [V]) (v_def s) (v_pend s),
     VCommitted i).

  Definition v_constrain (s : vstate) (c : lc K) : vstate :=
    mkV (v_tr s) (v_cons s ++ [c]) (v_num s) (v_V s) (v_def s) (v_pend s).

  Definition v_multiply (s : vstate) (l r : lc K) : vstate * var3 :=
    let x := v_num s in
    let s1 := mkV (v_tr s) (v_cons s) (S x) (v_V s) (v_def s) (v_pend s) in
    let s2 := v_constrain s1 (l ++ [(VLeft x, - f1)]) in
    let s3 := v_constrain s2 (r ++ [(VRight x, - f1)]) in
    (s3, (VLeft x, VRight x, VOut x)).

  Definition v_allocate (s : vstate) (_ : option K) : vstate * result var :=
    match v_pend s with
    | None =>
      let i := v_num s in
      (mkV (v_tr s) (v_cons s) (S i) (v_V s) (v_def s) (Some i), Ok (VLeft i))
    | Some i =>
      (mkV (v_tr s) (v_cons s) (v_num s) (v_V s) (v_def s) None, Ok (VRight i))
    end.

  Definition v_allocate_multiplier (s : vstate) (_ : option (K * K)) : vstate * result var3 :=
    let x := v_num s in
    (mkV (v_tr s) (v_cons s) (S x) (v_V s) (v_def s) (v_pend s), Ok (VLeft x, VRight x, VOut x)).

  Definition v_msg (s : vstate) l b : vstate :=
    mkV (append_message (v_tr s) l (PBytes b)) (v_cons s) (v_num s) (v_V s) (v_def s) (v_pend s).

  Definition v_defer (s : vstate) (c : rprog) : vstate :=
    mkV (v_tr s) (v_cons s) (v_num s) (v_V s) (v_def s ++ [c]) (v_pend s).

  Definition v_challenge (s : vstate) l : vstate * K :=
    let '(c, tr') := challenge RO (v_tr s) l in
    (mkV tr' (v_cons s) (v_num s) (v_V s) (v_def s) (v_pend s), c).

  (* [Vs i] is the commitment the caller passes to the i-th commit call *)
  Fixpoint v_run (Vs : nat -> MO) (p : prog) (s : vstate) : vstate * list event :=
    match p with
    | PDone => (s, [])
    | PCommit _ _ k =>
      let V := Vs (length (v_V s)) in
      let '(s', x) := v_commit s V in
      let '(s'', ev) := v_run Vs (k x) s' in (s'', EvCommit V x :: ev)
    | PAlloc a k =>
      let '(s', r) := v_allocate s a in
      let '(s'', ev) := v_run Vs (k r) s' in (s'', EvVar r :: ev)
    | PAllocMul a k =>
      let '(s', r) := v_allocate_multiplier s a in
      let '(s'', ev) := v_run Vs (k r) s' in (s'', EvVars r :: ev)
    | PMul l r k =>
      let '(s', x) := v_multiply s l r in
      let '(s'', ev) := v_run Vs (k x) s' in (s'', EvVars (Ok x) :: ev)
    | PConstrain c k =>
      let '(s'', ev) := v_run Vs k (v_constrain s c) in (s'', EvUnit :: ev)
    | PMsg l b k =>
      let '(s'', ev) := v_run Vs k (v_msg s l b) in (s'', EvUnit :: ev)
    | PLen k =>
      let n := v_num s in
      let '(s'', ev) := v_run Vs (k n) s in (s'', EvLen n :: ev)
    | PRandomize c k =>
      let '(s'', ev) := v_run Vs k (v_defer s c) in (s'', EvUnit :: ev)
    end.

  Fixpoint v_run2 (p : rprog) (s : vstate) : vstate * list event * result unit :=
    match p with
    | RDone => (s, [], Ok tt)
    | RFail e => (s, [], Err e)
    | RChal l k =>
      let '(s', c) := v_challenge s l in
      let '(s'', ev, r) := v_run2 (k c) s' in (s'', EvChal c :: ev, r)
    | RAlloc a k =>
      let '(s', x) := v_allocate s a in
      let '(s'', ev, r) := v_run2 (k x) s' in (s'', EvVar x :: ev, r)
    | RAllocMul a k =>
      let '(s', x) := v_allocate_multiplier s a in
      let '(s'', ev, r) := v_run2 (k x) s' in (s'', EvVars x :: ev, r)
    | RMul l r k =>
      let '(s', x) := v_multiply s l r in
      let '(s'', ev, r) := v_run2 (k x) s' in (s'', EvVars (Ok x) :: ev, r)
    | RConstrain c k =>
      let '(s'', ev, r) := v_run2 k (v_constrain s c) in (s'', EvUnit :: ev, r)
    | RMsg l b k =>
      let '(s'', ev, r) := v_run2 k (v_msg s l b) in (s'', EvUnit :: ev, r)
    | RLen k =>
      let n := v_num s in
      let '(s'', ev, r) := v_run2 (k n) s in (s'', EvLen n :: ev, r)
    end.

  Fixpoint v_run_closures (cs : list rprog) (s : vstate) : vstate * list event * result unit :=
    match cs with
    | [] => (s, [], Ok tt)
    | c :: cs' =>
      let '(s', ev, r) := v_run2 c s in
      match r with
      | Err e => (s', ev, Err e)
      | Ok _ => let '(s'', ev', r') := v_run_closures cs' s' in (s'', ev ++ ev', r')
      end
    end.

  (* Verifier::create_randomized_constraints *)
  Definition v_phase2 (s : vstate) : vstate * list event * result unit :=
    let s0 := mkV (v_tr s) (v_cons s) (v_num s) (v_V s) (v_def s) None in
    match v_def s0 with
    | [] => (mkV (r1cs_1phase_domain_sep (v_tr s0)) (v_cons s0) (v_num s0) (v_V s0) [] None, [], Ok tt)
    | cs =>
      let s1 := mkV (r1cs_2phase_domain_sep (v_tr s0)) (v_cons s0) (v_num s0) (v_V s0) [] None in
      v_run_closures cs s1
    end.
End CS.
Arguments rprog : clear implicits.
Arguments prog : clear implicits.
Arguments pstate : clear implicits.
Arguments vstate : clear implicits.
Arguments event : clear implicits.
