(* Model/Flatten.v — the two hand-written copies of flattened_constraints
   (prover.rs:354-397, verifier.rs:304-349). *)
Require Export BP.Model.CS.

Section Flatten.
  Context {K : FieldOps}.
  Open Scope F_scope.

  (* w[i] += x   (Rust indexing; an out-of-range index is documented misuse) *)
  Definition add_at (i : nat) (x : K) (l : list K) : list K :=
    firstn i l ++ match skipn i l with [] => [] | h :: t => (h + x) :: t end.
  Definition sub_at (i : nat) (x : K) (l : list K) : list K :=
    firstn i l ++ match skipn i l with [] => [] | h :: t => (h - x) :: t end.

  Record weights := mkW { wL : list K; wR : list K; wO : list K; wV : list K; wc : K }.

  (* inner loop of the prover: the One arm does nothing *)
  Definition p_flat_term (exp_z : K) (acc : weights) (t : var * K) : weights :=
    let c := exp_z * snd t in
    match fst t with
    | VLeft i => mkW (add_at i c (wL acc)) (wR acc) (wO acc) (wV acc) (wc acc)
    | VRight i => mkW (wL acc) (add_at i c (wR acc)) (wO acc) (wV acc) (wc acc)
    | VOut i => mkW (wL acc) (wR acc) (add_at i c (wO acc)) (wV acc) (wc acc)
    | VCommitted i => mkW (wL acc) (wR acc) (wO acc) (sub_at i c (wV acc)) (wc acc)
    | VOne => acc
    | VPhantom => acc
    end.

  (* inner loop of the verifier: the One arm accumulates wc *)
  Definition v_flat_term (exp_z : K) (acc : weights) (t : var * K) : weights :=
    let c := exp_z * snd t in
    match fst t with
    | VLeft i => mkW (add_at i c (wL acc)) (wR acc) (wO acc) (wV acc) (wc acc)
    | VRight i => mkW (wL acc) (add_at i c (wR acc)) (wO acc) (wV acc) (wc acc)
    | VOut i => mkW (wL acc) (wR acc) (add_at i c (wO acc)) (wV acc) (wc acc)
    | VCommitted i => mkW (wL acc) (wR acc) (wO acc) (sub_at i c (wV acc)) (wc acc)
    | VOne => mkW (wL acc) (wR acc) (wO acc) (wV acc) (wc acc - c)
    | VPhantom => acc
    end.

  Fixpoint flat_loop (term : K -> weights -> var * K -> weights) (z exp_z : K)
           (cons : list (lc K)) (acc : weights) : weights :=
    match cons with
    | [] => acc
    | c :: cs => flat_loop term z (exp_z * z) cs (fold_left (term exp_z) c acc)
    end.

  Definition p_flatten (z : K) (n m : nat) (cons : list (lc K)) : weights :=
    flat_loop p_flat_term z z cons (mkW (zeros n) (zeros n) (zeros n) (zeros m) f0).
  Definition v_flatten (z : K) (n m : nat) (cons : list (lc K)) : weights :=
    flat_loop v_flat_term z z cons (mkW (zeros n) (zeros n) (zeros n) (zeros m) f0).
End Flatten.
Arguments weights : clear implicits.
