(* Model/Prover.v — Prover::prove_and_return_transcript (prover.rs:454-831). *)
Require Export BP.Model.Flatten BP.Model.IPP.

Section Prover.
  Context {K : FieldOps} {MO : ModOps K}.
  Open Scope F_scope.
  Variable RO : transcript K MO -> K.
  Variables B Bb : MO.
  Notation tr_t := (transcript K MO).

  Record r1cs_proof := mkProof {
    A_I1 : MO; A_O1 : MO; S1 : MO; A_I2 : MO; A_O2 : MO; S2 : MO;
    T_1 : MO; T_3 : MO; T_4 : MO; T_5 : MO; T_6 : MO;
    t_x : K; t_x_blinding : K; e_blinding : K;
    ipp : ipp_proof K MO }.

  Definition commit (v r : K) : MO := pedersen_commit B Bb v r.

  (* VecPoly3::eval / Poly6::eval (util.rs) *)
  Definition vecpoly3_eval (x : K) (p0 p1 p2 p3 : list K) : list K :=
    map2 (fun a bcd => a + x * bcd) p0
         (map2 (fun b cd => b + x * cd) p1 (map2 (fun c d => c + x * d) p2 p3)).
  Definition poly6_eval (x t1 t2 t3 t4 t5 t6 : K) : K :=
    x * (t1 + x * (t2 + x * (t3 + x * (t4 + x * (t5 + x * t6))))).

  (* ---- the algebra of the proving procedure, as pure functions of draws and challenges ---- *)

  (* first-phase commitments: A_I1, A_O1, S1 *)
  Definition p_commit1 (Gs Hs : list MO) (d : nat -> K) (aL aR aO : list K) : MO * MO * MO :=
    let n1 := length aL in
    let s_L1 := map d (seq 3 n1) in
    let s_R1 := map d (seq (3 + n1) n1) in
    let G1 := firstn n1 Gs in let H1 := firstn n1 Hs in
    ((d 0%nat • Bb + msm aL G1 + msm aR H1)%M,
     (d 1%nat • Bb + msm aO G1)%M,
     (d 2%nat • Bb + msm s_L1 G1 + msm s_R1 H1)%M).

  (* index of the first draw after the first phase / after the second-phase blindings *)
  Definition base_of (n1 : nat) : nat := (3 + 2 * n1)%nat.
  Definition base2_of (n1 n2 : nat) : nat := if Nat.ltb 0 n2 then (base_of n1 + 3)%nat else base_of n1.
  Definition base3_of (n1 n2 : nat) : nat := (base2_of n1 n2 + 2 * n2)%nat.

  Definition blind2 (d : nat -> K) (n1 n2 : nat) (j : nat) : K :=
    if Nat.ltb 0 n2 then d (base_of n1 + j)%nat else f0.

  (* second-phase commitments: A_I2, A_O2, S2 (identity when the second phase has no gate) *)
  Definition p_commit2 (Gs Hs : list MO) (d : nat -> K) (n1 : nat) (aL aR aO : list K) : MO * MO * MO :=
    let n := length aL in
    let n2 := (n - n1)%nat in
    let s_L2 := map d (seq (base2_of n1 n2) n2) in
    let s_R2 := map d (seq (base2_of n1 n2 + n2) n2) in
    let G2 := skipn n1 (firstn n Gs) in let H2 := skipn n1 (firstn n Hs) in
    if Nat.ltb 0 n2 then
      ((blind2 d n1 n2 0 • Bb + msm (skipn n1 aL) G2 + msm (skipn n1 aR) H2)%M,
       (blind2 d n1 n2 1 • Bb + msm (skipn n1 aO) G2)%M,
       (blind2 d n1 n2 2 • Bb + msm s_L2 G2 + msm s_R2 H2)%M)
    else (m0, m0, m0).

  (* masking vectors s_L = s_L1 ++ s_L2, s_R = s_R1 ++ s_R2 *)
  Definition mask_L (d : nat -> K) (n1 n2 : nat) : list K :=
    map d (seq 3 n1) ++ map d (seq (base2_of n1 n2) n2).
  Definition mask_R (d : nat -> K) (n1 n2 : nat) : list K :=
    map d (seq (3 + n1) n1) ++ map d (seq (base2_of n1 n2 + n2) n2).

  (* the vector polynomials l(X), r(X) and the coefficients of t(X) = <l(X), r(X)> *)
  Record polys := mkPolys {
    pl1 : list K; pl2 : list K; pl3 : list K; pr0 : list K; pr1 : list K; pr3 : list K;
    pt1 : K; pt2 : K; pt3 : K; pt4 : K; pt5 : K; pt6 : K }.

  Definition p_polys (w : weights K) (y : K) (aL aR aO sL sR : list K) : polys :=
    let n := length aL in
    let exp_y_inv := powers (finv y) n in
    let exp_y := powers y n in
    let l1 := map2 fadd aL (map2 fmul exp_y_inv (wR w)) in
    let l2 := aO in
    let l3 := sL in
    let r0 := map2 fsub (wO w) exp_y in
    let r1 := map2 fadd (map2 fmul exp_y aR) (wL w) in
    let r3 := map2 fmul exp_y sR in
    mkPolys l1 l2 l3 r0 r1 r3
            (ip l1 r0) (ip l1 r1 + ip l2 r0) (ip l2 r1 + ip l3 r0) (ip l1 r3 + ip l3 r1) (ip l2 r3) (ip l3 r3).

  (* padded l(x), r(x) handed to the inner-product argument *)
  Definition p_lvec (pl : polys) (x : K) (n pad : nat) : list K :=
    vecpoly3_eval x (zeros n) (pl1 pl) (pl2 pl) (pl3 pl) ++ zeros pad.
  Definition p_rvec (pl : polys) (x y : K) (n padded_n : nat) : list K :=
    vecpoly3_eval x (pr0 pl) (pr1 pl) (zeros n) (pr3 pl) ++ map fopp (skipn n (powers y padded_n)).

  Definition g_factors (u : K) (n1 n padded_n : nat) : list K := repeat f1 n1 ++ repeat u (padded_n - n1).
  Definition h_factors (y u : K) (n1 n padded_n : nat) : list K :=
    map2 fmul (powers (finv y) padded_n) (g_factors u n1 n padded_n).

  (* everything the proving procedure derives, kept for the theorems and the correspondence *)
  Record prover_out := mkPO {
    po_proof : r1cs_proof; po_tr : tr_t;
    po_chal : list K;           (* y z u x w *)
    po_ipp_chal : list K;
    po_events : list (event K MO);
    po_l : list K; po_r : list K;    (* l(x), r(x) padded *)
    po_n1 : nat; po_n : nat; po_ndraws : nat;
    po_state : pstate K MO }.

  (* [Gs], [Hs]: party 0's generator vectors; gens_capacity = length.
     [d i]: i-th scalar drawn from the TranscriptRng. *)
  Definition prove (Gs Hs : list MO) (d : nat -> K) (s : pstate K MO) : result prover_out :=
    let cap := length Gs in
    let tr0 := append_u64 (p_tr s) "m" (length (p_v s)) in
    let n1 := length (p_aL s) in
    if Nat.ltb cap n1 then Err EGens else
    let '(AI1, AO1, SS1) := p_commit1 Gs Hs d (p_aL s) (p_aR s) (p_aO s) in
    let tr1 := append_point (append_point (append_point tr0 "A_I1" AI1) "A_O1" AO1) "S1" SS1 in
    let s_tr1 := mkP tr1 (p_cons s) (p_aL s) (p_aR s) (p_aO s) (p_v s) (p_vb s) (p_def s) (p_pend s) in
    let '(s2, ev, r2) := p_phase2 RO s_tr1 in
    match r2 with
    | Err e => Err e
    | Ok _ =>
    let n := length (p_aL s2) in
    let n2 := (n - n1)%nat in
    let padded_n := next_pow2 n in
    let pad := (padded_n - n)%nat in
    if Nat.ltb cap padded_n then Err EGens else
    let '(AI2, AO2, SS2) := p_commit2 Gs Hs d n1 (p_aL s2) (p_aR s2) (p_aO s2) in
    let tr2 := append_point (append_point (append_point (p_tr s2) "A_I2" AI2) "A_O2" AO2) "S2" SS2 in
    let '(y, tr3) := challenge RO tr2 "y" in
    let '(z, tr4) := challenge RO tr3 "z" in
    let w := p_flatten z n (length (p_v s2)) (p_cons s2) in
    let pl := p_polys w y (p_aL s2) (p_aR s2) (p_aO s2) (mask_L d n1 n2) (mask_R d n1 n2) in
    let base3 := base3_of n1 n2 in
    let tb1 := d base3 in let tb3 := d (base3 + 1)%nat in let tb4 := d (base3 + 2)%nat in
    let tb5 := d (base3 + 3)%nat in let tb6 := d (base3 + 4)%nat in
    let T1 := commit (pt1 pl) tb1 in let T3 := commit (pt3 pl) tb3 in let T4 := commit (pt4 pl) tb4 in
    let T5 := commit (pt5 pl) tb5 in let T6 := commit (pt6 pl) tb6 in
    let tr5 := append_point (append_point (append_point (append_point (append_point tr4
                 "T_1" T1) "T_3" T3) "T_4" T4) "T_5" T5) "T_6" T6 in
    let '(u, tr6) := challenge RO tr5 "u" in
    let '(x, tr7) := challenge RO tr6 "x" in
    let tb2 := vsum (map2 (fun c vb => vb * c) (wV w) (p_vb s2)) in
    let tx := poly6_eval x (pt1 pl) (pt2 pl) (pt3 pl) (pt4 pl) (pt5 pl) (pt6 pl) in
    let txb := poly6_eval x tb1 tb2 tb3 tb4 tb5 tb6 in
    let l_vec := p_lvec pl x n pad in
    let r_vec := p_rvec pl x y n padded_n in
    let i_b := d 0%nat + u * blind2 d n1 n2 0 in
    let o_b := d 1%nat + u * blind2 d n1 n2 1 in
    let s_b := d 2%nat + u * blind2 d n1 n2 2 in
    let eb := x * (i_b + x * (o_b + x * s_b)) in
    let tr8 := append_scalar (append_scalar (append_scalar tr7 "t_x" tx) "t_x_blinding" txb) "e_blinding" eb in
    let '(wch, tr9) := challenge RO tr8 "w" in
    let Q := (wch • B)%M in
    let '(ip_pf, tr10, us) :=
      ipp_create RO tr9 Q (g_factors u n1 n padded_n) (h_factors y u n1 n padded_n)
                 (firstn padded_n Gs) (firstn padded_n Hs) l_vec r_vec in
    Ok (mkPO (mkProof AI1 AO1 SS1 AI2 AO2 SS2 T1 T3 T4 T5 T6 tx txb eb ip_pf) tr10
             [y; z; u; x; wch] us ev l_vec r_vec n1 n (base3 + 5) s2)
    end.
End Prover.
Arguments r1cs_proof : clear implicits.
Arguments prover_out : clear implicits.
