(* Model/IPPSpec.v — specification-level objects of the inner-product argument:
   the argument on a given challenge list, explicit round-by-round folding, the acceptance relation,
   the vector of folding coefficients. *)
Require Export BP.Model.IPP.

Section IPPSpec.
  Context {K : FieldOps} {MO : ModOps K}.
  Open Scope F_scope.
  Notation "x +m y" := (madd x y) (at level 50, left associativity).
  Notation "k *s x" := (smul k x) (at level 40).
  Notation tr_t := (transcript K MO).

  Fixpoint create_alg (us : list K) (G H : list MO) (a b : list K) (Q : MO) : list MO * list MO * K * K :=
    match us with
    | [] => ([], [], hd f0 a, hd f0 b)
    | u :: us' =>
      let ui := finv u in let n := Nat.div2 (length a) in
      let aL := firstn n a in let aR := skipn n a in let bL := firstn n b in let bR := skipn n b in
      let GL := firstn n G in let GR := skipn n G in let HL := firstn n H in let HR := skipn n H in
      let L := msm aL GR +m msm bR HL +m ip aL bR *s Q in
      let Rr := msm aR GL +m msm bL HR +m ip aR bL *s Q in
      let '(Ls, Rs, a0, b0) :=
        create_alg us' (map2 (fold_G u ui) GL GR) (map2 (fold_H u ui) HL HR)
                   (map2 (fold_a u ui) aL aR) (map2 (fold_b u ui) bL bR) Q in
      (L :: Ls, Rr :: Rs, a0, b0)
    end.


  (* explicit-fold acceptance relation: generators folded round by round *)
  Fixpoint accepts (us : list K) (G H : list MO) (P : MO) (Ls Rs : list MO) (a0 b0 : K) (Q : MO) : Prop :=
    match us, Ls, Rs with
    | [], [], [] => P = a0 *s hd m0 G +m b0 *s hd m0 H +m (a0 * b0) *s Q
    | u :: us', L :: Ls', Rr :: Rs' =>
      let ui := finv u in let n := Nat.div2 (length G) in
      accepts us' (map2 (fold_G u ui) (firstn n G) (skipn n G)) (map2 (fold_H u ui) (firstn n H) (skipn n H))
              (P +m (u * u) *s L +m (ui * ui) *s Rr) Ls' Rs' a0 b0 Q
    | _, _, _ => False
    end.


  Fixpoint svec (us : list K) : list K :=
    match us with
    | [] => [f1]
    | u :: us' => map (fmul (finv u)) (svec us') ++ map (fmul u) (svec us')
    end.
  Fixpoint svec_inv (us : list K) : list K :=
    match us with
    | [] => [f1]
    | u :: us' => map (fmul u) (svec_inv us') ++ map (fmul (finv u)) (svec_inv us')
    end.


  Definition prod_inv (us : list K) : K := fold_right (fun u acc => finv u * acc) f1 us.

  (* explicit folding of generators down to one point *)
  Fixpoint foldG (us : list K) (G : list MO) : MO :=
    match us with
    | [] => hd m0 G
    | u :: us' => let n := Nat.div2 (length G) in
                  foldG us' (map2 (fold_G u (finv u)) (firstn n G) (skipn n G))
    end.
  Fixpoint foldH (us : list K) (H : list MO) : MO :=
    match us with
    | [] => hd m0 H
    | u :: us' => let n := Nat.div2 (length H) in
                  foldH us' (map2 (fold_H u (finv u)) (firstn n H) (skipn n H))
    end.


  (* the generic loop alone (no unrolled first round), on given generators *)
  Variable RO : tr_t -> K.
  Definition ipp_create_generic (tr : tr_t) (Q : MO) (G H : list MO) (a b : list K)
    : ipp_proof K MO * tr_t * list K :=
    let n := length G in
    let tr0 := innerproduct_domain_sep tr n in
    let '(Ls, Rs, a0, b0, tr3, us) := ipp_rounds RO (Nat.log2 n) tr0 Q G H a b in
    (mkIPP Ls Rs a0 b0, tr3, us).

End IPPSpec.
