(* Model/Verifier.v — Verifier::verification_scalars, verify, batch_verify (verifier.rs:394-691). *)
Require Export BP.Model.Prover.

Section Verifier.
  Context {K : FieldOps} {MO : ModOps K}.
  Open Scope F_scope.
  Variable RO : transcript K MO -> K.
  Variables B Bb : MO.
  Notation tr_t := (transcript K MO).
  Notation proof_t := (r1cs_proof K MO).

  (* what verification_scalars derives; kept for theorems and correspondence *)
  Record verifier_out := mkVO {
    vo_scalars : list K; vo_state : vstate K MO;
    vo_chal : list K;          (* y z u x w r *)
    vo_ipp_chal : list K;
    vo_events : list (event K MO);
    vo_n1 : nat; vo_padded : nat;
    vo_w : weights K; vo_s : list K }.

  Definition opt_bind {A C} (o : option A) (f : A -> result C) : result C :=
    match o with None => Err EVerification | Some a => f a end.

  (* the scalar vector of the combined check as a pure function of weights, challenges and proof scalars *)
  Definition mega_scalars (fw : weights K) (n1 n padded_n : nat) (y u x w r : K)
             (u_sq u_inv_sq sv : list K) (a b tx txb eb : K) : list K :=
    let pad := (padded_n - n)%nat in
    let y_inv_vec := powers (finv y) padded_n in
    let yneg_wR := map2 fmul (wR fw) y_inv_vec ++ zeros pad in
    let delta := ip (firstn n yneg_wR) (wL fw) in
    let u_for_g := repeat f1 n1 ++ repeat u (padded_n - n1) in
    let g_scalars :=
      map2 (fun yu s_i => snd yu * (x * fst yu - a * s_i)) (combine yneg_wR u_for_g) (firstn padded_n sv) in
    let h_scalars :=
      map2 (fun yus lo => snd (fst yus) * (fst (fst yus) * (x * fst lo + snd lo - b * snd yus) - f1))
           (combine (combine y_inv_vec u_for_g) (firstn padded_n (rev sv)))
           (combine (wL fw ++ zeros pad) (wO fw ++ zeros pad)) in
    let xx := x * x in let rxx := r * xx in let xxx := x * xx in
    let T_scalars := [r * x; rxx * x; rxx * xx; rxx * xxx; rxx * xx * xx] in
    [w * (tx - a * b) + r * (xx * (wc fw + delta) - tx);
     - eb - r * txb]
    ++ g_scalars ++ h_scalars
    ++ [x; xx; xxx; u * x; u * xx; u * xxx]
    ++ map (fun wVi => wVi * rxx) (wV fw)
    ++ T_scalars ++ u_sq ++ u_inv_sq.

  (* Verifier::verification_scalars; [cap] = bp_gens.gens_capacity *)
  Definition verification_scalars (cap : nat) (s : vstate K MO) (p : proof_t) : result verifier_out :=
    let tr0 := append_u64 (v_tr s) "m" (length (v_V s)) in
    let n1 := v_num s in
    opt_bind (validate_and_append_point tr0 "A_I1" (A_I1 p)) (fun tr1 =>
    opt_bind (validate_and_append_point tr1 "A_O1" (A_O1 p)) (fun tr2 =>
    opt_bind (validate_and_append_point tr2 "S1" (S1 p)) (fun tr3 =>
    let s_tr := mkV tr3 (v_cons s) (v_num s) (v_V s) (v_def s) (v_pend s) in
    let '(s2, ev, r2) := v_phase2 RO s_tr in
    match r2 with
    | Err e => Err e
    | Ok _ =>
    let n := v_num s2 in
    let n2 := (n - n1)%nat in
    let padded_n := next_pow2 n in
    let pad := (padded_n - n)%nat in
    if Nat.ltb cap padded_n then Err EGens else
    let tr4 := append_point (append_point (append_point (v_tr s2) "A_I2" (A_I2 p)) "A_O2" (A_O2 p)) "S2" (S2 p) in
    let '(y, tr5) := challenge RO tr4 "y" in
    let '(z, tr6) := challenge RO tr5 "z" in
    opt_bind (validate_and_append_point tr6 "T_1" (T_1 p)) (fun tr7 =>
    opt_bind (validate_and_append_point tr7 "T_3" (T_3 p)) (fun tr8 =>
    opt_bind (validate_and_append_point tr8 "T_4" (T_4 p)) (fun tr9 =>
    opt_bind (validate_and_append_point tr9 "T_5" (T_5 p)) (fun tr10 =>
    opt_bind (validate_and_append_point tr10 "T_6" (T_6 p)) (fun tr11 =>
    let '(u, tr12) := challenge RO tr11 "u" in
    let '(x, tr13) := challenge RO tr12 "x" in
    let tr14 := append_scalar (append_scalar (append_scalar tr13 "t_x" (t_x p))
                   "t_x_blinding" (t_x_blinding p)) "e_blinding" (e_blinding p) in
    let '(w, tr15) := challenge RO tr14 "w" in
    let fw := v_flatten z n (length (v_V s2)) (v_cons s2) in
    match ipp_verification_scalars RO tr15 padded_n (ipp p) with
    | Err _ => Err EVerification
    | Ok (u_sq, u_inv_sq, sv, tr16, us) =>
    let '(r, _) := challenge RO tr16 "r" in     (* drawn on a clone: the history is not extended *)
    let scalars := mega_scalars fw n1 n padded_n y u x w r u_sq u_inv_sq sv
                                (ipp_a (ipp p)) (ipp_b (ipp p)) (t_x p) (t_x_blinding p) (e_blinding p) in
    Ok (mkVO scalars (mkV tr16 (v_cons s2) (v_num s2) (v_V s2) (v_def s2) (v_pend s2))
             [y; z; u; x; w; r] us ev n1 padded_n fw sv)
    end)))))
    end))).

  (* the point list of the combined check, in the order of verify_and_return_transcript *)
  Definition mega_points (Gs Hs : list MO) (padded_n : nat) (Vs : list MO) (p : proof_t) : list MO :=
    [B; Bb] ++ firstn padded_n Gs ++ firstn padded_n Hs
    ++ [A_I1 p; A_O1 p; S1 p; A_I2 p; A_O2 p; S2 p] ++ Vs
    ++ [T_1 p; T_3 p; T_4 p; T_5 p; T_6 p] ++ ipp_L (ipp p) ++ ipp_R (ipp p).

  (* Verifier::verify_and_return_transcript *)
  Definition verify (Gs Hs : list MO) (s : vstate K MO) (p : proof_t) : result tr_t :=
    match verification_scalars (length Gs) s p with
    | Err e => Err e
    | Ok vo =>
      let pts := mega_points Gs Hs (vo_padded vo) (v_V (vo_state vo)) p in
      if mzerob (msm (vo_scalars vo) pts) then Ok (v_tr (vo_state vo)) else Err EVerification
    end.

  (* batch_verify: instances in order, first error wins; one aggregated MSM.
     [alphas]: the weights drawn from the caller's rng, in instance order. *)
  Fixpoint batch_collect (cap : nat) (insts : list (vstate K MO * proof_t))
    : result (list (verifier_out * proof_t)) :=
    match insts with
    | [] => Ok []
    | (s, p) :: rest =>
      match verification_scalars cap s p with
      | Err e => Err e
      | Ok vo =>
        match batch_collect cap rest with
        | Err e => Err e
        | Ok l => Ok ((vo, p) :: l)
        end
      end
    end.

  Definition vadd_at (off : nat) (xs : list K) (acc : list K) : list K :=
    firstn off acc ++ map2 fadd (firstn (length xs) (skipn off acc)) xs ++ skipn (off + length xs) acc.

  Fixpoint batch_accumulate (max_n : nat) (l : list (verifier_out * proof_t)) (alphas : list K)
           (sc : list K) (pts : list MO) : list K * list MO :=
    match l, alphas with
    | (vo, p) :: rest, alpha :: alphas' =>
      let scaled := map (fmul alpha) (vo_scalars vo) in
      let pn := vo_padded vo in
      let sc1 := vadd_at 0 (firstn 2 scaled) sc in
      let sc2 := vadd_at 2 (firstn pn (skipn 2 scaled)) sc1 in
      let sc3 := vadd_at (2 + max_n) (firstn pn (skipn (2 + pn) scaled)) sc2 in
      let sc4 := sc3 ++ skipn (2 + 2 * pn) scaled in
      let pts' := pts ++ [A_I1 p; A_O1 p; S1 p; A_I2 p; A_O2 p; S2 p] ++ v_V (vo_state vo)
                  ++ [T_1 p; T_3 p; T_4 p; T_5 p; T_6 p] ++ ipp_L (ipp p) ++ ipp_R (ipp p) in
      batch_accumulate max_n rest alphas' sc4 pts'
    | _, _ => (sc, pts)
    end.

  Definition batch_verify (Gs Hs : list MO) (alphas : list K) (insts : list (vstate K MO * proof_t))
    : result unit :=
    match batch_collect (length Gs) insts with
    | Err e => Err e
    | Ok l =>
      let max_n := fold_left (fun m vp => Nat.max m (vo_padded (fst vp))) l 0%nat in
      let sc0 := zeros (2 * max_n + 2) in
      let pts0 := [B; Bb] ++ firstn max_n Gs ++ firstn max_n Hs in
      let '(sc, pts) := batch_accumulate max_n l alphas sc0 pts0 in
      if mzerob (msm sc pts) then Ok tt else Err EVerification
    end.
End Verifier.
Arguments verifier_out : clear implicits.
