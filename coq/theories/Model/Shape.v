(* Model/Shape.v — Rust failure semantics of the verifier's shape-dependent code, on sizes only:
   every indexing, slicing, shift, zip/take truncation, inner_product length test and the
   msm(..).unwrap() of verify / batch_verify / InnerProductProof::verification_scalars.
   [fixed] selects the repaired tree (the |R_vec| = |L_vec| test of fix d4a08f3) or the pinned one. *)
Require Export BP.Model.IPP.

Inductive outcome := OOk | OErr | OPanic (site : nat).

(* usize is 64 bits: `1 << lg_n` overflows (debug: panics) when lg_n >= 64 *)
Definition shl_ok (k : nat) : bool := Nat.ltb k 64.
(* n = 2^k, decided by halving n (never builds 2^k: the model is evaluated on hostile k) *)
Fixpoint eq_pow2 (n k : nat) : bool :=
  match k with
  | O => Nat.eqb n 1
  | S k' => Nat.even n && negb (Nat.eqb n 0) && eq_pow2 (Nat.div2 n) k'
  end.

(* InnerProductProof::verification_scalars: returns the three vector lengths (|u_sq|, |u_inv_sq|, |s|) *)
Definition ipp_shape (fixed : bool) (n lL lR : nat) : outcome * (nat * nat * nat) :=
  let lg_n := lL in
  if Nat.leb 32 lg_n then (OErr, (0, 0, 0))
  else if fixed && negb (Nat.eqb lR lg_n) then (OErr, (0, 0, 0))
  else if negb (shl_ok lg_n) then (OPanic 262, (0, 0, 0))
  else
    if negb (eq_pow2 n lg_n) then (OErr, (0, 0, 0))          (* n != 1 << lg_n *)
    else
      (* challenges = one per zip(L_vec, R_vec) item *)
      let nchal := Nat.min lL lR in
      (* for i in 0..lg_n { challenges[i] .. challenges_inv[i] } *)
      if negb (Nat.leb lg_n nchal) then (OPanic 294, (0, 0, 0))
      else
        (* for i in 1..n: lg_i = 31 - (i as u32).leading_zeros(); k = 1 << lg_i;
           challenges_sq[(lg_n - 1) - lg_i]  (usize subtraction, then index);  s[i - k]  (s.len() = i) *)
        if forallb (fun i =>
                      let lg_i := Nat.log2 i in
                      Nat.leb 1 lg_n && Nat.leb lg_i (lg_n - 1)            (* no underflow in the two subtractions *)
                      && Nat.ltb ((lg_n - 1) - lg_i) nchal                  (* challenges_sq index in range *)
                      && Nat.leb (2 ^ lg_i) i && Nat.ltb (i - 2 ^ lg_i) i)  (* s[i - k] in range *)
                   (seq 1 (n - 1))
        then (OOk, (nchal, nchal, n))
        else (OPanic 309, (0, 0, 0)).

(* Verifier::verification_scalars after the transcript-side checks: length of the scalar vector *)
Definition vs_shape (fixed : bool) (cap n1 n m lL lR : nat) : outcome * nat :=
  let padded_n := next_pow2 n in
  let pad := padded_n - n in
  if Nat.ltb cap padded_n then (OErr, 0)
  else match ipp_shape fixed padded_n lL lR with
  | (OOk, (lu, lui, ls)) =>
    (* y_inv_vec: padded_n; yneg_wR = zip(wR (n), y_inv_vec).chain(zeros pad): min(n, padded_n) + pad *)
    let l_ywr := Nat.min n padded_n + pad in
    (* &yneg_wR[0..n] and inner_product(.., &wL) *)
    if negb (Nat.leb n l_ywr) then (OPanic 484, 0)
    else
      let l_ufg := n1 + ((n - n1) + pad) in
      let l_g := Nat.min (Nat.min l_ywr l_ufg) (Nat.min ls padded_n) in
      let l_h := Nat.min (Nat.min (Nat.min (Nat.min padded_n l_ufg) (Nat.min ls padded_n)) (n + pad)) (n + pad) in
      (OOk, 2 + l_g + l_h + 6 + m + 5 + lu + lui)
  | (o, _) => (o, 0)
  end.

(* Verifier::verify: the point list and the msm(..).unwrap() *)
Definition verify_shape (fixed : bool) (cap n1 n m lL lR : nat) : outcome :=
  match vs_shape fixed cap n1 n m lL lR with
  | (OOk, lsc) =>
    let padded_n := next_pow2 n in
    let lpts := 2 + Nat.min cap padded_n + Nat.min cap padded_n + 6 + m + 5 + lL + lR in
    if Nat.eqb lpts lsc then OOk else OPanic 593
  | (o, _) => o
  end.

(* batch_verify: first loop = every verification_scalars, first error wins; second loop = the slices
   scaled[2..2+pn], [2+pn..2+2pn], [2+2pn..]; then one msm(..).unwrap() *)
Definition inst_shape := (nat * nat * nat * nat * nat)%type.   (* n1, n, m, |L|, |R| *)

Fixpoint batch_collect_shape (fixed : bool) (cap : nat) (insts : list inst_shape) : outcome * list (nat * inst_shape) :=
  match insts with
  | [] => (OOk, [])
  | (n1, n, m, lL, lR) :: rest =>
    match vs_shape fixed cap n1 n m lL lR with
    | (OOk, l) =>
      match batch_collect_shape fixed cap rest with
      | (OOk, ls) => (OOk, (l, (n1, n, m, lL, lR)) :: ls)
      | (o, _) => (o, [])
      end
    | (o, _) => (o, [])
    end
  end.

Fixpoint batch_slices_shape (ls : list (nat * inst_shape)) (lsc lpts max_n : nat) : outcome :=
  match ls with
  | [] => if Nat.eqb lsc lpts then OOk else OPanic 685
  | (l, (n1, n, m, lL, lR)) :: rest =>
    let pn := next_pow2 n in
    if negb (Nat.leb (2 + 2 * pn) l) then OPanic 655
    else if negb (Nat.leb pn max_n) then OPanic 656
    else batch_slices_shape rest (lsc + (l - (2 + 2 * pn))) (lpts + 6 + m + 5 + lL + lR) max_n
  end.

Definition batch_verify_shape (fixed : bool) (cap : nat) (insts : list inst_shape) : outcome :=
  match batch_collect_shape fixed cap insts with
  | (OOk, ls) =>
    let max_n := fold_left (fun mx i => let '(_, (_, n, _, _, _)) := i in Nat.max mx (next_pow2 n)) ls 0 in
    batch_slices_shape ls (2 * max_n + 2) (2 + Nat.min cap max_n + Nat.min cap max_n) max_n
  | (o, _) => o
  end.
