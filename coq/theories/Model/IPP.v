(* Model/IPP.v — src/inner_product_proof.rs: create (unrolled first round with
   factors + generic rounds), verification_scalars, verify. *)
Require Export BP.Model.CS.

Definition next_pow2 (n : nat) : nat := if Nat.eqb n 0 then 1 else 2 ^ Nat.log2_up n.

Section IPP.
  Context {K : FieldOps} {MO : ModOps K}.
  Open Scope F_scope.
  Variable RO : transcript K MO -> K.
  Notation tr_t := (transcript K MO).

  Record ipp_proof := mkIPP { ipp_L : list MO; ipp_R : list MO; ipp_a : K; ipp_b : K }.

  (* one folding step on scalars / generators (shared by both loops) *)
  Definition fold_a (u ui : K) (l r : K) : K := l * u + ui * r.
  Definition fold_b (u ui : K) (l r : K) : K := l * ui + u * r.
  Definition fold_G (u ui : K) (l r : MO) : MO := (ui • l + u • r)%M.
  Definition fold_H (u ui : K) (l r : MO) : MO := (u • l + ui • r)%M.

  (* generic rounds: `while n != 1`; [k] = number of rounds still to do = log2 n *)
  Fixpoint ipp_rounds (k : nat) (tr : tr_t) (Q : MO) (G H : list MO) (a b : list K)
    : list MO * list MO * K * K * tr_t * list K :=
    match k with
    | O => ([], [], hd f0 a, hd f0 b, tr, [])
    | S k' =>
      let n := Nat.div2 (length a) in
      let aL := firstn n a in let aR := skipn n a in
      let bL := firstn n b in let bR := skipn n b in
      let GL := firstn n G in let GR := skipn n G in
      let HL := firstn n H in let HR := skipn n H in
      let cL := ip aL bR in let cR := ip aR bL in
      let L := (msm aL GR + msm bR HL + cL • Q)%M in
      let R := (msm aR GL + msm bL HR + cR • Q)%M in
      let tr1 := append_point (append_point tr "L" L) "R" R in
      let '(u, tr2) := challenge RO tr1 "u" in
      let ui := finv u in
      let '(Ls, Rs, a0, b0, tr3, us) :=
        ipp_rounds k' tr2 Q (map2 (fold_G u ui) GL GR) (map2 (fold_H u ui) HL HR)
                   (map2 (fold_a u ui) aL aR) (map2 (fold_b u ui) bL bR) in
      (L :: Ls, R :: Rs, a0, b0, tr3, u :: us)
    end.

  (* InnerProductProof::create *)
  Definition ipp_create (tr : tr_t) (Q : MO) (gf hf : list K) (G H : list MO) (a b : list K)
    : ipp_proof * tr_t * list K :=
    let n := length G in
    let tr0 := innerproduct_domain_sep tr n in
    match Nat.log2 n with
    | O => (mkIPP [] [] (hd f0 a) (hd f0 b), tr0, [])
    | S k' =>
      let h := Nat.div2 n in
      let aL := firstn h a in let aR := skipn h a in
      let bL := firstn h b in let bR := skipn h b in
      let GL := firstn h G in let GR := skipn h G in
      let HL := firstn h H in let HR := skipn h H in
      let gfL := firstn h gf in let gfR := skipn h gf in
      let hfL := firstn h hf in let hfR := skipn h hf in
      let cL := ip aL bR in let cR := ip aR bL in
      let L := (msm (vmul aL gfR) GR + msm (vmul bR hfL) HL + cL • Q)%M in
      let R := (msm (vmul aR gfL) GL + msm (vmul bL hfR) HR + cR • Q)%M in
      let tr1 := append_point (append_point tr0 "L" L) "R" R in
      let '(u, tr2) := challenge RO tr1 "u" in
      let ui := finv u in
      let a' := map2 (fold_a u ui) aL aR in
      let b' := map2 (fold_b u ui) bL bR in
      let G' := map2 (fun g gg => ((ui * fst g) • fst gg + (u * snd g) • snd gg)%M)
                     (combine gfL gfR) (combine GL GR) in
      let H' := map2 (fun g gg => ((u * fst g) • fst gg + (ui * snd g) • snd gg)%M)
                     (combine hfL hfR) (combine HL HR) in
      let '(Ls, Rs, a0, b0, tr3, us) := ipp_rounds k' tr2 Q G' H' a' b' in
      (mkIPP (L :: Ls) (R :: Rs) a0 b0, tr3, u :: us)
    end.

  (* the s vector: s[0] = allinv; s[i] = s[i - 2^lg i] * u_sq[(lg_n - 1) - lg i].
     Blocked form of the index loop: block j (indices 2^j .. 2^(j+1)) is the current
     prefix scaled by u_sq[(lg_n-1)-j]; [sq_rev] lists u_sq from the last round to the first. *)
  Fixpoint s_build (sq_rev : list K) (acc : list K) : list K :=
    match sq_rev with
    | [] => acc
    | q :: rest => s_build rest (acc ++ map (fun x => x * q) acc)
    end.

  (* the for loop over zip(L_vec, R_vec): validate, append, challenge *)
  Fixpoint ipp_absorb (tr : tr_t) (Ls Rs : list MO) : option (list K * tr_t) :=
    match Ls, Rs with
    | L :: Ls', R :: Rs' =>
      match validate_and_append_point tr "L" L with
      | None => None
      | Some tr1 =>
        match validate_and_append_point tr1 "R" R with
        | None => None
        | Some tr2 =>
          let '(u, tr3) := challenge RO tr2 "u" in
          match ipp_absorb tr3 Ls' Rs' with
          | None => None
          | Some (us, tr4) => Some (u :: us, tr4)
          end
        end
      end
    | _, _ => Some ([], tr)
    end.

  (* batch_inversion leaves zeros in place; allinv multiplies the non-zero inverses *)
  Definition inv_or_zero (x : K) : K := if feqb x f0 then f0 else finv x.
  Definition allinv_of (invs : list K) : K :=
    fold_left (fun acc f => if feqb f f0 then acc else acc * f) invs f1.

  (* InnerProductProof::verification_scalars -> (u_sq, u_inv_sq, s) *)
  Definition ipp_verification_scalars (tr : tr_t) (n : nat) (p : ipp_proof)
    : result (list K * list K * list K * tr_t * list K) :=
    let lg_n := length (ipp_L p) in
    if Nat.leb 32 lg_n then Err EVerification
    else if negb (Nat.eqb (length (ipp_R p)) lg_n) then Err EVerification
    else if negb (Nat.eqb n (2 ^ lg_n)) then Err EVerification
    else
      let tr0 := innerproduct_domain_sep tr n in
      match ipp_absorb tr0 (ipp_L p) (ipp_R p) with
      | None => Err EVerification
      | Some (us, tr1) =>
        let invs := map inv_or_zero us in
        let allinv := allinv_of invs in
        let u_sq := map (fun u => u * u) us in
        let u_inv_sq := map (fun u => u * u) invs in
        let s := s_build (rev u_sq) [allinv] in
        Ok (u_sq, u_inv_sq, s, tr1, us)
      end.

  (* InnerProductProof::verify: expect_P == P *)
  Variable meqb : MO -> MO -> bool.
  Definition ipp_verify (tr : tr_t) (n : nat) (p : ipp_proof) (gf hf : list K) (P Q : MO) (G H : list MO)
    : result unit :=
    match ipp_verification_scalars tr n p with
    | Err e => Err e
    | Ok (u_sq, u_inv_sq, s, _, _) =>
      let gas := firstn (length G) (map2 (fun g s_i => (ipp_a p * s_i) * g) gf s) in
      let hbs := map2 (fun h s_inv => (ipp_b p * s_inv) * h) hf (rev s) in
      let expect_P :=
        ((ipp_a p * ipp_b p) • Q + msm gas G + msm hbs H
         + msm (map fopp u_sq) (ipp_L p) + msm (map fopp u_inv_sq) (ipp_R p))%M in
      if meqb expect_P P then Ok tt else Err EVerification
    end.
End IPP.
Arguments ipp_proof : clear implicits.
