(* Model/Gens.v — generators.rs: BulletproofGens (new / increase_capacity), the aggregated iterator, labels.
   The hash-to-point chain  SHA3-512("GeneratorsChain" || label) -> ChaCha -> G::rand  is a deterministic
   stream per label: [ch kind party i] is its i-th output (SHA3/ChaCha themselves are not modelled). *)
Require Export List Arith ZArith Lia Bool.
Export ListNotations.

Section Gens.
  Variable P : Type.
  Variable ch : bool -> nat -> nat -> P.        (* kind (true = 'G', false = 'H'), party, position *)

  Record gens := mkGens { g_cap : nat; g_pcap : nat; g_G : list (list P); g_H : list (list P) }.

  (* GeneratorsChain::new(label).fast_forward(from).take(cnt): outputs from, from+1, .. of the label's stream *)
  Definition chain_take (k : bool) (j from cnt : nat) : list P := map (ch k j) (seq from cnt).

  Fixpoint mapi_from {A B} (f : nat -> A -> B) (i : nat) (l : list A) : list B :=
    match l with [] => [] | x :: r => f i x :: mapi_from f (S i) r end.

  (* increase_capacity: no-op unless new_capacity > gens_capacity; every party's vectors are extended by the
     part of its stream that starts where the vector ends *)
  Definition increase (s : gens) (newcap : nat) : gens :=
    if Nat.leb newcap (g_cap s) then s
    else mkGens newcap (g_pcap s)
           (mapi_from (fun j v => v ++ chain_take true j (g_cap s) (newcap - g_cap s)) 0 (g_G s))
           (mapi_from (fun j v => v ++ chain_take false j (g_cap s) (newcap - g_cap s)) 0 (g_H s)).

  Definition new (cap pcap : nat) : gens := increase (mkGens 0 pcap (repeat [] pcap) (repeat [] pcap)) cap.

  (* the specification: a table indexed by (party, position) *)
  Definition table (k : bool) (cap pcap : nat) : list (list P) := map (fun j => chain_take k j 0 cap) (seq 0 pcap).
  Definition canonical (cap pcap : nat) : gens := mkGens cap pcap (table true cap pcap) (table false cap pcap).

  (* BulletproofGensShare::G(n) / H(n): self.gens.G_vec[self.share].iter().take(n); indexing an absent party panics *)
  Definition share_view (arr : list (list P)) (j n : nat) : option (list P) :=
    match nth_error arr j with Some v => Some (firstn n v) | None => None end.

  (* ---- AggregatedGensIter ---- *)
  Inductive step_out := Yield (x : P) (party gen : nat) | Done (party gen : nat) | IdxPanic.

  (* repaired tree: while party < m && gen >= n { gen = 0; party += 1 } *)
  Fixpoint skip (fuel n m party gen : nat) : nat * nat :=
    match fuel with
    | O => (party, gen)
    | S f => if Nat.ltb party m && Nat.leb n gen then skip f n m (S party) 0 else (party, gen)
    end.

  Definition index2 (arr : list (list P)) (party gen : nat) : option P :=
    match nth_error arr party with Some v => nth_error v gen | None => None end.

  Definition agg_next (arr : list (list P)) (n m party gen : nat) : step_out :=
    let '(party', gen') := skip (S (m - party)) n m party gen in
    if Nat.leb m party' then Done party' gen'
    else match index2 arr party' gen' with Some x => Yield x party' (S gen') | None => IdxPanic end.

  (* pinned tree: if gen >= n { gen = 0; party += 1 } *)
  Definition agg_next_pinned (arr : list (list P)) (n m party gen : nat) : step_out :=
    let '(party', gen') := if Nat.leb n gen then (S party, 0) else (party, gen) in
    if Nat.leb m party' then Done party' gen'
    else match index2 arr party' gen' with Some x => Yield x party' (S gen') | None => IdxPanic end.

  Fixpoint collect_with (next : nat -> nat -> step_out) (fuel party gen : nat) : option (list P) :=
    match fuel with
    | O => None
    | S f => match next party gen with
             | Yield x p g => match collect_with next f p g with Some l => Some (x :: l) | None => None end
             | Done _ _ => Some []
             | IdxPanic => None
             end
    end.

  (* gens.G(n, m).collect(): at most n*m items and one final call *)
  Definition collect (arr : list (list P)) (n m : nat) : option (list P) :=
    collect_with (agg_next arr n m) (S (n * m)) 0 0.
  Definition collect_pinned (arr : list (list P)) (n m : nat) : option (list P) :=
    collect_with (agg_next_pinned arr n m) (S (S (n * m + m))) 0 0.

  Definition view_spec (arr : list (list P)) (n m : nat) : list P := flat_map (firstn n) (firstn m arr).

  (* size_hint: n * (m - party) - gen in usize arithmetic: None = subtraction underflow *)
  Definition size_hint (n m party gen : nat) : option nat :=
    if Nat.ltb m party then None
    else if Nat.ltb (n * (m - party)) gen then None else Some (n * (m - party) - gen).
End Gens.

(* labels: [b'G' | b'H'] ++ LE32(party as u32); the hash input is "GeneratorsChain" ++ label *)
Definition le32 (j : Z) : list Z := [j mod 256; (j / 256) mod 256; (j / 65536) mod 256; (j / 16777216) mod 256]%Z.
Definition label (k : bool) (j : Z) : list Z := (if k then 71 else 72)%Z :: le32 (j mod 4294967296).
Definition chain_domain : list Z := [71;101;110;101;114;97;116;111;114;115;67;104;97;105;110]%Z.   (* "GeneratorsChain" *)
Definition chain_input (k : bool) (j : Z) : list Z := chain_domain ++ label k j.
