import sys
sys.setrecursionlimit(10000)
from sympy import factorint
q=57896044618658097711785492504343953927116110621106131396339151912985063395361
r=2**255-19
order=[]; seen=set([2])
def go(n):
    if n in seen: return
    f=factorint(n-1)
    for p in f: go(p)
    a=2
    while True:
        if pow(a,n-1,n)==1 and all(pow(a,(n-1)//p,n)!=1 for p in f): break
        a+=1
    fs=[]
    for p,e in sorted(f.items()): fs += [p]*e
    order.append((n,a,fs)); seen.add(n)
go(q); go(r)
print("Definition zorro_cert : list (Z * Z * list Z) := [")
print(";\n".join("  (%d, %d, [%s])"%(n,a,"; ".join(map(str,fs))) for n,a,fs in order))
print("]%Z.")
print("(* %d entries *)"%len(order), file=sys.stderr)
