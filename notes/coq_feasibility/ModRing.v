Require Import Ring Field Setoid.
Section MR.
Variables (F : Type) (f0 f1 : F) (fadd fmul fsub : F -> F -> F) (fopp : F -> F) (fdiv : F -> F -> F) (finv : F -> F).
Hypothesis Fth : field_theory f0 f1 fadd fmul fsub fopp fdiv finv (@eq F).
Add Field Ff : Fth.
Variables (M : Type) (m0 : M) (madd : M -> M -> M) (mopp : M -> M) (smul : F -> M -> M).
Hypothesis madd_comm : forall a b, madd a b = madd b a.
Hypothesis madd_assoc : forall a b c, madd a (madd b c) = madd (madd a b) c.
Hypothesis madd_0_l : forall a, madd m0 a = a.
Hypothesis madd_opp : forall a, madd a (mopp a) = m0.
Hypothesis smul_add_r : forall k a b, smul k (madd a b) = madd (smul k a) (smul k b).
Hypothesis smul_add_l : forall j k a, smul (fadd j k) a = madd (smul j a) (smul k a).
Hypothesis smul_mul : forall j k a, smul (fmul j k) a = smul j (smul k a).
Hypothesis smul_1 : forall a, smul f1 a = a.

Lemma smul_0_l a : smul f0 a = m0.
Proof.
  assert (H : madd (smul f0 a) (smul f0 a) = smul f0 a) by (rewrite <- smul_add_l; f_equal; ring).
  assert (H2 : madd (madd (smul f0 a) (smul f0 a)) (mopp (smul f0 a)) = madd (smul f0 a) (mopp (smul f0 a))) by now rewrite H.
  rewrite <- madd_assoc, madd_opp in H2. rewrite madd_comm, madd_0_l in H2. exact H2.
Qed.
Lemma smul_0_r k : smul k m0 = m0.
Proof.
  assert (H : madd (smul k m0) (smul k m0) = smul k m0) by (rewrite <- smul_add_r; now rewrite madd_0_l).
  assert (H2 : madd (madd (smul k m0) (smul k m0)) (mopp (smul k m0)) = madd (smul k m0) (mopp (smul k m0))) by now rewrite H.
  rewrite <- madd_assoc, madd_opp in H2. rewrite madd_comm, madd_0_l in H2. exact H2.
Qed.
Lemma smul_opp a : smul (fopp f1) a = mopp a.
Proof.
  assert (H : madd a (smul (fopp f1) a) = m0).
  { rewrite <- (smul_1 a) at 1. rewrite <- smul_add_l. replace (fadd f1 (fopp f1)) with f0 by ring. apply smul_0_l. }
  assert (H2 : madd (mopp a) (madd a (smul (fopp f1) a)) = mopp a) by (rewrite H, madd_comm; apply madd_0_l).
  rewrite madd_assoc, (madd_comm (mopp a) a), madd_opp, madd_0_l in H2. exact H2.
Qed.

(* trivial extension ring R = F (+) M *)
Definition R := (F * M)%type.
Definition r0 : R := (f0, m0). Definition r1 : R := (f1, m0).
Definition radd (x y : R) : R := (fadd (fst x) (fst y), madd (snd x) (snd y)).
Definition rmul (x y : R) : R := (fmul (fst x) (fst y), madd (smul (fst x) (snd y)) (smul (fst y) (snd x))).
Definition ropp (x : R) : R := (fopp (fst x), mopp (snd x)).
Definition rsub (x y : R) : R := radd x (ropp y).
Lemma m_0_r a : madd a m0 = a. Proof. rewrite madd_comm; apply madd_0_l. Qed.
Lemma Rth : ring_theory r0 r1 radd rmul rsub ropp (@eq R).
Proof.
  constructor; unfold r0, r1, radd, rmul, rsub, ropp.
  - intros [a m]; simpl; f_equal; [ring | apply madd_0_l].
  - intros [a m] [b n]; simpl; f_equal; [ring | apply madd_comm].
  - intros [a m] [b n] [c o]; simpl; f_equal; [ring | apply madd_assoc].
  - intros [a m]; simpl; f_equal; [ring |]. rewrite smul_1, smul_0_r. apply m_0_r.
  - intros [a m] [b n]; simpl; f_equal; [ring | apply madd_comm].
  - intros [a m] [b n] [c o]; simpl; f_equal; [ring |].
    rewrite !smul_add_r, <- !smul_mul.
    replace (fmul c a) with (fmul a c) by ring. replace (fmul c b) with (fmul b c) by ring.
    rewrite <- !madd_assoc. reflexivity.
  - intros [a m] [b n] [c o]; simpl; f_equal; [ring |].
    rewrite !smul_add_r, !smul_add_l. rewrite <- !madd_assoc. f_equal.
    rewrite !madd_assoc. f_equal. apply madd_comm.
  - intros [a m] [b n]; simpl; reflexivity.
  - intros [a m]; simpl; f_equal; [ring | apply madd_opp].
Qed.
Add Ring Rr : Rth.
Definition sc (a : F) : R := (a, m0). Definition pt (m : M) : R := (f0, m).
Lemma pt_inj a b : pt a = pt b -> a = b. Proof. unfold pt; congruence. Qed.
Lemma pt_add a b : pt (madd a b) = radd (pt a) (pt b). Proof. unfold pt, radd; simpl; f_equal; ring. Qed.
Lemma pt_smul k a : pt (smul k a) = rmul (sc k) (pt a).
Proof. unfold pt, rmul, sc; simpl. f_equal; [ring|]. rewrite smul_0_l. rewrite madd_comm. now rewrite madd_0_l. Qed.
Lemma sc_add a b : sc (fadd a b) = radd (sc a) (sc b). Proof. unfold sc, radd; simpl; f_equal. now rewrite madd_0_l. Qed.
Lemma sc_mul a b : sc (fmul a b) = rmul (sc a) (sc b). Proof. unfold sc, rmul; simpl; f_equal. rewrite !smul_0_r. now rewrite madd_0_l. Qed.
Lemma sc_1 : sc f1 = r1. Proof. reflexivity. Qed.

Ltac module_ring H := apply pt_inj; rewrite ?pt_add, ?pt_smul, ?sc_add, ?sc_mul; ring [H].

(* the one-coordinate IPP round identity *)
Lemma round1 (u ui aL aR bL bR : F) (GL GR HL HR Q : M) :
  fmul u ui = f1 ->
  let P := madd (madd (madd (madd (smul aL GL) (smul aR GR)) (smul bL HL)) (smul bR HR)) (smul (fadd (fmul aL bL) (fmul aR bR)) Q) in
  let L := madd (madd (smul aL GR) (smul bR HL)) (smul (fmul aL bR) Q) in
  let Rr := madd (madd (smul aR GL) (smul bL HR)) (smul (fmul aR bL) Q) in
  let a' := fadd (fmul aL u) (fmul ui aR) in let b' := fadd (fmul bL ui) (fmul u bR) in
  let G' := madd (smul ui GL) (smul u GR) in let H' := madd (smul u HL) (smul ui HR) in
  madd (madd P (smul (fmul u u) L)) (smul (fmul ui ui) Rr) = madd (madd (smul a' G') (smul b' H')) (smul (fmul a' b') Q).
Proof.
  intros Hu. cbv zeta.
  assert (Hs : rmul (sc u) (sc ui) = r1) by (rewrite <- sc_mul, Hu; reflexivity).
  apply pt_inj; repeat (rewrite pt_add || rewrite pt_smul || rewrite sc_add || rewrite sc_mul). ring [Hs].
Qed.
End MR.
Check round1. Print Assumptions round1.
