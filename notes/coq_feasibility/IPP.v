Require Import Ring Field Setoid List Lia Arith.
Section MR.
Variables (F : Type) (f0 f1 : F) (fadd fmul fsub : F -> F -> F) (fopp : F -> F) (fdiv : F -> F -> F) (finv : F -> F).
Hypothesis Fth : field_theory f0 f1 fadd fmul fsub fopp fdiv finv (@eq F).
Add Field Ff : Fth.
Variables (M : Type) (m0 : M) (madd : M -> M -> M) (mopp : M -> M) (smul : F -> M -> M).
Hypothesis madd_comm : forall a b, madd a b = madd b a.
Hypothesis madd_assoc : forall a b c, madd a (madd b c) = madd (madd a b) c.
Hypothesis madd_0_l : forall a, madd m0 a = a.
Hypothesis madd_opp : forall a, madd a (mopp a) = m0.
Hypothesis smul_add_r : forall k a b, smul k (madd a b) = madd (smul k a) (smul k b).
Hypothesis smul_add_l : forall j k a, smul (fadd j k) a = madd (smul j a) (smul k a).
Hypothesis smul_mul : forall j k a, smul (fmul j k) a = smul j (smul k a).
Hypothesis smul_1 : forall a, smul f1 a = a.

Lemma smul_0_l a : smul f0 a = m0.
Proof.
  assert (H : madd (smul f0 a) (smul f0 a) = smul f0 a) by (rewrite <- smul_add_l; f_equal; ring).
  assert (H2 : madd (madd (smul f0 a) (smul f0 a)) (mopp (smul f0 a)) = madd (smul f0 a) (mopp (smul f0 a))) by now rewrite H.
  rewrite <- madd_assoc, madd_opp in H2. rewrite madd_comm, madd_0_l in H2. exact H2.
Qed.
Lemma smul_0_r k : smul k m0 = m0.
Proof.
  assert (H : madd (smul k m0) (smul k m0) = smul k m0) by (rewrite <- smul_add_r; now rewrite madd_0_l).
  assert (H2 : madd (madd (smul k m0) (smul k m0)) (mopp (smul k m0)) = madd (smul k m0) (mopp (smul k m0))) by now rewrite H.
  rewrite <- madd_assoc, madd_opp in H2. rewrite madd_comm, madd_0_l in H2. exact H2.
Qed.
Lemma smul_opp a : smul (fopp f1) a = mopp a.
Proof.
  assert (H : madd a (smul (fopp f1) a) = m0).
  { rewrite <- (smul_1 a) at 1. rewrite <- smul_add_l. replace (fadd f1 (fopp f1)) with f0 by ring. apply smul_0_l. }
  assert (H2 : madd (mopp a) (madd a (smul (fopp f1) a)) = mopp a) by (rewrite H, madd_comm; apply madd_0_l).
  rewrite madd_assoc, (madd_comm (mopp a) a), madd_opp, madd_0_l in H2. exact H2.
Qed.

(* trivial extension ring R = F (+) M *)
Definition R := (F * M)%type.
Definition r0 : R := (f0, m0). Definition r1 : R := (f1, m0).
Definition radd (x y : R) : R := (fadd (fst x) (fst y), madd (snd x) (snd y)).
Definition rmul (x y : R) : R := (fmul (fst x) (fst y), madd (smul (fst x) (snd y)) (smul (fst y) (snd x))).
Definition ropp (x : R) : R := (fopp (fst x), mopp (snd x)).
Definition rsub (x y : R) : R := radd x (ropp y).
Lemma m_0_r a : madd a m0 = a. Proof. rewrite madd_comm; apply madd_0_l. Qed.
Lemma Rth : ring_theory r0 r1 radd rmul rsub ropp (@eq R).
Proof.
  constructor; unfold r0, r1, radd, rmul, rsub, ropp.
  - intros [a m]; simpl; f_equal; [ring | apply madd_0_l].
  - intros [a m] [b n]; simpl; f_equal; [ring | apply madd_comm].
  - intros [a m] [b n] [c o]; simpl; f_equal; [ring | apply madd_assoc].
  - intros [a m]; simpl; f_equal; [ring |]. rewrite smul_1, smul_0_r. apply m_0_r.
  - intros [a m] [b n]; simpl; f_equal; [ring | apply madd_comm].
  - intros [a m] [b n] [c o]; simpl; f_equal; [ring |].
    rewrite !smul_add_r, <- !smul_mul.
    replace (fmul c a) with (fmul a c) by ring. replace (fmul c b) with (fmul b c) by ring.
    rewrite <- !madd_assoc. reflexivity.
  - intros [a m] [b n] [c o]; simpl; f_equal; [ring |].
    rewrite !smul_add_r, !smul_add_l. rewrite <- !madd_assoc. f_equal.
    rewrite !madd_assoc. f_equal. apply madd_comm.
  - intros [a m] [b n]; simpl; reflexivity.
  - intros [a m]; simpl; f_equal; [ring | apply madd_opp].
Qed.
Add Ring Rr : Rth.
Definition sc (a : F) : R := (a, m0). Definition pt (m : M) : R := (f0, m).
Lemma pt_inj a b : pt a = pt b -> a = b. Proof. unfold pt; congruence. Qed.
Lemma pt_add a b : pt (madd a b) = radd (pt a) (pt b). Proof. unfold pt, radd; simpl; f_equal; ring. Qed.
Lemma pt_smul k a : pt (smul k a) = rmul (sc k) (pt a).
Proof. unfold pt, rmul, sc; simpl. f_equal; [ring|]. rewrite smul_0_l. rewrite madd_comm. now rewrite madd_0_l. Qed.
Lemma sc_add a b : sc (fadd a b) = radd (sc a) (sc b). Proof. unfold sc, radd; simpl; f_equal. now rewrite madd_0_l. Qed.
Lemma sc_mul a b : sc (fmul a b) = rmul (sc a) (sc b). Proof. unfold sc, rmul; simpl; f_equal. rewrite !smul_0_r. now rewrite madd_0_l. Qed.
Lemma sc_1 : sc f1 = r1. Proof. reflexivity. Qed.
Lemma sc_0 : sc f0 = r0. Proof. reflexivity. Qed.
Lemma pt_0 : pt m0 = r0. Proof. reflexivity. Qed.

Ltac module_ring H := apply pt_inj; rewrite ?pt_add, ?pt_smul, ?sc_add, ?sc_mul; ring [H].


Import ListNotations.
Notation "x +m y" := (madd x y) (at level 50, left associativity).
Notation "k *s x" := (smul k x) (at level 40).
Notation "x +f y" := (fadd x y) (at level 50, left associativity).
Notation "x *f y" := (fmul x y) (at level 40, left associativity).

Fixpoint ip (a b : list F) : F := match a, b with x :: a', y :: b' => x *f y +f ip a' b' | _, _ => f0 end.
Fixpoint msm (a : list F) (G : list M) : M := match a, G with x :: a', g :: G' => x *s g +m msm a' G' | _, _ => m0 end.
Fixpoint map2 {A B C} (f : A -> B -> C) (l : list A) (r : list B) : list C :=
  match l, r with x :: l', y :: r' => f x y :: map2 f l' r' | _, _ => [] end.
Lemma map2_length {A B C} (f : A -> B -> C) l r : length r = length l -> length (map2 f l r) = length l.
Proof. revert r; induction l; intros [|y r]; simpl; intros; try lia. f_equal. apply IHl. lia. Qed.

Lemma m0_r a : a +m m0 = a. Proof. apply m_0_r. Qed.

Lemma msm_app a1 a2 G1 G2 : length a1 = length G1 -> msm (a1 ++ a2) (G1 ++ G2) = msm a1 G1 +m msm a2 G2.
Proof.
  revert G1; induction a1 as [|x a1 IH]; intros [|g G1]; simpl; intros Hl; try lia.
  - now rewrite madd_0_l.
  - rewrite IH by lia. now rewrite madd_assoc.
Qed.
Lemma ip_app a1 a2 b1 b2 : length a1 = length b1 -> ip (a1 ++ a2) (b1 ++ b2) = ip a1 b1 +f ip a2 b2.
Proof.
  revert b1; induction a1 as [|x a1 IH]; intros [|y b1]; simpl; intros Hl; try lia.
  - ring.
  - rewrite IH by lia. ring.
Qed.

Section Round.
Variables (u ui : F).
Hypothesis Hu : u *f ui = f1.
Let Hs : rmul (sc u) (sc ui) = r1. Proof. rewrite <- sc_mul, Hu; reflexivity. Qed.
Ltac mring := apply pt_inj; repeat (rewrite pt_add || rewrite pt_smul || rewrite sc_add || rewrite sc_mul || rewrite pt_0 || rewrite sc_0 || rewrite sc_1); ring [Hs].

Definition fa l r := l *f u +f ui *f r.       (* a' *)
Definition fb l r := l *f ui +f u *f r.       (* b' *)
Definition fG l r := ui *s l +m u *s r.       (* G' *)
Definition fH l r := u *s l +m ui *s r.       (* H' *)

Lemma msm_fold_G : forall aL aR GL GR, length aR = length aL -> length GL = length aL -> length GR = length aL ->
  msm (map2 fa aL aR) (map2 fG GL GR) =
  msm aL GL +m (u *f u) *s msm aL GR +m (ui *f ui) *s msm aR GL +m msm aR GR.
Proof.
  induction aL as [|x aL IH]; intros [|y aR] [|g GL] [|h GR]; simpl; intros; try lia.
  - mring.
  - rewrite IH by lia. unfold fa, fG. mring.
Qed.
Lemma msm_fold_H : forall bL bR HL HR, length bR = length bL -> length HL = length bL -> length HR = length bL ->
  msm (map2 fb bL bR) (map2 fH HL HR) =
  msm bL HL +m (ui *f ui) *s msm bL HR +m (u *f u) *s msm bR HL +m msm bR HR.
Proof.
  induction bL as [|x bL IH]; intros [|y bR] [|g HL] [|h HR]; simpl; intros; try lia.
  - mring.
  - rewrite IH by lia. unfold fb, fH. mring.
Qed.
Lemma ip_fold : forall aL aR bL bR, length aR = length aL -> length bL = length aL -> length bR = length aL ->
  ip (map2 fa aL aR) (map2 fb bL bR) = ip aL bL +f (u *f u) *f ip aL bR +f (ui *f ui) *f ip aR bL +f ip aR bR.
Proof.
  induction aL as [|x aL IH]; intros [|y aR] [|g bL] [|h bR]; simpl; intros; try lia.
  - ring.
  - rewrite IH by lia. unfold fa, fb. ring [Hu].
Qed.

(* one full round on vectors *)
Lemma round_identity aL aR bL bR GL GR HL HR Q :
  length aR = length aL -> length bL = length aL -> length bR = length aL ->
  length GL = length aL -> length GR = length aL -> length HL = length aL -> length HR = length aL ->
  let P := msm (aL ++ aR) (GL ++ GR) +m msm (bL ++ bR) (HL ++ HR) +m ip (aL ++ aR) (bL ++ bR) *s Q in
  let L := msm aL GR +m msm bR HL +m ip aL bR *s Q in
  let Rr := msm aR GL +m msm bL HR +m ip aR bL *s Q in
  P +m (u *f u) *s L +m (ui *f ui) *s Rr =
  msm (map2 fa aL aR) (map2 fG GL GR) +m msm (map2 fb bL bR) (map2 fH HL HR) +m ip (map2 fa aL aR) (map2 fb bL bR) *s Q.
Proof.
  do 7 intro. cbv zeta.
  rewrite !msm_app, ip_app by lia. rewrite msm_fold_G, msm_fold_H, ip_fold by lia.
  mring.
Qed.
End Round.

(* the whole argument, challenges given as a list *)
Definition half {A} (l : list A) := Nat.div2 (length l).
Fixpoint create (us : list F) (G H : list M) (a b : list F) (Q : M) : list M * list M * F * F :=
  match us with
  | [] => ([], [], hd f0 a, hd f0 b)
  | u :: us' =>
      let ui := finv u in let n := half a in
      let aL := firstn n a in let aR := skipn n a in let bL := firstn n b in let bR := skipn n b in
      let GL := firstn n G in let GR := skipn n G in let HL := firstn n H in let HR := skipn n H in
      let L := msm aL GR +m msm bR HL +m ip aL bR *s Q in
      let Rr := msm aR GL +m msm bL HR +m ip aR bL *s Q in
      let '(Ls, Rs, a0, b0) := create us' (map2 (fG u ui) GL GR) (map2 (fH u ui) HL HR) (map2 (fa u ui) aL aR) (map2 (fb u ui) bL bR) Q in
      (L :: Ls, Rr :: Rs, a0, b0)
  end.

(* explicit-fold verification relation *)
Fixpoint accepts (us : list F) (G H : list M) (P : M) (Ls Rs : list M) (a0 b0 : F) (Q : M) : Prop :=
  match us, Ls, Rs with
  | [], [], [] => P = a0 *s hd m0 G +m b0 *s hd m0 H +m (a0 *f b0) *s Q
  | u :: us', L :: Ls', Rr :: Rs' =>
      let ui := finv u in let n := half G in
      accepts us' (map2 (fG u ui) (firstn n G) (skipn n G)) (map2 (fH u ui) (firstn n H) (skipn n H))
              (P +m (u *f u) *s L +m (ui *f ui) *s Rr) Ls' Rs' a0 b0 Q
  | _, _, _ => False
  end.

Lemma div2_double n : Nat.div2 (2 * n) = n. Proof. apply Nat.div2_double. Qed.

Theorem ipp_complete : forall us G H a b Q,
  (forall u, In u us -> u <> f0) ->
  length a = 2 ^ length us -> length b = 2 ^ length us -> length G = 2 ^ length us -> length H = 2 ^ length us ->
  let '(Ls, Rs, a0, b0) := create us G H a b Q in
  length Ls = length us /\ length Rs = length us /\
  accepts us G H (msm a G +m msm b H +m ip a b *s Q) Ls Rs a0 b0 Q.
Proof.
  induction us as [|u us IH]; intros G H a b Q Hnz Ha Hb HG HH.
  - simpl in *. destruct a as [|x [|]]; simpl in Ha; try lia. destruct b as [|y [|]]; simpl in Hb; try lia.
    destruct G as [|g [|]]; simpl in HG; try lia. destruct H as [|h [|]]; simpl in HH; try lia.
    simpl. repeat split. apply pt_inj; repeat (rewrite pt_add || rewrite pt_smul || rewrite sc_add || rewrite sc_mul || rewrite pt_0 || rewrite sc_0 || rewrite sc_1); ring.
  - assert (Hu : u *f finv u = f1) by (field; apply Hnz; now left).
    cbn [create]. set (n := 2 ^ length us) in *.
    assert (E : 2 ^ length (u :: us) = 2 * n) by (simpl; unfold n; lia).
    rewrite E in *.
    assert (Hha : half a = n) by (unfold half; rewrite Ha; apply div2_double).
    assert (HhG : half G = n) by (unfold half; rewrite HG; apply div2_double).
    rewrite Hha.
    set (aL := firstn n a); set (aR := skipn n a); set (bL := firstn n b); set (bR := skipn n b).
    set (GL := firstn n G); set (GR := skipn n G); set (HL := firstn n H); set (HR := skipn n H).
    assert (LaL : length aL = n) by (unfold aL; rewrite firstn_length; lia).
    assert (LaR : length aR = n) by (unfold aR; rewrite skipn_length; lia).
    assert (LbL : length bL = n) by (unfold bL; rewrite firstn_length; lia).
    assert (LbR : length bR = n) by (unfold bR; rewrite skipn_length; lia).
    assert (LGL : length GL = n) by (unfold GL; rewrite firstn_length; lia).
    assert (LGR : length GR = n) by (unfold GR; rewrite skipn_length; lia).
    assert (LHL : length HL = n) by (unfold HL; rewrite firstn_length; lia).
    assert (LHR : length HR = n) by (unfold HR; rewrite skipn_length; lia).
    specialize (IH (map2 (fG u (finv u)) GL GR) (map2 (fH u (finv u)) HL HR) (map2 (fa u (finv u)) aL aR) (map2 (fb u (finv u)) bL bR) Q).
    destruct (create us _ _ _ _ Q) as [[[Ls Rs] a0] b0].
    destruct IH as (HLs & HRs & Hacc); try (rewrite map2_length; lia).
    { intros; apply Hnz; now right. }
    simpl length. repeat split; try lia.
    cbn [accepts]. rewrite HhG. fold GL GR HL HR.
    rewrite <- (firstn_skipn n a) at 1 2. rewrite <- (firstn_skipn n b) at 1 2.
    rewrite <- (firstn_skipn n G) at 1. rewrite <- (firstn_skipn n H) at 1.
    fold aL aR bL bR GL GR HL HR.
    rewrite (round_identity u (finv u) Hu aL aR bL bR GL GR HL HR Q) by lia.
    exact Hacc.
Qed.
End MR.
Check ipp_complete. Print Assumptions ipp_complete.
