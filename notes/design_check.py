#!/usr/bin/env python3
"""Design-time scratch (NOT part of the verification machinery, not run by any check).

A line-by-line numeric transliteration of prover.rs / verifier.rs /
inner_product_proof.rs over a small prime field, with points represented as
coefficient vectors over the basis [B, Bt, G_0.., H_0.., (extra symbols)]
(the "free module" of DESIGN.md section 3.3) and the transcript as a hash of the
operation history.  It exists only to sanity-check the algebraic statements
that DESIGN.md promises to prove (C01, C02, C03, C05, C07, C10) before any Coq
is written.  Run: python3 design_check.py
"""
import hashlib, random, sys

P = 10007  # small prime so that "bad" challenge values actually occur


def inv(x):
    assert x % P != 0
    return pow(x, P - 2, P)


# ---------------------------------------------------------------- free module
class Basis:
    def __init__(self, cap, extra=0):
        self.cap = cap
        self.dim = 2 + 2 * cap + extra

    def unit(self, i):
        v = [0] * self.dim
        v[i] = 1
        return v

    def B(self): return self.unit(0)
    def Bt(self): return self.unit(1)
    def G(self, i): return self.unit(2 + i)
    def H(self, i): return self.unit(2 + self.cap + i)
    def X(self, i): return self.unit(2 + 2 * self.cap + i)


def padd(a, b): return [(x + y) % P for x, y in zip(a, b)]
def smul(k, a): return [(k * x) % P for x in a]
def pzero(dim): return [0] * dim
def is_zero(a): return all(x % P == 0 for x in a)


def msm(points, scalars, dim):
    assert len(points) == len(scalars), "msm length mismatch (Rust: unwrap panic)"
    acc = pzero(dim)
    for pt, s in zip(points, scalars):
        acc = padd(acc, smul(s, pt))
    return acc


def ip(a, b):
    assert len(a) == len(b)
    return sum(x * y for x, y in zip(a, b)) % P


# ---------------------------------------------------------------- transcript
class Transcript:
    def __init__(self, label, salt=0):
        self.ops = [("new", label, salt)]

    def append(self, label, payload):
        self.ops.append(("app", label, repr(payload)))

    def challenge(self, label):
        self.ops.append(("chal", label))
        h = hashlib.sha256(repr(self.ops).encode()).digest()
        c = int.from_bytes(h, "big") % P
        return c if c else 1          # NZ hypothesis

    def clone(self):
        t = Transcript("x")
        t.ops = list(self.ops)
        return t


# ---------------------------------------------------------------- IPP (inner_product_proof.rs)
def ipp_create(tr, Q, Gf, Hf, G, H, a, b, dim):
    n = len(G)
    assert n & (n - 1) == 0 and n > 0
    tr.append("dom-sep", "ipp v1"); tr.append("n", n)
    G, H, a, b = list(G), list(H), list(a), list(b)
    Ls, Rs = [], []
    first = True
    while n != 1:
        n //= 2
        aL, aR, bL, bR = a[:n], a[n:], b[:n], b[n:]
        GL, GR, HL, HR = G[:n], G[n:], H[:n], H[n:]
        cL, cR = ip(aL, bR), ip(aR, bL)
        if first:
            L = msm(GR + HL + [Q], [aL[i] * Gf[n + i] % P for i in range(n)] + [bR[i] * Hf[i] % P for i in range(n)] + [cL], dim)
            R = msm(GL + HR + [Q], [aR[i] * Gf[i] % P for i in range(n)] + [bL[i] * Hf[n + i] % P for i in range(n)] + [cR], dim)
        else:
            L = msm(GR + HL + [Q], aL + bR + [cL], dim)
            R = msm(GL + HR + [Q], aR + bL + [cR], dim)
        Ls.append(L); Rs.append(R)
        tr.append("L", L); tr.append("R", R)
        u = tr.challenge("u"); ui = inv(u)
        a = [(aL[i] * u + ui * aR[i]) % P for i in range(n)]
        b = [(bL[i] * ui + u * bR[i]) % P for i in range(n)]
        if first:
            G = [padd(smul(ui * Gf[i], GL[i]), smul(u * Gf[n + i], GR[i])) for i in range(n)]
            H = [padd(smul(u * Hf[i], HL[i]), smul(ui * Hf[n + i], HR[i])) for i in range(n)]
        else:
            G = [padd(smul(ui, GL[i]), smul(u, GR[i])) for i in range(n)]
            H = [padd(smul(u, HL[i]), smul(ui, HR[i])) for i in range(n)]
        first = False
    return dict(L=Ls, R=Rs, a=a[0], b=b[0])


def ipp_verification_scalars(pf, n, tr):
    lg_n = len(pf["L"])
    if lg_n >= 32 or n != (1 << lg_n):
        return None
    if len(pf["R"]) != lg_n:          # the planned fix (F1)
        return None
    tr.append("dom-sep", "ipp v1"); tr.append("n", n)
    ch = []
    for L, R in zip(pf["L"], pf["R"]):
        if is_zero(L) or is_zero(R):
            return None
        tr.append("L", L); tr.append("R", R)
        ch.append(tr.challenge("u"))
    chi = [inv(c) for c in ch]
    allinv = 1
    for f in chi:
        allinv = allinv * f % P
    ch_sq = [c * c % P for c in ch]
    chi_sq = [c * c % P for c in chi]
    s = [allinv]
    for i in range(1, n):
        lg_i = i.bit_length() - 1
        k = 1 << lg_i
        s.append(s[i - k] * ch_sq[(lg_n - 1) - lg_i] % P)
    return ch_sq, chi_sq, s, ch


def ipp_explicit_fold_check(pf, n, tr, Gf, Hf, Pt, Q, G, H, dim):
    """verdict by folding generators round by round (no s vector)."""
    tr.append("dom-sep", "ipp v1"); tr.append("n", n)
    Gc = [smul(Gf[i], G[i]) for i in range(n)]
    Hc = [smul(Hf[i], H[i]) for i in range(n)]
    acc = list(Pt)
    for L, R in zip(pf["L"], pf["R"]):
        tr.append("L", L); tr.append("R", R)
        u = tr.challenge("u"); ui = inv(u)
        h = len(Gc) // 2
        Gc = [padd(smul(ui, Gc[i]), smul(u, Gc[h + i])) for i in range(h)]
        Hc = [padd(smul(u, Hc[i]), smul(ui, Hc[h + i])) for i in range(h)]
        acc = padd(acc, padd(smul(u * u, L), smul(ui * ui, R)))
    rhs = padd(padd(smul(pf["a"], Gc[0]), smul(pf["b"], Hc[0])), smul(pf["a"] * pf["b"], Q))
    return acc == rhs


def ipp_verify(pf, n, tr, Gf, Hf, Pt, Q, G, H, dim):
    vs = ipp_verification_scalars(pf, n, tr)
    if vs is None:
        return False
    u_sq, ui_sq, s, _ = vs
    sc = [pf["a"] * pf["b"] % P] + [pf["a"] * s[i] * Gf[i] % P for i in range(n)] + \
         [pf["b"] * s[n - 1 - i] * Hf[i] % P for i in range(n)] + [-x % P for x in u_sq] + [-x % P for x in ui_sq]
    exp = msm([Q] + G[:n] + H[:n] + pf["L"] + pf["R"], sc, dim)
    return exp == [x % P for x in Pt]


# ---------------------------------------------------------------- constraint systems
# variables: ("V",i) ("L",i) ("R",i) ("O",i) ("1",)
# circuit = dict(m=#commitments, n1, n2, cons1=[lc], cons2=fn(challenges)->[lc], nchal2)
def flatten(cons, n, m, z, with_c):
    wL, wR, wO, wV, wc = [0] * n, [0] * n, [0] * n, [0] * m, 0
    ez = z
    for lc in cons:
        for var, c in lc:
            if var[0] == "L": wL[var[1]] = (wL[var[1]] + ez * c) % P
            elif var[0] == "R": wR[var[1]] = (wR[var[1]] + ez * c) % P
            elif var[0] == "O": wO[var[1]] = (wO[var[1]] + ez * c) % P
            elif var[0] == "V": wV[var[1]] = (wV[var[1]] - ez * c) % P
            elif var[0] == "1" and with_c: wc = (wc - ez * c) % P
        ez = ez * z % P
    return wL, wR, wO, wV, wc


def evlc(lc, aL, aR, aO, v):
    t = 0
    for var, c in lc:
        val = {"L": lambda i: aL[i], "R": lambda i: aR[i], "O": lambda i: aO[i], "V": lambda i: v[i]}.get(var[0])
        t += c * (1 if var[0] == "1" else val(var[1]))
    return t % P


def npow2(n):
    p = 1
    while p < n: p *= 2
    return p


def prove(bs, circ, wit, rng, label="t", Bp=None, Btp=None):
    """wit = dict(v, vb, aL, aR, aO) with aX of length n1+n2 (phase-2 part assigned up-front for simplicity:
    in this scratch phase-2 assignments do not depend on challenges, constraints do)."""
    dim = bs.dim
    Bv = Bp or bs.B(); Bt = Btp or bs.Bt()
    tr = Transcript(label)
    tr.append("dom-sep", "r1cs v1")
    V = []
    for v, vb in zip(wit["v"], wit["vb"]):
        Vi = padd(smul(v, Bv), smul(vb, Bt)); V.append(Vi); tr.append("V", Vi)
    m = len(V)
    tr.append("m", m)
    n1, n2 = circ["n1"], circ["n2"]
    n = n1 + n2
    aL, aR, aO = wit["aL"], wit["aR"], wit["aO"]
    G = [bs.G(i) for i in range(bs.cap)]; H = [bs.H(i) for i in range(bs.cap)]
    draws = []
    def rnd():
        x = rng.randrange(P); draws.append(x); return x
    i1, o1, s1 = rnd(), rnd(), rnd()
    sL1 = [rnd() for _ in range(n1)]; sR1 = [rnd() for _ in range(n1)]
    A_I1 = msm([Bt] + G[:n1] + H[:n1], [i1] + aL[:n1] + aR[:n1], dim)
    A_O1 = msm([Bt] + G[:n1], [o1] + aO[:n1], dim)
    S1 = msm([Bt] + G[:n1] + H[:n1], [s1] + sL1 + sR1, dim)
    tr.append("A_I1", A_I1); tr.append("A_O1", A_O1); tr.append("S1", S1)
    two = circ.get("cons2") is not None
    tr.append("dom-sep", "r1cs-2phase" if two else "r1cs-1phase")
    cons = list(circ["cons1"])
    if two:
        ch2 = [tr.challenge("c%d" % i) for i in range(circ["nchal2"])]
        cons += circ["cons2"](ch2)
    pn = npow2(n); pad = pn - n
    if n2 > 0:
        i2, o2, s2 = rnd(), rnd(), rnd()
    else:
        i2 = o2 = s2 = 0
    sL2 = [rnd() for _ in range(n2)]; sR2 = [rnd() for _ in range(n2)]
    if n2 > 0:
        A_I2 = msm([Bt] + G[n1:n] + H[n1:n], [i2] + aL[n1:] + aR[n1:], dim)
        A_O2 = msm([Bt] + G[n1:n], [o2] + aO[n1:], dim)
        S2 = msm([Bt] + G[n1:n] + H[n1:n], [s2] + sL2 + sR2, dim)
    else:
        A_I2 = A_O2 = S2 = pzero(dim)
    tr.append("A_I2", A_I2); tr.append("A_O2", A_O2); tr.append("S2", S2)
    y = tr.challenge("y"); z = tr.challenge("z")
    wL, wR, wO, wV, _ = flatten(cons, n, m, z, False)
    yi = inv(y)
    eyi = [pow(yi, i, P) for i in range(pn)]
    l1, l2, l3 = [0] * n, [0] * n, [0] * n
    r0, r1, r3 = [0] * n, [0] * n, [0] * n
    sL, sR = sL1 + sL2, sR1 + sR2
    ey = 1
    for i in range(n):
        l1[i] = (aL[i] + eyi[i] * wR[i]) % P
        l2[i] = aO[i]
        l3[i] = sL[i]
        r0[i] = (wO[i] - ey) % P
        r1[i] = (ey * aR[i] + wL[i]) % P
        r3[i] = ey * sR[i] % P
        ey = ey * y % P
    t1 = ip(l1, r0); t2 = (ip(l1, r1) + ip(l2, r0)) % P; t3 = (ip(l2, r1) + ip(l3, r0)) % P
    t4 = (ip(l1, r3) + ip(l3, r1)) % P; t5 = ip(l2, r3); t6 = ip(l3, r3)
    tb = {k: rnd() for k in (1, 3, 4, 5, 6)}
    T = {k: padd(smul(tv, Bv), smul(tb[k], Bt)) for k, tv in ((1, t1), (3, t3), (4, t4), (5, t5), (6, t6))}
    for k in (1, 3, 4, 5, 6): tr.append("T_%d" % k, T[k])
    u = tr.challenge("u"); x = tr.challenge("x")
    tb2 = sum(c * vb for c, vb in zip(wV, wit["vb"])) % P
    def poly6(c, x): return sum(c[k] * pow(x, k, P) for k in c) % P
    t_x = poly6({1: t1, 2: t2, 3: t3, 4: t4, 5: t5, 6: t6}, x)
    t_xb = poly6({1: tb[1], 2: tb2, 3: tb[3], 4: tb[4], 5: tb[5], 6: tb[6]}, x)
    lv = [(x * (l1[i] + x * (l2[i] + x * l3[i]))) % P for i in range(n)] + [0] * pad
    rv = [(r0[i] + x * (r1[i] + x * (x * r3[i]))) % P for i in range(n)] + [0] * pad
    for i in range(n, pn):
        rv[i] = -ey % P; ey = ey * y % P
    ib, ob, sb = (i1 + u * i2) % P, (o1 + u * o2) % P, (s1 + u * s2) % P
    e_b = x * (ib + x * (ob + x * sb)) % P
    tr.append("t_x", t_x); tr.append("t_x_blinding", t_xb); tr.append("e_blinding", e_b)
    w = tr.challenge("w")
    Q = smul(w, Bv)
    Gf = [1] * n1 + [u] * (n2 + pad)
    Hf = [eyi[i] * Gf[i] % P for i in range(pn)]
    ipp = ipp_create(tr, Q, Gf, Hf, G[:pn], H[:pn], lv, rv, dim)
    pf = dict(A_I1=A_I1, A_O1=A_O1, S1=S1, A_I2=A_I2, A_O2=A_O2, S2=S2, T=T, t_x=t_x, t_xb=t_xb, e_b=e_b, ipp=ipp)
    aux = dict(V=V, t2=t2, y=y, z=z, x=x, u=u, w=w, cons=cons, lv=lv, rv=rv, draws=draws, ops=list(tr.ops))
    return pf, aux


def verification_scalars(bs, circ, V, pf, label="t"):
    tr = Transcript(label)
    tr.append("dom-sep", "r1cs v1")
    for Vi in V: tr.append("V", Vi)
    m = len(V)
    tr.append("m", m)
    n1, n2 = circ["n1"], circ["n2"]
    for nm in ("A_I1", "A_O1", "S1"):
        if is_zero(pf[nm]): return None
        tr.append(nm, pf[nm])
    two = circ.get("cons2") is not None
    tr.append("dom-sep", "r1cs-2phase" if two else "r1cs-1phase")
    cons = list(circ["cons1"])
    if two:
        ch2 = [tr.challenge("c%d" % i) for i in range(circ["nchal2"])]
        cons += circ["cons2"](ch2)
    n = n1 + n2; pn = npow2(n); pad = pn - n
    if bs.cap < pn: return None
    for nm in ("A_I2", "A_O2", "S2"): tr.append(nm, pf[nm])
    y = tr.challenge("y"); z = tr.challenge("z")
    for k in (1, 3, 4, 5, 6):
        if is_zero(pf["T"][k]): return None
        tr.append("T_%d" % k, pf["T"][k])
    u = tr.challenge("u"); x = tr.challenge("x")
    tr.append("t_x", pf["t_x"]); tr.append("t_x_blinding", pf["t_xb"]); tr.append("e_blinding", pf["e_b"])
    w = tr.challenge("w")
    wL, wR, wO, wV, wc = flatten(cons, n, m, z, True)
    vs = ipp_verification_scalars(pf["ipp"], pn, tr)
    if vs is None: return None
    u_sq, ui_sq, s, ipp_ch = vs
    a, b = pf["ipp"]["a"], pf["ipp"]["b"]
    yi = inv(y)
    yiv = [pow(yi, i, P) for i in range(pn)]
    yneg_wR = [wR[i] * yiv[i] % P for i in range(n)] + [0] * pad
    delta = ip(yneg_wR[:n], wL)
    u1 = [1] * n1 + [u] * (n2 + pad)
    g_sc = [u1[i] * (x * yneg_wR[i] - a * s[i]) % P for i in range(pn)]
    wLp, wOp = wL + [0] * pad, wO + [0] * pad
    h_sc = [u1[i] * (yiv[i] * (x * wLp[i] + wOp[i] - b * s[pn - 1 - i]) - 1) % P for i in range(pn)]
    r = tr.clone().challenge("r")
    xx = x * x % P; rxx = r * xx % P; xxx = x * xx % P
    T_sc = [r * x % P, rxx * x % P, rxx * xx % P, rxx * xxx % P, rxx * xx * xx % P]
    sc = [(w * (pf["t_x"] - a * b) + r * (xx * (wc + delta) - pf["t_x"])) % P, (-pf["e_b"] - r * pf["t_xb"]) % P]
    sc += g_sc + h_sc + [x, xx, xxx, u * x % P, u * xx % P, u * xxx % P]
    sc += [wV[j] * rxx % P for j in range(m)] + T_sc + u_sq + ui_sq
    ch = dict(y=y, z=z, u=u, x=x, w=w, r=r, wL=wL, wR=wR, wO=wO, wV=wV, wc=wc, delta=delta, s=s, u1=u1, yiv=yiv,
              ipp_ch=ipp_ch, pn=pn, n=n, cons=cons, ops=list(tr.ops))
    return sc, ch


def mega(bs, V, pf, sc, pn, Bv=None, Btv=None):
    Bv = Bv or bs.B(); Bt = Btv or bs.Bt()
    pts = [Bv, Bt] + [bs.G(i) for i in range(pn)] + [bs.H(i) for i in range(pn)] + \
          [pf[k] for k in ("A_I1", "A_O1", "S1", "A_I2", "A_O2", "S2")] + V + [pf["T"][k] for k in (1, 3, 4, 5, 6)] + \
          pf["ipp"]["L"] + pf["ipp"]["R"]
    return msm(pts, sc, bs.dim), pts


def verify(bs, circ, V, pf, label="t", Bv=None, Btv=None):
    r = verification_scalars(bs, circ, V, pf, label)
    if r is None: return False
    sc, ch = r
    mg, _ = mega(bs, V, pf, sc, ch["pn"], Bv, Btv)
    return is_zero(mg)


# ---------------------------------------------------------------- separate relations (C03)
def relations(bs, V, pf, ch, Bv=None, Btv=None):
    Bv = Bv or bs.B(); Bt = Btv or bs.Bt()
    dim = bs.dim
    x, u, w, y = ch["x"], ch["u"], ch["w"], ch["y"]
    pn, n = ch["pn"], ch["n"]
    xx = x * x % P
    # R_t
    Rt = smul(xx * (ch["wc"] + ch["delta"]) % P, Bv)
    for j, Vj in enumerate(V): Rt = padd(Rt, smul(xx * ch["wV"][j] % P, Vj))
    for k in (1, 3, 4, 5, 6): Rt = padd(Rt, smul(pow(x, k, P), pf["T"][k]))
    Rt = padd(Rt, smul(-pf["t_x"] % P, Bv)); Rt = padd(Rt, smul(-pf["t_xb"] % P, Bt))
    # P
    A_I = padd(pf["A_I1"], smul(u, pf["A_I2"])); A_O = padd(pf["A_O1"], smul(u, pf["A_O2"])); S = padd(pf["S1"], smul(u, pf["S2"]))
    Pt = padd(padd(smul(x, A_I), smul(xx, A_O)), smul(xx * x % P, S))
    Pt = padd(Pt, smul(-pf["e_b"] % P, Bt))
    u1, yiv = ch["u1"], ch["yiv"]
    wR = ch["wR"] + [0] * (pn - n); wL = ch["wL"] + [0] * (pn - n); wO = ch["wO"] + [0] * (pn - n)
    Gp = [smul(u1[i], bs.G(i)) for i in range(pn)]
    Hp = [smul(u1[i] * yiv[i] % P, bs.H(i)) for i in range(pn)]
    for i in range(pn):
        Pt = padd(Pt, smul(x * yiv[i] * wR[i] % P, Gp[i]))
        Pt = padd(Pt, smul((x * wL[i] + wO[i]) % P, Hp[i]))
        Pt = padd(Pt, smul(-u1[i] % P, bs.H(i)))
    Q = smul(w, Bv)
    acc = padd(Pt, smul(pf["t_x"], Q))
    Gc, Hc = Gp, Hp
    for L, R, uj in zip(pf["ipp"]["L"], pf["ipp"]["R"], ch["ipp_ch"]):
        ui = inv(uj); h = len(Gc) // 2
        Gc = [padd(smul(ui, Gc[i]), smul(uj, Gc[h + i])) for i in range(h)]
        Hc = [padd(smul(uj, Hc[i]), smul(ui, Hc[h + i])) for i in range(h)]
        acc = padd(acc, padd(smul(uj * uj % P, L), smul(ui * ui % P, R)))
    a, b = pf["ipp"]["a"], pf["ipp"]["b"]
    rhs = padd(padd(smul(a, Gc[0]), smul(b, Hc[0])), smul(a * b % P, Q))
    Ripp = padd(acc, smul(P - 1, rhs))
    return Rt, Ripp


# ---------------------------------------------------------------- random circuits
def rand_circuit(rng, n1, n2, m, q1, q2):
    n = n1 + n2
    def rand_lc(nvars_gate, allow):
        lc = []
        for _ in range(rng.randrange(1, 5)):
            kind = rng.choice(allow)
            if kind == "1": lc.append((("1",), rng.randrange(P)))
            elif kind == "V":
                if m: lc.append((("V", rng.randrange(m)), rng.randrange(P)))
            elif nvars_gate: lc.append(((kind, rng.randrange(nvars_gate)), rng.randrange(P)))
        return lc
    v = [rng.randrange(P) for _ in range(m)]; vb = [rng.randrange(P) for _ in range(m)]
    aL = [rng.randrange(P) for _ in range(n)]; aR = [rng.randrange(P) for _ in range(n)]
    aO = [a * b % P for a, b in zip(aL, aR)]
    def fix(lc):  # make it satisfied by adjusting a constant term
        val = evlc(lc, aL, aR, aO, v)
        return lc + [(("1",), -val % P)]
    cons1 = [fix(rand_lc(n1, ["L", "R", "O", "V", "1"])) for _ in range(q1)]
    if n2 == 0 and q2 == 0:
        cons2 = None; nchal2 = 0
    else:
        nchal2 = 2
        base = [rand_lc(n, ["L", "R", "O", "V", "1"]) for _ in range(q2)]
        def cons2(ch, base=base):
            out = []
            for lc in base:
                lc2 = [(var, c * ch[i % 2] % P) for i, (var, c) in enumerate(lc)]
                out.append(fix(lc2))
            return out
    circ = dict(n1=n1, n2=n2, cons1=cons1, cons2=cons2, nchal2=nchal2)
    wit = dict(v=v, vb=vb, aL=aL, aR=aR, aO=aO)
    return circ, wit


def E_of(aux, wit):
    y, z = aux["y"], aux["z"]
    e = sum(pow(y, i, P) * (wit["aL"][i] * wit["aR"][i] - wit["aO"][i]) for i in range(len(wit["aL"]))) % P
    c = 0; ez = z
    for lc in aux["cons"]:
        c = (c + ez * evlc(lc, wit["aL"], wit["aR"], wit["aO"], wit["v"])) % P; ez = ez * z % P
    return (e + c) % P


def main():
    rng = random.Random(1)
    stats = dict(complete=0, decomp=0, c02=0, c02_acc=0, ipp=0, c05=0, base=0, batch=0)
    shapes = [(0, 0), (1, 0), (2, 0), (3, 0), (4, 0), (0, 1), (0, 3), (1, 1), (2, 3), (5, 2), (1, 4)]
    for it in range(400):
        n1, n2 = rng.choice(shapes); m = rng.randrange(0, 3); q1 = rng.randrange(0, 4); q2 = rng.randrange(0, 3) if n2 or rng.random() < .3 else 0
        circ, wit = rand_circuit(rng, n1, n2, m, q1, q2)
        cap = npow2(n1 + n2) + rng.randrange(0, 3)
        bs = Basis(cap, extra=2)
        lab = "case%d" % it
        pf, aux = prove(bs, circ, wit, rng, lab)
        if any(is_zero(pf[k]) for k in ("A_I1", "A_O1", "S1")) or any(is_zero(t) for t in pf["T"].values()) \
           or any(is_zero(p) for p in pf["ipp"]["L"] + pf["ipp"]["R"]):
            continue
        # C01 completeness with a different (larger) verifier capacity
        bs_v = Basis(cap, extra=2)
        assert verify(bs_v, circ, aux["V"], pf, lab), ("completeness", it, n1, n2)
        stats["complete"] += 1
        # C06 sync: op sequences equal
        sc, ch = verification_scalars(bs, circ, aux["V"], pf, lab)
        assert ch["ops"][:-0 or None] == aux["ops"], "transcripts differ"
        # C03 decomposition on honest and on mutated proofs
        for mut in range(4):
            pf2 = dict(pf); pf2["T"] = dict(pf["T"]); pf2["ipp"] = dict(pf["ipp"])
            if mut == 1: pf2["t_x"] = (pf["t_x"] + 1) % P
            if mut == 2: pf2["ipp"]["a"] = (pf["ipp"]["a"] + 3) % P
            if mut == 3: pf2["S1"] = padd(pf["S1"], bs.X(0))   # arbitrary foreign point
            r2 = verification_scalars(bs, circ, aux["V"], pf2, lab)
            if r2 is None: continue
            sc2, ch2 = r2
            mg, _ = mega(bs, aux["V"], pf2, sc2, ch2["pn"])
            Rt, Ripp = relations(bs, aux["V"], pf2, ch2)
            assert mg == padd(Ripp, smul(ch2["r"], Rt)), ("decomp", it, mut)
            stats["decomp"] += 1
        # C02: bad witness -> accept iff r x^2 E = 0
        wit2 = {k: list(v) for k, v in wit.items()}
        n = n1 + n2
        choice = rng.randrange(3)
        if choice == 0 and n: wit2["aO"][rng.randrange(n)] += 1
        elif choice == 1 and n: wit2["aL"][rng.randrange(n)] += 1       # breaks gate + maybe constraints
        elif m: wit2["v"][rng.randrange(m)] += 1
        pfb, auxb = prove(bs, circ, wit2, rng, lab)
        r3 = verification_scalars(bs, circ, auxb["V"], pfb, lab)
        if r3 is not None:
            scb, chb = r3
            acc = verify(bs, circ, auxb["V"], pfb, lab)
            E = E_of(auxb, wit2)
            assert acc == ((chb["r"] * chb["x"] ** 2 * E) % P == 0), ("c02", it, acc, E)
            stats["c02"] += 1; stats["c02_acc"] += acc
        # C05: honest proof vs changed constraint list of same shape
        if circ["cons1"]:
            circ2 = dict(circ); cons = [list(lc) for lc in circ["cons1"]]
            qi = rng.randrange(len(cons)); ti = rng.randrange(len(cons[qi]))
            var, c = cons[qi][ti]; cons[qi][ti] = (var, (c + rng.randrange(1, P)) % P)
            circ2["cons1"] = cons
            r4 = verification_scalars(bs, circ2, aux["V"], pf, lab)
            if r4 is not None:
                sc4, ch4 = r4
                acc = verify(bs, circ2, aux["V"], pf, lab)
                x = ch4["x"]
                condR = all((a - b) % P == 0 for a, b in zip(ch4["wR"], ch["wR"]))
                condH = all((x * (a - b) + (c2 - d)) % P == 0 for a, b, c2, d in zip(ch4["wL"], ch["wL"], ch4["wO"], ch["wO"]))
                condB = (ch4["wc"] + ch4["delta"] + ip(ch4["wV"], wit["v"]) - aux["t2"]) % P == 0
                assert acc == (condR and condH and condB), ("c05", it, acc, condR, condH, condB)
                stats["c05"] += 1
        # C05 bases: verifier uses a foreign value base / blinding base (extra basis symbols)
        for which in (0, 1):
            Bv = bs.X(0) if which == 0 else None
            Btv = bs.X(1) if which == 1 else None
            acc = verify(bs, circ, aux["V"], pf, lab, Bv, Btv)
            a, b = pf["ipp"]["a"], pf["ipp"]["b"]
            if which == 0:
                cond = (ch["w"] * (pf["t_x"] - a * b) - ch["r"] * (pf["t_x"] - ch["x"] ** 2 * (ch["wc"] + ch["delta"]))) % P == 0
            else:
                cond = (pf["e_b"] + ch["r"] * pf["t_xb"]) % P == 0
            assert acc == cond, ("base", it, which, acc, cond)
            stats["base"] += 1
    # C10: IPP for all k with non-unit factors; fast path vs generic; explicit fold; s symmetric
    for it in range(200):
        k = rng.randrange(0, 5); n = 1 << k
        bs = Basis(n, extra=1)
        G = [bs.G(i) for i in range(n)]; H = [bs.H(i) for i in range(n)]; Q = bs.X(0)
        a = [rng.randrange(P) for _ in range(n)]; b = [rng.randrange(P) for _ in range(n)]
        Gf = [rng.randrange(1, P) for _ in range(n)]; Hf = [rng.randrange(1, P) for _ in range(n)]
        Pt = msm(G + H + [Q], [a[i] * Gf[i] % P for i in range(n)] + [b[i] * Hf[i] % P for i in range(n)] + [ip(a, b)], bs.dim)
        pf = ipp_create(Transcript("i%d" % it), Q, Gf, Hf, G, H, a, b, bs.dim)
        assert len(pf["L"]) == k == len(pf["R"])
        if any(is_zero(p) for p in pf["L"] + pf["R"]): continue
        assert ipp_verify(pf, n, Transcript("i%d" % it), Gf, Hf, Pt, Q, G, H, bs.dim)
        assert ipp_explicit_fold_check(pf, n, Transcript("i%d" % it), Gf, Hf, Pt, Q, G, H, bs.dim)
        pf_g = ipp_create(Transcript("i%d" % it), Q, [1] * n, [1] * n, [smul(Gf[i], G[i]) for i in range(n)], [smul(Hf[i], H[i]) for i in range(n)], a, b, bs.dim)
        assert pf_g == pf, "fast path differs from generic rounds on pre-scaled generators"
        vs = ipp_verification_scalars(pf, n, Transcript("i%d" % it))
        s = vs[2]
        assert all(s[i] * s[n - 1 - i] % P == 1 for i in range(n))
        # wrong product / altered a
        Pbad = padd(Pt, Q)
        assert not ipp_verify(pf, n, Transcript("i%d" % it), Gf, Hf, Pbad, Q, G, H, bs.dim)
        pf2 = dict(pf); pf2["a"] = (pf["a"] + 1) % P
        assert not ipp_verify(pf2, n, Transcript("i%d" % it), Gf, Hf, Pt, Q, G, H, bs.dim)
        stats["ipp"] += 1
    # C07: batch = sum alpha_i * mega_i with aligned accumulation; +d/-d cancellation
    for it in range(60):
        insts = []
        cap = 8
        bs = Basis(cap, extra=0)
        for j in range(rng.randrange(1, 4)):
            n1, n2 = rng.choice(shapes[:9]); m = rng.randrange(0, 3)
            circ, wit = rand_circuit(rng, n1, n2, m, rng.randrange(0, 3), rng.randrange(0, 2) if n2 else 0)
            pf, aux = prove(bs, circ, wit, rng, "b%d_%d" % (it, j))
            insts.append((circ, aux["V"], pf, "b%d_%d" % (it, j)))
        # cancelling pair: same proof with a+d and a-d
        circ, V, pf, lab = insts[0]
        d = rng.randrange(1, P)
        pa = dict(pf); pa["ipp"] = dict(pf["ipp"]); pa["ipp"]["a"] = (pf["ipp"]["a"] + d) % P
        pb = dict(pf); pb["ipp"] = dict(pf["ipp"]); pb["ipp"]["a"] = (pf["ipp"]["a"] - d) % P
        insts += [(circ, V, pa, lab), (circ, V, pb, lab)]
        res = [verification_scalars(bs, c, V_, p_, l_) for c, V_, p_, l_ in insts]
        if any(r is None for r in res): continue
        maxn = max(ch["pn"] for _, ch in res)
        for equal_alpha in (False, True):
            alphas = [rng.randrange(1, P) for _ in insts]
            if equal_alpha: alphas[-1] = alphas[-2]
            all_sc = [0] * (2 * maxn + 2)
            all_pts = [bs.B(), bs.Bt()] + [bs.G(i) for i in range(maxn)] + [bs.H(i) for i in range(maxn)]
            expect = pzero(bs.dim)
            for (c, V_, p_, l_), (sc, ch), al in zip(insts, res, alphas):
                pn = ch["pn"]; ss = [al * s_ % P for s_ in sc]
                all_sc[0] = (all_sc[0] + ss[0]) % P; all_sc[1] = (all_sc[1] + ss[1]) % P
                for i, s_ in enumerate(ss[2:2 + pn]): all_sc[2 + i] = (all_sc[2 + i] + s_) % P
                for i, s_ in enumerate(ss[2 + pn:2 + 2 * pn]): all_sc[2 + maxn + i] = (all_sc[2 + maxn + i] + s_) % P
                all_sc += ss[2 + 2 * pn:]
                all_pts += [p_[k] for k in ("A_I1", "A_O1", "S1", "A_I2", "A_O2", "S2")] + V_ + [p_["T"][k] for k in (1, 3, 4, 5, 6)] + p_["ipp"]["L"] + p_["ipp"]["R"]
                mg, _ = mega(bs, V_, p_, sc, pn)
                expect = padd(expect, smul(al, mg))
            got = msm(all_pts, all_sc, bs.dim)
            assert got == expect, "batch != weighted sum"
            honest_ok = all(is_zero(mega(bs, V_, p_, sc, ch["pn"])[0]) for (c, V_, p_, l_), (sc, ch) in list(zip(insts, res))[:-2])
            if honest_ok:
                assert is_zero(got) == equal_alpha, ("cancelling pair", equal_alpha)
            stats["batch"] += 1
    print("all design-time algebra checks passed:", stats)


if __name__ == "__main__":
    main()
