#!/usr/bin/env python3
"""tools/seed_meta.py <seed-id> <round-text> <change> -- <needs> : write seeded/<id>/meta.json from validation.txt"""
import json, sys, os
sid, rnd, change, needs = sys.argv[1], sys.argv[2], sys.argv[3], sys.argv[4]
d = os.path.join(os.path.dirname(os.path.dirname(os.path.abspath(__file__))), "seeded", sid)
val = [l.strip() for l in open(os.path.join(d, "validation.txt")) if l.strip()]
res = []
for l in val:
    res += l.split() if l.startswith("suite_passed") else [l]
meta = {"id": sid, "breaks_property": sid.split("_")[0], "change": change, "needs_to_manifest": needs,
        "author": "independent sub-agent (%s) given only the property text and a scratch worktree" % rnd,
        "confirmed_by_me": {"how": "tools/validate_seed.sh in a fresh scratch worktree of /repo HEAD: demo on clean tree, demo with patch, full suite with patch",
                            "result": res},
        "demonstration": "demo.diff adds the test; command in demo_cmd.txt"}
json.dump(meta, open(os.path.join(d, "meta.json"), "w"), indent=1)
print(sid, res)
