#!/bin/bash
# NOTE: copy /repo/Cargo.lock into the worktree afterwards (it is untracked); remove with: git -C /repo worktree remove --force /tmp/uN/repo; rm -rf /tmp/uN
# mk_universe.sh N : a private copy of /verif wired to a private worktree of /repo, for parallel seed testing only
N=$1; U=/tmp/u$N
rm -rf $U/verif; git -C /repo worktree remove --force $U/repo 2>/dev/null; mkdir -p $U
git -C /repo worktree add -q --detach $U/repo HEAD
rsync -a --exclude .git --exclude work --exclude replays /verif/ $U/verif/
mkdir -p $U/verif/work $U/verif/replays
cd $U/verif
sed -i "s|/repo|$U/repo|g; s|/verif|$U/verif|g" tools/*.py tools/*.sh check setup.sh harness/Cargo.toml fixturegen/Cargo.toml
grep -n "path = " harness/Cargo.toml fixturegen/Cargo.toml | head -3
