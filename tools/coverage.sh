#!/bin/bash
# tools/coverage.sh [Cxx ...] : coverage AUDIT of the correspondence (not a check, registers nothing).
# Builds the harness with source-based coverage (nightly, -C instrument-coverage) into a scratch target,
# runs the quick tier of the given checks (default: all) with that binary, and lists the lines of /repo/src
# that no correspondence component executed: blind spots where a change to the code cannot disagree with the model.
# Output: work/coverage/uncovered.txt, work/coverage/summary.txt.  Evidence files written meanwhile are restored.
set -e
cd "$(dirname "$0")/.."
T=/tmp/verif_cov; rm -rf $T; mkdir -p $T/prof work/coverage
LLVM=$(dirname $(find /root/.rustup/toolchains/nightly-x86_64-unknown-linux-gnu -name llvm-profdata | head -1))
env CARGO_NET_OFFLINE=true LLVM_PROFILE_FILE=$T/build-%p-%m.profraw RUSTFLAGS="--cfg ark_bulletproofs_verif -A unexpected_cfgs -A warnings -C instrument-coverage" \
    CARGO_TARGET_DIR=$T/target cargo +nightly build --release --offline --manifest-path harness/Cargo.toml 2>&1 | tail -2
PROPS=${@:-C01 C02 C03 C04 C05 C06 C07 C08 C09 C10 C11 C12 C13 C14 C15 C16 C17 C18}
cp -r evidence $T/evidence.bak
for P in $PROPS; do
  VERIF_HARNESS_BIN=$T/target/release/bpharness LLVM_PROFILE_FILE="$T/prof/%p-%m.profraw" ./check $P --tier quick > $T/$P.log 2>&1 || true
  echo "$P: $(tail -1 $T/$P.log)"
done
rm -rf evidence; mv $T/evidence.bak evidence
rm -f $T/build-*.profraw; $LLVM/llvm-profdata merge -sparse $T/prof/*.profraw -o $T/all.profdata
$LLVM/llvm-cov report $T/target/release/bpharness -instr-profile=$T/all.profdata $(find /repo/src -name '*.rs') 2>/dev/null | grep -E "^/repo/src|^Filename|^TOTAL" > work/coverage/summary.txt || true
$LLVM/llvm-cov show $T/target/release/bpharness -instr-profile=$T/all.profdata --show-line-counts-or-regions=false $(find /repo/src -name '*.rs') 2>/dev/null \
  | python3 tools/cov_uncovered.py > work/coverage/uncovered.txt
cat work/coverage/summary.txt; wc -l work/coverage/uncovered.txt
rm -rf $T
