#!/bin/bash
# tools/regress_seeds.sh [seed-id...]: apply every seeded change in turn, run the check of the property it breaks, restore /repo.
# Prints one line per seed; a seed whose check exits 0 is a MISS.
cd /verif
S=${@:-$(ls seeded)}
for s in $S; do
  p=${s:0:3}
  git -C /repo status --short | grep -q . && { echo "/repo not clean, abort"; exit 2; }
  git -C /repo apply /verif/seeded/$s/patch.diff || { echo "$s: patch does not apply"; continue; }
  ./check $p --tier ${TIER:-quick} > work/regress_$s.log 2>&1; rc=$?
  git -C /repo checkout -- .
  v=$(grep -E '^VIOLATION' work/regress_$s.log | head -1 | sed 's/replay=[^ ]*//')
  echo "$s rc=$rc ${v:-MISS} :: $(tail -1 work/regress_$s.log | cut -c1-100)"
done
