"""Per-property registry: Coq property files, correspondence components per tier, search for failing inputs."""
import os, re, json
from collections import Counter
import vlib


def _dist(results):
    c = Counter()
    for comp, streams, r in results:
        for cid, s in r.summary.items():
            tag = (s.get("tag", "") or "untagged").split(" ")[0]
            c["%s/%s/%s" % (comp, s.get("curve", "?"), tag)] += 1
    return dict(c)


_CASE_CACHE = {}
_HIT_COUNT = [0]


def _case_index(outdir):
    """cid -> Coq term of the case, built once per output directory"""
    if outdir in _CASE_CACHE:
        return _CASE_CACHE[outdir]
    idx = {}
    try:
        for f in sorted(os.listdir(outdir)):
            if f.startswith("cases_") and f.endswith(".v"):
                txt = open(os.path.join(outdir, f)).read()
                parts = txt.split("\nDefinition ")
                for part in parts[1:]:
                    name = part.split(" ", 1)[0]
                    end = part.find("\nEval ")
                    idx[name] = ("Definition " + (part if end < 0 else part[:end]))[:6000]
                for line in txt.splitlines():
                    if line.startswith("Eval ") and " run_r1cs " not in line:
                        idx.setdefault("__line__" + str(len(idx)), line[:3000])
    except OSError:
        pass
    _CASE_CACHE[outdir] = idx
    return idx


def _case_text(r, cid):
    """the Coq term of a case (the replayable input), from the generated case files"""
    if not getattr(r, "outdir", None):
        return None
    return _case_index(r.outdir).get(cid)


def _hit(r, comp, streams, cid, what):
    _HIT_COUNT[0] += 1
    return {"component": comp, "streams": streams, "case": cid, "what": what,
            "summary": r.summary.get(cid, {}).get("line"), "input": _case_text(r, cid) if _HIT_COUNT[0] <= 40 else None,
            "impl_observables": {str(k): (v if isinstance(v, str) else " ".join(v)[:1500]) for k, v in (r.impl.get(cid) or {}).items()}}


def _ints(x):
    return [int(t) for t in x] if x is not None else None


# ------------------------------------------------------------------ C16
def search_c16(results, tier, seed, broken):
    """property itself on the implementation: identical call sequence => identical results call by call"""
    hits, n, nontriv = [], 0, set()
    for comp, streams, r in results:
        if comp != "r1cs":
            continue
        for cid, im in r.impl.items():
            n += 1
            p1, v1 = im.get(1), im.get(10)
            tag = r.summary.get(cid, {}).get("tag", "")
            if p1 is not None and len(p1) > 2:
                nontriv.add(" ".join(p1) + "|" + " ".join(im.get(4) or []))
            if p1 is not None and v1 is not None:
                # a prover-side missing assignment ends the prover's program; compare the common prefix
                pe, ve = vlib.split_lenpref(_ints(p1)), vlib.split_lenpref(_ints(v1))
                for i, (a, b) in enumerate(zip(pe, ve)):
                    if a != b:
                        if a[0] in (2, 4) and a[1] == 4:   # Err(MissingAssignment) on the prover: allowed, must be an error not a variable
                            break
                        hits.append(_hit(r, comp, streams, cid, "phase-1 call %d: prover returned %s, verifier returned %s" % (i, a, b)))
                        break
            p2, v2 = im.get(4), im.get(11)
            if p2 is not None and v2 is not None and _ints(p2) != _ints(v2):
                pe, ve = vlib.split_lenpref(_ints(p2)), vlib.split_lenpref(_ints(v2))
                k = next((i for i, (a, b) in enumerate(zip(pe, ve)) if a != b), min(len(pe), len(ve)))
                a = pe[k] if k < len(pe) else None
                b = ve[k] if k < len(ve) else None
                if not (a and a[0] in (2, 4) and a[1] == 4):
                    hits.append(_hit(r, comp, streams, cid, "phase-2 call %d: prover returned %s, verifier returned %s" % (k, a, b)))
            # the phase boundary: gates opened in phase 1 are closed there; a second-phase call never returns a wire of a
            # first-phase gate, and multipliers_len counts every gate opened so far (checked on each role's own events)
            for role, e1, e2 in (("prover", p1, im.get(4)), ("verifier", v1, im.get(11))):
                if e1 is None or e2 is None:
                    continue
                ev1, ev2 = vlib.split_lenpref(_ints(e1)), vlib.split_lenpref(_ints(e2))
                if any(e and e[0] in (2, 4) for e in ev1):
                    continue     # the prover's first phase ended in an error
                gates = sum(1 for e in ev1 if e and (e[0] == 3 or (e[0] == 1 and e[1] == 1)))
                n1_end = gates
                for k, e in enumerate(ev2):
                    if not e:
                        continue
                    if e[0] == 1 and e[1] in (1, 2, 3):
                        if e[2] < n1_end:
                            hits.append(_hit(r, comp, streams, cid, "%s, second-phase call %d: allocation returned wire %s of first-phase gate %d (first phase ended with %d gates): the gate left open at the phase end was paired with an allocation of the next phase" % (role, k, e[1:], e[2], n1_end)))
                            break
                        if e[1] == 1:
                            gates += 1
                    elif e[0] == 3:
                        if min(e[2], e[4], e[6]) < n1_end:
                            hits.append(_hit(r, comp, streams, cid, "%s, second-phase call %d returned wires of a first-phase gate: %s" % (role, k, e)))
                            break
                        gates += 1
                    elif e[0] == 5 and e[1] != gates:
                        hits.append(_hit(r, comp, streams, cid, "%s, second-phase call %d: multipliers_len() = %d but %d gates were opened so far" % (role, k, e[1], gates)))
                        break
            # missing assignment must be reported as an error: the model's prover events are the oracle for *where*
            m = r.model.get(cid)
            if m and p1 is not None and m.get(1) is not None:
                me = vlib.split_lenpref(m[1])
                pe = vlib.split_lenpref(_ints(p1))
                for i, (a, b) in enumerate(zip(me, pe)):
                    if a[0] in (2, 4) and a != b:
                        hits.append(_hit(r, comp, streams, cid, "call %d with a missing assignment: expected MissingAssignment error, implementation returned %s" % (i, b)))
                        break
    return hits, {"searched": n, "hits": len(hits), "distinct_nontrivial": len(nontriv), "distribution": _dist(results),
                  "rule": "random call sequences over {commit, allocate, allocate_multiplier, multiply, constrain, message, multipliers_len, randomized closure}, incl. missing assignments and pending allocations at phase end; non-trivial = at least one call returning a handle; distinct = distinct (phase-1, phase-2) result traces"}


# ------------------------------------------------------------------ C15
def search_c15(results, tier, seed, broken):
    hits, n, nontriv = [], 0, set()
    for comp, streams, r in results:
        if comp == "r1cs":
            for cid, s in r.summary.items():
                tag = s.get("tag", "")
                if not tag.startswith("lcprove"):
                    continue
                n += 1
                nontriv.add(s.get("line", "")[:40] + str((r.impl.get(cid) or {}).get(13, ""))[:80])
                verdict = s.get("verdict")
                if tag.startswith("lcprove-equal") and verdict != 0:
                    hits.append(_hit(r, comp, streams, cid, "constraint expr - c with c = value of expr: proof not accepted (prover=%s verdict=%s)" % (s.get("prover"), verdict)))
                if tag.startswith("lcprove-off") and verdict == 0:
                    hits.append(_hit(r, comp, streams, cid, "constraint expr - c with c != value of expr: proof accepted"))
        if comp == "lc":
            n += r.cases
            for cid, im in r.impl.items():
                if len(im.get(1) or []) > 3:
                    nontriv.add(" ".join(im[1]))
            # a term list that differs from the model's is a wrong denotation iff its value differs on some assignment
            for cid, code, text in r.disagreements:
                m, im = r.model.get(cid), r.impl.get(cid)
                if not m or not im:
                    continue
                if _lc_value_differs(m.get(1, []), _ints(im.get(1, []))):
                    hits.append(_hit(r, comp, streams, cid, "operator tree denotes a different linear form than it spells: " + text))
    return hits, {"searched": n, "hits": len(hits), "distinct_nontrivial": len(nontriv), "distribution": _dist(results),
                  "rule": "random operator trees (depth 1-5, repeated variables, zero coefficients, constants, phantom) built with the real operator impls; one-constraint circuits expr - c with c = value (must verify) and c = value +-1 (must be rejected); non-trivial = at least 2 terms; distinct = distinct term lists / scalar vectors"}


def _lc_value_differs(a, b):
    """two flat term lists [tag, idx, coeff]*: do they denote different linear forms? (collect coefficients per variable)"""
    def collect(l):
        d = Counter()
        for i in range(0, len(l) - 2, 3):
            if l[i] == 5:
                continue
            d[(l[i], l[i + 1])] += l[i + 2]
        return d
    da, db = collect(a), collect(b)
    keys = set(da) | set(db)
    # coefficients are canonical residues; compare modulo nothing is unsound across p, so compare differences for being 0 mod any of the 3 moduli
    mods = [115792089237316195423570985008687907853269984665640564039457584007908834671663,
            57896044618658097711785492504343953926634992332820282019728792003956564819949,
            7237005577332262213973186563042994240857116359379907606001950938285454250989]
    for k in keys:
        diff = da[k] - db[k]
        if all(diff % p != 0 for p in mods):
            return True
    return False


# ------------------------------------------------------------------ C10
def _model_identity_points(m, code=6):
    """indices of all-zero coefficient vectors among the model's points"""
    if not m or m.get(code) is None:
        return []
    return [i for i, v in enumerate(vlib.split_lenpref(m[code])) if all(x == 0 for x in v)]


def search_c10(results, tier, seed, broken):
    hits, n, nontriv = [], 0, set()
    for comp, streams, r in results:
        if comp != "ipp":
            continue
        for cid, s in r.summary.items():
            n += 1
            tag = s.get("tag", "")
            if tag.startswith("ipp-big"):
                # arguments of length 2^7 .. 2^10 on the real code only: honest create must verify
                if s.get("verdict") != 0:
                    hits.append(_hit(r, comp, streams, cid, "honest inner-product argument of length 2^%s rejected (verdict %s, factor pattern %s)" % (
                        _tagval(s["line"], "k"), s.get("verdict"), _tagval(s["line"], "pattern"))))
                continue
            v = int(tag.split("-v")[1]) if "-v" in tag else -1
            k = int(re.search(r"k=(\d+)", s["line"]).group(1))
            im = r.impl.get(cid) or {}
            verdict = s.get("verdict")
            if k >= 1:
                nontriv.add(" ".join(im.get(1, []))[:200])
            ident = _model_identity_points(r.model.get(cid))
            rounds = im.get(1, ["?", "?"])[:2]
            if rounds != [str(k), str(k)] and 98 not in im:
                hits.append(_hit(r, comp, streams, cid, "created proof has %s/%s rounds for n = 2^%d" % (rounds[0], rounds[1], k)))
            if v == 0:
                if verdict != 0 and not ident:
                    hits.append(_hit(r, comp, streams, cid, "honest inner-product proof (no identity round point) rejected: verdict %s" % verdict))
                if verdict == 0 and ident:
                    hits.append(_hit(r, comp, streams, cid, "proof with an identity round point accepted"))
            elif v in (1, 2, 3, 5) or (v == 4 and k >= 1):
                if verdict == 0:
                    what = {1: "wrong claimed product (P + Q)", 2: "altered final scalar a", 3: "altered final scalar b", 4: "a removed round", 5: "claimed length not matching the rounds"}[v]
                    hits.append(_hit(r, comp, streams, cid, "inner-product proof accepted with " + what))
            elif v == 6 and k >= 1:
                if verdict == 0:
                    hits.append(_hit(r, comp, streams, cid, "degenerate round (identity L) accepted"))
            if verdict == 99 or s.get("scalars") == 99:
                hits.append(_hit(r, comp, streams, cid, "panic in inner-product verification"))
    return hits, {"searched": n, "hits": len(hits), "distinct_nontrivial": len(nontriv), "distribution": _dist(results),
                  "rule": "k = 0..4 (thorough 0..6); dense / sparse / 0-1 / edge / counting vectors; factor vectors 1, (1..1,u..u), y^-i, random non-zero; variants honest, P+Q, a+1, b-1, dropped round, wrong n, forced identity L; non-trivial = k >= 1; distinct = distinct (|L|,|R|,a,b)"}


# ------------------------------------------------------------------ C03
def search_c03(results, tier, seed, broken):
    """the real verdict against the separate relations (a) ID, (b) R_t = 0, (c) R_ipp = 0 evaluated from their
    specification (explicit folding) on the same proof object and challenges"""
    hits, n, nontriv = [], 0, set()
    dist = Counter()
    for comp, streams, r in results:
        if comp == "integrity-light":
            # adaptive compensation between the two published blinding scalars of an ACCEPTED proof: the altered proof has the
            # same points, t_x and x, y, z (all derived before t_x_blinding is absorbed) but another t_x_blinding, so relation (b)
            # t_x.B + t~.B~ = ... cannot hold for it (B~ <> 0, C09_component_injective): if verify accepts it, the combined
            # check accepts something the separate relations reject
            for row in getattr(r, "integrity", []):
                if row["kind"] != "ADAPTB":
                    continue
                n += row["total"]
                dist["adaptive accepted"] += row["accepted"]
                nontriv.add(("adaptive", row["curve"], row["proof"]))
                if row["accepted"] > 0:
                    hits.append({"component": comp, "streams": streams, "case": "ADAPTIVE:%s:%d" % (row["curve"], row["proof"]), "outdir": r.outdir,
                                 "what": "verify accepts a proof obtained from an accepted one by changing t_x_blinding (and e_blinding to compensate, using the verifier's own challenge r for the altered proof): relation (b) held for the original t_x_blinding and B~ is not the identity, so it fails for the altered proof, yet the combined check accepts (%d of %d on %s); first: %s" % (
                                     row["accepted"], row["total"], row["curve"], row["first"][:3000])})
            continue
        if comp != "r1cs":
            continue
        for cid, s in r.summary.items():
            im, m = r.impl.get(cid) or {}, r.model.get(cid) or {}
            if 15 not in im or "nomodel=1" in s.get("line", "") or not m:
                continue
            n += 1
            verdict = int(im[15][0])
            rel = m.get(17)
            if rel is not None:
                expect_accept = (rel == [1, 1, 1])
                dist["relations=%s verdict=%d" % (rel, verdict)] += 1
                nontriv.add(str(rel) + " ".join(im.get(13, []))[:120])
            else:
                expect_accept = False   # the transcript-side checks (identity / shape / capacity) already fail in the model
                dist["no-scalars verdict=%d" % verdict] += 1
            if verdict == 99:
                hits.append(_hit(r, comp, streams, cid, "verifier panicked"))
            elif expect_accept and verdict != 0:
                hits.append(_hit(r, comp, streams, cid, "relations (a),(b),(c) all hold but verify rejects (verdict %d)" % verdict))
            elif (not expect_accept) and verdict == 0:
                hits.append(_hit(r, comp, streams, cid, "verify accepts although the separate relations say %s" % (rel,)))
    return hits, {"searched": n, "hits": len(hits), "distinct_nontrivial": len(nontriv), "distribution": dict(dist),
                  "rule": "honest proofs, proofs from violating witnesses (constraint / gate via hook H2), single-field mutations of every kind, forced zero draws (identity T_1 etc.); the real verdict is compared with ID /\\ R_t=0 /\\ R_ipp=0 evaluated by the specification with explicit round-by-round folding; distinct = distinct (relation triple, scalar vector)"}


# ------------------------------------------------------------------ C01 / C02
def _r1cs_cases(results):
    for comp, streams, r in results:
        if comp != "r1cs":
            continue
        for cid, s in r.summary.items():
            yield comp, streams, r, cid, s, (r.impl.get(cid) or {}), (r.model.get(cid) or {})


def search_c01(results, tier, seed, broken):
    """honest programs (witness satisfying by construction, confirmed by the model's sat flag): prove must succeed and
    verify must accept, on every curve, for capacities >= padded size"""
    hits, n, nontriv, dist = [], 0, set(), Counter()
    for comp, streams, r, cid, s, im, m in _r1cs_cases(results):
        tag = s.get("tag", "")
        if not (tag.startswith("honest") or tag.startswith("cs")):
            continue
        if tag.startswith("cs-missing") and m.get(15) != [0]:
            continue   # the prover's program ended at a missing assignment: not a completed honest run
        n += 1
        sat = m.get(8, [None])[0]
        ident = _model_identity_points(m)
        mand = [i for i in ident if i not in (3, 4, 5)]
        dist["sat=%s prover=%s verdict=%s" % (sat, s.get("prover"), s.get("verdict"))] += 1
        if (re.search(r"n1=(\d+) n2=(\d+)", tag) or [0])[0]:
            nontriv.add(tag + "|" + " ".join(im.get(5, []))[:60])
        if im.get(22) == ["0"]:
            hits.append(_hit(r, comp, streams, cid, "after an accepted proof the prover's and the verifier's transcripts are in different states: a further challenge drawn from each differs, so a second honest proof on the same transcripts is rejected"))
        if tag.startswith("honest-large") and "nomodel=1" in s.get("line", ""):
            # larger circuits run on the real code only; one-phase ones satisfy their constraints by construction
            if s.get("prover") != 0:
                hits.append(_hit(r, comp, streams, cid, "proving failed (result %s) on a larger circuit: %s" % (s.get("prover"), tag)))
            elif "sure=1" in tag and s.get("verdict") != 0:
                hits.append(_hit(r, comp, streams, cid, "honest proof of a satisfied larger constraint system rejected (verdict %s): %s" % (s.get("verdict"), tag)))
            continue
        if s.get("prover") != 0:
            hits.append(_hit(r, comp, streams, cid, "proving a satisfied constraint system failed (result %s)" % s.get("prover")))
        elif sat == 1 and not mand and s.get("verdict") != 0:
            hits.append(_hit(r, comp, streams, cid, "honest proof of a satisfied constraint system rejected (verdict %s)" % s.get("verdict")))
    return hits, {"searched": n, "hits": len(hits), "distinct_nontrivial": len(nontriv), "distribution": dict(dist),
                  "rule": "random programs over all call kinds (commit after constrain, single/paired allocations, pending allocation at phase end, user messages, 0-2 closures with challenge-dependent coefficients and assignments), witness satisfying by construction, prover/verifier capacities n' or 2n' independently, 3 curves; non-trivial = at least one gate or constraint; distinct = distinct (shape, proof scalars)"}


def search_c02(results, tier, seed, broken):
    hits, n, nontriv, dist = [], 0, set(), Counter()
    for comp, streams, r, cid, s, im, m in _r1cs_cases(results):
        tag = s.get("tag", "")
        if tag.startswith("forwardref"):
            n += 1
            dist["forwardref violated=%s verdict=%s" % (_tagval(tag, "violated"), s.get("verdict"))] += 1
            nontriv.add(("forwardref", s["curve"], _tagval(tag, "kind"), _tagval(tag, "violated")))
            if _tagval(tag, "violated") == "1" and s.get("verdict") == 0:
                hits.append(_hit(r, comp, streams, cid, "a violated constraint that was stated before the variable it mentions existed (kind %s: 0 = later commitment, 1 = later gate, 2 = second-phase gate) is accepted" % _tagval(tag, "kind")))
            if _tagval(tag, "violated") == "0" and s.get("verdict") != 0:
                hits.append(_hit(r, comp, streams, cid, "a satisfied circuit with a constraint stated before its variable existed is rejected (verdict %s)" % s.get("verdict")))
            continue
        if tag.startswith("manycons"):
            n += 1
            dist["manycons verdict=%s" % s.get("verdict")] += 1
            nontriv.add(("manycons", s["curve"], _tagval(tag, "pair")))
            if s.get("prover") == 0 and s.get("verdict") == 0:
                hits.append(_hit(r, comp, streams, cid, "a witness violating constraints number %s and the next one (by +e and -e) of a %s-constraint gate-free circuit is accepted" % (_tagval(tag, "pair"), _tagval(tag, "total"))))
            elif s.get("prover") == 99 or s.get("verdict") == 99:
                hits.append(_hit(r, comp, streams, cid, "panic on a circuit with %s constraints" % _tagval(tag, "total")))
            continue
        if not tag.startswith("violate"):
            continue
        n += 1
        sat = m.get(8, [None])[0]
        dist["%s sat=%s verdict=%s" % (tag.split(" ")[0], sat, s.get("verdict"))] += 1
        nontriv.add(tag + "|" + " ".join(im.get(5, []))[:60])
        if sat == 0 and s.get("verdict") == 0:
            hits.append(_hit(r, comp, streams, cid, "proof emitted for a violating witness (%s) accepted" % tag))
        if sat == 1:
            dist["generator-produced-nonviolating"] += 1
    return hits, {"searched": n, "hits": len(hits), "distinct_nontrivial": len(nontriv), "distribution": dict(dist),
                  "rule": "satisfying programs with exactly one linear constraint broken (any position, both phases, by 1, -1 or random) or one first-phase gate overwritten through hook H2 with o = l*r + delta; the model's sat flag confirms the violation; an acceptance is a hit"}


# ------------------------------------------------------------------ C13 / C17 / C09
def search_c13(results, tier, seed, broken):
    hits, n, nontriv = [], 0, set()
    for comp, streams, r in results:
        if comp != "ped":
            continue
        for cid, im in r.impl.items():
            n += 1
            nontriv.add(cid)
        for cid, code, text in r.disagreements:
            if code in (1, 2):
                hits.append(_hit(r, comp, streams, cid, "Pedersen commitment law fails on the real code: " + text))
    return hits, {"searched": n, "hits": len(hits), "distinct_nontrivial": len(nontriv), "distribution": _dist(results),
                  "rule": "values 0, 1, -1, 2^64, 2^64+-1, 2^128, 2^128-3, -2^64, -2, random u64, random field element (for v and r independently), default and random base pairs, 3 curves; each case checks commit = msm([B,B~],[v,r]) by an independent arkworks path, Prover::commit = PedersenGens::commit, homomorphism, zero, scaling, and the model's coefficient vector re-materialised over the case's bases; distinct = distinct case ids (all inputs differ)"}


def _tagval(tag, key):
    m = re.search(key + r"=(\S+)", tag)
    return m.group(1) if m else None


def search_c17(results, tier, seed, broken):
    hits, n, nontriv, dist = [], 0, set(), Counter()
    groups = {}
    for comp, streams, r, cid, s, im, m in _r1cs_cases(results):
        tag = s.get("tag", "")
        if not tag.startswith("capgrid"):
            continue
        n += 1
        pn, cp, cv = int(_tagval(tag, "pn")), int(_tagval(tag, "capp")), int(_tagval(tag, "capv"))
        pr, vd = s.get("prover"), s.get("verdict")
        nontriv.add((s["curve"], _tagval(tag, "grp"), cp, cv))
        dist["prover cap%spn -> %s" % ("<" if cp < pn else ">=", pr)] += 1
        if pr == 99 or vd == 99:
            hits.append(_hit(r, comp, streams, cid, "panic at capacities prover=%d verifier=%d, padded size %d: %s" % (cp, cv, pn, im.get(98, ""))))
            continue
        if (cp < pn) != (pr == 3):
            hits.append(_hit(r, comp, streams, cid, "prover capacity %d vs padded size %d: result code %s (InvalidGeneratorsLength expected iff capacity < padded size)" % (cp, pn, pr)))
        if pr == 0:
            dist["verifier cap%spn -> %s" % ("<" if cv < pn else ">=", vd)] += 1
            if (cv < pn) != (vd == 3):
                hits.append(_hit(r, comp, streams, cid, "verifier capacity %d vs padded size %d: verdict code %s" % (cv, pn, vd)))
            if cv >= pn and vd != 0:
                hits.append(_hit(r, comp, streams, cid, "honest proof rejected (verdict %s) with sufficient capacities prover=%d verifier=%d" % (vd, cp, cv)))
            key = (s["curve"], _tagval(tag, "grp"))
            groups.setdefault(key, []).append((cid, cp, (im.get(18) or [""])[0], r, comp, streams))
    for key, lst in groups.items():
        if len(set(b for _, _, b, _, _, _ in lst)) > 1:
            cid, cp, _, r, comp, streams = lst[-1]
            hits.append(_hit(r, comp, streams, cid, "proof bytes depend on the prover's capacity (same program, same RNG): %s" % sorted(set((c, b[:24]) for _, c, b, _, _, _ in lst))[:4]))
    return hits, {"searched": n, "hits": len(hits), "distinct_nontrivial": len(nontriv), "distribution": dict(dist), "exhaustive": True,
                  "rule": "exhaustive grid: (first-phase gates, second-phase gates) in 0..2 x 0..2 (thorough 0..4 x 0..4), prover capacity in {0,1,2,3,4,8} (thorough +{5,7,9,16}), verifier capacity over the same set when proving succeeds, 3 curves, real code; boundary cases (cap = n'-1, n', 2n') also through the model; distinct = distinct (curve, shape, capacities)"}


def search_c09(results, tier, seed, broken):
    hits, n, nontriv, dist = [], 0, set(), Counter()
    groups = {}
    for comp, streams, r, cid, s, im, m in _r1cs_cases(results):
        tag = s.get("tag", "")
        if tag.startswith("rngdet"):
            n += 1
            key = (s["curve"], _tagval(tag, "grp"))
            groups.setdefault(key, {})[int(_tagval(tag, "variant"))] = (cid, im, r, comp, streams, tag)
    # opening check: on honest / rngdet cases every proof component must open to witness part + the recorded draw
    for comp, streams, r in results:
        if comp != "r1cs":
            continue
        for cid, code, text in r.disagreements:
            tag = r.summary.get(cid, {}).get("tag", "")
            if (tag.startswith("honest") or tag.startswith("rngdet")) and code in (5, 6, 9):
                hits.append(_hit(r, comp, streams, cid, "proof component does not open to (witness part + its own fresh draw from the transcript RNG): " + text))
        for cid, s in r.summary.items():
            if s.get("tag", "").startswith("honest"):
                n += 1
                nontriv.add(" ".join((r.impl.get(cid) or {}).get(5, []))[:80])
    def comps(im):
        pts = im.get(6) or []
        sc = im.get(5) or []
        return pts, sc
    for key, g in groups.items():
        if not all(k in g for k in (0, 1, 2, 3)):
            continue
        (c0, i0, r, comp, streams, tag) = g[0]
        p0, s0 = comps(i0)
        n2 = int(_tagval(tag, "n2")); n1 = int(_tagval(tag, "n1"))
        nontriv.add(key)
        if (g[1][1].get(18) != i0.get(18)):
            hits.append(_hit(r, comp, streams, g[1][0], "same statement, same external randomness: proofs differ"))
        for var, why in ((2, "different external randomness"), (3, "same external randomness but different commitment blinding factors"),
                         (4, "same external randomness, other commitment blinding factors with the same sum"),
                         (6, "B~ = 2B, the same commitment points opened as (v-2, r+1) / (v+2, r-1): same transcript, same external randomness, same blinding sum"),
                         (8, "two external generators that agree on their first 8 bytes and differ afterwards")):
            if var not in g:
                continue
            refv = {6: 5, 8: 7}.get(var)
            if refv is not None and refv not in g:
                continue
            ref = g[refv][1] if refv is not None else i0
            p0, s0 = comps(ref)
            p, sc = comps(g[var][1])
            if not p0 or not p:
                continue
            fixed_pts = {3, 4, 5} if n2 == 0 else set()
            for j, (a, b) in enumerate(zip(p0, p)):
                if j in fixed_pts:
                    continue
                if a == b:
                    names = ["A_I1", "A_O1", "S1", "A_I2", "A_O2", "S2", "T_1", "T_3", "T_4", "T_5", "T_6"]
                    hits.append(_hit(r, comp, streams, g[var][0], "%s: component %s is shared between the two proofs" % (why, names[j] if j < 11 else "L/R[%d]" % (j - 11))))
            gate_free = (n1 + n2 == 0)
            for j, (a, b) in enumerate(zip(s0, sc)):
                if gate_free and j in (0, 3, 4):
                    continue
                if a == b:
                    hits.append(_hit(r, comp, streams, g[var][0], "%s: scalar %s is shared between the two proofs" % (why, ["t_x", "t_x_blinding", "e_blinding", "a", "b"][j])))
        dist["groups"] += 1
    return hits, {"searched": n, "hits": len(hits), "distinct_nontrivial": len(nontriv), "distribution": dict(dist),
                  "rule": "honest stream: every proof element re-derived by the model from witness + RECORDED transcript-RNG draws (full algebraic opening, all sizes); rngdet stream: each program proved with seeds (a, a, b) and with seed a but other commitment blindings: equal seeds must give identical bytes, any other pair must share no component except the statement-fixed ones (identity A_I2/A_O2/S2 without second-phase gates; t_x, a, b for gate-free circuits)"}


# ------------------------------------------------------------------ C14
def _is_probable_prime(n):
    if n < 2:
        return False
    for p in (2, 3, 5, 7, 11, 13, 17, 19, 23, 29, 31, 37):
        if n % p == 0:
            return n == p
    d, s = n - 1, 0
    while d % 2 == 0:
        d //= 2; s += 1
    for a in (2, 3, 5, 7, 11, 13, 17, 19, 23, 29, 31, 37):
        x = pow(a, d, n)
        if x in (1, n - 1):
            continue
        for _ in range(s - 1):
            x = x * x % n
            if x == n - 1:
                break
        else:
            return False
    return True


def _small_factor(n, bound=2000000):
    f = 2
    while f < bound:
        if n % f == 0:
            return f
        f += 1 if f == 2 else 2
    return None


def search_c14(results, tier, seed, broken):
    hits, n = [], 0
    for comp, streams, r in results:
        if comp != "zorro" or not hasattr(r, "zorro"):
            continue
        z = r.zorro
        vals, mul = z["vals"], z["mul"]
        n = len(mul) + 8
        q = int(vals["MODULUS_Q"][0]); rr = int(vals["MODULUS_R"][0])
        a = int(vals["COEFF_A"][0]); b = int(vals["COEFF_B"][0]); gx = int(vals["GX"][0]); gy = int(vals["GY"][0])
        def hit(what, **kw):
            hits.append({"component": "zorro", "case": what.split(":")[0], "what": what, "input": kw})
        if not _is_probable_prime(q):
            hit("base-field modulus is composite", modulus=str(q), small_factor=str(_small_factor(q)), witness="Miller-Rabin bases 2..37")
        if not _is_probable_prime(rr) or rr != 2 ** 255 - 19:
            hit("scalar-field modulus is not the prime 2^255-19", modulus=str(rr))
        if (gy * gy - (gx * gx * gx + a * gx + b)) % q != 0:
            hit("declared generator is not on y^2 = x^3 + a x + b with the declared coefficients", gx=str(gx), gy=str(gy), a=str(a), b=str(b))
        if int(vals["RG_INF"][0]) != 1:
            hit("r*G is not the point at infinity (real arkworks arithmetic)", r=str(rr))
        if int(vals["G_INF"][0]) != 0:
            hit("generator is the point at infinity")
        cof = sum(int(x) << (64 * i) for i, x in enumerate(vals["COFACTOR"]))
        if cof != 1:
            hit("cofactor is not one", cofactor=str(cof))
        for x, m, e in mul:
            if m != e:
                hit("mul_by_a(x) differs from COEFF_A * x", x=str(x), mul_by_a=str(m), coeff_a_times_x=str(e))
                break
    return hits, {"searched": n, "hits": len(hits), "distinct_nontrivial": max(n - 8, 0),
                  "rule": "constants exported by the compiled crate compared with the translated source; mul_by_a against COEFF_A*x on value edges (0, +-1, 2, +-(2^64-1)), representation edges (Montgomery limbs q-1, q-2, 2^255, 2^255+1, 2^255-1, random in [2^255, q)) and random elements; curve equation, r*G = infinity and k*G membership on the real arithmetic; distinct = distinct x",
                  "distribution": {"mul_by_a_samples": max(n - 8, 0)}}


# ------------------------------------------------------------------ C06
def search_c06(results, tier, seed, broken):
    """the recorded operation sequences against the specified schedule (model) and against each other"""
    hits, n, nontriv, dist = [], 0, set(), Counter()
    for comp, streams, r in results:
        if comp != "r1cs":
            continue
        for cid, s in r.summary.items():
            im = r.impl.get(cid) or {}
            tag = s.get("tag", "")
            if 7 in im:
                n += 1
                ops = vlib.parse_tr(_ints(im[7]))
                nontriv.add(tuple((k, l) for k, l, _ in ops))
                dist["prover transcript ops=%d" % len(ops)] += 0
            if im.get(22) == ["0"]:
                hits.append(_hit(r, comp, streams, cid, "accepted run: a follow-up challenge drawn from the prover's transcript differs from the one drawn from the verifier's"))
            # honest, unmodified runs: prover and verifier sequences must be identical
            if (tag.startswith("honest") or tag.startswith("cs ")) and 7 in im and 14 in im and s.get("verdict") == 0:
                if im[7] != im[14]:
                    a, b = vlib.parse_tr(_ints(im[7])), vlib.parse_tr(_ints(im[14]))
                    k = next((i for i, (x, y) in enumerate(zip(a, b)) if x != y), min(len(a), len(b)))
                    hits.append(_hit(r, comp, streams, cid, "honest run: prover and verifier transcripts diverge at operation %d (prover %s, verifier %s)" % (
                        k, a[k][:2] if k < len(a) else None, b[k][:2] if k < len(b) else None)))
        for cid, code, text in r.disagreements:
            if code in (7, 14):
                hits.append(_hit(r, comp, streams, cid, "transcript differs from the protocol schedule: " + text))
        # a challenge that follows a diverging operation is derived from a different history
    return hits, {"searched": n, "hits": len(hits), "distinct_nontrivial": len(nontriv), "distribution": _dist(results),
                  "rule": "every transcript operation (kind, label, payload bytes = serialize_uncompressed of the object the schedule names, checked by decoding / MSM) of prover and verifier runs on honest, call-sequence and mutated-proof cases, 1- and 2-phase, 0..2 closures, 3 curves, compared with the model's schedule and with each other; distinct = distinct (kind,label) sequences"}


# ------------------------------------------------------------------ C07
def search_c07(results, tier, seed, broken):
    hits, n, nontriv, dist = [], 0, set(), Counter()
    for comp, streams, r in results:
        if comp != "batch":
            continue
        for cid, s in r.summary.items():
            im = r.impl.get(cid) or {}
            n += 1
            bv = int(im.get(15, ["-1"])[0])
            singles = [int(x) for x in im.get(20, [])]
            kind = _tagval(s["line"], "kind")
            if kind == "sweep":
                acc = int(_tagval(s["line"], "accepted") or 0)
                dist["pair sweep k=%s accepted=%d" % (_tagval(s["line"], "k"), acc)] += 1
                if acc > 0:
                    hits.append(_hit(r, comp, streams, cid, "batch accepted although two members (the same proof with its final scalar shifted by +d and -d) fail individually: positions %s of a batch of %s; %d of %s position pairs accepted" % (
                        _tagval(s["line"], "first"), _tagval(s["line"], "k"), acc, _tagval(s["line"], "pairs"))))
                if int(_tagval(s["line"], "panics") or 0) > 0:
                    hits.append(_hit(r, comp, streams, cid, "batch_verify panicked in the pair sweep"))
                continue
            dist["kind=%s batch=%d all_single_ok=%s" % (kind, bv, all(x == 0 for x in singles))] += 1
            nontriv.add((kind, tuple(singles), s["curve"], len(singles)))
            for nm, cde in zip(("an iterator whose size_hint lower bound is 0 (filter)", "an exact head chained with a lazily sized tail"), [int(x) for x in im.get(23, [])]):
                if cde == 0 and any(x != 0 for x in singles):
                    hits.append(_hit(r, comp, streams, cid, "batch_verify over %s accepts although instances %s fail individually (verdicts %s; over a Vec: %d)" % (nm, [i for i, x in enumerate(singles) if x != 0], singles, bv)))
                elif cde != 0 and all(x == 0 for x in singles):
                    hits.append(_hit(r, comp, streams, cid, "batch_verify over %s rejects (code %d) although every instance verifies individually" % (nm, cde)))
            if bv == 99:
                hits.append(_hit(r, comp, streams, cid, "batch_verify panicked: " + str(im.get(98, ""))))
            elif bv == 0 and any(x != 0 for x in singles):
                hits.append(_hit(r, comp, streams, cid, "batch accepted although instances %s fail individually (verdicts %s)" % ([i for i, x in enumerate(singles) if x != 0], singles)))
            elif bv != 0 and all(x == 0 for x in singles):
                hits.append(_hit(r, comp, streams, cid, "batch rejected (code %d) although every instance verifies individually" % bv))
    return hits, {"searched": n, "hits": len(hits), "distinct_nontrivial": len(nontriv), "distribution": dict(dist),
                  "rule": "batches of 0..4 instances (mixed sizes, 1- and 2-phase), kinds: all honest, one invalid member at every position, the same proof with its final scalar shifted by +d and -d (alone and among honest members), empty, single, an instance with an identity point / extra round inside; weights drawn by the real code from a replayed RNG; the batch verdict is compared with the conjunction of the individual real verdicts and with the model's batch_verify under the same weights; distinct = distinct (kind, individual verdicts, curve)"}


# ------------------------------------------------------------------ C08 / C11
def _hhit(r, cid, what):
    return {"component": "hostile", "streams": ["hostile"], "case": cid, "what": what, "outdir": r.outdir,
            "replay_cmd": "bpharness hostile --seed <seed> --tier <tier>  (see hostile_<curve>.txt)"}


def search_c08(results, tier, seed, broken):
    hits, n, nontriv, dist = [], 0, set(), Counter()
    for comp, streams, r in results:
        if comp == "hostile":
            for c in getattr(r, "crashes", []):
                hits.append(_hhit(r, "crash:%s" % c["curve"], "the process aborts / panics (%s) while handling hostile input [%s]: %s" % (c["message"], c["what"], c["input_hex"][:2000])))
        if comp != "hostile" or not hasattr(r, "hostile"):
            continue
        H = r.hostile
        for g in H["grid"]:
            n += 1
            dist["verify code=%d" % g["code"]] += 1
            nontriv.add((g["cap"], g["n1"], g["n"], g["lL"], g["lR"], g["idflag"]))
            if g["code"] == 99:
                hits.append(_hhit(r, "grid:%s" % g["curve"], "verify panics on a decoded proof with |L_vec|=%d |R_vec|=%d for a circuit with %d multipliers (%d first-phase), generator capacity %d, identity/zero placement %d" % (
                    g["lL"], g["lR"], g["n"], g["n1"], g["cap"], g["idflag"])))
        for ip in H.get("idpat", []):
            n += 1
            dist["identity pattern verify=%d batch=%d/%d" % (ip["verify"], ip["batch1"], ip["batch2"])] += 1
            nontriv.add(("idpat", ip["sample"], ip["pattern"]))
            if 99 in (ip["verify"], ip["batch1"], ip["batch2"]):
                hits.append(_hhit(r, "idpat:%s" % ip["curve"], "panic on a decodable proof with identity / foreign points in pattern %s (second<abc>: state of A_I2, A_O2, S2 with 0 keep, 1 identity, 2 another valid point; id<i>[_<j>]: identity at fixed point i (and j)) on sample circuit %d: verify code %d, batch_verify alone %d, batch_verify next to an honest member %d (99 = panic)" % (
                    ip["pattern"], ip["sample"], ip["verify"], ip["batch1"], ip["batch2"])))
        for b in H["batch"]:
            n += 1
            dist["batch code=%d" % b["code"]] += 1
            if b["code"] == 99:
                hits.append(_hhit(r, "batch:%s" % b["curve"], "batch_verify panics on a batch of %d instances with hostile L/R lengths" % b["k"]))
        for f in H["fuzz"]:
            n += int(f["iters"])
            dist["fuzz decoded"] += int(f["decoded"])
            if int(f["panics"]) > 0:
                hits.append(_hhit(r, "fuzz:%s" % f["curve"], "from_bytes/verify panics on fuzzed bytes %s..." % f["first"][:200]))
        for p in H["prefix"]:
            if p["panicked"] > 0:
                hits.append(_hhit(r, "prefix:%s" % p["curve"], "from_bytes panics on a strict prefix"))
        for b in H["bad"]:
            if b["code"] == 99:
                hits.append(_hhit(r, "bad:%s" % b["curve"], "from_bytes panics on an invalid element (%s at %s)" % (b["kind"], b["pos"])))
        for d in H["dec"]:
            if d["impl"][0] == 99:
                hits.append(_hhit(r, "dec:%s:%s" % (d["curve"], d["kind"]), "from_bytes panics on mis-framed input (%s)" % d["kind"]))
        for a in H["alloc"]:
            n += 1
            dist["alloc peak<=%d" % (1 << max(a["peak"], 1).bit_length())] += 1
            if a["result"] == 99:
                hits.append(_hhit(r, "alloc:%s" % a["curve"], "from_bytes panics on a length prefix of %d" % a["claim"]))
            elif a["peak"] > 64 * a["input"] + 65536:
                hits.append(_hhit(r, "alloc:%s" % a["curve"], "from_bytes allocates %d bytes for a %d-byte input claiming %d elements" % (a["peak"], a["input"], a["claim"])))
    return hits, {"searched": n, "hits": len(hits), "distinct_nontrivial": len(nontriv), "distribution": dict(dist),
                  "rule": "grid: every (|L_vec|,|R_vec|) in 0..4 x 0..4 plus (31,31) (32,32) (33,33) (63,63) (64,64) (65,65) (64,0) (0,64) (32,1) (5,6) (6,5) x circuits n1 in 0..2(3), n2 in 0..2 x generator capacities 1,2,4,8, with identity points / zero scalars placed in the proof on a rotating schedule, through Verifier::verify under catch_unwind; random batches of 0..3 such instances through batch_verify; byte fuzzing (bit flips, truncations, length prefixes incl. 2^40 and u64::MAX, random strings, random byte overwrites) through from_bytes then verify; a counting global allocator bounds from_bytes' peak allocation on huge length prefixes by 64*|input| + 64KiB; the panic / no-panic class is compared with the proved shape model"}


def search_c11(results, tier, seed, broken):
    hits, n, nontriv, dist = [], 0, set(), Counter()
    for comp, streams, r in results:
        if comp == "hostile":
            for c in getattr(r, "crashes", []):
                if c["what"].split(":")[0] in ("prefix", "bad", "dec", "alloc", "fuzz"):
                    hits.append(_hhit(r, "crash:%s" % c["curve"], "an invalid encoding is not rejected with an error: the process aborts / panics (%s) on [%s]: %s" % (c["message"], c["what"], c["input_hex"][:2000])))
        if comp != "hostile" or not hasattr(r, "hostile"):
            continue
        H = r.hostile
        for c in H["codec"]:
            n += 1
            ps, ss = H["widths"][c["curve"]]
            want = 11 * ps + 5 * ss + 16 + 2 * c["k"] * ps
            nontriv.add((c["curve"], c["n"]))
            dist["n=%d len=%d" % (c["n"], c["len"])] += 1
            if c["len"] != want or c["lL"] != c["k"] or c["lR"] != c["k"]:
                hits.append(_hhit(r, "codec:%s" % c["curve"], "honest proof for %d multipliers: %d bytes with |L|=%d |R|=%d; the shape-determined size is %d bytes with k=%d" % (
                    c["n"], c["len"], c["lL"], c["lR"], want, c["k"])))
        for x in H["roundtrip"]:
            n += 1
            if not x["rt"]:
                hits.append(_hhit(r, "roundtrip:%s" % x["curve"], "to_bytes(from_bytes(bytes)) != bytes, or to_bytes is not deterministic"))
            if not x["same_verdict"]:
                hits.append(_hhit(r, "roundtrip:%s" % x["curve"], "the decoded proof verifies differently from the original"))
            if not x["suffix"]:
                hits.append(_hhit(r, "roundtrip:%s" % x["curve"], "bytes followed by an arbitrary suffix do not decode to the same proof"))
        for p in H["prefix"]:
            n += 1
            if p["accepted"] > 0:
                hits.append(_hhit(r, "prefix:%s" % p["curve"], "%d strict prefixes of a %d-byte encoding are accepted by from_bytes" % (p["accepted"], p["total"])))
            if p["panicked"] > 0:
                hits.append(_hhit(r, "prefix:%s" % p["curve"], "%d strict prefixes of a %d-byte encoding make from_bytes panic instead of returning an error" % (p["panicked"], p["total"])))
        for b in H["bad"]:
            n += 1
            dist["bad %s -> %d" % (b["kind"], b["code"])] += 1
            if b["code"] == 0:
                hits.append(_hhit(r, "bad:%s" % b["curve"], "from_bytes accepts an encoding whose field %s holds a %s" % (b["pos"], b["kind"])))
            if b["code"] == 99:
                hits.append(_hhit(r, "bad:%s" % b["curve"], "from_bytes panics instead of returning an error on an encoding whose field %s holds a %s" % (b["pos"], b["kind"])))
        for d in H["dec"]:
            n += 1
            dist["dec %s -> %s" % (d["kind"].rstrip("0123456789"), d["impl"][0])] += 1
            if d["impl"][0] == 99:
                hits.append(_hhit(r, "dec:%s:%d" % (d["curve"], d["idx"]), "from_bytes panics instead of returning an error on input (%s)" % d["kind"]))
            if d["model"] is not None and d["impl"][0] == 1 and d["model"][0] == 0:
                hits.append(_hhit(r, "dec:%s:%d" % (d["curve"], d["idx"]), "from_bytes accepts input (%s) that the layout (11 points, 3 scalars, counted L, counted R, 2 scalars) rejects" % d["kind"]))
    return hits, {"searched": n, "hits": len(hits), "distinct_nontrivial": len(nontriv), "distribution": dict(dist),
                  "rule": "honest proofs for n in 0..4(5) multipliers (1- and 2-phase) on 3 curves: length against the formula, |L|=|R|=k, byte-exact round trip, equal verdict, arbitrary suffix; every strict prefix (all cut points on every 4th sample, every 7th byte plus the last 70 on the others); at every one of the 11+3+2k+2 field positions: a non-canonical scalar (= modulus, all-ones), a byte string that is not a curve point, and on curve25519 a small-order point and a valid point plus a small-order point; the model's decoder run on honest / mis-framed / truncated / extended / corrupted inputs with arkworks' per-chunk validity as the element-codec oracle"}


# ------------------------------------------------------------------ C12 / C18
def _fhit(r, cid, what):
    return {"component": "fixture", "streams": ["fixture"], "case": cid, "what": what, "outdir": r.outdir,
            "replay_cmd": "cd /verif/fixturegen && cargo build --release --offline && target/release/fixturegen record | diff - /verif/fixtures/reference_b4846a6.txt; target/release/fixturegen verify /verif/fixtures/reference_b4846a6.txt"}


def search_c12(results, tier, seed, broken):
    hits, n, nontriv, dist = [], 0, set(), Counter()
    for comp, streams, r in results:
        if comp == "gens":
            for cid, s in r.summary.items():
                n += 1
                tag = (s.get("tag", "") or "-").split()[0]
                im = r.impl.get(cid) or {}
                m = r.model.get(cid) or {}
                dist[tag] += 1
                if tag == "gens-history":
                    a = _ints(im.get(1, []))
                    nontriv.add(tuple(a[:12]))
                    if a == [99]:
                        hits.append(_hit(r, comp, streams, cid, "new / increase_capacity / (de)serialisation panics on history: " + s["line"]))
                    elif m.get(1) is not None and a != m[1]:
                        k = next((i for i, (x, y) in enumerate(zip(a, m[1])) if x != y), min(len(a), len(m[1])))
                        hits.append(_hit(r, comp, streams, cid, "after this history of capacity requests the object differs from the (kind, party, position) table at flattened index %d: implementation holds %s, specification %s (-7 = not a chain output at all); %s" % (
                            k, a[k:k + 1], m[1][k:k + 1], s["line"])))
                elif tag == "gens-view":
                    a = _ints(im.get(2, []))
                    inrange = "inrange=1" in s["line"]
                    if inrange:
                        nontriv.add(tuple(a[:10]))
                        if a == [9]:
                            hits.append(_hit(r, comp, streams, cid, "aggregated iterator panics on an in-range view: " + s["line"]))
                        elif m.get(2) is not None and a != m[2]:
                            hits.append(_hit(r, comp, streams, cid, "aggregated view is not the first n generators of the first m parties in party-major order: implementation %s specification %s; %s" % (a[:12], m[2][:12], s["line"])))
                        fl = _ints(im.get(93, ["1", "1"]))
                        if fl[:1] != [1]:
                            hits.append(_hit(r, comp, streams, cid, "size_hint is wrong or underflows along the iteration: " + s["line"]))
                        if len(fl) > 1 and fl[1] != 1:
                            hits.append(_hit(r, comp, streams, cid, "nth / skip / step_by / last / count on the aggregated iterator do not list the same sequence as next(): " + s["line"]))
                elif tag == "gens-interleave":
                    v = im.get(92, ["-"])
                    dist["interleaved two-curve histories in one process"] += 42
                    if v and v[0] != "-":
                        hits.append(_hit(r, comp, streams, cid, "generators depend on the process history: with objects of two curves created and grown in interleaved order in one process, %s differs from the independent derivation" % v[0]))
                elif tag == "gens-values":
                    v = im.get(91, [])
                    if len(v) >= 7:
                        npts, coll, badm, spec_ok, ped_ok, same_hist = int(v[0]), v[1], v[2], int(v[3]), int(v[4]), int(v[5])
                        dist["points checked"] += npts
                        if coll != "-":
                            hits.append(_hit(r, comp, streams, cid, "two generators coincide on %s: %s" % (s["curve"], coll)))
                        if badm != "-":
                            hits.append(_hit(r, comp, streams, cid, "generator %s on %s is the identity, off the curve or outside the prime-order subgroup" % (badm, s["curve"])))
                        if not spec_ok:
                            hits.append(_hit(r, comp, streams, cid, "generators on %s differ from SHA3-512('GeneratorsChain' || kind || LE32 party) -> ChaCha -> rand point" % s["curve"]))
                        if not ped_ok:
                            hits.append(_hit(r, comp, streams, cid, "Pedersen bases on %s differ from (generator, rand point from ChaCha(SHA3-512(uncompressed generator)))" % s["curve"]))
                        if len(v) >= 8 and v[7] != "-":
                            hits.append(_hit(r, comp, streams, cid, "on %s an object with 65538 parties gives a high party index the wrong chain (expected the stream of label LE32(party)): %s" % (s["curve"], v[7])))
                        if not same_hist:
                            hits.append(_hit(r, comp, streams, cid, "an object grown through 3 -> 100 -> 7 -> cap differs from new(cap) on %s" % s["curve"]))
        if comp == "fixture" and hasattr(r, "fixture"):
            for cid, code, text in r.disagreements:
                if cid.split()[0] in ("GENS", "GEN0", "GENHI", "PED"):
                    n += 1
                    hits.append(_fhit(r, cid, "%s: %s" % (cid, text)))
            n += sum(1 for k in r.fixture["ref"] if k.split()[0] in ("GENS", "GEN0", "GENHI", "PED"))
    return hits, {"searched": n, "hits": len(hits), "distinct_nontrivial": len(nontriv), "distribution": dict(dist),
                  "rule": "random histories (initial capacity 0..5, 0..3 parties, 0..5 requests in 0..23 incl. no-ops and decreasing ones, a serialisation round trip at a random point) and all views (n <= cap+1, m <= parties+1) on several objects, every real point named by the (kind, party, position) of an independently derived specification chain, compared with the model; value facts on 2 + 2*4*256 (thorough 2048) points per curve: pairwise distinct across G, H, parties and the Pedersen bases, non-identity, Valid::check and r*P = 0, equality with the independent derivation; digests of the first 1,2,8,64,256 generators per (curve, kind, party < 4) and the Pedersen bases against the reference revision's recording"}


def search_c18(results, tier, seed, broken):
    hits, n, nontriv, dist = [], 0, set(), Counter()
    for comp, streams, r in results:
        if comp != "fixture" or not hasattr(r, "fixture"):
            continue
        fx = r.fixture
        if fx.get("build_error"):
            hits.append(_fhit(r, "fixturegen", "the public API the reference revision's fixtures were recorded through no longer compiles: " + fx["build_error"][-300:]))
        for k, refv in fx["ref_verdicts"].items():
            n += 1
            cur = fx["verdicts"].get(k)
            nontriv.add(k)
            d = dict(x.split("=") for x in (cur or []))
            dist["recorded proof ok=%s" % d.get("ok")] += 1
            if cur is None:
                hits.append(_fhit(r, k, "recorded proof %s: no verdict from this build" % k))
                continue
            if d.get("ok") != "0" or d.get("ok_cap64") != "0":
                hits.append(_fhit(r, k, "the proof recorded from the reference revision (%s) is no longer accepted for its statement (verdict %s / %s with 64 generators)" % (k, d.get("ok"), d.get("ok_cap64"))))
            for w in ("wrong_const", "wrong_ctx", "wrong_label", "wrong_comm", "reordered"):
                if d.get(w) == "0":
                    hits.append(_fhit(r, k, "the proof recorded from the reference revision (%s) is now accepted for the recorded wrong statement '%s'" % (k, w)))
                elif d.get(w) == "99":
                    hits.append(_fhit(r, k, "verification of the recorded proof (%s) panics for the wrong statement '%s'" % (k, w)))
        for cid, code, text in r.disagreements:
            if code == 40:
                n += 1
                hits.append(_fhit(r, cid, "%s: %s" % (cid, text)))
        n += len(fx["ref"])
    for comp, streams, r in results:
        if comp == "r1cs":
            # freshly generated proofs against the recorded schedule (the model, pinned by the C18 theorems)
            for cid, code, text in r.disagreements:
                if code in (7, 14):
                    n += 1
                    hits.append(_hit(r, comp, streams, cid, "a fresh proof's transcript deviates from the reference schedule: " + text))
    return hits, {"searched": n, "hits": len(hits), "distinct_nontrivial": len(nontriv), "distribution": dict(dist),
                  "rule": "fixtures recorded once from revision b4846a6 through the public API (3 curves x 7 circuits: one multiplier, none, three, two-phase shuffle, mixed 2+3 gates padded to 8, two-phase with a multiplier-free closure, a memo written between two commitments): this build must accept each recorded proof (with 8 and with 64 generators), reject it under a changed constant, changed application data, changed transcript label, shifted commitment and reordered commitments, reproduce every recorded generator digest and Pedersen base, and re-prove byte-identical proofs from the recorded RNG seed"}


# ------------------------------------------------------------------ C04 / C05
def search_c04(results, tier, seed, broken):
    hits, n, nontriv, dist = [], 0, set(), Counter()
    for comp, streams, r in results:
        if comp == "integrity":
            for c in getattr(r, "crashes", []):
                hits.append({"component": comp, "streams": streams, "case": "crash:" + c["curve"], "outdir": r.outdir,
                             "what": "process aborts while decoding / verifying an altered proof [%s]: %s" % (c["what"], c["input_hex"][:2000])})
            for row in getattr(r, "integrity", []):
                if row["kind"] == "BASE":
                    continue
                n += row["total"]
                for k in ("decode_rejected", "identical", "verify_rejected", "accepted", "panicked"):
                    dist["%s %s" % (row["kind"], k)] += row[k]
                nontriv.add((row["kind"], row["curve"], row["proof"]))
                if row["accepted"] > 0:
                    hits.append({"component": comp, "streams": streams, "case": "%s:%s:%d" % (row["kind"], row["curve"], row["proof"]), "outdir": r.outdir,
                                 "what": "an altered proof that decodes to a DIFFERENT proof object is accepted (%d of %d %s alterations on %s); first: %s" % (
                                     row["accepted"], row["total"], row["kind"], row["curve"], row["first"][:3000])})
                if row["panicked"] > 0:
                    hits.append({"component": comp, "streams": streams, "case": "%s:%s:%d" % (row["kind"], row["curve"], row["proof"]), "outdir": r.outdir,
                                 "what": "decoding / verifying an altered proof panics (%d of %d %s alterations on %s); first: %s" % (
                                     row["panicked"], row["total"], row["kind"], row["curve"], row["first"][:3000])})
        if comp == "batch":
            # altered copies of one proof inside a batch: each fails verify alone, so the batch must fail
            for cid, s in r.summary.items():
                im = r.impl.get(cid) or {}
                kind = _tagval(s["line"], "kind")
                n += 1
                if kind == "sweep":
                    acc = int(_tagval(s["line"], "accepted") or 0)
                    dist["batch pair sweep accepted=%d" % acc] += 1
                    if acc > 0:
                        hits.append(_hit(r, comp, streams, cid, "batch_verify accepts a batch containing two altered copies of a proof (final scalar a shifted by +d / -d) at positions %s of %s; %d of %s position pairs accepted" % (
                            _tagval(s["line"], "first"), _tagval(s["line"], "k"), acc, _tagval(s["line"], "pairs"))))
                elif kind in ("2", "5", "8", "9", "10"):
                    bv = int(im.get(15, ["-1"])[0])
                    singles = [int(x) for x in im.get(20, [])]
                    if bv == 0 and any(x != 0 for x in singles):
                        hits.append(_hit(r, comp, streams, cid, "batch_verify accepts altered copies of a proof that verify rejects individually (kind %s, individual verdicts %s)" % (kind, singles)))
        if comp == "r1cs":
            for cid, s in r.summary.items():
                tag = s.get("tag", "")
                if not (tag.startswith("mutate") or tag.startswith("mutfield") or tag.startswith("mutsmall")):
                    continue
                im, m = r.impl.get(cid) or {}, r.model.get(cid) or {}
                if 15 not in im:
                    continue
                n += 1
                nontriv.add(tag[:40])
                verdict = int(im[15][0])
                dist["mutation verdict=%d" % verdict] += 1
                if verdict == 99:
                    hits.append(_hit(r, comp, streams, cid, "verifier panics on a mutated proof: " + tag))
                elif verdict == 0 and m.get(15) not in ([0], None):
                    hits.append(_hit(r, comp, streams, cid, "mutated proof accepted by the implementation, rejected by the model under the same challenges: " + tag))
                elif verdict == 0 and m.get(17) is not None and m.get(17) != [1, 1, 1]:
                    hits.append(_hit(r, comp, streams, cid, "mutated proof accepted although the specification relations say %s: %s" % (m.get(17), tag)))
    return hits, {"searched": n, "hits": len(hits), "distinct_nontrivial": len(nontriv), "distribution": dict(dist),
                  "rule": "per curve, accepted proofs of a 1-phase (2 gates) and a 2-phase (1+2 gates) circuit (thorough: 5 shapes): EVERY single-bit flip of the encoding; every one of the 11+2k point fields negated / +B / +B~ / doubled / random / identity; every scalar +1 / -1 / negated / zero / doubled / random, a<->b; EVERY pairwise swap of point fields; rounds added / dropped / duplicated / reordered / L,R lists swapped; outcome classes: rejected at decoding, decodes to the identical object (re-encoding equals the original bytes), rejected by verify, accepted (violation), panic; plus the model-compared mutation streams"}


def search_c05(results, tier, seed, broken):
    hits, n, nontriv, dist = [], 0, set(), Counter()
    for comp, streams, r in results:
        if comp == "batch":
            for cid, s in r.summary.items():
                if _tagval(s["line"], "kind") != "7":
                    continue
                im = r.impl.get(cid) or {}
                n += 1
                bv = int(im.get(15, ["-1"])[0])
                singles = [int(x) for x in im.get(20, [])]
                dist["batch statement pair: batch=%d singles=%s" % (bv, singles)] += 1
                nontriv.add(("batch-pair", s["curve"], tuple(singles)))
                if bv == 0 and any(x != 0 for x in singles):
                    hits.append(_hit(r, comp, streams, cid, "batch_verify accepts one proof for two statements whose constants deviate by +d and -d (each rejected individually: %s)" % singles))
        if comp != "r1cs":
            continue
        for cid, s in r.summary.items():
            tag = s.get("tag", "")
            if not tag.startswith("statement"):
                continue
            im = r.impl.get(cid) or {}
            kind = tag.split()[1] if len(tag.split()) > 1 else "?"
            n += 1
            verdict = s.get("verdict")
            if s.get("prover") != 0:
                dist["prover failed"] += 1
                continue
            dist["%s -> %s" % (kind, verdict)] += 1
            nontriv.add((kind, s["curve"], tag.split()[-3:][0]))
            if kind == "extra-empty-constraint":
                continue
            if kind == "unused-commitment-plus-torsion" and s["curve"] != "curve25519":
                kind = "none"   # no small-order points on the cofactor-one curves: this is the undeviated control there   # the committed values satisfy the deviating statement too: decided by C03 (relations), not by C05
            if kind == "none":
                mm = r.model.get(cid) or {}
                if verdict != 0 and mm.get(8) == [1]:
                    hits.append(_hit(r, comp, streams, cid, "control case (verifier's statement = prover's) rejected: " + s["line"]))
            elif verdict == 0:
                hits.append(_hit(r, comp, streams, cid, "proof accepted for a different statement / context (%s): %s" % (kind, s["line"])))
            elif verdict == 99:
                hits.append(_hit(r, comp, streams, cid, "verifier panics under a deviating statement (%s)" % kind))
    return hits, {"searched": n, "hits": len(hits), "distinct_nontrivial": len(nontriv), "distribution": dict(dist),
                  "rule": "honest proofs of random 1- and 2-phase circuits (2-3 commitments, >= 1 gate, a constraint over two committed values, user data before and inside the randomized phase) verified against a statement that deviates in exactly one way: commitment value, commitment blinding, reordered commitments, extra, missing commitment, changed coefficient, changed constant, transcript label, application data before / during construction (changed, missing, relabelled), blinding base, value base; plus an undeviated control; every case also runs through the model (verdicts, scalar vectors, transcripts compared); distinct = distinct (kind, curve, size)"}


PROPS = {
    "C01": {
        "prop_files": ["Properties/C01.v"], "run_files": ["Run/R1cs.v"],
        "level": "proof",
        "components": lambda tier: [("r1cs", ["honest", "cs", "large"], {})],
        "search": search_c01,
        "assumptions": ["field and F-module laws; oracle idealisation of Merlin; non-zero inverted challenges; non-identity mandatory points (measure-zero exceptions, rejected by design)"],
    },
    "C02": {
        "prop_files": ["Properties/C02.v"], "run_files": ["Run/R1cs.v"],
        "level": "proof",
        "components": lambda tier: [("r1cs", ["violate", "cancelrows", "honest", "manycons", "forwardref"], {})],
        "search": search_c02,
        "assumptions": ["field and F-module laws, B <> 0; oracle idealisation; the probability statement itself is not formalised (counting form proved)"],
    },
    "C03": {
        "prop_files": ["Properties/C03.v"], "run_files": ["Run/R1cs.v"],
        "level": "proof",
        "components": lambda tier: [("r1cs", ["honest", "violate", "mutate", "mutfields", "mutsmall", "forced", "forge", "statement"], {}), ("integrity-light", ["integrity"], {})],
        "search": search_c03,
        "assumptions": ["field and module laws (hypotheses)", "challenges = oracle on the transcript history; the challenges the run inverts are non-zero (all_nz hypothesis)"],
    },
    "C04": {
        "prop_files": ["Properties/C04.v"], "run_files": ["Run/R1cs.v"],
        "level": "proof",
        "components": lambda tier: [("integrity", ["integrity"], {}), ("r1cs", ["mutate", "mutfields", "mutsmall"], {}), ("batch", ["batch"], {})],
        "search": search_c04,
        "assumptions": ["deterministic content only: at FIXED challenges no single changed field keeps the check at zero (non-zero coefficients), and every field but (a, b) is part of the history the challenges are derived from; that fresh oracle values on a changed history satisfy the equation only with negligible probability, and that relations between independently derived generators are infeasible to find, are the random-oracle / discrete-log assumptions and are not formalised",
                        "field and F-module laws; non-zero challenges"],
    },
    "C05": {
        "prop_files": ["Properties/C05.v"], "run_files": ["Run/R1cs.v"],
        "level": "proof",
        "components": lambda tier: [("r1cs", ["statement"], {}), ("batch", ["batch"], {})],
        "search": search_c05,
        "assumptions": ["as C04: the history pins label, commitments and user data (proved); independence of oracle values on different histories is the random-oracle assumption",
                        "user messages are distinguished from commitments by payload kind in the model (in Merlin both are framed byte strings under their labels)"],
    },
    "C06": {
        "prop_files": ["Properties/C06.v"], "run_files": ["Run/R1cs.v"],
        "level": "proof",
        "components": lambda tier: [("r1cs", ["honest", "cs", "mutate", "forge"], {})],
        "search": search_c06,
        "assumptions": ["Merlin/STROBE + ChaCha + ScalarField::rand = one function RO of the operation history (random-oracle idealisation)",
                        "byte encodings of payloads are arkworks' serialize_uncompressed (checked by K6: decoded / re-materialised)"],
    },
    "C07": {
        "prop_files": ["Properties/C07.v"], "run_files": ["Run/R1cs.v"],
        "level": "proof",
        "components": lambda tier: [("batch", ["batch"], {})],
        "search": search_c07,
        "assumptions": ["field and F-module laws; the weights are drawn after all proofs are fixed (caller's RNG); probability statement in its exact 'at most one alpha_j' form"],
    },
    "C08": {
        "prop_files": ["Properties/C08.v"], "run_files": ["Run/Shape.v", "Run/Codec.v"],
        "level": "proof",
        "components": lambda tier: [("hostile", ["hostile"], {})],
        "search": search_c08,
        "assumptions": ["the shape model (Model/Shape.v) lists the panic sites of verify / batch_verify / verification_scalars by reading the code: indexing, slicing, usize subtraction, shifts, zip truncation, msm(..).unwrap(); panics inside arkworks/merlin are not modelled (exercised by the fuzz stream only)",
                        "debug-assertion builds: overflow checks are on in the harness profile"],
    },
    "C11": {
        "prop_files": ["Properties/C11.v"], "run_files": ["Run/Codec.v"],
        "level": "proof",
        "components": lambda tier: [("hostile", ["hostile"], {})],
        "search": search_c11,
        "assumptions": ["element codecs (arkworks validated compressed mode for points and scalars) are abstract fixed-width codecs with dec(enc x) = x; their rejection of non-canonical scalars, off-curve and small-subgroup points is measured at every field position by K7, not proved",
                        "the executed reader is read_vec_fast, proved equal to the model's reader on byte lists (decode_r_fast_eq)"],
    },
    "C09": {
        "prop_files": ["Properties/C09.v"], "run_files": ["Run/R1cs.v"],
        "level": "proof",
        "components": lambda tier: [("r1cs", ["honest", "rngdet"], {})],
        "search": search_c09,
        "assumptions": ["the TranscriptRng is an arbitrary stream d (its keying with external randomness and v_blindings is checked on the real code by the rngdet stream)",
                        "simulation-based zero knowledge is NOT formalised (no probabilistic ROM framework installed)"],
    },
    "C10": {
        "prop_files": ["Properties/C10.v"], "run_files": ["Run/Ipp.v"],
        "level": "proof",
        "components": lambda tier: [("ipp", ["ipp"], {})],
        "search": search_c10,
        "assumptions": ["scalar field laws, F-module laws for the group (hypotheses of the theorems)",
                        "challenges are a function of the transcript history (oracle); non-zero where the code inverts them"],
    },
    "C12": {
        "prop_files": ["Properties/C12.v"], "run_files": ["Run/Gens.v"],
        "level": "proof",
        "components": lambda tier: [("gens", ["gens"], {}), ("fixture", ["fixture"], {})],
        "search": search_c12,
        "assumptions": ["the hash-to-point chain (SHA3-512, ChaCha, G::rand with cofactor clearing) is a deterministic stream per label: ch kind party i; its VALUES (pairwise distinct, non-identity, prime order, pinned digests) are measured on the real code, not proved",
                        "usize party index fits u32 (labels injective below 2^32 parties)"],
    },
    "C13": {
        "prop_files": ["Properties/C13.v"], "run_files": ["Run/Ped.v"],
        "level": "proof",
        "components": lambda tier: [("ped", ["ped"], {})],
        "search": search_c13,
        "assumptions": ["the curve group with mul_bigint(into_bigint(.)) is an F_r-module (arkworks; sampled by K9 at edge values)"],
    },
    "C14": {
        "prop_files": ["Properties/C14.v"], "run_files": [],
        "level": "proof",
        "pre_build": vlib.run_translator,
        "components": lambda tier: [("zorro", ["zorro"], {})],
        "search": search_c14,
        "coqchk": False,
        "assumptions": ["NOT formalised: associativity of the chord-and-tangent law, Lagrange's theorem, Hasse's bound (with them the proved facts give #E = r exactly)",
                        "translator tools/gen_zorro_consts.py (regex extraction), guarded by K12 against the compiled crate"],
    },
    "C15": {
        "prop_files": ["Properties/C15.v"], "run_files": ["Run/Lc.v"],
        "level": "proof",
        "components": lambda tier: [("lc", ["trees"], {}), ("r1cs", ["lcprove"], {})],
        "search": search_c15,
        "assumptions": ["scalar field laws (hypothesis FieldLaws of every theorem; arkworks Fp implements a prime field)",
                        "term lists read through the derived Debug output of LinearCombination"],
    },
    "C16": {
        "prop_files": ["Properties/C16.v"], "run_files": ["Run/R1cs.v"],
        "level": "proof",
        "components": lambda tier: [("r1cs", ["cs"], {})],
        "search": search_c16,
        "assumptions": ["programs are interaction trees over the public ConstraintSystem API (no fabricated out-of-range Variables, no direct transcript challenges)"],
    },
    "C17": {
        "prop_files": ["Properties/C17.v"], "run_files": ["Run/R1cs.v", "Run/Shape.v"],
        "level": "proof",
        "components": lambda tier: [("r1cs", ["capgrid"], {})],
        "search": search_c17,
        "assumptions": ["BulletproofGens.gens_capacity equals the length of the party-0 vectors (true for objects built by new/increase_capacity)"],
    },
    "C18": {
        "prop_files": ["Properties/C18.v"], "run_files": ["Run/R1cs.v"],
        "level": "translation_validation",
        "components": lambda tier: [("fixture", ["fixture"], {}), ("r1cs", ["honest"], {})],
        "search": search_c18,
        "assumptions": ["fixtures in /verif/fixtures were recorded once from revision b4846a6 through the public API (procedure in fixtures/README.md); they are data, not theorems",
                        "fresh proofs against the recorded schedule: the honest stream's transcripts (labels, payload objects, order) are compared with the model, which is pinned to the reference format by the C18 theorems"],
    },
}
