#!/bin/bash
# tools/seedtest.sh <seed-id> <prop> [<prop>...] : apply a seeded change to /repo, run the checks, undo it.
S=$1; shift
cd /verif
git -C /repo apply /verif/seeded/$S/patch.diff || { echo "patch does not apply"; exit 2; }
for P in "$@"; do
  ./check $P --tier ${TIER:-quick} > work/seedtest_${S}_$P.log 2>&1; rc=$?
  echo "== $S on $P: exit $rc :: $(grep -E '^VIOLATION|^KNOWN' work/seedtest_${S}_$P.log | head -3 | tr '\n' ' ') $(tail -1 work/seedtest_${S}_$P.log)"
done
git -C /repo checkout -- . ; git -C /repo status --short | head -3
