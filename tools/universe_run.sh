#!/bin/bash
# u_run.sh N item...   item = clean:Cxx  or  Sxx_7:Cxx
N=$1; shift; U=/tmp/u$N; cd $U/verif
for it in "$@"; do
  a=${it%%:*}; P=${it##*:}
  if [ "$a" = clean ]; then
    ./check $P --tier quick > work/clean_$P.log 2>&1; rc=$?
    echo "== CLEAN $P: exit $rc :: $(grep -E '^VIOLATION|^KNOWN' work/clean_$P.log | head -3 | tr '\n' ' ') $(tail -1 work/clean_$P.log)"
  else
    tools/seedtest.sh $a $P
  fi
done
echo ALLDONE
