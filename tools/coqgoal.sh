#!/bin/bash
# coqgoal.sh FILE LINE : show the proof state after line LINE of FILE (development helper)
F=$1; L=$2
T=$(mktemp -d)
head -n $L $F > $T/g.v
echo "Show." >> $T/g.v
(cd $T && coqc -Q ${COQROOT:-/verif/coq}/theories BP g.v 2>&1 | grep -v "^Error: There are pending proofs" | head -${3:-60})
rm -rf $T
