#!/usr/bin/env python3
"""./check <Cxx> [--tier quick|thorough] [--replay FILE]

One run = (1) proof obligations of the property (Coq build, statements, Print Assumptions, forbidden-token grep),
(2) correspondence of the model with /repo's current working tree on generated inputs,
(3) property-specific search for a concrete failing input, (4) verdict, (5) evidence."""
import json, os, re, sys, time, glob, hashlib, subprocess
sys.path.insert(0, os.path.dirname(os.path.abspath(__file__)))
import vlib
from props import PROPS

FORBIDDEN = re.compile(r"\b(Admitted|admit|Axiom|Axioms|Parameter|Parameters|Conjecture|Conjectures|Abort All)\b|Unset Guard Checking|Unset Positivity Checking|Unset Universe Checking|bypass_check|type-in-type|impredicative-set|Admit Obligations")
ALLOWED_AXIOM_PREFIXES = ("Uint63.", "PrimInt63.", "Coq.Numbers.Cyclic.Int63", "PrimFloat", "FloatAxioms", "Sint63")


def strip_comments(src):
    out = []
    depth = 0
    i = 0
    while i < len(src):
        if src.startswith("(*", i):
            depth += 1
            i += 2
        elif src.startswith("*)", i) and depth > 0:
            depth -= 1
            i += 2
        else:
            if depth == 0:
                out.append(src[i])
            i += 1
    return "".join(out)


def grep_forbidden():
    hits = []
    for f in glob.glob(os.path.join(vlib.COQ, "theories", "**", "*.v"), recursive=True):
        src = strip_comments(open(f).read())
        # string literals can mention the words
        src_ns = re.sub(r'"[^"]*"', '""', src)
        for m in FORBIDDEN.finditer(src_ns):
            hits.append("%s: %s" % (os.path.relpath(f, vlib.COQ), m.group(0)))
        # Variable/Hypothesis/Context outside a section
        depth = 0
        for line in src_ns.splitlines():
            s = line.strip()
            if re.match(r"(Section|Module)\s", s):
                depth += 1
            elif re.match(r"End\s", s):
                depth -= 1
            elif depth == 0 and re.match(r"(Variable|Variables|Hypothesis|Hypotheses|Context)\b", s):
                hits.append("%s: top-level %s" % (os.path.relpath(f, vlib.COQ), s[:40]))
    return hits


def proof_obligations(pid, spec, tier):
    """build, then compile the property file(s) capturing Print Assumptions"""
    t0 = time.time()
    res = {"ok": True, "theorems": [], "problems": [], "obligations": 0, "discharged": 0}
    if spec.get("pre_build"):
        okp, msg = spec["pre_build"]()
        if not okp:
            res["ok"] = False
            res["problems"].append("translator: " + msg)
    vo = [f[:-2] + ".vo" for f in spec["prop_files"]] + [f[:-2] + ".vo" for f in spec.get("run_files", [])]
    rc, out = vlib.coq_make(["theories/" + v for v in vo])
    if "Error" in out or rc != 0 or "***" in out:
        res["ok"] = False
        res["problems"].append("coq build failed: " + out[-1500:])
    for pf in spec["prop_files"]:
        path = os.path.join(vlib.COQ, "theories", pf)
        src = open(path).read()
        names = re.findall(r"^\s*Theorem\s+(\w+)", strip_comments(src), re.M)
        res["obligations"] += len(names)
        rc, out = vlib.sh(["coqc", "-Q", os.path.join(vlib.COQ, "theories"), "BP", "-o", "/dev/null", path] if False else
                          "cd %s && coqc -Q theories BP theories/%s 2>&1" % (vlib.COQ, pf), timeout=1800)
        if rc != 0:
            res["ok"] = False
            res["problems"].append("%s does not compile: %s" % (pf, out[-1200:]))
            continue
        # Print Assumptions output blocks, in order
        blocks = re.split(r"\n(?=Closed under the global context|Axioms:)", "\n" + out)
        pa = [b for b in blocks if b.startswith("Closed under") or b.startswith("Axioms:")]
        n_print = len(re.findall(r"Print Assumptions\s+(\w+)", strip_comments(src)))
        if n_print != len(names) or len(pa) != len(names):
            res["ok"] = False
            res["problems"].append("%s: %d theorems, %d Print Assumptions, %d outputs" % (pf, len(names), n_print, len(pa)))
        for name, b in zip(names, pa):
            if b.startswith("Closed under"):
                res["discharged"] += 1
                res["theorems"].append({"name": name, "axioms": []})
            else:
                axs = re.findall(r"^([A-Za-z_][\w.']*)\s*:", b[len("Axioms:"):], re.M)
                bad = [a for a in axs if not a.startswith(ALLOWED_AXIOM_PREFIXES) and a not in spec.get("allowed_axioms", [])]
                res["theorems"].append({"name": name, "axioms": axs})
                if bad:
                    res["ok"] = False
                    res["problems"].append("%s depends on axioms outside the allow-list: %s" % (name, bad))
                else:
                    res["discharged"] += 1
    hits = grep_forbidden()
    if hits:
        res["ok"] = False
        res["problems"].append("forbidden tokens: " + "; ".join(hits[:10]))
    if tier == "thorough" and res["ok"] and spec.get("coqchk", True):
        mods = ["BP." + pf[:-2].replace("/", ".") for pf in spec["prop_files"]]
        rc, out = vlib.sh("cd %s && (timeout 1500 coqchk -silent -o -Q theories BP %s 2>&1; echo COQCHK_EXIT=$?) | tail -40" % (vlib.COQ, " ".join(mods)), timeout=1600)
        res["coqchk"] = out[-1500:]
        m_ax = re.search(r"\* Axioms:\s*(.*?)\n\s*\n", out, re.S)
        axioms_none = bool(m_ax) and m_ax.group(1).strip() == "<none>"
        if "COQCHK_EXIT=0" not in out or not axioms_none:
            res["ok"] = False
            res["problems"].append("coqchk failed: " + out[-800:])
    res["wall"] = time.time() - t0
    return res


def load_known():
    p = os.path.join(vlib.VERIF, "known_findings.json")
    if os.path.exists(p):
        return json.load(open(p))
    return {"findings": [], "fixed": []}


def main():
    args = sys.argv[1:]
    pid = args[0]
    tier = os.environ.get("VERIF_TIER", "quick")
    if "--tier" in args:
        tier = args[args.index("--tier") + 1]
    seed = int(os.environ.get("VERIF_SEED", "1"))
    replay = args[args.index("--replay") + 1] if "--replay" in args else None
    spec = PROPS[pid]
    t0 = time.time()
    os.makedirs(vlib.WORK, exist_ok=True)

    if replay:
        rp = json.load(open(replay))
        seed = rp.get("seed", seed)
        tier = rp.get("tier", tier)

    # (1) proof obligations
    po = proof_obligations(pid, spec, tier)

    # (2) correspondence: rebuild harness against /repo's working tree, run components
    okb, outb = vlib.build_harness()
    comp_results = []
    problems = list(po["problems"])
    if not okb:
        problems.append("harness does not build against /repo: " + outb[-1500:])
    else:
        for (comp, streams, kwargs) in spec["components"](tier):
            if comp == "zorro":
                r = vlib.run_zorro_component(seed, tier, "%s_zorro" % pid)
            elif comp in vlib.CUSTOM:
                r = vlib.CUSTOM[comp](seed, tier, "%s_%s" % (pid, comp))
            else:
                r = vlib.run_component(comp, streams, seed, tier, "%s_%s_%s" % (pid, comp, "_".join(streams))[:60], **kwargs)
            comp_results.append((comp, streams, r))

    disagreements = []
    for comp, streams, r in comp_results:
        for d in r.disagreements:
            disagreements.append({"component": comp, "streams": streams, "case": d[0], "observable": d[1], "text": d[2]})

    # (3) search
    hits = []
    search_info = {}
    if okb:
        hits, search_info = spec["search"](comp_results, tier, seed, broken=bool(problems or disagreements))

    known = load_known()
    known_for = [k for k in known.get("findings", []) if k["property"] == pid]
    new_hits = []
    for h in hits:
        k = next((k for k in known_for if re.search(k["match"], h["what"])), None)
        if k:
            print("KNOWN-FINDING: property=%s %s" % (pid, k["what"]))
        else:
            new_hits.append(h)

    violations = 0
    verdict_lines = []
    if new_hits:
        violations = len(new_hits)
        path = vlib.write_replay(pid, {"property": pid, "seed": seed, "tier": tier, "kind": "failing-input",
                                       "hits": new_hits[:20], "disagreements": disagreements[:20], "proof_problems": problems})
        verdict_lines.append("VIOLATION property=%s replay=%s" % (pid, path))
    elif problems or disagreements:
        violations = 1
        path = vlib.write_replay(pid, {"property": pid, "seed": seed, "tier": tier, "kind": "broken-obligation-or-correspondence",
                                       "no_longer_checks": problems[:10] + [d["text"] for d in disagreements[:10]],
                                       "disagreements": disagreements[:40], "search": search_info})
        verdict_lines.append("VIOLATION property=%s replay=%s no-failing-input-found" % (pid, path))

    # (5) evidence
    evaluations = sum(r.cases for _, _, r in comp_results) + search_info.get("extra_evaluations", 0)
    samples = []
    for comp, streams, r in comp_results:
        for cid in list(r.summary.keys())[:3]:
            samples.append({"component": comp, "case": cid, "summary": r.summary[cid].get("line", "")})
    samples += search_info.get("samples", [])[:5]
    nontrivial = search_info.get("distinct_nontrivial", 0)
    trusted = ["Coq 8.16.1 kernel (vm_compute used; no native_compute)",
               "model-to-code tie: differential correspondence check (Rust harness + instrumented Merlin copy + Coq vm_compute evaluation)",
               "Bignums BigZ / Uint63 primitives only in the executable instance (Run/), not in property theorems"] + spec.get("trusted", [])
    coverage = {
        "obligations": max(po["obligations"], 1), "discharged": po["discharged"],
        "checker_cmd": "cd /verif/coq && make theories/%s.vo && coqc -Q theories BP theories/%s (Print Assumptions per theorem)" % (spec["prop_files"][0][:-2], spec["prop_files"][0]),
        "trusted_base": trusted,
        "theorems": po["theorems"],
        "evaluations": evaluations, "distinct_nontrivial": nontrivial,
        "rule": search_info.get("rule", spec.get("rule", "")),
        "samples": samples or [{"note": "no generated cases in this run"}],
        "traces_validated_against_impl": sum(r.cases for _, _, r in comp_results),
        "points_rematerialised_by_msm": sum(r.msm_checked for _, _, r in comp_results),
        "correspondence_disagreements": len(disagreements),
        "input_distribution": search_info.get("distribution", {}),
        "proof_problems": problems,
        "programs": evaluations, "disagreements_checked": len(disagreements),
        "search": {k: v for k, v in search_info.items() if k in ("searched", "hits", "note")},
    }
    vlib.write_evidence(pid, tier, seed, spec["level"], coverage, spec.get("assumptions", []), time.time() - t0, violations)
    for l in verdict_lines:
        print(l)
    print("%s tier=%s seed=%d obligations=%d/%d cases=%d disagreements=%d hits=%d wall=%.1fs" % (
        pid, tier, seed, po["discharged"], po["obligations"], evaluations, len(disagreements), len(new_hits), time.time() - t0))
    sys.exit(1 if verdict_lines else 0)


if __name__ == "__main__":
    main()
