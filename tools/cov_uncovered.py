#!/usr/bin/env python3
"""reads `llvm-cov show` text, prints file:line: source for executable lines with count 0 outside #[cfg(test)] modules"""
import sys, re
cur = None; in_test = False
for line in sys.stdin:
    m = re.match(r"^(/repo/src/\S+):$", line.strip())
    if m:
        cur = m.group(1); in_test = False; continue
    m = re.match(r"^\s*(\d+)\|\s*([0-9.kMG]*)\|(.*)$", line)
    if not m or cur is None:
        continue
    ln, cnt, src = int(m.group(1)), m.group(2), m.group(3)
    if "#[cfg(test)]" in src:
        in_test = True
    if in_test:
        continue
    if cnt == "0":
        print("%s:%d: %s" % (cur, ln, src.rstrip()))
