#!/usr/bin/env python3
"""Translator (C14): regenerates coq/theories/Gen/ZorroConstsGen.v from /repo/src/curve/zorro/*.rs
(and the registry copy of ark-ed25519 for the re-exported scalar field) on every run.
Fails loudly (exit 2 + message) when the source leaves the small grammar it understands."""
import re, sys, os, glob, json

REPO = "/repo"
OUT = os.path.join(os.path.dirname(os.path.dirname(os.path.abspath(__file__))), "coq", "theories", "Gen", "ZorroConstsGen.v")


class Untranslatable(Exception):
    pass


def need(m, what):
    if not m:
        raise Untranslatable(what)
    return m


def translate():
    fq = open(os.path.join(REPO, "src/curve/zorro/fq.rs")).read()
    fr = open(os.path.join(REPO, "src/curve/zorro/fr.rs")).read()
    g1 = open(os.path.join(REPO, "src/curve/zorro/g1.rs")).read()
    q = int(need(re.search(r'#\[modulus\s*=\s*"(\d+)"\]', fq), "fq.rs: #[modulus = \"...\"]").group(1))
    fq_gen = int(need(re.search(r'#\[generator\s*=\s*"(\d+)"\]', fq), "fq.rs: #[generator]").group(1))
    need(re.search(r"pub type Fq\s*=\s*Fp256<MontBackend<FqConfig,\s*4>>", fq), "fq.rs: Fq = Fp256<MontBackend<FqConfig, 4>>")
    # scalar field: followed through the re-export
    m = need(re.search(r"pub use (\w+)::Fq as Fr;", fr), "fr.rs: `pub use <crate>::Fq as Fr;`")
    crate = m.group(1)
    lock = open(os.path.join(REPO, "Cargo.lock")).read()
    r = None
    chain = []
    for _ in range(4):
        ver = need(re.search(r'name = "%s"\nversion = "([^"]+)"' % crate.replace("_", "-"), lock), "Cargo.lock: version of " + crate).group(1)
        cands = glob.glob(os.path.expanduser("~/.cargo/registry/src/*/%s-%s/src/fields/fq.rs" % (crate.replace("_", "-"), ver)))
        if not cands:
            raise Untranslatable("registry source of %s %s not found" % (crate, ver))
        chain.append("%s %s" % (crate, ver))
        ed = open(cands[0]).read()
        mm = re.search(r'#\[modulus\s*=\s*"(\d+)"\]', ed)
        if mm:
            need(re.search(r"pub type Fq\s*=\s*Fp256<MontBackend<FqConfig,\s*4>>", ed), crate + " fq.rs: Fq type")
            r = int(mm.group(1))
            break
        nx = need(re.search(r"pub use (\w+)::\{?\s*Fq\b", ed), crate + " fq.rs: neither a modulus nor a re-export of Fq")
        crate = nx.group(1)
    if r is None:
        raise Untranslatable("scalar field modulus not found following re-exports")
    crate = " -> ".join(chain)
    ver = ""
    # curve constants
    def montfp(name):
        mm = need(re.search(r"const\s+%s\s*:\s*Fq\s*=\s*MontFp!\(\s*\"(-?\d+)\"\s*\)\s*;" % name, g1, re.S), "g1.rs: const %s: Fq = MontFp!(\"...\")" % name)
        return int(mm.group(1)) % q
    a = montfp("COEFF_A")
    b = montfp("COEFF_B")
    gx = montfp("G_GENERATOR_X")
    gy = montfp("G_GENERATOR_Y")
    need(re.search(r"const GENERATOR: Affine<Self> = Affine::new_unchecked\(G_GENERATOR_X, G_GENERATOR_Y\);", g1), "g1.rs: GENERATOR = (G_GENERATOR_X, G_GENERATOR_Y)")
    cof = need(re.search(r"const COFACTOR: &'static \[u64\] = &\[([^\]]*)\];", g1), "g1.rs: COFACTOR").group(1)
    limbs = [int(x.strip(), 16) if x.strip().lower().startswith("0x") else int(x.strip()) for x in cof.split(",") if x.strip()]
    cofactor = sum(l << (64 * i) for i, l in enumerate(limbs))
    cinv = need(re.search(r"const COFACTOR_INV: Fr = ([^;]+);", g1), "g1.rs: COFACTOR_INV").group(1).strip()
    if cinv != "Fr::ONE":
        raise Untranslatable("g1.rs: COFACTOR_INV is not Fr::ONE")
    need(re.search(r"type BaseField = Fq;\s*type ScalarField = Fr;", g1), "g1.rs: BaseField/ScalarField")
    # mul_by_a: let-bindings of sums over x / &x / bound names
    body = need(re.search(r"fn mul_by_a\(x: Self::BaseField\) -> Self::BaseField \{(.*?)\n    \}", g1, re.S), "g1.rs: fn mul_by_a").group(1)
    stmts = [s.strip() for s in body.strip().split(";")]
    names = {"x"}
    coq_lets = []
    def expr(e):
        terms = [t.strip() for t in e.split("+")]
        out = []
        for t in terms:
            t = t.lstrip("&").strip()
            if not re.fullmatch(r"[a-z_][a-z0-9_]*", t) or t not in names:
                raise Untranslatable("g1.rs: mul_by_a term %r outside the grammar (sums of x / bound names)" % t)
            out.append(t)
        return " + ".join(out)
    for st in stmts[:-1]:
        mm = need(re.fullmatch(r"let\s+([a-z_][a-z0-9_]*)\s*=\s*(.+)", st, re.S), "g1.rs: mul_by_a statement %r" % st)
        coq_lets.append((mm.group(1), expr(mm.group(2))))
        names.add(mm.group(1))
    final = expr(stmts[-1])
    return dict(q=q, fq_gen=fq_gen, r=r, a=a, b=b, gx=gx, gy=gy, cofactor=cofactor, lets=coq_lets, final=final,
                scalar_crate=crate)


def emit(c):
    lets = "".join("  let %s := %s in\n" % (n, e) for n, e in c["lets"])
    return """(* GENERATED on every run by tools/gen_zorro_consts.py from /repo/src/curve/zorro/{fq,fr,g1}.rs and
   %(scalar_crate)s (followed through `pub use ... as Fr`).  Do not edit. *)
Require Import ZArith.
Open Scope Z_scope.
Definition q : Z := %(q)d.
Definition fq_generator : Z := %(fq_gen)d.
Definition r_fr : Z := %(r)d.
Definition coeff_a : Z := %(a)d.
Definition coeff_b : Z := %(b)d.
Definition gx : Z := %(gx)d.
Definition gy : Z := %(gy)d.
Definition cofactor : Z := %(cofactor)d.
(* fn mul_by_a, statement by statement *)
Definition mul_by_a_gen (x : Z) : Z :=
%(lets)s  %(final)s.
""" % dict(c, lets=lets)


def main():
    try:
        c = translate()
    except Untranslatable as e:
        print("UNTRANSLATABLE: " + str(e))
        return 2
    txt = emit(c)
    os.makedirs(os.path.dirname(OUT), exist_ok=True)
    old = open(OUT).read() if os.path.exists(OUT) else None
    if old != txt:
        open(OUT, "w").write(txt)
    json.dump({k: (str(v) if isinstance(v, int) else v) for k, v in c.items()}, open(OUT[:-2] + ".json", "w"), indent=1)
    print("translated: " + OUT + (" (changed)" if old != txt else " (unchanged)"))
    return 0


if __name__ == "__main__":
    sys.exit(main())
