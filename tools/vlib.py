#!/usr/bin/env python3
"""Shared machinery of the checks: build steps, running harness + model, diffing observables,
msm re-materialisation of points, evidence files, verdict lines."""
import json, os, re, subprocess, sys, time, hashlib, glob, shutil
from concurrent.futures import ThreadPoolExecutor

VERIF = os.path.dirname(os.path.dirname(os.path.abspath(__file__)))
COQ = os.path.join(VERIF, "coq")
HARNESS = os.path.join(VERIF, "harness")
BIN = os.environ.get("VERIF_HARNESS_BIN") or os.path.join(HARNESS, "target", "release", "bpharness")  # override: tools/coverage.sh only
WORK = os.path.join(VERIF, "work")
REPLAYS = os.path.join(VERIF, "replays")
EVID = os.path.join(VERIF, "evidence")

ENV = dict(os.environ)
ENV["CARGO_NET_OFFLINE"] = "true"
ENV["RUSTFLAGS"] = "--cfg ark_bulletproofs_verif -A unexpected_cfgs -A warnings"
ENV["CARGO_TARGET_DIR"] = os.path.join(HARNESS, "target")


def sh(cmd, cwd=None, timeout=3600, env=None, check=False):
    p = subprocess.run(cmd, shell=isinstance(cmd, str), cwd=cwd, env=env or ENV, timeout=timeout,
                       stdout=subprocess.PIPE, stderr=subprocess.STDOUT, text=True)
    if check and p.returncode != 0:
        raise RuntimeError("command failed: %s\n%s" % (cmd, p.stdout[-4000:]))
    return p.returncode, p.stdout


# ---------------------------------------------------------------- builds
def build_harness():
    """cargo's own freshness check makes this cheap when /repo is unchanged; always rebuilds against /repo's working tree"""
    lock_src = "/repo/Cargo.lock"
    if os.environ.get("VERIF_HARNESS_BIN"):
        return os.path.exists(BIN), "prebuilt harness (coverage audit)"
    rc, out = sh("cargo build --release --offline 2>&1 | tail -40", cwd=HARNESS, timeout=3000)
    ok = os.path.exists(BIN) and "error" not in out.lower().replace("errors.rs", "")
    rc2, _ = sh("cargo build --release --offline", cwd=HARNESS, timeout=3000)
    return rc2 == 0, out


def coq_make(targets=None, jobs=16, timeout=3000):
    if not os.path.exists(os.path.join(COQ, "Makefile")):
        sh("coq_makefile -f _CoqProject -o Makefile", cwd=COQ, check=True)
    t = " ".join(targets) if targets else ""
    return sh("timeout %d make -j%d %s 2>&1 | tail -60" % (timeout, jobs, t), cwd=COQ, timeout=timeout + 60)


# ---------------------------------------------------------------- model evaluation
def run_coq_shards(outdir, timeout=1500):
    files = sorted(glob.glob(os.path.join(outdir, "cases_*.v")))

    def one(f):
        out = f[:-2] + ".out"
        t0 = time.time()
        p = subprocess.run(["timeout", str(timeout), "coqc", "-noglob", "-Q", os.path.join(COQ, "theories"), "BP", f],
                           stdout=subprocess.PIPE, stderr=subprocess.STDOUT, text=True, cwd=outdir)
        open(out, "w").write(p.stdout)
        return f, p.returncode, time.time() - t0

    with ThreadPoolExecutor(max_workers=16) as ex:
        res = list(ex.map(one, files))
    return res


_num = re.compile(r"-?\d+")


def parse_model_out(path):
    """each `Eval vm_compute` prints `= [[..]; ..] : list (list Z)`; returns list of list-of-list-of-int"""
    txt = open(path).read()
    blocks = []
    for m in re.finditer(r"^\s+= (.*?)\n\s+: list \(list Z\)", txt, re.S | re.M):
        body = m.group(1).replace("%Z", "").replace("\n", " ")
        body = body.strip()
        # nested list syntax [[a; b]; [c]]
        inner = re.findall(r"\[([^\[\]]*)\]", body)
        blocks.append([[int(x) for x in _num.findall(s)] for s in inner])
    return blocks, txt


def load_model(outdir):
    order = [l.split() for l in open(os.path.join(outdir, "order.txt")).read().splitlines() if l.strip()]
    per_shard = {}
    errors = []
    for f in sorted(glob.glob(os.path.join(outdir, "cases_*.out"))):
        sh_i = int(re.search(r"cases_(\d+)\.out", f).group(1))
        blocks, txt = parse_model_out(f)
        per_shard[sh_i] = blocks
        if "Error" in txt:
            errors.append((f, txt[txt.index("Error"):][:600]))
    model = {}
    counters = {}
    for sh_i, cid in order:
        sh_i = int(sh_i)
        k = counters.get(sh_i, 0)
        counters[sh_i] = k + 1
        bl = per_shard.get(sh_i, [])
        if k < len(bl):
            model[cid] = {o[0]: o[1:] for o in bl[k] if o}
        else:
            model[cid] = None
    return model, errors


def load_impl(outdir):
    impl = {}
    for line in open(os.path.join(outdir, "impl.txt")):
        t = line.rstrip("\n").split(" ")
        if len(t) < 2:
            continue
        cid, code = t[0], int(t[1])
        if code in (97, 98):
            impl.setdefault(cid, {})[code] = " ".join(t[2:])
        else:
            impl.setdefault(cid, {})[code] = [x for x in t[2:] if x != ""]
    return impl


def load_summary(outdir):
    s = {}
    for line in open(os.path.join(outdir, "summary.txt")):
        t = line.split()
        if len(t) < 2:
            continue
        d = {"curve": t[1], "line": line.strip()}
        m = re.search(r"basis=(\d+),(\d+)", line)
        if m:
            d["cap"], d["extra"] = int(m.group(1)), int(m.group(2))
        m = re.search(r"tag=(.*?) prover=", line)
        if m:
            d["tag"] = m.group(1)
        for key in ("prover", "scalars", "verdict"):
            m = re.search(key + r"=(\d+)", line)
            if m:
                d[key] = int(m.group(1))
        s[t[0]] = d
    return s


def split_lenpref(lst):
    out = []
    i = 0
    while i < len(lst):
        n = lst[i]
        out.append(lst[i + 1:i + 1 + n])
        i += 1 + n
    return out


def parse_tr(lst):
    """[kind, |label|, label.., |payload|, payload..]*"""
    ops = []
    i = 0
    while i < len(lst):
        kind = lst[i]
        ll = lst[i + 1]
        label = bytes(lst[i + 2:i + 2 + ll])
        j = i + 2 + ll
        pl = lst[j]
        payload = lst[j + 1:j + 1 + pl]
        ops.append((kind, label, payload))
        i = j + 1 + pl
    return ops


EXACT = {1, 2, 3, 4, 5, 10, 11, 12, 13, 15, 19, 20, 21}
MODEL_ONLY = {8, 17}
IMPL_ONLY = {18, 22, 23, 24}
POINTS = {6, 16}
TRANS = {7, 14}
OBS_NAMES = {19: "prover outcome class",
             1: "prover phase-1 call results", 2: "prover secrets after phase 1", 3: "prove result",
             4: "prover phase-2 call results", 5: "proof scalars (t_x,t_x_blinding,e_blinding,a,b)",
             6: "proof points", 7: "prover transcript", 9: "rng draws", 10: "verifier phase-1 call results",
             11: "verifier phase-2 call results", 12: "verification_scalars result", 13: "verification scalar vector",
             14: "verifier transcript", 15: "verify verdict", 16: "commitments"}


def compare_case(cid, m, im, info, msm_lines):
    """returns list of disagreements (code, text); appends msm checks (tag, curve, cap, extra, hex, coeffs)"""
    dis = []
    if m is None:
        return [(0, "model produced no output for this case")]
    if im is None:
        return [(0, "implementation produced no output for this case")]
    curve, cap, extra = info["curve"], info.get("cap", 1), info.get("extra", 0)
    codes = sorted((set(k for k in m.keys() if k not in MODEL_ONLY) | set(k for k in im.keys() if k < 90 and k not in IMPL_ONLY)))
    for code in codes:
        a = m.get(code)
        b = im.get(code)
        if a is None or b is None:
            dis.append((code, "%s: present on %s side only" % (OBS_NAMES.get(code, code), "model" if b is None else "implementation")))
            continue
        if code in EXACT:
            bb = [int(x) for x in b]
            if a != bb:
                k = next((i for i, (x, y) in enumerate(zip(a, bb)) if x != y), min(len(a), len(bb)))
                dis.append((code, "%s differ at index %d: model %s impl %s (lengths %d/%d)" % (
                    OBS_NAMES.get(code, code), k, a[k:k + 1], bb[k:k + 1], len(a), len(bb))))
        elif code == 9:
            if a[0] != int(b[0]):
                dis.append((code, "number of RNG draws: model %d impl %d" % (a[0], int(b[0]))))
        elif code in POINTS:
            vecs = split_lenpref(a)
            if len(vecs) != len(b):
                dis.append((code, "%s: count model %d impl %d" % (OBS_NAMES[code], len(vecs), len(b))))
            else:
                for i, (v, hx) in enumerate(zip(vecs, b)):
                    msm_lines.append(("%s:%d:%d" % (cid, code, i), curve, cap, extra, hx, v))
        elif code in TRANS:
            ma = parse_tr(a)
            mb = parse_tr([int(x) for x in b])
            if len(ma) != len(mb):
                dis.append((code, "%s: %d ops in model, %d in implementation; first divergence at op %d" % (
                    OBS_NAMES[code], len(ma), len(mb),
                    next((i for i, (x, y) in enumerate(zip(ma, mb)) if x[1] != y[1]), min(len(ma), len(mb))))))
            for i, (x, y) in enumerate(zip(ma, mb)):
                if x[1] != y[1]:
                    dis.append((code, "%s op %d: label model %r impl %r" % (OBS_NAMES[code], i, x[1], y[1])))
                    break
                if x[0] == 3 or y[0] == 3:
                    if x[0] != y[0]:
                        dis.append((code, "%s op %d (%r): challenge vs append" % (OBS_NAMES[code], i, x[1])))
                        break
                elif x[0] == 0:
                    if x[2] != y[2]:
                        dis.append((code, "%s op %d (%r): payload bytes differ" % (OBS_NAMES[code], i, x[1])))
                        break
                elif x[0] == 1:
                    val = int.from_bytes(bytes(y[2]), "little")
                    if len(y[2]) != 32 or val != x[2][0]:
                        dis.append((code, "%s op %d (%r): scalar payload differs" % (OBS_NAMES[code], i, x[1])))
                        break
                elif x[0] == 2:
                    msm_lines.append(("%s:%d:%d" % (cid, code, i), curve, cap, extra, "x" + bytes(y[2]).hex(), x[2]))
    return dis


def msmcheck(msm_lines, outdir):
    if not msm_lines:
        return [], 0
    path = os.path.join(outdir, "msm.txt")
    with open(path, "w") as f:
        for tag, curve, cap, extra, hx, coeffs in msm_lines:
            f.write("%s %s %d %d %s %s\n" % (tag, curve, cap, extra, hx, " ".join(str(c) for c in coeffs)))
    rc, out = sh([BIN, "msmcheck", path], timeout=1800)
    bad = [l.split()[1] for l in out.splitlines() if l.startswith("BAD ")]
    if "MSMCHECK total=" not in out:
        bad.append("msmcheck-crashed:" + out[-300:])
    return bad, len(msm_lines)


CUSTOM = {}


class CompResult:
    def __init__(self):
        self.cases = 0
        self.disagreements = []   # (case, code, text)
        self.summary = {}
        self.model_errors = []
        self.msm_checked = 0
        self.wall = 0.0
        self.outdir = None
        self.model = {}
        self.impl = {}


def run_component(comp, streams, seed, tier, name, curves=None, extra_args=None):
    t0 = time.time()
    outdir = os.path.join(WORK, name)
    shutil.rmtree(outdir, ignore_errors=True)
    os.makedirs(outdir, exist_ok=True)
    cmd = [BIN, "gen", comp, "--seed", str(seed), "--tier", tier, "--out", outdir, "--streams", ",".join(streams)]
    if curves:
        cmd += ["--curves", ",".join(curves)]
    if extra_args:
        cmd += extra_args
    rc, out = sh(cmd, timeout=3000)
    res = CompResult()
    res.outdir = outdir
    if rc != 0:
        res.model_errors.append(("harness", out[-2000:]))
        res.disagreements.append(("harness", 0, "harness generation failed: " + out[-500:]))
        return res
    shard_res = run_coq_shards(outdir)
    for f, rc, dt in shard_res:
        if rc != 0:
            res.model_errors.append((f, "coqc exit %d" % rc))
    model, errors = load_model(outdir)
    res.model_errors += errors
    impl = load_impl(outdir)
    summ = load_summary(outdir)
    res.summary = summ
    res.model, res.impl = model, impl
    msm_lines = []
    if comp == "ped":
        return finish_ped(res, model, impl, summ, outdir, t0)
    for cid in summ:
        res.cases += 1
        if "nomodel=1" in summ[cid].get("line", ""):
            # size-only model (Model/ShapeProver.v): the prover's outcome class of capacity-grid cases
            mm, ii = model.get(cid), impl.get(cid)
            if mm and ii and 19 in mm:
                if 19 not in ii or [int(x) for x in ii[19]] != mm[19]:
                    res.disagreements.append((cid, 19, "prover outcome class (0 ok, 3 InvalidGeneratorsLength, 9 panic): size model %s, implementation %s" % (mm.get(19), ii.get(19))))
            continue
        mm, ii = model.get(cid), impl.get(cid)
        if "forged=1" in summ[cid].get("line", "") and mm and ii:
            # dishonest prover (hook H4): the model's prover is honest, so the published points / prover transcript differ by construction
            mm = {k: v for k, v in mm.items() if k not in (6, 7)}
            ii = {k: v for k, v in ii.items() if k not in (6, 7)}
        d = compare_case(cid, mm, ii, summ[cid], msm_lines)
        for code, text in d:
            res.disagreements.append((cid, code, text))
        if comp == "r1cs" and ii and 24 in ii:
            # the model (verification_scalars, C06 schedule) derives the weight r from the COMPLETE history of the run, on a clone
            # that absorbs nothing else: every clone challenge must be taken after all of the main transcript's operations
            total = ii[24][-1]
            for pos in ii[24][:-1]:
                if pos != "%s+0" % total:
                    res.disagreements.append((cid, 24, "a verifier challenge is drawn from a clone taken after %s of %s transcript operations (main+on-clone); the model derives it from the complete history" % (pos, total)))
            if len(ii[24]) != 2:
                res.disagreements.append((cid, 24, "%d challenges drawn from clones of the verifier transcript; the model has exactly one (r)" % (len(ii[24]) - 1)))
        if comp == "batch" and ii and 23 in ii and 15 in ii:
            for nm, cde in zip(("an iterator whose size_hint lower bound is 0", "an exact head chained with a lazily sized tail"), ii[23]):
                if cde != ii[15][0]:
                    res.disagreements.append((cid, 23, "batch_verify over %s returns %s, over a Vec of the same instances %s" % (nm, cde, ii[15][0])))
        if comp == "batch" and ii and 22 in ii and 15 in ii:
            # the model's batch weights are one fresh ScalarField::rand draw per instance (C07 theorems quantify over
            # arbitrary independent weights): the real batch_verify must consume exactly those draws from its RNG,
            # or none when it returns an instance's own error before weighting
            used, expect = int(ii[22][0]), int(ii[22][1])
            bv = int(ii[15][0])
            if bv != 99 and not (used == expect or (used == 0 and bv != 0)):
                res.disagreements.append((cid, 22, "batch_verify consumed %d bytes of its RNG; one fresh scalar draw per instance (the model's weights) consumes %d: the weights are not the independent draws the C07 theorems are about" % (used, expect)))
    bad, n = msmcheck(msm_lines, outdir)
    res.msm_checked = n
    for tag in bad:
        cid = tag.split(":")[0]
        res.disagreements.append((cid, int(tag.split(":")[1]) if ":" in tag and tag.split(":")[1].isdigit() else 0,
                                  "point does not equal msm(real generators, model coefficients): " + tag))
    for f, e in res.model_errors:
        res.disagreements.append(("model", 0, "model evaluation failed in %s: %s" % (os.path.basename(str(f)), str(e)[:300])))
    res.wall = time.time() - t0
    return res


def finish_ped(res, model, impl, summ, outdir, t0):
    """Pedersen component: impl flags must all be 1; model law flags must be 1; the model's coefficient vector
    re-materialised over the case's own bases must equal both PedersenGens::commit and Prover::commit"""
    lines = {l.split()[0]: l.split() for l in open(os.path.join(outdir, "msm2_in.txt")) if l.strip()}
    with open(os.path.join(outdir, "msm2.txt"), "w") as f:
        for cid in summ:
            res.cases += 1
            m, im = model.get(cid), impl.get(cid)
            if not m or not im:
                res.disagreements.append((cid, 0, "missing output"))
                continue
            flags = [int(x) for x in im.get(1, [])]
            names = ["commit == msm([B,B~],[v,r])", "Prover::commit == PedersenGens::commit", "homomorphism", "commit(0,0) identity", "scaling",
                     "further commitments on the same prover (repeated blinding, zero blinding, repeated opening) == msm([B,B~],[v,r])"]
            for nm, fl in zip(names, flags):
                if fl != 1:
                    res.disagreements.append((cid, 1, "implementation: %s fails" % nm))
            if m.get(3) != [1, 1, 1]:
                res.disagreements.append((cid, 3, "model laws evaluate to %s" % m.get(3)))
            f.write(" ".join(lines[cid]) + " %d %d\n" % (m[2][0], m[2][1]))
    rc, out = sh([BIN, "msmcheck2", os.path.join(outdir, "msm2.txt")], timeout=1800)
    for l in out.splitlines():
        if l.startswith("BAD "):
            res.disagreements.append((l.split()[1], 2, "commitment != msm(bases, model coefficient vector)"))
    if "MSMCHECK total=" not in out:
        res.disagreements.append(("harness", 0, "msmcheck2 crashed: " + out[-300:]))
    res.msm_checked = res.cases * 2
    res.wall = time.time() - t0
    return res


def run_translator():
    rc, out = sh([sys.executable, os.path.join(VERIF, "tools", "gen_zorro_consts.py")], timeout=120)
    return rc == 0, out.strip()


def run_zorro_component(seed, tier, name):
    """K12: constants / mul_by_a of the compiled crate against the translator's output"""
    t0 = time.time()
    res = CompResult()
    res.outdir = os.path.join(WORK, name)
    os.makedirs(res.outdir, exist_ok=True)
    rc, out = sh([BIN, "zorro", "--seed", str(seed), "--tier", tier], timeout=600)
    open(os.path.join(res.outdir, "zorro.txt"), "w").write(out)
    if rc != 0:
        res.disagreements.append(("harness", 0, "zorro component failed: " + out[-300:]))
        return res
    gj = os.path.join(COQ, "theories", "Gen", "ZorroConstsGen.json")
    gen = json.load(open(gj)) if os.path.exists(gj) else None
    vals = {}
    mul = []
    flags = []
    for l in out.splitlines():
        t = l.split()
        if not t:
            continue
        if t[0] == "MULBYA":
            mul.append((int(t[1]), int(t[2]), int(t[3])))
        elif t[0] in ("KG_ONCURVE",):
            flags.append((t[0], int(t[1])))
        else:
            vals[t[0]] = t[1:]
    res.zorro = {"vals": vals, "mul": mul, "gen": gen}
    res.cases = len(mul) + len(vals)
    def dis(cid, text):
        res.disagreements.append((cid, 0, text))
    if gen is None:
        dis("translator", "no translator output")
    else:
        q = int(gen["q"])
        pairs = [("MODULUS_Q", "q"), ("MODULUS_R", "r"), ("COEFF_A", "a"), ("COEFF_B", "b"), ("GX", "gx"), ("GY", "gy")]
        for k, g in pairs:
            if int(vals[k][0]) != int(gen[g]):
                dis(k, "%s: compiled crate %s, translated source %s" % (k, vals[k][0], gen[g]))
        cof = sum(int(x) << (64 * i) for i, x in enumerate(vals["COFACTOR"]))
        if cof != int(gen["cofactor"]) or int(vals["COFACTOR_INV"][0]) != 1:
            dis("COFACTOR", "cofactor: compiled %s / inv %s" % (cof, vals["COFACTOR_INV"]))
        def mul_gen(x):
            env = {"x": x}
            for nme, e in gen["lets"]:
                env[nme] = sum(env[t.strip()] for t in e.split("+"))
            return sum(env[t.strip()] for t in gen["final"].split("+")) % q
        for x, m, e in mul:
            if m != mul_gen(x):
                dis("MULBYA", "mul_by_a(%d): compiled crate %d, translated routine %d" % (x, m, mul_gen(x)))
                break
    for k, want in (("ONCURVE_DECLARED", 1), ("ONCURVE_LIB", 1), ("RG_INF", 1), ("G_INF", 0)):
        if int(vals[k][0]) != want:
            dis(k, "%s = %s on the compiled crate" % (k, vals[k][0]))
    for k, v in flags:
        if v != 1:
            dis(k, "k*G not on curve / not in subgroup")
    for x, m, e in mul:
        if m != e:
            dis("MULBYA", "mul_by_a(x) != COEFF_A * x for x = %d" % x)
            break
    res.summary = {"zorro_consts": {"curve": "zorro", "line": "constants " + " ".join("%s=%s" % (k, v[0][:24]) for k, v in vals.items())},
                   "zorro_mul_by_a": {"curve": "zorro", "line": "mul_by_a samples=%d (value edges, representation edges >= 2^255, random)" % len(mul)}}
    res.wall = time.time() - t0
    return res


def run_hostile_component(seed, tier, name):
    """K7 + K11: shape grid, hostile batches, container codec, prefixes, invalid elements, fuzz, allocation"""
    t0 = time.time()
    res = CompResult()
    outdir = os.path.join(WORK, name)
    shutil.rmtree(outdir, ignore_errors=True)
    os.makedirs(outdir, exist_ok=True)
    res.outdir = outdir
    curves = ["secq256k1", "zorro", "curve25519"]
    procs = [subprocess.Popen([BIN, "hostile", "--seed", str(seed), "--tier", tier, "--out", outdir, "--curves", c],
                              stdout=subprocess.PIPE, stderr=subprocess.STDOUT, text=True, env=ENV) for c in curves]
    outs = [p.communicate(timeout=3000)[0] for p in procs]
    res.crashes = []
    if any(p.returncode != 0 for p in procs):
        for c, p_, o in zip(curves, procs, outs):
            if p_.returncode == 0:
                continue
            mf = os.path.join(outdir, "current_%s.txt" % c)
            what, hx = "unknown", ""
            if os.path.exists(mf):
                t = open(mf).read().split()
                what, hx = (t + ["", ""])[0], (t + ["", ""])[1]
            why = [l for l in o.splitlines() if "UNCAUGHT PANIC" in l or "memory allocation" in l or "overflow" in l][:2]
            res.crashes.append({"curve": c, "what": what, "input_hex": hx, "exit": p_.returncode, "message": " ".join(why)[:300]})
            res.disagreements.append(("crash:%s:%s" % (c, what), 0, "harness process died (exit %s, %s) while the implementation handled input [%s] %s" % (
                p_.returncode, " ".join(why)[:200], what, hx[:120])))
        return res
    shard_res = run_coq_shards(outdir)
    blocks = []
    for f, rc, dt in shard_res:
        b, txt = parse_model_out(f[:-2] + ".out")
        if rc != 0 or "Error" in txt:
            res.model_errors.append((f, txt[-400:]))
        blocks += b
    grid_m, batch_m, dec_m = {}, {}, {}
    # grid/batch blocks are per curve file in emission order; dec blocks carry their index; recover the curve from the file
    per_file = {}
    for f, rc, dt in shard_res:
        b, _ = parse_model_out(f[:-2] + ".out")
        per_file[int(re.search(r"cases_(\d+)\.v", f).group(1))] = b
    lines = {c: open(os.path.join(outdir, "hostile_%s.txt" % c)).read().splitlines() for c in curves}
    H = {"idpat": [], "grid": [], "batch": [], "codec": [], "roundtrip": [], "prefix": [], "bad": [], "fuzz": [], "alloc": [], "dec": [], "widths": {}}
    for ci, c in enumerate(curves):
        gm = [x for b in per_file.get(ci, []) for row in b if row and row[0] == 30 for x in row[1:]]
        bm = [x for b in per_file.get(ci, []) for row in b if row and row[0] == 31 for x in row[1:]]
        dm = {}
        for k, b in per_file.items():
            if 100 * (ci + 1) <= k < 100 * (ci + 2):
                for row in [r for blk in b for r in blk]:
                    if row and row[0] == 33:
                        dm[row[1]] = row[2:]
        gi = bi = 0
        last = None
        for l in lines[c]:
            t = l.split()
            if t[0] == "GRID":
                last = dict(curve=c, cap=int(t[2]), n1=int(t[3]), n=int(t[4]), m=int(t[5]), lL=int(t[6]), lR=int(t[7]), idflag=int(t[8]), code=int(t[9]))
                H["grid"].append(last)
            elif t[0] == "GRIDM":
                want = int(t[2])
                got = gm[gi] if gi < len(gm) else None
                gi += 1
                if got != want:
                    res.disagreements.append(("grid:%s:cap=%d,n1=%d,n=%d,|L|=%d,|R|=%d" % (c, last["cap"], last["n1"], last["n"], last["lL"], last["lR"]), 30,
                                              "verify: implementation %s, shape model %s" % ("panics" if want == 9 else "returns", {9: "panics", 0: "returns", None: "gave no output"}[got])))
            elif t[0] == "IDPAT":
                H["idpat"].append(dict(curve=c, sample=int(t[2]), pattern=t[3], verify=int(t[4]), batch1=int(t[5]), batch2=int(t[6])))
            elif t[0] == "BATCH":
                last = dict(curve=c, k=int(t[2]), code=int(t[3]))
                H["batch"].append(last)
            elif t[0] == "BATCHM":
                want = int(t[2])
                got = bm[bi] if bi < len(bm) else None
                bi += 1
                if got != want:
                    res.disagreements.append(("batch:%s:#%d" % (c, bi - 1), 31, "batch_verify: implementation %s, shape model %s" % (
                        "panics" if want == 9 else "returns", {9: "panics", 0: "returns", None: "gave no output"}[got])))
            elif t[0] == "WIDTHS":
                H["widths"][c] = (int(t[2]), int(t[3]))
            elif t[0] == "CODEC":
                d = dict(x.split("=") for x in t[2:]); d = {k: int(v) for k, v in d.items()}; d["curve"] = c
                H["codec"].append(d)
            elif t[0] == "ROUNDTRIP":
                H["roundtrip"].append(dict(curve=c, rt=int(t[2]), same_verdict=int(t[3]), suffix=int(t[4])))
            elif t[0] == "PREFIX":
                d = dict(x.split("=") for x in t[2:]); d = {k: int(v) for k, v in d.items()}; d["curve"] = c
                H["prefix"].append(d)
            elif t[0] == "BAD":
                H["bad"].append(dict(curve=c, pos=t[2], kind=t[3], code=int(t[4])))
            elif t[0] == "FUZZ":
                d = dict(x.split("=") for x in t[2:]); d["curve"] = c
                H["fuzz"].append(d)
            elif t[0] == "ALLOC":
                d = dict(x.split("=") for x in t[2:]); d = {k: int(v) for k, v in d.items()}; d["curve"] = c
                H["alloc"].append(d)
            elif t[0] == "DEC":
                idx = int(t[2]); impl = [int(x) for x in t[4:]]
                m = dm.get(idx)
                H["dec"].append(dict(curve=c, idx=idx, kind=t[3], impl=impl, model=m))
                cid = "dec:%s:%d:%s" % (c, idx, t[3])
                if m is None:
                    res.disagreements.append((cid, 33, "model produced no output"))
                elif impl[0] == 99:
                    res.disagreements.append((cid, 33, "from_bytes panicked; the model's decoder is total"))
                elif impl[0] != m[0]:
                    res.disagreements.append((cid, 33, "from_bytes %s, model decoder %s" % ("accepts" if impl[0] else "rejects", "accepts" if m[0] else "rejects")))
                elif impl[0] == 1:
                    if impl[1:4] != m[1:4]:
                        res.disagreements.append((cid, 33, "decoded (|L|,|R|,consumed): implementation %s model %s" % (impl[1:4], m[1:4])))
                    if m[4] != 1:
                        res.disagreements.append((cid, 33, "model: re-encoding the decoded proof does not reproduce the consumed bytes"))
                    if m[5] != impl[3]:
                        res.disagreements.append((cid, 33, "encoded_size formula %d, implementation length %d" % (m[5], impl[3])))
        if gi != len(gm) or bi != len(bm):
            res.disagreements.append(("grid:%s" % c, 30, "model evaluated %d/%d classes, harness recorded %d/%d" % (len(gm), len(bm), gi, bi)))
    res.hostile = H
    res.cases = len(H["idpat"]) + len(H["grid"]) + len(H["batch"]) + len(H["dec"]) + len(H["bad"]) + sum(int(f["iters"]) for f in H["fuzz"]) + len(H["prefix"])
    for f, e in res.model_errors:
        res.disagreements.append(("model", 0, "model evaluation failed in %s: %s" % (os.path.basename(str(f)), str(e)[:300])))
    res.summary = {"hostile_grid": {"curve": "all", "line": "grid %d verify calls, %d batches, %d decoder cases, %d invalid-element cases" % (len(H["grid"]), len(H["batch"]), len(H["dec"]), len(H["bad"]))}}
    res.wall = time.time() - t0
    return res


CUSTOM["hostile"] = run_hostile_component


FIXGEN = os.path.join(VERIF, "fixturegen")
FIXBIN = os.path.join(FIXGEN, "target", "release", "fixturegen")
FIXREF = os.path.join(VERIF, "fixtures", "reference_b4846a6.txt")
FIXVER = os.path.join(VERIF, "fixtures", "reference_b4846a6.verdicts.txt")


def run_fixture_component(seed, tier, name):
    """fixturegen (public API only, real Merlin) rebuilt against /repo: record again and compare bit for bit with the
    reference revision's recording; verify the recorded proofs and wrong statements with this build"""
    t0 = time.time()
    res = CompResult()
    res.outdir = os.path.join(WORK, name)
    os.makedirs(res.outdir, exist_ok=True)
    env = dict(os.environ); env["CARGO_NET_OFFLINE"] = "true"
    env.pop("RUSTFLAGS", None)
    rc, out = sh("cargo build --release --offline 2>&1 | tail -30", cwd=FIXGEN, timeout=3000, env=env)
    rc2, _ = sh("cargo build --release --offline", cwd=FIXGEN, timeout=3000, env=env)
    res.fixture = {"record": {}, "ref": {}, "verdicts": {}, "ref_verdicts": {}, "build_error": None}
    if rc2 != 0:
        res.fixture["build_error"] = out[-1500:]
        res.disagreements.append(("fixturegen", 0, "fixturegen (public API only) no longer builds against /repo: " + out[-600:]))
        return res
    rc, rec = sh([FIXBIN, "record"], timeout=1200, env=env)
    open(os.path.join(res.outdir, "record.txt"), "w").write(rec)
    rc_v, ver = sh([FIXBIN, "verify", FIXREF], timeout=1200, env=env)
    open(os.path.join(res.outdir, "verify.txt"), "w").write(ver)
    def key(l):
        t = l.split()
        if not t:
            return None
        if t[0] in ("GENS",):
            return " ".join(t[:5])
        if t[0] in ("GEN0", "GENHI"):
            return " ".join(t[:4])
        if t[0] in ("PED",):
            return " ".join(t[:2])
        if t[0] in ("PROOF", "VERIFY"):
            return " ".join(t[:3])
        return None
    def table(txt):
        d = {}
        for l in txt.splitlines():
            k = key(l)
            if k:
                d[k] = l.split()[len(k.split()):]
        return d
    ref, cur = table(open(FIXREF).read()), table(rec)
    refv, curv = table(open(FIXVER).read()), table(ver)
    res.fixture.update({"record": cur, "ref": ref, "verdicts": curv, "ref_verdicts": refv})
    if rc != 0 or rc_v != 0:
        res.disagreements.append(("fixturegen", 0, "fixturegen exited %s/%s: %s" % (rc, rc_v, (rec + ver)[-300:])))
    for k in ref:
        if k not in cur:
            res.disagreements.append((k, 40, "recorded by the reference revision, not produced by this build"))
        elif cur[k] != ref[k]:
            what = {"GENS": "generator digest", "GEN0": "first generator", "GENHI": "generator of a high party index", "PED": "Pedersen bases", "PROOF": "commitments / proof bytes re-proved with the recorded seed"}[k.split()[0]]
            res.disagreements.append((k, 40, "%s differs from the reference revision's recording" % what))
    for k in refv:
        if k not in curv:
            res.disagreements.append((k, 41, "recorded proof not verified by this build (no output)"))
        elif curv[k] != refv[k]:
            res.disagreements.append((k, 41, "verdicts on the recorded proof differ: reference %s, this build %s" % (" ".join(refv[k]), " ".join(curv[k]))))
    res.cases = len(ref) + len(refv)
    res.summary = {"fixture": {"curve": "all", "line": "fixture lines compared: %d recorded values, %d verdict rows" % (len(ref), len(refv))}}
    res.wall = time.time() - t0
    return res


CUSTOM["fixture"] = run_fixture_component


def run_integrity_component(seed, tier, name, light=False):
    """C04 sweep on the implementation: all single-bit flips, single-field perturbations, pairwise swaps, round surgery
    (light: every 61st bit flip only; the adaptive attacks, field and swap alterations in full)"""
    t0 = time.time()
    res = CompResult()
    outdir = os.path.join(WORK, name)
    shutil.rmtree(outdir, ignore_errors=True)
    os.makedirs(outdir, exist_ok=True)
    res.outdir = outdir
    curves = ["secq256k1", "zorro", "curve25519"]
    procs = [subprocess.Popen([BIN, "integrity", "--seed", str(seed), "--tier", tier, "--out", outdir, "--curves", c],
                              stdout=subprocess.PIPE, stderr=subprocess.STDOUT, text=True,
                              env=dict(ENV, VERIF_INTEGRITY_LIGHT="1") if light else ENV) for c in curves]
    outs = [p.communicate(timeout=6000)[0] for p in procs]
    res.crashes = []
    res.integrity = []
    for c, p_, o in zip(curves, procs, outs):
        if p_.returncode != 0:
            mf = os.path.join(outdir, "current_%s.txt" % c)
            t = open(mf).read().split() if os.path.exists(mf) else []
            what, hx = (t + ["unknown", ""])[0], (t + ["", ""])[1]
            res.crashes.append({"curve": c, "what": what, "input_hex": hx, "exit": p_.returncode, "message": o[-200:]})
            res.disagreements.append(("crash:%s" % c, 0, "harness process died (exit %s) while handling [%s] %s" % (p_.returncode, what, hx[:120])))
            continue
        for l in open(os.path.join(outdir, "integrity_%s.txt" % c)).read().splitlines():
            t = l.split()
            if t[0] in ("FLIP", "FIELD", "SWAP", "ROUNDS", "ADAPT", "ADAPTB"):
                d = dict(x.split("=", 1) for x in t[3:])
                row = {"kind": t[0], "curve": c, "proof": int(t[2]), "first": d.pop("first")}
                row.update({k: int(v) for k, v in d.items()})
                res.integrity.append(row)
                if row["accepted"] or row["panicked"]:
                    res.disagreements.append(("%s:%s:%d" % (t[0], c, row["proof"]), 50, "%d altered proofs accepted, %d panics; first: %s" % (row["accepted"], row["panicked"], row["first"][:200])))
            elif t[0] == "BASE":
                d = dict(x.split("=", 1) for x in t[3:])
                res.integrity.append({"kind": "BASE", "curve": c, "proof": int(t[2]), **{k: int(v) for k, v in d.items()}})
                if d.get("verdict") != "0":
                    res.disagreements.append(("BASE:%s:%s" % (c, t[2]), 50, "the unaltered proof is not accepted (verdict %s)" % d.get("verdict")))
            elif t[0] == "INTEGRITY-ERROR":
                res.disagreements.append(("BASE:%s" % c, 50, l))
    res.cases = sum(r.get("total", 0) for r in res.integrity)
    res.summary = {"integrity": {"curve": "all", "line": "integrity sweep: " + "; ".join("%s %s#%d %d" % (r["kind"], r["curve"], r["proof"], r.get("total", 0)) for r in res.integrity if r["kind"] != "BASE")[:600]}}
    res.wall = time.time() - t0
    return res


CUSTOM["integrity"] = run_integrity_component
CUSTOM["integrity-light"] = lambda seed, tier, name: run_integrity_component(seed, tier, name, light=True)


# ---------------------------------------------------------------- evidence / verdict
def write_evidence(pid, tier, seed, level, coverage, assumptions, wall, violations):
    os.makedirs(EVID, exist_ok=True)
    ev = {"property_id": pid, "tier": tier, "seed": int(seed), "level": level, "coverage": coverage,
          "assumptions": assumptions, "wall_s": round(wall, 2), "violations": int(violations)}
    json.dump(ev, open(os.path.join(EVID, pid + ".json"), "w"), indent=1)


def write_replay(pid, payload):
    os.makedirs(REPLAYS, exist_ok=True)
    h = hashlib.sha256(json.dumps(payload, sort_keys=True, default=str).encode()).hexdigest()[:12]
    path = os.path.join(REPLAYS, "%s-%s.json" % (pid, h))
    json.dump(payload, open(path, "w"), indent=1, default=str)
    return path
