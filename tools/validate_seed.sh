#!/bin/bash
# validate_seed.sh <seed-dir> <slot>: confirm in a scratch worktree that (a) demo passes on clean tree,
# (b) demo fails with patch, (c) existing suite passes with patch.  Writes <seed-dir>/validation.txt
S=$1; SLOT=$2; ID=$(basename $S)
WT=/tmp/wt/val$SLOT
export CARGO_TARGET_DIR=/tmp/wt/val${SLOT}_target CARGO_NET_OFFLINE=true
OUT=$S/validation.txt; : > $OUT
git -C /repo worktree remove --force $WT 2>/dev/null; git -C /repo worktree add -q --detach $WT HEAD || { echo "worktree failed" >> $OUT; exit 1; }
cd $WT
CMD=$(cat $S/demo_cmd.txt | head -1)
git apply $S/demo.diff || { echo "demo.diff does not apply on clean" >> $OUT; }
timeout 1500 bash -c "$CMD" > $S/val_demo_clean.log 2>&1; echo "demo_on_clean_exit=$?" >> $OUT
git apply $S/patch.diff || { echo "patch.diff does not apply" >> $OUT; }
timeout 1500 bash -c "$CMD" > $S/val_demo_patched.log 2>&1; echo "demo_on_patched_exit=$?" >> $OUT
# suite with patch only
git checkout -q -- . ; git clean -fdq -e target ; git apply $S/patch.diff
timeout 2400 cargo test --offline --workspace --no-fail-fast > $S/val_suite_patched.log 2>&1; echo "suite_on_patched_exit=$?" >> $OUT
grep -E "^test result" $S/val_suite_patched.log | awk '{p+=$4; f+=$6} END {print "suite_passed="p" suite_failed="f}' >> $OUT
cd /; git -C /repo worktree remove --force $WT
echo "done $ID"; cat $OUT
