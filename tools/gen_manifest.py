#!/usr/bin/env python3
"""Regenerates /verif/MANIFEST.json from the table below (kept in one place so it stays valid)."""
import json, os
VERIF = os.path.dirname(os.path.dirname(os.path.abspath(__file__)))
ids = [json.loads(l)["id"] for l in open(os.path.join(VERIF, "properties.jsonl"))]
HOOK_COMMITS = ["424bc8f"]

CLAIMED = {
 "C10": dict(category="proof", design="DESIGN.md §6 C10",
   text="Coq theorems for every k (no bound; induction on the challenge list), every field and every F-module: create (unrolled first round with arbitrary factor vectors + generic rounds) yields exactly k rounds and verifies against P = <a,gf.G>+<b,hf.H>+<a,b>Q when challenges are non-zero and no round point is the identity (C10_complete); the unrolled round equals the generic round on pre-scaled generators (C10_fast_path); the verdict equals explicit round-by-round folding (C10_verify_is_explicit_fold, C10_s_vector); at most one P is accepted (C10_P_unique); wrong length / 32+ rounds / unequal lists / identity round points are rejected (C10_length, C10_degenerate_rejected). Tied to the code by K5 through hook H1 (L, R as coefficient vectors re-materialised with real generators, a, b, (u^2,u^-2,s), transcript, verdicts) for non-unit factors.",
   note="Trusted: Coq kernel; model of inner_product_proof.rs (tied by K5 and, inside R1CS runs, K3/K4); field/module laws; oracle idealisation of Merlin. The s-vector loop is modelled in blocked form (block j = prefix scaled by u_sq[lg_n-1-j]); index-exact form is in the shape model (C08).",
   technique="machine-checked proof in Coq (induction on rounds; extension-ring tactic for module identities) + differential correspondence model/implementation"),
 "C15": dict(category="proof", design="DESIGN.md §6 C15",
   text="Coq theorems over an abstract field: every operator of linear_combination.rs preserves evaluation (C15_operators_sound), every expression tree denotes the field expression it spells (C15_denotation, structural induction), repeated variables accumulate, zero coefficients and Phantom contribute nothing. The model's operators are tied to the code by K2 (term lists of random operator trees built with the real impls, compared exactly) and to provability by one-constraint circuits expr - c run through the real prover/verifier (accept iff c = value).",
   note="Trusted: Coq kernel; the hand-written model of linear_combination.rs (tied by K2 on every run); FieldLaws hypothesis (arkworks Fp is a field); Debug output used to read term lists.",
   technique="machine-checked proof in Coq (structural induction over operator trees) + differential correspondence model/implementation"),
 "C16": dict(category="proof", design="DESIGN.md §6 C16",
   text="Coq simulation proof: for every first-phase program (interaction tree over the full API, results fed back to continuations) and every list of second-phase closures, prover and verifier step functions started in related states return equal results call by call and stay related (counters, pending index, constraints, transcript, closures) through the phase switch (C16_lockstep_phase1/2); allocation pairing, phase-end closing and MissingAssignment behaviour are separate theorems. The two step functions are tied to Prover/Verifier by K1 (random call sequences driven into both real roles; every returned handle, gate count, error, and the secrets compared with the model).",
   note="Trusted: Coq kernel; hand-written model of the two bookkeeping implementations (tied by K1 each run). Out of model: fabricated out-of-range Variables, direct use of cs.transcript() for challenges.",
   technique="machine-checked proof in Coq (lock-step simulation by induction over interaction trees) + differential correspondence model/implementation"),
}

checks = []
for pid, c in CLAIMED.items():
    checks.append({
        "property_id": pid,
        "quick_cmd": "./check %s --tier quick" % pid,
        "thorough_cmd": "./check %s --tier thorough" % pid,
        "evidence_file": "/verif/evidence/%s.json" % pid,
        "replay_cmd_template": "./check %s --replay {path}" % pid,
        "engine": "coq-model+harness",
        "level_claimed": {"category": c["category"], "text": c["text"], "design_ref": c["design"]},
        "level_note": c["note"],
        "technique": c["technique"],
    })
m = {
 "version": 1,
 "setup_cmd": "./setup.sh",
 "hooks": {"guard": "ark_bulletproofs_verif",
           "enable": "RUSTFLAGS=\"--cfg ark_bulletproofs_verif\" (set by tools/vlib.py and setup.sh when building /verif/harness against /repo)",
           "baseline_off_cmd": "cd /repo && cargo test --workspace --no-fail-fast --offline",
           "source_commits": HOOK_COMMITS, "add_only": True},
 "engines": [{"name": "coq-model+harness", "path": "/verif/coq + /verif/harness + /verif/tools",
              "serves_properties": sorted(CLAIMED.keys()),
              "kind_free_text": "Coq 8.16 development (hand-written executable model + theorems) tied to the code by a Rust differential harness (instrumented Merlin, recorded challenges/draws) evaluated with vm_compute"}],
 "checks": checks,
 "not_applicable": [{"property_id": i, "reason": "check under construction in this build session (model and theorems being written); not claimed until its check exists"} for i in ids if i not in CLAIMED],
 "notes": "Genuine defects repaired in /repo by fix: commits d4a08f3 (C08) and a697de8 (C12); see known_findings.json and DESIGN.md §8.",
}
json.dump(m, open(os.path.join(VERIF, "MANIFEST.json"), "w"), indent=1)
print("claimed:", sorted(CLAIMED.keys()))
