#!/usr/bin/env python3
"""Regenerates /verif/MANIFEST.json from the table below (kept in one place so it stays valid)."""
import json, os
VERIF = os.path.dirname(os.path.dirname(os.path.abspath(__file__)))
ids = [json.loads(l)["id"] for l in open(os.path.join(VERIF, "properties.jsonl"))]
HOOK_COMMITS = ["424bc8f"]

CLAIMED = {
 "C07": dict(category="proof", design="DESIGN.md §6 C07",
   text="Coq theorems for batches of any length (0 and 1 included), mixed sizes and phases: the aggregated multiscalar check of batch_verify (G/H scalars accumulated at offsets 2+i and 2+max+i, tails appended per instance) equals the alpha-weighted sum of the instances' own combined checks (C07_batch_is_weighted_sum, by induction over the instance list with the offset arithmetic proved); if every instance's check vanishes the batch accepts for all weights (C07_if); if the batch accepts under two weight vectors differing only at position j then instance j's check vanishes, i.e. with an invalid member at most ONE value of alpha_j is accepted, covering residuals that cancel under equal weights (C07_only_if_exact); the batch returns the first instance's error exactly when that instance alone returns it (C07_errors). Correspondence K10: real batch_verify with a replayed RNG against the model under the same weights; search compares with the conjunction of individual real verdicts incl. +d/-d pairs.",
   note="Trusted: Coq kernel; model tie (K10, K4); field/module laws. The 1/|F| probability is stated in its deterministic form.",
   technique="machine-checked proof in Coq (induction over instances; offset arithmetic; vector-space cancellation) + differential correspondence with replayed weights"),
 "C06": dict(category="proof", design="DESIGN.md §6 C06",
   text="Coq theorems over operation histories: the transcript a verifier run ends with is the literal schedule (m, A_I1, A_O1, S1, phase separator, only user data/challenge requests from closures, A_I2, A_O2, S2, y, z, T_1..T_6, u, x, t_x, t_x_blinding, e_blinding, w, ipp separator, n', then L_j, R_j, u_j per round) and every challenge is the oracle's value on the prefix ending with its request (C06_verifier_follows_schedule, all programs, all proofs); on an honest run the prover's transcript is the same list, challenges coincide and follow-up challenges on the returned transcripts agree (C06_roles_in_sync_and_prover_follows_schedule); the op lists determine every absorbed object (C06_unambiguous). Correspondence K6: the instrumented Merlin log of every prover/verifier run is compared operation by operation (kind, label, payload) with the model's transcript.",
   note="Trusted: Coq kernel; RO idealisation of Merlin/STROBE/ChaCha/rand; instrumented Merlin copy (add-only logging); payload byte encodings are arkworks'.",
   technique="machine-checked proof in Coq (transcripts as explicit operation lists; prefix/oracle facts) + operation-by-operation correspondence with an instrumented Merlin"),
 "C14": dict(category="proof", design="DESIGN.md §6 C14",
   text="The constants (both moduli, a, b, generator, cofactor) and the body of mul_by_a are REGENERATED from the Rust source on every run (translator), and the Coq theorems are re-checked against them: q and r = 2^255-19 are prime (Pratt certificates checked by vm_compute, soundness via a proved Lucas theorem), the generator satisfies the curve equation and the curve is non-singular, mul_by_a_gen x = a*x for every x (ring), r.G = infinity and G <> infinity by a Jacobian double-and-add ladder, cofactor 1, and the Hasse interval around q+1 contains exactly one multiple of r. PARTIAL for '#E = r exactly': associativity of the group law, Lagrange and Hasse are not formalised (no EC library installed). K12 compares the compiled crate's constants and mul_by_a (value and representation edge cases) with the translation.",
   note="Trusted: Coq kernel (vm_compute for certificates and the ladder); the translator (guarded by K12); the three un-formalised textbook facts named above; Jacobian formulas are the standard ones (their agreement with the affine law is not proved).",
   technique="translator-regenerated model + machine-checked proof in Coq (Pratt/Lucas primality, ring, vm_compute ladder)"),
 "C09": dict(category="proof", design="DESIGN.md §6 C09",
   text="Structural hiding statement, proved in Coq for all programs/witnesses/draw streams: every emitted component is (witness part) + (its own transcript-RNG draw).B~ with the draw index given explicitly (C09_blinding_layout: A_I1,A_O1,S1,(A_I2,A_O2,S2),T_1..T_6, masking vectors), the draw indices used are exactly 0..ndraws-1 each once (C09_draws_used_exactly_once), a component determines its blinding when B~ <> 0 (C09_component_injective), and what is statement-fixed (identity second-phase points without second-phase gates; t_x = 0, a = 0, b = -1 for gate-free circuits). PARTIAL w.r.t. the property's indistinguishability reading: simulation-based zero knowledge is not formalised. Correspondence: every honest case is re-derived by the model from witness + RECORDED RNG draws (full algebraic opening of every commitment via MSM over real generators); rngdet stream checks keying on the real code (same seed => identical bytes; other seed or other commitment blindings => no shared component).",
   note="Trusted: Coq kernel; model tie as C01; TranscriptRng = arbitrary stream in the theorems. Not formalised: zero-knowledge simulation, STROBE keying (exercised, not proved).",
   technique="machine-checked proof in Coq (component forms + index bijection) + differential correspondence with recorded RNG draws"),
 "C13": dict(category="proof", design="DESIGN.md §6 C13",
   text="Coq theorems for all scalars of any field, any bases, any F-module: commit v r = v.B + r.B~ (definitional), additive homomorphism, commit(0,0) = identity, scaling, negation (C13_homomorphic_zero_scale), and the prover's commit returns exactly this point, absorbs it under label V and issues the next Committed index, as does the verifier's (C13_prover_commit). Correspondence K9: PedersenGens::commit and Prover::commit against an independent arkworks path and the model's coefficient vector on edge values (0,1,-1,2^64+-1,2^128,-2^64,...) with default and random bases on 3 curves.",
   note="Trusted: Coq kernel; arkworks group is an F_r-module under mul_bigint(into_bigint(.)) (dependency; sampled by K9).",
   technique="machine-checked proof in Coq (module identities by the extension-ring tactic) + differential correspondence"),
 "C17": dict(category="proof", design="DESIGN.md §6 C17",
   text="Coq theorems on the model of prove / verification_scalars: InvalidGeneratorsLength is returned exactly when capacity < next_power_of_two(total gates) (zero gates count as one), before the closures if capacity < first-phase gates, after them otherwise, with closure errors taking precedence (C17_prover_threshold, C17_verifier_threshold); with capacity at or above the threshold proving succeeds, and proof and verdict are independent of the capacity because only the first n' generators are read (C17_capacity_independent). Correspondence/search: exhaustive grid of (first-phase gates, second-phase gates, prover capacity, verifier capacity) on the real code of 3 curves (error kind, no panic under catch_unwind, byte-identical proofs across capacities with replayed RNG), boundary cases also through the model.",
   note="Trusted: Coq kernel; model tie; gens_capacity = length of the generator vectors. Absence of panics in the prover is checked on the grid (bounded), in the verifier by the shape model of C08.",
   technique="machine-checked proof in Coq (case analysis on the model's control flow; prefix-only use of generators) + exhaustive grid on the implementation"),
 "C01": dict(category="proof", design="DESIGN.md §6 C01",
   text="Coq theorem C01_completeness over an abstract field and F-module (every prime-order group): for every program (interaction trees, all call kinds, closures depending on challenges), every RNG stream, every pair of generator lists agreeing on the first n' entries with capacities >= n' on either side, if the final assignment satisfies all constraints and gates then the proof emitted by the model of prove_and_return_transcript is accepted by the model of verify — under NZ (inverted challenges non-zero) and non-identity of the mandatory points. Proved from roles_in_sync (transcripts equal through phase switch and IPP), mega_decomp, P_identity, t2 identity, flatten soundness, IPP completeness. Covers n = 0, 1, non-powers of two, n1 = 0 < n2. The model is tied to the code on every run by K1/K3/K4/K6: events, all proof scalars, every proof point re-materialised by MSM of the model's coefficient vector over the real generators, the verifier's scalar vector, both transcripts, verdicts, on 3 curves.",
   note="Trusted: Coq kernel; hand-written model of prover.rs/verifier.rs/inner_product_proof.rs/transcript.rs (tied each run); field/module laws for arkworks groups; Merlin/ChaCha/rand as an oracle of the operation history; prover RNG as an arbitrary stream.",
   technique="machine-checked proof in Coq (simulation + algebra over abstract field/module) + differential correspondence model/implementation"),
 "C02": dict(category="proof", design="DESIGN.md §6 C02",
   text="Coq theorem C02_verdict_iff: for the proof emitted by the proving procedure on an ARBITRARY secrets state (so also gate-violating ones), verify accepts iff r*x^2*E(y,z) = 0 where E is the error polynomial (gate errors against y^i, constraint values against z^(q+1)); C02_few_bad_challenges (polynomial root bound, proved): a violated constraint is accepted for at most Q values of z, a violated gate for at most n-1 values of y, the coefficients being fixed before the challenge; satisfying witnesses have E = 0. Both phases, every position, constant-only and committed-only constraints. Correspondence as C01 plus the violating stream (hook H2 for gate violations).",
   note="As C01; additionally B <> 0. The probabilistic last step (challenge uniform and independent) is not formalised; the deterministic counting statement is.",
   technique="machine-checked proof in Coq (exact acceptance condition + polynomial root counting) + differential correspondence model/implementation"),
 "C03": dict(category="proof", design="DESIGN.md §6 C03",
   text="Coq theorem C03_mega_decomp: for ARBITRARY proof objects the single multiscalar check equals R_ipp + r.R_t where R_t is the committed evaluation relation and R_ipp the inner-product relation with generators folded explicitly round by round; C03_verdict_iff_relations lifts it to the model verifier (accept iff that sum is zero, else VerificationError); corollaries: nothing the relations accept is rejected, a false accept forces R_ipp = -r.R_t for the single value r drawn after the proof; identity points are rejected first. The run additionally evaluates the three relations from their specification (explicit folding) on every executed case and compares with the real verdict.",
   note="As C01. all_nz hypothesis on inner-product challenges.",
   technique="machine-checked proof in Coq (MSM linearity + extension-ring tactic) + differential correspondence + relation evaluation against real verdicts"),
 "C10": dict(category="proof", design="DESIGN.md §6 C10",
   text="Coq theorems for every k (no bound; induction on the challenge list), every field and every F-module: create (unrolled first round with arbitrary factor vectors + generic rounds) yields exactly k rounds and verifies against P = <a,gf.G>+<b,hf.H>+<a,b>Q when challenges are non-zero and no round point is the identity (C10_complete); the unrolled round equals the generic round on pre-scaled generators (C10_fast_path); the verdict equals explicit round-by-round folding (C10_verify_is_explicit_fold, C10_s_vector); at most one P is accepted (C10_P_unique); wrong length / 32+ rounds / unequal lists / identity round points are rejected (C10_length, C10_degenerate_rejected). Tied to the code by K5 through hook H1 (L, R as coefficient vectors re-materialised with real generators, a, b, (u^2,u^-2,s), transcript, verdicts) for non-unit factors.",
   note="Trusted: Coq kernel; model of inner_product_proof.rs (tied by K5 and, inside R1CS runs, K3/K4); field/module laws; oracle idealisation of Merlin. The s-vector loop is modelled in blocked form (block j = prefix scaled by u_sq[lg_n-1-j]); index-exact form is in the shape model (C08).",
   technique="machine-checked proof in Coq (induction on rounds; extension-ring tactic for module identities) + differential correspondence model/implementation"),
 "C15": dict(category="proof", design="DESIGN.md §6 C15",
   text="Coq theorems over an abstract field: every operator of linear_combination.rs preserves evaluation (C15_operators_sound), every expression tree denotes the field expression it spells (C15_denotation, structural induction), repeated variables accumulate, zero coefficients and Phantom contribute nothing. The model's operators are tied to the code by K2 (term lists of random operator trees built with the real impls, compared exactly) and to provability by one-constraint circuits expr - c run through the real prover/verifier (accept iff c = value).",
   note="Trusted: Coq kernel; the hand-written model of linear_combination.rs (tied by K2 on every run); FieldLaws hypothesis (arkworks Fp is a field); Debug output used to read term lists.",
   technique="machine-checked proof in Coq (structural induction over operator trees) + differential correspondence model/implementation"),
 "C16": dict(category="proof", design="DESIGN.md §6 C16",
   text="Coq simulation proof: for every first-phase program (interaction tree over the full API, results fed back to continuations) and every list of second-phase closures, prover and verifier step functions started in related states return equal results call by call and stay related (counters, pending index, constraints, transcript, closures) through the phase switch (C16_lockstep_phase1/2); allocation pairing, phase-end closing and MissingAssignment behaviour are separate theorems. The two step functions are tied to Prover/Verifier by K1 (random call sequences driven into both real roles; every returned handle, gate count, error, and the secrets compared with the model).",
   note="Trusted: Coq kernel; hand-written model of the two bookkeeping implementations (tied by K1 each run). Out of model: fabricated out-of-range Variables, direct use of cs.transcript() for challenges.",
   technique="machine-checked proof in Coq (lock-step simulation by induction over interaction trees) + differential correspondence model/implementation"),
}

checks = []
for pid, c in CLAIMED.items():
    checks.append({
        "property_id": pid,
        "quick_cmd": "./check %s --tier quick" % pid,
        "thorough_cmd": "./check %s --tier thorough" % pid,
        "evidence_file": "/verif/evidence/%s.json" % pid,
        "replay_cmd_template": "./check %s --replay {path}" % pid,
        "engine": "coq-model+harness",
        "level_claimed": {"category": c["category"], "text": c["text"], "design_ref": c["design"]},
        "level_note": c["note"],
        "technique": c["technique"],
    })
m = {
 "version": 1,
 "setup_cmd": "./setup.sh",
 "hooks": {"guard": "ark_bulletproofs_verif",
           "enable": "RUSTFLAGS=\"--cfg ark_bulletproofs_verif\" (set by tools/vlib.py and setup.sh when building /verif/harness against /repo)",
           "baseline_off_cmd": "cd /repo && cargo test --workspace --no-fail-fast --offline",
           "source_commits": HOOK_COMMITS, "add_only": True},
 "engines": [{"name": "coq-model+harness", "path": "/verif/coq + /verif/harness + /verif/tools",
              "serves_properties": sorted(CLAIMED.keys()),
              "kind_free_text": "Coq 8.16 development (hand-written executable model + theorems) tied to the code by a Rust differential harness (instrumented Merlin, recorded challenges/draws) evaluated with vm_compute"}],
 "checks": checks,
 "not_applicable": [{"property_id": i, "reason": "check under construction in this build session (model and theorems being written); not claimed until its check exists"} for i in ids if i not in CLAIMED],
 "notes": "Genuine defects repaired in /repo by fix: commits d4a08f3 (C08) and a697de8 (C12); see known_findings.json and DESIGN.md §8.",
}
json.dump(m, open(os.path.join(VERIF, "MANIFEST.json"), "w"), indent=1)
print("claimed:", sorted(CLAIMED.keys()))
