//! fixturegen — wire-stability fixtures (C18) and generator digests (C12) through the public API only.
//!   fixturegen record            : print generators digests, Pedersen bases, deterministic proofs
//!   fixturegen verify <fixture>  : verify the recorded proofs / wrong statements with THIS build
#![allow(non_snake_case)]
use ark_bulletproofs::r1cs::*;
use ark_bulletproofs::{BulletproofGens, PedersenGens};
use ark_ec::AffineRepr;
use ark_ff::{Field, PrimeField};
use ark_serialize::{CanonicalDeserialize, CanonicalSerialize};
use merlin::Transcript;
use rand_chacha::ChaChaRng;
use rand_core::SeedableRng;
use sha3::{Digest, Sha3_256};
use std::panic::{catch_unwind, AssertUnwindSafe};

type Secq = ark_secq256k1::Affine;
type Zorro = ark_bulletproofs::curve::zorro::G1Affine;
type C25519 = ark_curve25519::EdwardsAffine;

fn hex(b: &[u8]) -> String { b.iter().map(|x| format!("{:02x}", x)).collect() }
fn unhex(s: &str) -> Vec<u8> { (0..s.len() / 2).map(|i| u8::from_str_radix(&s[2 * i..2 * i + 2], 16).unwrap()).collect() }
fn ser<T: CanonicalSerialize>(x: &T) -> Vec<u8> { let mut b = vec![]; x.serialize_compressed(&mut b).unwrap(); b }

fn gens<G: AffineRepr>(curve: &str) {
    let pc = PedersenGens::<G>::default();
    println!("PED {} {} {}", curve, hex(&ser(&pc.B)), hex(&ser(&pc.B_blinding)));
    let parties = 4;
    let bp = BulletproofGens::<G>::new(256, parties);
    for (kind, name) in [(true, "G"), (false, "H")] {
        for j in 0..parties {
            let v: Vec<G> = if kind { bp.G(256, parties).skip(j * 256).take(256).copied().collect() } else { bp.H(256, parties).skip(j * 256).take(256).copied().collect() };
            for cnt in [1usize, 2, 8, 64, 256] {
                let mut h = Sha3_256::new();
                for p in &v[..cnt] { h.update(&ser(p)); }
                println!("GENS {} {} {} {} {}", curve, name, j, cnt, hex(&h.finalize()));
            }
            println!("GEN0 {} {} {} {}", curve, name, j, hex(&ser(&v[0])));
        }
    }
    // high party indices (the chain label carries the party index as a little-endian u32)
    let hp_n = 65538usize;
    let hp = BulletproofGens::<G>::new(1, hp_n);
    let hg: Vec<G> = hp.G(1, hp_n).copied().collect();
    let hh: Vec<G> = hp.H(1, hp_n).copied().collect();
    for j in [255usize, 256, 257, 65535, 65536, 65537] {
        println!("GENHI {} G {} {}", curve, j, hex(&ser(&hg[j])));
        println!("GENHI {} H {} {}", curve, j, hex(&ser(&hh[j])));
    }
}

/// The fixture circuits.  `tweak` perturbs the statement on the verifier side:
/// 0 = the statement proved, 1 = a constant in a constraint changed, 2 = application data changed.
fn circuit<F: PrimeField, CS: RandomizableConstraintSystem<F>>(cs: &mut CS, id: usize, vars: &[Variable<F>], tweak: u8) -> Result<(), R1CSError> {
    let one = F::from(1u64);
    let k = if tweak == 1 { F::from(7u64) } else { F::from(0u64) };
    if tweak == 2 { cs.transcript().append_message(b"app", b"other-context"); } else { cs.transcript().append_message(b"app", b"fixture-context"); }
    match id {
        // one multiplier over committed inputs: a * b = c
        0 => {
            let (_, _, o) = cs.multiply(vars[0].into(), vars[1].into());
            cs.constrain(o - vars[2] + LinearCombination::from(k));
        }
        // no multiplier: x + 2y = 11
        1 => {
            cs.constrain(LinearCombination::from(vars[0]) + LinearCombination::from(vars[1]) * F::from(2u64) - LinearCombination::from(F::from(11u64) + k));
        }
        // three multipliers: x^4 = y, with an allocated pair
        2 => {
            let (_, _, x2) = cs.multiply(vars[0].into(), vars[0].into());
            let (_, _, x3) = cs.multiply(x2.into(), vars[0].into());
            let (_, _, x4) = cs.multiply(x3.into(), vars[0] + k);
            cs.constrain(x4 - vars[1]);
        }
        // two-phase 2-shuffle: (x0 - z)(x1 - z) = (y0 - z)(y1 - z)
        3 => {
            let v: Vec<Variable<F>> = vars.to_vec();
            cs.specify_randomized_constraints(move |cs| {
                let z = cs.challenge_scalar(b"shuffle challenge");
                let (_, _, a) = cs.multiply(v[0] - z, v[1] - z);
                let (_, _, b) = cs.multiply(v[2] - z, v[3] - z + k);
                cs.constrain(a - b);
                Ok(())
            })?;
        }
        // one multiplier; the application writes a memo to the transcript BETWEEN the first and the second commitment
        // (done by the callers of `circuit`, see MEMO_CIRCUIT)
        6 => {
            let (_, _, o) = cs.multiply(vars[0].into(), vars[1].into());
            cs.constrain(o - vars[2] + LinearCombination::from(k));
        }
        // two-phase circuit whose closure adds a challenge-weighted constraint but NO multiplier (x = y), plus one first-phase gate
        5 => {
            let (_, _, o) = cs.multiply(vars[0].into(), vars[1].into());
            cs.constrain(o - vars[2] + LinearCombination::from(k));
            let v: Vec<Variable<F>> = vars.to_vec();
            cs.specify_randomized_constraints(move |cs| {
                let z = cs.challenge_scalar(b"eq");
                cs.constrain((v[0] - v[1]) * z);
                Ok(())
            })?;
        }
        // mixed: two first-phase multipliers, three second-phase ones (5 -> padded to 8)
        _ => {
            let (_, _, p) = cs.multiply(vars[0].into(), vars[1].into());
            let (_, _, q) = cs.multiply(p.into(), vars[0] + one);
            cs.constrain(q - vars[2] + LinearCombination::from(k));
            let v: Vec<Variable<F>> = vars.to_vec();
            cs.specify_randomized_constraints(move |cs| {
                let z = cs.challenge_scalar(b"mix");
                let (_, _, a) = cs.multiply(v[0] * z, v[1].into());
                let (_, _, b) = cs.multiply(p * z, LinearCombination::from(one));
                cs.constrain(a - b);
                let (_, _, c) = cs.multiply(v[2] - z, v[2] - z);
                let (_, _, d) = cs.multiply(v[2] - z, v[2] - z);
                cs.constrain(c - d);
                let _ = cs.multiply(LinearCombination::from(z), LinearCombination::from(z));
                Ok(())
            })?;
        }
    }
    Ok(())
}

fn witness<F: PrimeField>(id: usize) -> Vec<F> {
    let f = |x: u64| F::from(x);
    match id {
        0 => vec![f(6), f(7), f(42)],
        1 => vec![f(5), f(3)],
        2 => vec![f(3), f(81)],
        3 => vec![f(10), f(20), f(20), f(10)],
        5 => vec![f(4), f(4), f(16)],
        6 => vec![f(3), f(5), f(15)],
        _ => vec![f(2), f(5), f(30)],
    }
}
const NCIRC: usize = 7;
const MEMO_CIRCUIT: usize = 6;

fn record<G: AffineRepr>(curve: &str) {
    let pc = PedersenGens::<G>::default();
    let bp = BulletproofGens::<G>::new(8, 1);
    for id in 0..NCIRC {
        let mut prng = ChaChaRng::seed_from_u64(0xF1C5 + id as u64);
        let mut t = Transcript::new(b"wire-fixture");
        let mut prover = Prover::new(&pc, &mut t);
        let w = witness::<G::ScalarField>(id);
        let mut comms = vec![];
        let mut vars = vec![];
        for (i, v) in w.iter().enumerate() {
            let (c, var) = prover.commit(*v, G::ScalarField::from(1000u64 + i as u64 + 17 * id as u64));
            comms.push(c);
            vars.push(var);
            if id == MEMO_CIRCUIT && i == 0 { prover.transcript().append_message(b"memo", b"between the commitments"); }
        }
        circuit(&mut prover, id, &vars, 0).unwrap();
        let proof = prover.prove(&mut prng, &bp).unwrap();
        println!("PROOF {} {} {} {}", curve, id, comms.iter().map(|c| hex(&ser(c))).collect::<Vec<_>>().join(","), hex(&proof.to_bytes().unwrap()));
    }
}

fn verify_one<G: AffineRepr>(id: usize, comms: &[G], proof_bytes: &[u8], label: &'static [u8], tweak: u8, cap: usize) -> i32 {
    let r = catch_unwind(AssertUnwindSafe(|| {
        let proof = match R1CSProof::<G>::from_bytes(proof_bytes) { Ok(p) => p, Err(_) => return 2 };
        let pc = PedersenGens::<G>::default();
        let bp = BulletproofGens::<G>::new(cap, 1);
        let mut t = Transcript::new(label);
        let mut v = Verifier::new(&mut t);
        let mut vars = vec![];
        for (i, c) in comms.iter().enumerate() {
            vars.push(v.commit(*c));
            if id == MEMO_CIRCUIT && i == 0 { v.transcript().append_message(b"memo", b"between the commitments"); }
        }
        if circuit(&mut v, id, &vars, tweak).is_err() { return 3; }
        match v.verify(&proof, &pc, &bp) { Ok(()) => 0, Err(_) => 1 }
    }));
    r.unwrap_or(99)
}

fn verify_fixture<G: AffineRepr>(curve: &str, lines: &[String]) {
    for l in lines {
        let t: Vec<&str> = l.split_whitespace().collect();
        if t.len() < 5 || t[0] != "PROOF" || t[1] != curve { continue; }
        let id: usize = t[2].parse().unwrap();
        let comms: Vec<G> = t[3].split(',').map(|h| G::deserialize_compressed(&unhex(h)[..]).unwrap()).collect();
        let pb = unhex(t[4]);
        let ok = verify_one::<G>(id, &comms, &pb, b"wire-fixture", 0, 8);
        let ok_big = verify_one::<G>(id, &comms, &pb, b"wire-fixture", 0, 64);
        let wrong_const = verify_one::<G>(id, &comms, &pb, b"wire-fixture", 1, 8);
        let wrong_ctx = verify_one::<G>(id, &comms, &pb, b"wire-fixture", 2, 8);
        let wrong_label = verify_one::<G>(id, &comms, &pb, b"wire-fixturE", 0, 8);
        let mut c2 = comms.clone();
        let pc = PedersenGens::<G>::default();
        c2[0] = (c2[0].into_group() + pc.B.into_group()).into();
        let wrong_comm = verify_one::<G>(id, &c2, &pb, b"wire-fixture", 0, 8);
        let mut c3 = comms.clone();
        c3.reverse();
        let reordered = if c3 != comms { verify_one::<G>(id, &c3, &pb, b"wire-fixture", 0, 8) } else { 1 };
        println!("VERIFY {} {} ok={} ok_cap64={} wrong_const={} wrong_ctx={} wrong_label={} wrong_comm={} reordered={}", curve, id, ok, ok_big, wrong_const, wrong_ctx, wrong_label, wrong_comm, reordered);
    }
    let _ = G::ScalarField::ONE;
}

fn main() {
    std::panic::set_hook(Box::new(|_| {}));
    let args: Vec<String> = std::env::args().skip(1).collect();
    match args.get(0).map(|s| s.as_str()) {
        Some("record") => {
            gens::<Secq>("secq256k1"); gens::<Zorro>("zorro"); gens::<C25519>("curve25519");
            record::<Secq>("secq256k1"); record::<Zorro>("zorro"); record::<C25519>("curve25519");
        }
        Some("verify") => {
            let lines: Vec<String> = std::fs::read_to_string(&args[1]).unwrap().lines().map(|s| s.to_string()).collect();
            verify_fixture::<Secq>("secq256k1", &lines); verify_fixture::<Zorro>("zorro", &lines); verify_fixture::<C25519>("curve25519", &lines);
        }
        _ => eprintln!("usage: fixturegen record | verify <fixture>"),
    }
}
