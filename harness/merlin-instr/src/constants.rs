/// Domain separation label to initialize the STROBE context.
///
/// This is not to be confused with the crate's semver string:
/// the latter applies to the API, while this label defines the protocol.
/// E.g. it is possible that crate 2.0 will have an incompatible API,
/// but implement the same 1.0 protocol.
pub const MERLIN_PROTOCOL_LABEL: &[u8] = b"Merlin v1.0";
