//! Minimal implementation of (parts of) Strobe.

use core::ops::{Deref, DerefMut};

use keccak;
use zeroize::Zeroize;

/// Strobe R value; security level 128 is hardcoded
const STROBE_R: u8 = 166;

const FLAG_I: u8 = 1;
const FLAG_A: u8 = 1 << 1;
const FLAG_C: u8 = 1 << 2;
const FLAG_T: u8 = 1 << 3;
const FLAG_M: u8 = 1 << 4;
const FLAG_K: u8 = 1 << 5;

fn transmute_state(st: &mut AlignedKeccakState) -> &mut [u64; 25] {
    unsafe { &mut *(st as *mut AlignedKeccakState as *mut [u64; 25]) }
}

/// This is a wrapper around 200-byte buffer that's always 8-byte aligned
/// to make pointers to it safely convertible to pointers to [u64; 25]
/// (since u64 words must be 8-byte aligned)
#[derive(Clone, Zeroize)]
#[zeroize(drop)]
#[repr(align(8))]
struct AlignedKeccakState([u8; 200]);

/// A Strobe context for the 128-bit security level.
///
/// Only `meta-AD`, `AD`, `KEY`, and `PRF` operations are supported.
#[derive(Clone, Zeroize)]
pub struct Strobe128 {
    state: AlignedKeccakState,
    pos: u8,
    pos_begin: u8,
    cur_flags: u8,
}

impl ::core::fmt::Debug for Strobe128 {
    fn fmt(&self, f: &mut ::core::fmt::Formatter<'_>) -> ::core::fmt::Result {
        // Ensure that the Strobe state isn't accidentally logged
        write!(f, "Strobe128: STATE OMITTED")
    }
}

impl Strobe128 {
    pub fn new(protocol_label: &[u8]) -> Strobe128 {
        let initial_state = {
            let mut st = AlignedKeccakState([0u8; 200]);
            st[0..6].copy_from_slice(&[1, STROBE_R + 2, 1, 0, 1, 96]);
            st[6..18].copy_from_slice(b"STROBEv1.0.2");
            keccak::f1600(transmute_state(&mut st));

            st
        };

        let mut strobe = Strobe128 {
            state: initial_state,
            pos: 0,
            pos_begin: 0,
            cur_flags: 0,
        };

        strobe.meta_ad(protocol_label, false);

        strobe
    }

    pub fn meta_ad(&mut self, data: &[u8], more: bool) {
        self.begin_op(FLAG_M | FLAG_A, more);
        self.absorb(data);
    }

    pub fn ad(&mut self, data: &[u8], more: bool) {
        self.begin_op(FLAG_A, more);
        self.absorb(data);
    }

    pub fn prf(&mut self, data: &mut [u8], more: bool) {
        self.begin_op(FLAG_I | FLAG_A | FLAG_C, more);
        self.squeeze(data);
    }

    pub fn key(&mut self, data: &[u8], more: bool) {
        self.begin_op(FLAG_A | FLAG_C, more);
        self.overwrite(data);
    }
}

impl Strobe128 {
    fn run_f(&mut self) {
        self.state[self.pos as usize] ^= self.pos_begin;
        self.state[(self.pos + 1) as usize] ^= 0x04;
        self.state[(STROBE_R + 1) as usize] ^= 0x80;
        keccak::f1600(transmute_state(&mut self.state));
        self.pos = 0;
        self.pos_begin = 0;
    }

    fn absorb(&mut self, data: &[u8]) {
        for byte in data {
            self.state[self.pos as usize] ^= byte;
            self.pos += 1;
            if self.pos == STROBE_R {
                self.run_f();
            }
        }
    }

    fn overwrite(&mut self, data: &[u8]) {
        for byte in data {
            self.state[self.pos as usize] = *byte;
            self.pos += 1;
            if self.pos == STROBE_R {
                self.run_f();
            }
        }
    }

    fn squeeze(&mut self, data: &mut [u8]) {
        for byte in data {
            *byte = self.state[self.pos as usize];
            self.state[self.pos as usize] = 0;
            self.pos += 1;
            if self.pos == STROBE_R {
                self.run_f();
            }
        }
    }

    fn begin_op(&mut self, flags: u8, more: bool) {
        // Check if we're continuing an operation
        if more {
            assert_eq!(
                self.cur_flags, flags,
                "You tried to continue op {:#b} but changed flags to {:#b}",
                self.cur_flags, flags,
            );
            return;
        }

        // Skip adjusting direction information (we just use AD, PRF)
        assert_eq!(
            flags & FLAG_T,
            0u8,
            "You used the T flag, which this implementation doesn't support"
        );

        let old_begin = self.pos_begin;
        self.pos_begin = self.pos + 1;
        self.cur_flags = flags;

        self.absorb(&[old_begin, flags]);

        // Force running F if C or K is set
        let force_f = 0 != (flags & (FLAG_C | FLAG_K));

        if force_f && self.pos != 0 {
            self.run_f();
        }
    }
}

impl Deref for AlignedKeccakState {
    type Target = [u8; 200];

    fn deref(&self) -> &Self::Target {
        &self.0
    }
}

impl DerefMut for AlignedKeccakState {
    fn deref_mut(&mut self) -> &mut Self::Target {
        &mut self.0
    }
}

#[cfg(test)]
mod tests {
    use strobe_rs::{self, SecParam};

    #[test]
    fn test_conformance() {
        let mut s1 = super::Strobe128::new(b"Conformance Test Protocol");
        let mut s2 = strobe_rs::Strobe::new(b"Conformance Test Protocol", SecParam::B128);

        // meta-AD(b"msg"); AD(msg)

        let msg = [99u8; 1024];

        s1.meta_ad(b"ms", false);
        s1.meta_ad(b"g", true);
        s1.ad(&msg, false);

        s2.meta_ad(b"ms", false);
        s2.meta_ad(b"g", true);
        s2.ad(&msg, false);

        // meta-AD(b"prf"); PRF()

        let mut prf1 = [0u8; 32];
        s1.meta_ad(b"prf", false);
        s1.prf(&mut prf1, false);

        let mut prf2 = [0u8; 32];
        s2.meta_ad(b"prf", false);
        s2.prf(&mut prf2, false);

        assert_eq!(prf1, prf2);

        // meta-AD(b"key"); KEY(prf output)

        s1.meta_ad(b"key", false);
        s1.key(&prf1, false);

        s2.meta_ad(b"key", false);
        s2.key(&prf2, false);

        // meta-AD(b"prf"); PRF()

        let mut prf1 = [0u8; 32];
        s1.meta_ad(b"prf", false);
        s1.prf(&mut prf1, false);

        let mut prf2 = [0u8; 32];
        s2.meta_ad(b"prf", false);
        s2.prf(&mut prf2, false);

        assert_eq!(prf1, prf2);
    }
}
