//! Add-only instrumentation layer (not part of merlin): a thread-local log of every
//! transcript / transcript-RNG operation, and a harness-only "forced draws" switch.
//! The STROBE code path is untouched; with the switch off, outputs are those of merlin 3.0.0.
use std::cell::{Cell, RefCell};
use std::collections::VecDeque;

#[derive(Clone, Copy, Debug, PartialEq, Eq)]
pub enum Kind {
    New,
    CloneOf,
    Append,
    Challenge,
    BuildRng,
    Rekey,
    Finalize,
    RngFill,
}

#[derive(Clone, Debug)]
pub struct Entry {
    pub tid: u64,
    pub kind: Kind,
    pub label: Vec<u8>,
    pub data: Vec<u8>,
}

thread_local! {
    static LOG: RefCell<Vec<Entry>> = RefCell::new(Vec::new());
    static NEXT: Cell<u64> = Cell::new(1);
    static ENABLED: Cell<bool> = Cell::new(false);
    static FORCED: RefCell<VecDeque<u8>> = RefCell::new(VecDeque::new());
}

pub(crate) fn fresh_id() -> u64 {
    NEXT.with(|n| {
        let v = n.get();
        n.set(v + 1);
        v
    })
}

pub(crate) fn log(tid: u64, kind: Kind, label: &[u8], data: &[u8]) {
    if ENABLED.with(|e| e.get()) {
        LOG.with(|l| {
            l.borrow_mut().push(Entry {
                tid,
                kind,
                label: label.to_vec(),
                data: data.to_vec(),
            })
        });
    }
}

pub(crate) fn override_draw(dest: &mut [u8]) {
    FORCED.with(|f| {
        let mut q = f.borrow_mut();
        if q.len() >= dest.len() && !dest.is_empty() {
            for b in dest.iter_mut() {
                *b = q.pop_front().unwrap();
            }
        }
    });
}

/// Start recording (clears the log).
pub fn start() {
    LOG.with(|l| l.borrow_mut().clear());
    ENABLED.with(|e| e.set(true));
}

/// Stop recording and return the log.
pub fn stop() -> Vec<Entry> {
    ENABLED.with(|e| e.set(false));
    LOG.with(|l| std::mem::take(&mut *l.borrow_mut()))
}

/// Queue bytes that the next TranscriptRng::fill_bytes calls hand out instead of STROBE output.
pub fn force_draw_bytes(bytes: &[u8]) {
    FORCED.with(|f| f.borrow_mut().extend(bytes.iter().copied()));
}

/// Number of forced bytes not yet consumed; clears the queue.
pub fn clear_forced() -> usize {
    FORCED.with(|f| {
        let n = f.borrow().len();
        f.borrow_mut().clear();
        n
    })
}
