#![cfg_attr(not(feature = "std"), no_std)]
#![cfg_attr(feature = "nightly", feature(external_doc))]
#![cfg_attr(feature = "nightly", doc(include = "../README.md"))]
#![doc(html_root_url = "https://docs.rs/merlin/3.0.0")]
// put this after the #![doc(..)] so it appears as a footer:
//! Note that docs will only build on nightly Rust until
//! [RFC 1990 stabilizes](https://github.com/rust-lang/rust/issues/44732).

#[cfg(target_endian = "big")]
compile_error!(
    r#"
This crate doesn't support big-endian targets, since I didn't
have one to test correctness on.  If you're seeing this message,
please file an issue!
"#
);

pub mod instr;
mod constants;
mod strobe;
mod transcript;

pub use crate::transcript::Transcript;
pub use crate::transcript::TranscriptRng;
pub use crate::transcript::TranscriptRngBuilder;
