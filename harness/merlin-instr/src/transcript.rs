use rand_core;
use zeroize::Zeroize;

use crate::strobe::Strobe128;

fn encode_u64(x: u64) -> [u8; 8] {
    use byteorder::{ByteOrder, LittleEndian};

    let mut buf = [0; 8];
    LittleEndian::write_u64(&mut buf, x);
    buf
}

fn encode_usize_as_u32(x: usize) -> [u8; 4] {
    use byteorder::{ByteOrder, LittleEndian};

    assert!(x <= (u32::max_value() as usize));

    let mut buf = [0; 4];
    LittleEndian::write_u32(&mut buf, x as u32);
    buf
}

/// A transcript of a public-coin argument.
///
/// The prover's messages are added to the transcript using
/// [`append_message`](Transcript::append_message), and the verifier's
/// challenges can be computed using
/// [`challenge_bytes`](Transcript::challenge_bytes).
///
/// # Creating and using a Merlin transcript
///
/// To create a Merlin transcript, use [`Transcript::new()`].  This
/// function takes a domain separation label which should be unique to
/// the application.
///
/// To use the transcript with a Merlin-based proof implementation,
/// the prover's side creates a Merlin transcript with an
/// application-specific domain separation label, and passes a `&mut`
/// reference to the transcript to the proving function(s).
///
/// To verify the resulting proof, the verifier creates their own
/// Merlin transcript using the same domain separation label, then
/// passes a `&mut` reference to the verifier's transcript to the
/// verification function.
///
/// # Implementing proofs using Merlin
///
/// For information on the design of Merlin and how to use it to
/// implement a proof system, see the documentation at
/// [merlin.cool](https://merlin.cool), particularly the [Using
/// Merlin](https://merlin.cool/use/index.html) section.
#[derive(Zeroize)]
pub struct Transcript {
    strobe: Strobe128,
    #[zeroize(skip)]
    id: u64, // instr: identity of this transcript object in the log
}

// instr: a clone is a new transcript object with a parent pointer in the log
impl Clone for Transcript {
    fn clone(&self) -> Transcript {
        let id = crate::instr::fresh_id();
        crate::instr::log(id, crate::instr::Kind::CloneOf, &self.id.to_le_bytes(), &[]);
        Transcript { strobe: self.strobe.clone(), id }
    }
}

impl Transcript {
    /// Initialize a new transcript with the supplied `label`, which
    /// is used as a domain separator.
    ///
    /// # Note
    ///
    /// This function should be called by a proof library's API
    /// consumer (i.e., the application using the proof library), and
    /// **not by the proof implementation**.  See the [Passing
    /// Transcripts](https://merlin.cool/use/passing.html) section of
    /// the Merlin website for more details on why.
    pub fn new(label: &'static [u8]) -> Transcript {
        use crate::constants::MERLIN_PROTOCOL_LABEL;

        #[cfg(feature = "debug-transcript")]
        {
            use std::str::from_utf8;
            println!(
                "Initialize STROBE-128({})\t# b\"{}\"",
                hex::encode(MERLIN_PROTOCOL_LABEL),
                from_utf8(MERLIN_PROTOCOL_LABEL).unwrap(),
            );
        }

        let mut transcript = Transcript {
            strobe: Strobe128::new(MERLIN_PROTOCOL_LABEL),
            id: crate::instr::fresh_id(),
        };
        crate::instr::log(transcript.id, crate::instr::Kind::New, label, &[]);
        transcript.append_message(b"dom-sep", label);

        transcript
    }

    /// Append a prover's `message` to the transcript.
    ///
    /// The `label` parameter is metadata about the message, and is
    /// also appended to the transcript.  See the [Transcript
    /// Protocols](https://merlin.cool/use/protocol.html) section of
    /// the Merlin website for details on labels.
    pub fn append_message(&mut self, label: &'static [u8], message: &[u8]) {
        let data_len = encode_usize_as_u32(message.len());
        self.strobe.meta_ad(label, false);
        self.strobe.meta_ad(&data_len, true);
        self.strobe.ad(message, false);
        crate::instr::log(self.id, crate::instr::Kind::Append, label, message);

        #[cfg(feature = "debug-transcript")]
        {
            use std::str::from_utf8;

            match from_utf8(label) {
                Ok(label_str) => {
                    println!(
                        "meta-AD : {} || LE32({})\t# b\"{}\"",
                        hex::encode(label),
                        message.len(),
                        label_str
                    );
                }
                Err(_) => {
                    println!(
                        "meta-AD : {} || LE32({})",
                        hex::encode(label),
                        message.len()
                    );
                }
            }
            match from_utf8(message) {
                Ok(message_str) => {
                    println!("     AD : {}\t# b\"{}\"", hex::encode(message), message_str);
                }
                Err(_) => {
                    println!("     AD : {}", hex::encode(message));
                }
            }
        }
    }

    /// Deprecated.  This function was renamed to
    /// [`append_message`](Transcript::append_message).
    ///
    /// This is intended to avoid any possible confusion between the
    /// transcript-level messages and protocol-level commitments.
    #[deprecated(since = "1.1.0", note = "renamed to append_message for clarity.")]
    pub fn commit_bytes(&mut self, label: &'static [u8], message: &[u8]) {
        self.append_message(label, message);
    }

    /// Convenience method for appending a `u64` to the transcript.
    ///
    /// The `label` parameter is metadata about the message, and is
    /// also appended to the transcript.  See the [Transcript
    /// Protocols](https://merlin.cool/use/protocol.html) section of
    /// the Merlin website for details on labels.
    ///
    /// # Implementation
    ///
    /// Calls `append_message` with the 8-byte little-endian encoding
    /// of `x`.
    pub fn append_u64(&mut self, label: &'static [u8], x: u64) {
        self.append_message(label, &encode_u64(x));
    }

    /// Deprecated.  This function was renamed to
    /// [`append_u64`](Transcript::append_u64).
    ///
    /// This is intended to avoid any possible confusion between the
    /// transcript-level messages and protocol-level commitments.
    #[deprecated(since = "1.1.0", note = "renamed to append_u64 for clarity.")]
    pub fn commit_u64(&mut self, label: &'static [u8], x: u64) {
        self.append_u64(label, x);
    }

    /// Fill the supplied buffer with the verifier's challenge bytes.
    ///
    /// The `label` parameter is metadata about the challenge, and is
    /// also appended to the transcript.  See the [Transcript
    /// Protocols](https://merlin.cool/use/protocol.html) section of
    /// the Merlin website for details on labels.
    pub fn challenge_bytes(&mut self, label: &'static [u8], dest: &mut [u8]) {
        let data_len = encode_usize_as_u32(dest.len());
        self.strobe.meta_ad(label, false);
        self.strobe.meta_ad(&data_len, true);
        self.strobe.prf(dest, false);
        crate::instr::log(self.id, crate::instr::Kind::Challenge, label, dest);

        #[cfg(feature = "debug-transcript")]
        {
            use std::str::from_utf8;

            match from_utf8(label) {
                Ok(label_str) => {
                    println!(
                        "meta-AD : {} || LE32({})\t# b\"{}\"",
                        hex::encode(label),
                        dest.len(),
                        label_str
                    );
                }
                Err(_) => {
                    println!("meta-AD : {} || LE32({})", hex::encode(label), dest.len());
                }
            }
            println!("     PRF: {}", hex::encode(dest));
        }
    }

    /// Fork the current [`Transcript`] to construct an RNG whose output is bound
    /// to the current transcript state as well as prover's secrets.
    ///
    /// See the [`TranscriptRngBuilder`] documentation for more details.
    pub fn build_rng(&self) -> TranscriptRngBuilder {
        let id = crate::instr::fresh_id();
        crate::instr::log(id, crate::instr::Kind::BuildRng, &self.id.to_le_bytes(), &[]);
        TranscriptRngBuilder {
            strobe: self.strobe.clone(),
            id,
        }
    }
}

/// Constructs a [`TranscriptRng`] by rekeying the [`Transcript`] with
/// prover secrets and an external RNG.
///
/// The prover uses a [`TranscriptRngBuilder`] to rekey with its
/// witness data, before using an external RNG to finalize to a
/// [`TranscriptRng`].  The resulting [`TranscriptRng`] will be a PRF
/// of all of the entire public transcript, the prover's secret
/// witness data, and randomness from the external RNG.
///
/// # Usage
///
/// To construct a [`TranscriptRng`], a prover calls
/// [`Transcript::build_rng()`] to clone the transcript state, then
/// uses [`rekey_with_witness_bytes()`][rekey_with_witness_bytes] to rekey the
/// transcript with the prover's secrets, before finally calling
/// [`finalize()`][finalize].  This rekeys the transcript with the
/// output of an external [`rand_core::RngCore`] instance and returns
/// a finalized [`TranscriptRng`].
///
/// These methods are intended to be chained, passing from a borrowed
/// [`Transcript`] to an owned [`TranscriptRng`] as follows:
/// ```
/// # extern crate merlin;
/// # extern crate rand_core;
/// # use merlin::Transcript;
/// # fn main() {
/// # let mut transcript = Transcript::new(b"TranscriptRng doctest");
/// # let public_data = b"public data";
/// # let witness_data = b"witness data";
/// # let more_witness_data = b"witness data";
/// transcript.append_message(b"public", public_data);
///
/// let mut rng = transcript
///     .build_rng()
///     .rekey_with_witness_bytes(b"witness1", witness_data)
///     .rekey_with_witness_bytes(b"witness2", more_witness_data)
///     .finalize(&mut rand_core::OsRng);
/// # }
/// ```
/// In this example, the final `rng` is a PRF of `public_data`
/// (as well as all previous `transcript` state), and of the prover's
/// secret `witness_data` and `more_witness_data`, and finally, of the
/// output of the thread-local RNG.
/// Note that because the [`TranscriptRng`] is produced from
/// [`finalize()`][finalize], it's impossible to forget
/// to rekey the transcript with external randomness.
///
/// # Note
///
/// Protocols that require randomness in multiple places (e.g., to
/// choose blinding factors for a multi-round protocol) should create
/// a fresh [`TranscriptRng`] **each time they need randomness**,
/// rather than reusing a single instance.  This ensures that the
/// randomness in each round is bound to the latest transcript state,
/// rather than just the state of the transcript when randomness was
/// first required.
///
/// # Typed Witness Data
///
/// Like the [`Transcript`], the [`TranscriptRngBuilder`] provides a
/// minimal, byte-oriented API, and like the [`Transcript`], this API
/// can be extended to allow rekeying with protocol-specific types
/// using an extension trait.  See the [Transcript
/// Protocols](https://merlin.cool/use/protocol.html) section of the
/// Merlin website for more details.
///
/// [rekey_with_witness_bytes]: TranscriptRngBuilder::rekey_with_witness_bytes
/// [finalize]: TranscriptRngBuilder::finalize
pub struct TranscriptRngBuilder {
    strobe: Strobe128,
    id: u64, // instr
}

impl TranscriptRngBuilder {
    /// Rekey the transcript using the provided witness data.
    ///
    /// The `label` parameter is metadata about `witness`.
    pub fn rekey_with_witness_bytes(
        mut self,
        label: &'static [u8],
        witness: &[u8],
    ) -> TranscriptRngBuilder {
        let witness_len = encode_usize_as_u32(witness.len());
        self.strobe.meta_ad(label, false);
        self.strobe.meta_ad(&witness_len, true);
        self.strobe.key(witness, false);
        crate::instr::log(self.id, crate::instr::Kind::Rekey, label, witness);

        self
    }

    /// Deprecated.  This function was renamed to
    /// [`rekey_with_witness_bytes`](Transcript::rekey_with_witness_bytes).
    ///
    /// This is intended to avoid any possible confusion between the
    /// transcript-level messages and protocol-level commitments.
    #[deprecated(
        since = "1.1.0",
        note = "renamed to rekey_with_witness_bytes for clarity."
    )]
    pub fn commit_witness_bytes(
        self,
        label: &'static [u8],
        witness: &[u8],
    ) -> TranscriptRngBuilder {
        self.rekey_with_witness_bytes(label, witness)
    }

    /// Use the supplied external `rng` to rekey the transcript, so
    /// that the finalized [`TranscriptRng`] is a PRF bound to
    /// randomness from the external RNG, as well as all other
    /// transcript data.
    pub fn finalize<R>(mut self, rng: &mut R) -> TranscriptRng
    where
        R: rand_core::RngCore + rand_core::CryptoRng,
    {
        let random_bytes = {
            let mut bytes = [0u8; 32];
            rng.fill_bytes(&mut bytes);
            bytes
        };

        self.strobe.meta_ad(b"rng", false);
        self.strobe.key(&random_bytes, false);
        crate::instr::log(self.id, crate::instr::Kind::Finalize, b"rng", &random_bytes);

        TranscriptRng {
            strobe: self.strobe,
            id: self.id,
        }
    }
}

/// An RNG providing synthetic randomness to the prover.
///
/// A [`TranscriptRng`] is constructed from a [`Transcript`] using a
/// [`TranscriptRngBuilder`]; see its documentation for details on
/// how to construct one.
///
/// The transcript RNG construction is described in the [Generating
/// Randomness](https://merlin.cool/transcript/rng.html) section of
/// the Merlin website.
pub struct TranscriptRng {
    strobe: Strobe128,
    id: u64, // instr
}

impl rand_core::RngCore for TranscriptRng {
    fn next_u32(&mut self) -> u32 {
        rand_core::impls::next_u32_via_fill(self)
    }

    fn next_u64(&mut self) -> u64 {
        rand_core::impls::next_u64_via_fill(self)
    }

    fn fill_bytes(&mut self, dest: &mut [u8]) {
        let dest_len = encode_usize_as_u32(dest.len());
        self.strobe.meta_ad(&dest_len, false);
        self.strobe.prf(dest, false);
        // instr: harness-only switch; when armed the queued bytes replace the STROBE output
        crate::instr::override_draw(dest);
        crate::instr::log(self.id, crate::instr::Kind::RngFill, &[], dest);
    }

    fn try_fill_bytes(&mut self, dest: &mut [u8]) -> Result<(), rand_core::Error> {
        self.fill_bytes(dest);
        Ok(())
    }
}

impl rand_core::CryptoRng for TranscriptRng {}

