//! Drive the real Prover / Verifier on an AST program, recording every observable.
use crate::ast::*;
use ark_bulletproofs::r1cs::{Prover, R1CSError, R1CSProof, Verifier};
use ark_bulletproofs::{BulletproofGens, PedersenGens};
use ark_ec::AffineRepr;
use ark_ff::{PrimeField, UniformRand};
use ark_serialize::{CanonicalDeserialize, CanonicalSerialize};
use merlin::instr::{Entry, Kind};
use merlin::Transcript;
use rand_chacha::ChaChaRng;
use rand_core::{CryptoRng, RngCore, SeedableRng};
use std::cell::RefCell;
use std::panic::{catch_unwind, AssertUnwindSafe};
use std::rc::Rc;

pub fn pt_bytes<G: AffineRepr>(p: &G) -> Vec<u8> {
    let mut b = Vec::new();
    p.serialize_uncompressed(&mut b).unwrap();
    b
}
pub fn pt_from_bytes<G: AffineRepr>(b: &[u8]) -> Option<G> {
    G::deserialize_uncompressed_unchecked(b).ok()
}
pub fn hex(b: &[u8]) -> String {
    b.iter().map(|x| format!("{:02x}", x)).collect()
}
pub fn unhex(s: &str) -> Vec<u8> {
    (0..s.len() / 2)
        .map(|i| u8::from_str_radix(&s[2 * i..2 * i + 2], 16).unwrap())
        .collect()
}

/// RNG that replays a byte string (used to reconstruct the scalars drawn from logged bytes)
pub struct ByteRng<'a> {
    pub data: &'a [u8],
    pub pos: usize,
    pub short: bool,
}
impl<'a> RngCore for ByteRng<'a> {
    fn next_u32(&mut self) -> u32 {
        rand_core::impls::next_u32_via_fill(self)
    }
    fn next_u64(&mut self) -> u64 {
        rand_core::impls::next_u64_via_fill(self)
    }
    fn fill_bytes(&mut self, dest: &mut [u8]) {
        for b in dest.iter_mut() {
            if self.pos < self.data.len() {
                *b = self.data[self.pos];
                self.pos += 1;
            } else {
                self.short = true;
                *b = 0;
            }
        }
    }
    fn try_fill_bytes(&mut self, dest: &mut [u8]) -> Result<(), rand_core::Error> {
        self.fill_bytes(dest);
        Ok(())
    }
}
impl<'a> CryptoRng for ByteRng<'a> {}

/// the scalars `F::rand` produced from a logged output byte stream
pub fn draws_from_bytes<F: PrimeField>(bytes: &[u8]) -> Vec<F> {
    let mut rng = ByteRng {
        data: bytes,
        pos: 0,
        short: false,
    };
    let mut out = vec![];
    while rng.pos < bytes.len() {
        let x = F::rand(&mut rng);
        if rng.short {
            break;
        }
        out.push(x);
    }
    out
}

/// challenge_scalar's derivation from the 32 challenge bytes (transcript.rs)
pub fn chal_from_bytes<F: PrimeField>(b: &[u8]) -> F {
    let mut seed = [0u8; 32];
    seed.copy_from_slice(&b[..32]);
    let mut prng = ChaChaRng::from_seed(seed);
    F::rand(&mut prng)
}

/// bytes that make `F::rand` return `x` when handed out by the rng (Montgomery limbs, LE)
pub fn forced_bytes<F: PrimeField>(x: &F) -> Vec<u8> {
    // F::rand samples the *internal* (Montgomery) representation; recover it by
    // searching: rand(bytes(m)) = m_as_montgomery, i.e. we need limbs L with Fp(L) = x.
    // Fp(L) denotes value L * R^-1, so L = x * R mod p.  R = 2^(64*N) mod p.
    let n_limbs = ((F::MODULUS_BIT_SIZE as usize) + 63) / 64;
    let mut r = F::one();
    let two64 = F::from(u64::MAX) + F::one();
    for _ in 0..n_limbs {
        r *= two64;
    }
    let l = (*x * r).into_bigint();
    let mut out = vec![];
    for limb in l.as_ref().iter() {
        out.extend_from_slice(&limb.to_le_bytes());
    }
    out
}

#[derive(Clone, Debug, Default)]
pub struct TrLog {
    /// (kind, label, data): kind 0 append, 3 challenge
    pub ops: Vec<(u8, Vec<u8>, Vec<u8>)>,
    /// challenge bytes drawn on clones of the main transcript (the verifier's `r`)
    pub clone_chals: Vec<(Vec<u8>, Vec<u8>)>,
    /// for each clone challenge: how many operations the main transcript had absorbed when the clone was taken,
    /// and how many operations were made on the clone itself before the challenge
    pub clone_chal_pos: Vec<(usize, usize)>,
    pub rekeys: Vec<(Vec<u8>, Vec<u8>)>,
    pub finalize: Vec<Vec<u8>>,
    pub rng_out: Vec<u8>,
    pub rng_calls: usize,
}

pub fn split_log(entries: &[Entry]) -> TrLog {
    let mut t = TrLog::default();
    let main = entries.iter().find(|e| e.kind == Kind::New).map(|e| e.tid);
    let mut clones = vec![];
    let mut clone_at: std::collections::HashMap<u64, (usize, usize)> = Default::default();
    for e in entries {
        match e.kind {
            Kind::New => {}
            Kind::CloneOf => { clones.push(e.tid); clone_at.insert(e.tid as u64, (t.ops.len(), 0)); }
            Kind::Append if clones.contains(&e.tid) => { if let Some(x) = clone_at.get_mut(&(e.tid as u64)) { x.1 += 1; } }
            Kind::Append if Some(e.tid) == main => t.ops.push((0, e.label.clone(), e.data.clone())),
            Kind::Challenge if Some(e.tid) == main && e.label == b"verif-followup" => {}
            Kind::Challenge if Some(e.tid) == main => {
                t.ops.push((3, e.label.clone(), e.data.clone()))
            }
            Kind::Challenge if clones.contains(&e.tid) => {
                t.clone_chals.push((e.label.clone(), e.data.clone()));
                t.clone_chal_pos.push(clone_at.get(&(e.tid as u64)).copied().unwrap_or((usize::MAX, 0)));
            }
            Kind::Rekey => t.rekeys.push((e.label.clone(), e.data.clone())),
            Kind::Finalize => t.finalize.push(e.data.clone()),
            Kind::RngFill => {
                t.rng_out.extend_from_slice(&e.data);
                t.rng_calls += 1;
            }
            _ => {}
        }
    }
    t
}

pub struct Gens<G: AffineRepr> {
    pub pc: PedersenGens<G>,
    pub bp: BulletproofGens<G>,
}

pub fn result_code<T>(r: &Result<Result<T, R1CSError>, ()>) -> u64 {
    match r {
        Ok(Ok(_)) => 0,
        Ok(Err(e)) => err_code(e),
        Err(()) => 99,
    }
}

pub struct ProverRun<G: AffineRepr> {
    pub events1: Vec<Event>,
    pub events2: Vec<Event>,
    pub secrets: Option<(Vec<G::ScalarField>, Vec<G::ScalarField>, Vec<G::ScalarField>)>,
    pub commitments: Vec<G>,
    pub result: Result<Result<R1CSProof<G>, R1CSError>, ()>,
    pub log: TrLog,
    pub panic_msg: String,
    /// 32 challenge bytes drawn from the caller's transcript after prove() returned
    pub followup: Vec<u8>,
}

thread_local! {
    pub static LAST_PANIC: RefCell<String> = RefCell::new(String::new());
}
pub fn install_panic_hook() {
    std::panic::set_hook(Box::new(|info| {
        let s = format!("{}", info);
        LAST_PANIC.with(|p| *p.borrow_mut() = s);
    }));
}
pub fn last_panic() -> String {
    LAST_PANIC.with(|p| p.borrow().clone())
}

/// gate overrides through hook H2, applied after the first phase program
pub type GateOv<F> = Vec<(usize, F, F, F)>;

pub fn run_prover<G: AffineRepr>(
    label: &'static [u8],
    prog: &[COp<G::ScalarField>],
    gate_ov: &GateOv<G::ScalarField>,
    pc: &PedersenGens<G>,
    bp: &BulletproofGens<G>,
    ext_seed: u64,
    forced: &[G::ScalarField],
) -> ProverRun<G> {
    let log1: EvLog = Rc::new(RefCell::new(vec![]));
    let log2: EvLog = Rc::new(RefCell::new(vec![]));
    let mut secrets = None;
    let mut commitments = vec![];
    merlin::instr::clear_forced();
    for x in forced {
        merlin::instr::force_draw_bytes(&forced_bytes(x));
    }
    merlin::instr::start();
    let followup = std::cell::RefCell::new(vec![]);
    let res = catch_unwind(AssertUnwindSafe(|| {
        let mut t = Transcript::new(label);
        let r = {
        let mut prover = Prover::new(pc, &mut t);
        for op in prog {
            match op {
                COp::Commit(v, vb) => {
                    let (c, var) = prover.commit(*v, *vb);
                    commitments.push(c);
                    log1.borrow_mut()
                        .push(Event::Commit(pt_bytes(&c), V::of_var(var)));
                }
                _ => {
                    if !apply_cop(&mut prover, op, &log1, &log2) {
                        break;
                    }
                }
            }
        }
        secrets = Some(prover.verif_secrets());
        for (i, l, r, o) in gate_ov {
            prover.verif_set_gate(*i, *l, *r, *o);
        }
        let mut rng = HeaderRng::new(ext_seed);
        prover.prove(&mut rng, bp)
        };
        let mut buf = [0u8; 32];
        t.challenge_bytes(b"verif-followup", &mut buf);
        *followup.borrow_mut() = buf.to_vec();
        r
    }));
    let entries = merlin::instr::stop();
    merlin::instr::clear_forced();
    let panic_msg = if res.is_err() { last_panic() } else { String::new() };
    let events1 = log1.borrow().clone();
    let events2 = log2.borrow().clone();
    ProverRun {
        events1,
        events2,
        secrets,
        commitments,
        result: res.map_err(|_| ()),
        log: split_log(&entries),
        panic_msg,
        followup: followup.into_inner(),
    }
}

/// external randomness handed to prove(): a ChaCha stream; when bit 63 of the seed is set, the first 8 bytes of
/// the stream are a constant header (two such generators agree on their first u64 and differ afterwards)
pub struct HeaderRng { inner: ChaChaRng, header_left: usize }
impl HeaderRng {
    pub fn new(seed: u64) -> Self { HeaderRng { inner: ChaChaRng::seed_from_u64(seed), header_left: if seed >> 63 == 1 { 8 } else { 0 } } }
}
impl rand_core::RngCore for HeaderRng {
    fn next_u32(&mut self) -> u32 { let mut b = [0u8; 4]; self.fill_bytes(&mut b); u32::from_le_bytes(b) }
    fn next_u64(&mut self) -> u64 { let mut b = [0u8; 8]; self.fill_bytes(&mut b); u64::from_le_bytes(b) }
    fn fill_bytes(&mut self, dest: &mut [u8]) {
        for x in dest.iter_mut() {
            if self.header_left > 0 { *x = 0xA5; self.header_left -= 1; } else { let mut b = [0u8; 1]; self.inner.fill_bytes(&mut b); *x = b[0]; }
        }
    }
    fn try_fill_bytes(&mut self, dest: &mut [u8]) -> Result<(), rand_core::Error> { self.fill_bytes(dest); Ok(()) }
}
impl rand_core::CryptoRng for HeaderRng {}

pub struct VerifierRun<F> {
    pub events1: Vec<Event>,
    pub events2: Vec<Event>,
    /// result of verification_scalars (hook H3)
    pub scalars: Result<Result<Vec<F>, R1CSError>, ()>,
    pub log_scalars: TrLog,
    /// result of verify
    pub verdict: Result<Result<(), R1CSError>, ()>,
    pub log_verify: TrLog,
    pub panic_msg: String,
    /// 32 challenge bytes drawn from the caller's transcript after verify() returned
    pub followup: Vec<u8>,
}

fn drive_verifier<G: AffineRepr>(
    verifier: &mut Verifier<G, &mut Transcript>,
    prog: &[COp<G::ScalarField>],
    commitments: &[G],
    log1: &EvLog,
    log2: &EvLog,
) {
    let mut ci = 0;
    for op in prog {
        match op {
            COp::Commit(..) => {
                let c = commitments.get(ci).copied().unwrap_or_else(G::zero);
                ci += 1;
                let var = verifier.commit(c);
                log1.borrow_mut()
                    .push(Event::Commit(pt_bytes(&c), V::of_var(var)));
            }
            // a prover-side missing assignment stops the program there; the verifier ignores assignments
            _ => {
                apply_cop(verifier, op, log1, log2);
            }
        }
    }
}

pub fn run_verifier<G: AffineRepr>(
    label: &'static [u8],
    prog: &[COp<G::ScalarField>],
    commitments: &[G],
    proof: &R1CSProof<G>,
    pc: &PedersenGens<G>,
    bp: &BulletproofGens<G>,
) -> VerifierRun<G::ScalarField> {
    // pass 1: the scalar vector (hook H3)
    let log1: EvLog = Rc::new(RefCell::new(vec![]));
    let log2: EvLog = Rc::new(RefCell::new(vec![]));
    merlin::instr::start();
    let res = catch_unwind(AssertUnwindSafe(|| {
        let mut t = Transcript::new(label);
        let mut verifier = Verifier::new(&mut t);
        drive_verifier(&mut verifier, prog, commitments, &log1, &log2);
        verifier.verif_verification_scalars(proof, bp)
    }));
    let entries = merlin::instr::stop();
    let mut panic_msg = if res.is_err() { last_panic() } else { String::new() };
    let events1 = log1.borrow().clone();
    let events2 = log2.borrow().clone();
    // pass 2: the verdict of the unmodified verify
    let l1: EvLog = Rc::new(RefCell::new(vec![]));
    let l2: EvLog = Rc::new(RefCell::new(vec![]));
    merlin::instr::start();
    let vfollow = std::cell::RefCell::new(vec![]);
    let verdict = catch_unwind(AssertUnwindSafe(|| {
        let mut t = Transcript::new(label);
        let r = {
            let mut verifier = Verifier::new(&mut t);
            drive_verifier(&mut verifier, prog, commitments, &l1, &l2);
            verifier.verify(proof, pc, bp)
        };
        let mut buf = [0u8; 32];
        t.challenge_bytes(b"verif-followup", &mut buf);
        *vfollow.borrow_mut() = buf.to_vec();
        r
    }));
    let entries2 = merlin::instr::stop();
    if verdict.is_err() {
        panic_msg = last_panic();
    }
    VerifierRun {
        events1,
        events2,
        scalars: res.map_err(|_| ()),
        log_scalars: split_log(&entries),
        verdict: verdict.map_err(|_| ()),
        log_verify: split_log(&entries2),
        panic_msg,
        followup: vfollow.into_inner(),
    }
}

/// field-by-field view of a proof through its (compressed) encoding: 11 points, 3 scalars, L, R, a, b
pub struct ProofParts<G: AffineRepr> {
    pub points: Vec<G>,
    pub scalars: Vec<G::ScalarField>,
    pub l: Vec<G>,
    pub r: Vec<G>,
    pub a: G::ScalarField,
    pub b: G::ScalarField,
}

pub fn proof_parts<G: AffineRepr>(proof: &R1CSProof<G>) -> ProofParts<G> {
    let bytes = proof.to_bytes().unwrap();
    let mut cur = &bytes[..];
    let mut points = vec![];
    for _ in 0..11 {
        points.push(G::deserialize_compressed(&mut cur).unwrap());
    }
    let mut scalars = vec![];
    for _ in 0..3 {
        scalars.push(G::ScalarField::deserialize_compressed(&mut cur).unwrap());
    }
    let l = Vec::<G>::deserialize_compressed(&mut cur).unwrap();
    let r = Vec::<G>::deserialize_compressed(&mut cur).unwrap();
    let a = G::ScalarField::deserialize_compressed(&mut cur).unwrap();
    let b = G::ScalarField::deserialize_compressed(&mut cur).unwrap();
    ProofParts {
        points,
        scalars,
        l,
        r,
        a,
        b,
    }
}

pub fn proof_from_parts<G: AffineRepr>(p: &ProofParts<G>) -> Option<R1CSProof<G>> {
    let mut bytes = vec![];
    for x in &p.points {
        x.serialize_compressed(&mut bytes).unwrap();
    }
    for x in &p.scalars {
        x.serialize_compressed(&mut bytes).unwrap();
    }
    p.l.serialize_compressed(&mut bytes).unwrap();
    p.r.serialize_compressed(&mut bytes).unwrap();
    p.a.serialize_compressed(&mut bytes).unwrap();
    p.b.serialize_compressed(&mut bytes).unwrap();
    R1CSProof::<G>::from_bytes(&bytes).ok()
}

pub fn rand_scalar<F: PrimeField, R: RngCore>(rng: &mut R) -> F {
    F::rand(rng)
}
