//! Structured program generator: mostly-valid constraint-system programs whose witness satisfies
//! every constraint by construction (constants are balanced against a mirror of the assignment),
//! plus controlled violations.  Every random choice comes from the one ChaCha state passed in.
use crate::ast::*;
use ark_ff::PrimeField;
use rand::Rng;
use rand_chacha::ChaChaRng;

pub fn edge_scalar<F: PrimeField>(rng: &mut ChaChaRng) -> F {
    match rng.gen_range(0..10) {
        0 => F::zero(),
        1 => F::one(),
        2 => -F::one(),
        3 => F::from(u64::MAX) + F::from(rng.gen_range(1u64..5)),
        4 => -F::from(rng.gen_range(1u64..1000)),
        5 => F::from(rng.gen_range(0u64..10)),
        6 => {
            // limb structure: each 64-bit limb independently zero, small, all-ones or random (reduced mod r)
            let mut v = F::zero();
            let two64 = F::from(u64::MAX) + F::one();
            for _ in 0..4 {
                let limb: u64 = match rng.gen_range(0..4) { 0 => 0, 1 => rng.gen_range(1..8), 2 => u64::MAX, _ => rng.gen() };
                v = v * two64 + F::from(limb);
            }
            v
        }
        _ => F::rand(rng),
    }
}

#[derive(Clone, Debug, Default)]
pub struct Shape {
    pub commits: usize,
    pub ops1: usize,
    pub closures: usize,
    pub ops2: usize,
    pub allow_missing: bool,
    /// keep the witness satisfying by construction: multiply() inputs never mention the half-open gate's unassigned wires
    pub sure: bool,
}

struct Mirror<F: PrimeField> {
    v: Vec<Sx<F>>,
    l: Vec<Sx<F>>,
    r: Vec<Sx<F>>,
    o: Vec<Sx<F>>,
    pending: Option<usize>,
}

impl<F: PrimeField> Mirror<F> {
    fn val(&self, x: V) -> Sx<F> {
        match x {
            V::Committed(i) => self.v[i].clone(),
            V::Left(i) => self.l[i].clone(),
            V::Right(i) => self.r[i].clone(),
            V::Out(i) => self.o[i].clone(),
            V::One => Sx::C(F::one()),
            V::Phantom => Sx::C(F::zero()),
        }
    }
    fn eval(&self, lc: &Lcx<F>) -> Sx<F> {
        let mut acc = Sx::C(F::zero());
        for (v, c) in lc {
            acc = Sx::add(acc, Sx::mul(c.clone(), self.val(*v)));
        }
        acc
    }
    fn pick_var(&self, rng: &mut ChaChaRng) -> V {
        let mut cands = vec![V::One];
        for i in 0..self.v.len() {
            cands.push(V::Committed(i));
        }
        for i in 0..self.l.len() {
            cands.push(V::Left(i));
            cands.push(V::Right(i));
            cands.push(V::Out(i));
        }
        if rng.gen_range(0..40) == 0 {
            return V::Phantom;
        }
        cands[rng.gen_range(0..cands.len())]
    }
}

fn simp<F: PrimeField>(s: Sx<F>, phase2: bool) -> Sx<F> {
    if phase2 {
        s
    } else {
        Sx::C(s.eval(&[]))
    }
}

fn rand_coeff<F: PrimeField>(rng: &mut ChaChaRng, nch: usize) -> Sx<F> {
    if nch > 0 && rng.gen_range(0..3) == 0 {
        let c = Sx::Ch(rng.gen_range(0..nch));
        match rng.gen_range(0..3) {
            0 => c,
            1 => Sx::mul(Sx::C(edge_scalar(rng)), c),
            _ => Sx::add(c, Sx::C(edge_scalar(rng))),
        }
    } else {
        Sx::C(edge_scalar(rng))
    }
}

/// multiply() evaluates its inputs at call time: a wire of the half-open gate that is assigned later must not occur
fn avoid_pending<F: PrimeField>(m: &Mirror<F>, lc: &mut Lcx<F>) {
    if let Some(p) = m.pending {
        for t in lc.iter_mut() {
            if t.0 == V::Right(p) || t.0 == V::Out(p) { t.0 = V::One; }
        }
    }
}

fn rand_lc<F: PrimeField>(m: &Mirror<F>, rng: &mut ChaChaRng, nch: usize) -> Lcx<F> {
    let k = rng.gen_range(0..4);
    (0..k).map(|_| (m.pick_var(rng), rand_coeff(rng, nch))).collect()
}

/// indices (op index, closure-op index) of the balanced constraints
pub struct GenProg<F: PrimeField> {
    pub prog: Vec<COp<F>>,
    /// positions of balanced `Constrain` ops: (phase-1 op index, None) or (randomize op index, Some(closure op index))
    pub balanced: Vec<(usize, Option<usize>)>,
    pub n1: usize,
    pub n2: usize,
    pub commits: usize,
}

pub fn gen_program<F: PrimeField>(rng: &mut ChaChaRng, sh: &Shape) -> GenProg<F> {
    let mut m: Mirror<F> = Mirror {
        v: vec![],
        l: vec![],
        r: vec![],
        o: vec![],
        pending: None,
    };
    let mut prog: Vec<COp<F>> = vec![];
    let mut balanced = vec![];
    // pending balanced constraints: (position, terms-without-constant)
    let mut pend_bal: Vec<((usize, Option<usize>), Lcx<F>)> = vec![];
    let mut commits_left = sh.commits;
    let total1 = sh.ops1 + sh.commits;
    let mut closures_left = sh.closures;
    let mut closure_bodies: Vec<usize> = vec![]; // op indices of Randomize ops
    for step in 0..total1 + sh.closures {
        let remaining = total1 + sh.closures - step;
        // interleave commits, closures registrations and other ops
        let choose_commit = commits_left > 0 && rng.gen_range(0..remaining) < commits_left;
        if choose_commit {
            commits_left -= 1;
            // now and then the very same opening is committed a second time (a bit-identical commitment is a
            // legitimate statement: the two occurrences are distinct variables)
            let dup = prog.iter().rev().find_map(|o| if let COp::Commit(v, vb) = o { Some((*v, *vb)) } else { None });
            let (v, vb): (F, F) = match dup {
                Some(d) if rng.gen_range(0..6) == 0 => d,
                _ => (edge_scalar(rng), F::rand(rng)),
            };
            m.v.push(Sx::C(v));
            prog.push(COp::Commit(v, vb));
            continue;
        }
        let choose_closure =
            closures_left > 0 && rng.gen_range(0..(remaining - commits_left).max(1)) < closures_left;
        if choose_closure {
            closures_left -= 1;
            closure_bodies.push(prog.len());
            prog.push(COp::Randomize(vec![]));
            continue;
        }
        match rng.gen_range(0..100) {
            0..=19 => {
                let mut l = rand_lc(&m, rng, 0);
                let mut r = rand_lc(&m, rng, 0);
                if sh.sure { avoid_pending(&m, &mut l); avoid_pending(&m, &mut r); }
                let lv = m.eval(&l);
                let rv = m.eval(&r);
                m.l.push(simp(lv.clone(), false));
                m.r.push(simp(rv.clone(), false));
                m.o.push(simp(Sx::mul(lv, rv), false));
                prog.push(COp::Mul(l, r));
            }
            20..=39 => {
                let miss = if m.pending.is_some() { 3 } else { 8 };
                if sh.allow_missing && rng.gen_range(0..miss) == 0 {
                    // the prover's run ends here (the call returns MissingAssignment): nothing after it may be
                    // referenced by the closures registered so far, so the first phase ends with this call
                    prog.push(COp::Alloc(None));
                    break;
                } else {
                    let x: F = edge_scalar(rng);
                    match m.pending {
                        None => {
                            m.pending = Some(m.l.len());
                            m.l.push(Sx::C(x));
                            m.r.push(Sx::C(F::zero()));
                            m.o.push(Sx::C(F::zero()));
                        }
                        Some(i) => {
                            m.pending = None;
                            m.r[i] = Sx::C(x);
                            m.o[i] = simp(Sx::mul(m.l[i].clone(), Sx::C(x)), false);
                        }
                    }
                    prog.push(COp::Alloc(Some(x)));
                }
            }
            40..=54 => {
                if sh.allow_missing && rng.gen_range(0..6) == 0 {
                    prog.push(COp::AllocMul(None));
                    break;
                } else {
                    let x: F = edge_scalar(rng);
                    let y: F = edge_scalar(rng);
                    m.l.push(Sx::C(x));
                    m.r.push(Sx::C(y));
                    m.o.push(Sx::C(x * y));
                    prog.push(COp::AllocMul(Some((x, y))));
                }
            }
            55..=84 => {
                if rng.gen_range(0..6) == 0 {
                    // a constraint with no terms at all (0 = 0): it still occupies a power of z
                    prog.push(COp::Constrain(vec![]));
                    continue;
                }
                let terms = rand_lc(&m, rng, 0);
                pend_bal.push(((prog.len(), None), terms));
                balanced.push((prog.len(), None));
                prog.push(COp::Constrain(vec![]));
            }
            85..=92 => {
                let n = rng.gen_range(0..5);
                let b: Vec<u8> = (0..n).map(|_| rng.gen()).collect();
                prog.push(COp::Msg(LABELS[rng.gen_range(3..5)], b));
            }
            _ => prog.push(COp::Len),
        }
    }
    // resolve phase-1 balanced constraints against the final phase-1 assignment
    for ((i, _), mut terms) in pend_bal.drain(..) {
        let val = m.eval(&terms).eval(&[]);
        terms.push((V::One, Sx::C(-val)));
        prog[i] = COp::Constrain(terms);
    }
    let n1 = m.l.len();
    // phase 2
    m.pending = None;
    let mut pend_bal2: Vec<((usize, Option<usize>), Lcx<F>, usize)> = vec![];
    let mut bodies: Vec<Vec<ROp<F>>> = vec![];
    for (ci, &pi) in closure_bodies.iter().enumerate() {
        let mut body: Vec<ROp<F>> = vec![];
        let mut nch = 0usize;
        // challenges are per closure; values of variables allocated by earlier closures may mention
        // *their* challenges, which this closure cannot name: restrict balanced constraints of this
        // closure to terms whose value is expressible here (we re-index by closing over env below)
        for _ in 0..sh.ops2 {
            match rng.gen_range(0..100) {
                0..=19 => {
                    body.push(ROp::Chal(LABELS[rng.gen_range(0..3)]));
                    nch += 1;
                }
                20..=34 => {
                    let mut l = rand_lc(&m, rng, nch);
                    let mut r = rand_lc(&m, rng, nch);
                    if sh.sure { avoid_pending(&m, &mut l); avoid_pending(&m, &mut r); }
                    let lv = m.eval(&l);
                    let rv = m.eval(&r);
                    m.l.push(lv.clone());
                    m.r.push(rv.clone());
                    m.o.push(Sx::mul(lv, rv));
                    body.push(ROp::Mul(l, r));
                }
                35..=49 if sh.allow_missing && rng.gen_range(0..(if m.pending.is_some() { 3 } else { 8 })) == 0 => {
                    body.push(ROp::Alloc(None));
                }
                50..=61 if sh.allow_missing && rng.gen_range(0..8) == 0 => {
                    body.push(ROp::AllocMul(None));
                }
                35..=49 => {
                    let x = rand_coeff::<F>(rng, nch);
                    match m.pending {
                        None => {
                            m.pending = Some(m.l.len());
                            m.l.push(x.clone());
                            m.r.push(Sx::C(F::zero()));
                            m.o.push(Sx::C(F::zero()));
                        }
                        Some(i) => {
                            m.pending = None;
                            m.r[i] = x.clone();
                            m.o[i] = Sx::mul(m.l[i].clone(), x.clone());
                        }
                    }
                    body.push(ROp::Alloc(Some(x)));
                }
                50..=61 => {
                    let x = rand_coeff::<F>(rng, nch);
                    let y = rand_coeff::<F>(rng, nch);
                    m.l.push(x.clone());
                    m.r.push(y.clone());
                    m.o.push(Sx::mul(x.clone(), y.clone()));
                    body.push(ROp::AllocMul(Some((x, y))));
                }
                62..=89 if rng.gen_range(0..6) == 0 => {
                    body.push(ROp::Constrain(vec![]));
                }
                62..=89 => {
                    let terms = rand_lc(&m, rng, nch);
                    pend_bal2.push(((pi, Some(body.len())), terms, ci));
                    balanced.push((pi, Some(body.len())));
                    body.push(ROp::Constrain(vec![]));
                }
                90..=95 => {
                    let n = rng.gen_range(0..4);
                    let b: Vec<u8> = (0..n).map(|_| rng.gen()).collect();
                    body.push(ROp::Msg(LABELS[rng.gen_range(3..5)], b));
                }
                _ => body.push(ROp::Len),
            }
        }
        bodies.push(body);
        // Variables allocated in this closure carry Sx mentioning this closure's challenge indices.
        // A later closure numbers its own challenges from 0 again, so freeze: later closures must not
        // reference symbolic values of earlier closures.  We make them opaque by forbidding
        // cross-closure symbolic reuse: replace this closure's symbolic values by "unknown" markers.
        // (Simplest sound choice: only one closure may hold symbolic values; subsequent closures see
        // those gates but balanced constraints there are resolved at the end against env-less values,
        // which is only correct if they do not mention them.  We therefore drop such terms below.)
        let _ = ci;
    }
    // resolve phase-2 balanced constraints: final mirror, but a closure can only name its own challenges.
    // A term is kept only if its variable's final value mentions no challenge or was allocated in the same closure.
    // To keep this simple and always sound, values mentioning challenges of *other* closures are avoided by
    // generating at most one closure with challenge-dependent allocations (sh.closures <= 1 for symbolic values)
    // or, with several closures, by keeping only challenge-free terms.
    let multi = closure_bodies.len() > 1;
    for ((pi, bi), terms, ci) in pend_bal2.drain(..) {
        let bi = bi.unwrap();
        let mut kept: Lcx<F> = vec![];
        for (v, c) in terms {
            let val = m.val(v);
            if multi && (mentions_ch(&val) || mentions_ch(&c)) {
                continue;
            }
            kept.push((v, c));
        }
        let val = m.eval(&kept);
        kept.push((V::One, Sx::neg(val)));
        bodies[ci][bi] = ROp::Constrain(kept);
        let _ = pi;
    }
    for (ci, &pi) in closure_bodies.iter().enumerate() {
        prog[pi] = COp::Randomize(bodies[ci].clone());
    }
    let n = m.l.len();
    GenProg {
        prog,
        balanced,
        n1,
        n2: n - n1,
        commits: sh.commits,
    }
}

fn mentions_ch<F>(s: &Sx<F>) -> bool {
    match s {
        Sx::C(_) => false,
        Sx::Ch(_) => true,
        Sx::Add(a, b) | Sx::Mul(a, b) => mentions_ch(a) || mentions_ch(b),
        Sx::Neg(a) => mentions_ch(a),
    }
}

/// perturb the constant of the k-th balanced constraint by `delta` (a violated linear constraint)
pub fn violate<F: PrimeField>(g: &mut GenProg<F>, k: usize, delta: F) -> bool {
    if g.balanced.is_empty() {
        return false;
    }
    let (pi, bi) = g.balanced[k % g.balanced.len()];
    let bump = |terms: &mut Lcx<F>| terms.push((V::One, Sx::C(delta)));
    match (&mut g.prog[pi], bi) {
        (COp::Constrain(t), None) => bump(t),
        (COp::Randomize(body), Some(b)) => {
            if let ROp::Constrain(t) = &mut body[b] {
                bump(t)
            }
        }
        _ => return false,
    }
    true
}
