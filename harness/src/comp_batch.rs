//! Component batch (K10): batch_verify with a replayable RNG, against the model with the same weights.
use crate::ast::*;
use crate::comp_r1cs::*;
use crate::gen::*;
use ark_bulletproofs::r1cs::{batch_verify, Verifier};
use ark_bulletproofs::{BulletproofGens, PedersenGens};
use ark_ec::AffineRepr;
use ark_ff::UniformRand;
use merlin::Transcript;
use rand::Rng;
use rand_chacha::ChaChaRng;
use rand_core::SeedableRng;
use std::fmt::Write as _;
use std::panic::{catch_unwind, AssertUnwindSafe};

pub const BATCH_LABELS: [&[u8]; 6] = [b"verif-batch-0", b"verif-batch-1", b"verif-batch-2", b"verif-batch-3", b"verif-batch-4", b"verif-batch-5"];

pub struct BatchOut {
    pub coq: String,
    pub obs: String,
    pub summary: String,
    pub id: String,
}

/// RNG wrapper that counts the bytes handed out: the model takes the batch weights to be one fresh
/// `ScalarField::rand` draw per instance, so the real `batch_verify` must consume exactly what drawing
/// `k` scalars consumes (or nothing when it returns an instance's error before weighting).
pub struct CountingRng<R: rand_core::RngCore> { pub inner: R, pub bytes: u64 }
impl<R: rand_core::RngCore> rand_core::RngCore for CountingRng<R> {
    fn next_u32(&mut self) -> u32 { self.bytes += 4; self.inner.next_u32() }
    fn next_u64(&mut self) -> u64 { self.bytes += 8; self.inner.next_u64() }
    fn fill_bytes(&mut self, d: &mut [u8]) { self.bytes += d.len() as u64; self.inner.fill_bytes(d) }
    fn try_fill_bytes(&mut self, d: &mut [u8]) -> Result<(), rand_core::Error> { self.bytes += d.len() as u64; self.inner.try_fill_bytes(d) }
}
impl<R: rand_core::RngCore + rand_core::CryptoRng> rand_core::CryptoRng for CountingRng<R> {}

fn zl<F: ark_ff::PrimeField>(v: &[F]) -> String {
    let items: Vec<String> = v.iter().map(fz).collect();
    format!("[{}]%Z", items.join("; "))
}

pub fn gen_and_run<G: AffineRepr>(curve: &str, ci: u64, modulus: &str, seed: u64, tier: &str) -> Vec<BatchOut> {
    type F<G> = <G as AffineRepr>::ScalarField;
    let mut rng = ChaChaRng::seed_from_u64(seed ^ (ci << 30) ^ 0xba7c);
    let count = if tier == "thorough" { 66 } else { 22 };
    let cap = 8usize;
    let pc = PedersenGens::<G>::default();
    let bp = BulletproofGens::<G>::new(cap, 1);
    let mut outs = vec![];
    for b in 0..count {
        let kind = b % 11; // 8, 9, 10 = copies of one proof with the final scalar shifted by a finite-difference pattern (cancels under weights that are polynomial in the position); 7 = the same proof verified against two statements whose constants deviate by +d / -d; 0 honest mix, 1 one invalid, 2 +d/-d pair, 3 empty, 4 single, 5 pair + honest around, 6 shape error inside
        let k = match kind { 3 => 0, 4 => 1, 2 | 7 => 2, 8 => 3, 9 => 4, 10 => 5, _ => rng.gen_range(2..5) };
        let mut cases: Vec<R1csCase<G>> = vec![];
        let bad_pos = if k > 0 { rng.gen_range(0..k) } else { 0 };
        let mut i = 0;
        while i < k {
            let sh = Shape { commits: if kind == 7 { 1 + rng.gen_range(0..2) } else { rng.gen_range(0..3) }, ops1: rng.gen_range(0..4), closures: if rng.gen_range(0..3) == 0 { 1 } else { 0 }, ops2: rng.gen_range(1..4), allow_missing: false, sure: false };
            let g = gen_program::<F<G>>(&mut rng, &sh);
            let mut c = R1csCase::plain(format!("b_{}_{}_{}", ci, b, i), g.prog.clone(), cap, cap, rng.gen());
            c.label = BATCH_LABELS[i];
            c.vlabel = BATCH_LABELS[i];
            c.tag = format!("batch-inst kind={}", kind);
            let d: F<G> = F::<G>::rand(&mut rng);
            if (kind == 2 && i == 0) || (kind == 5 && i == bad_pos && i + 1 < k) {
                // the same proof with its final scalar shifted by +d and by -d, adjacent instances, same label => same history
                let mut c2 = R1csCase::plain(format!("b_{}_{}_{}", ci, b, i + 1), g.prog.clone(), cap, cap, c.ext_seed);
                c2.label = c.label;
                c2.vlabel = c.vlabel;
                c2.tag = c.tag.clone();
                c.muts = vec![Mutation::ScalarAdd(3, d)];
                c2.muts = vec![Mutation::ScalarAdd(3, -d)];
                cases.push(c);
                cases.push(c2);
                i += 2;
                continue;
            }
            if (8..=10).contains(&kind) && i == 0 {
                let pattern: Vec<i64> = match kind { 8 => vec![1, -2, 1], 9 => vec![1, -3, 3, -1], _ => vec![1, 0, -2, 0, 1] };
                for (j, co) in pattern.iter().enumerate() {
                    if *co == 0 {
                        // an honest member of another shape in between
                        let g2 = gen_program::<F<G>>(&mut rng, &sh);
                        let mut ch = R1csCase::plain(format!("b_{}_{}_{}", ci, b, j), g2.prog.clone(), cap, cap, rng.gen());
                        ch.label = BATCH_LABELS[j]; ch.vlabel = BATCH_LABELS[j]; ch.tag = c.tag.clone();
                        cases.push(ch);
                        continue;
                    }
                    let mut cj = R1csCase::plain(format!("b_{}_{}_{}", ci, b, j), g.prog.clone(), cap, cap, c.ext_seed);
                    cj.label = c.label; cj.vlabel = c.vlabel; cj.tag = c.tag.clone();
                    let coef = if *co >= 0 { F::<G>::from(*co as u64) } else { -F::<G>::from((-*co) as u64) };
                    cj.muts = vec![Mutation::ScalarAdd(3, d * coef)];
                    cases.push(cj);
                }
                i = k;
                continue;
            }
            if kind == 7 && i == 0 {
                // statement deviation pair: constraint c1*V0 - c1*v0 = 0 proved; verified with the constant off by +d and by -d
                let v0 = g.prog.iter().find_map(|o| if let COp::Commit(v, _) = o { Some(*v) } else { None }).unwrap();
                let c1 = F::<G>::rand(&mut rng);
                let mut prog = g.prog.clone();
                prog.push(COp::AllocMul(Some((F::<G>::rand(&mut rng), F::<G>::rand(&mut rng)))));
                let mk = |off: F<G>| COp::Constrain(vec![(V::Committed(0), Sx::C(c1)), (V::One, Sx::C(-(c1 * v0) + off))]);
                let mut pp = prog.clone(); pp.push(mk(F::<G>::from(0u64)));
                let mut va = prog.clone(); va.push(mk(d));
                let mut vb = prog.clone(); vb.push(mk(-d));
                let mut ca = R1csCase::plain(format!("b_{}_{}_{}", ci, b, i), pp.clone(), cap, cap, c.ext_seed);
                let mut cb = R1csCase::plain(format!("b_{}_{}_{}", ci, b, i + 1), pp, cap, cap, c.ext_seed);
                for (cc, vp) in [(&mut ca, va), (&mut cb, vb)] {
                    cc.label = c.label; cc.vlabel = c.vlabel; cc.tag = c.tag.clone(); cc.vprog = Some(vp);
                }
                cases.push(ca);
                cases.push(cb);
                i += 2;
                continue;
            }
            if kind == 1 && i == bad_pos {
                c.muts = vec![Mutation::ScalarAdd(rng.gen_range(0..5), d)];
            }
            if kind == 6 && i == bad_pos {
                c.muts = vec![if rng.gen() { Mutation::PointZero((0, rng.gen_range(0..3))) } else { Mutation::ExtraL }];
            }
            cases.push(c);
            i += 1;
        }
        let mut coq = String::new();
        let mut obs = String::new();
        let id = format!("batch_{}_{}", ci, b);
        let mut data = vec![];
        let mut table = vec![];
        let mut singles = vec![];
        for c in &cases {
            let out = run_case::<G>(c, curve, modulus);
            coq.push_str(&out.coq);
            table.push(format!("({}, {})", bytes_coq(c.vlabel), zl(&out.chal_v)));
            singles.push(out.verdict);
            data.push((c, out));
        }
        // the real batch_verify, with a replayable RNG for the weights
        let bseed: u64 = rng.gen();
        let consumed = std::cell::Cell::new(u64::MAX);
        let usable: Vec<_> = data.iter().filter(|(_, o)| o.vproof.is_some()).collect();
        let run_batch_mode = |mode: u8| catch_unwind(AssertUnwindSafe(|| {
            let mut transcripts: Vec<Transcript> = usable.iter().map(|(c, _)| Transcript::new(c.vlabel)).collect();
            let mut insts = vec![];
            for ((c, o), t) in usable.iter().zip(transcripts.iter_mut()) {
                let mut v = Verifier::new(t);
                let mut ci2 = 0;
                let l1: EvLog = Default::default();
                let l2: EvLog = Default::default();
                for op in c.vprog.as_ref().unwrap_or(&c.prog) {
                    match op {
                        COp::Commit(..) => {
                            let cm = o.commitments.get(ci2).copied().unwrap_or_else(G::zero);
                            ci2 += 1;
                            v.commit(cm);
                        }
                        _ => {
                            apply_cop(&mut v, op, &l1, &l2);
                        }
                    }
                }
                insts.push((v, o.vproof.as_ref().unwrap()));
            }
            let mut brng = CountingRng { inner: ChaChaRng::seed_from_u64(bseed), bytes: 0 };
            // mode 0: a Vec (exact size_hint); mode 1: an iterator whose size_hint lower bound is 0;
            // mode 2: an exact head chained with a lazily sized tail.  The verdict must not depend on the iterator type.
            let res = match mode {
                0 => batch_verify(&mut brng, insts, &pc, &bp),
                1 => batch_verify(&mut brng, insts.into_iter().filter(|_| true), &pc, &bp),
                _ => {
                    let mut head = insts;
                    let tail = head.split_off(head.len() / 2);
                    batch_verify(&mut brng, head.into_iter().chain(tail.into_iter().filter(|_| true)), &pc, &bp)
                }
            };
            if mode == 0 { consumed.set(brng.bytes); }
            res
        }));
        let verdict = run_batch_mode(0);
        let code_of = |v: &std::thread::Result<Result<(), ark_bulletproofs::r1cs::R1CSError>>| match v { Ok(Ok(())) => 0, Ok(Err(e)) => err_code(e), Err(_) => 99 };
        let lazy_codes = [code_of(&run_batch_mode(1)), code_of(&run_batch_mode(2))];
        let vcode = match &verdict {
            Ok(Ok(())) => 0,
            Ok(Err(e)) => err_code(e),
            Err(_) => 99,
        };
        let mut brng = CountingRng { inner: ChaChaRng::seed_from_u64(bseed), bytes: 0 };
        let alphas: Vec<F<G>> = (0..usable.len()).map(|_| F::<G>::rand(&mut brng)).collect();
        let _ = writeln!(obs, "{} 15 {}", id, vcode);
        let _ = writeln!(obs, "{} 23 {} {}", id, lazy_codes[0], lazy_codes[1]);
        let _ = writeln!(obs, "{} 22 {} {}", id, if consumed.get() == u64::MAX { -1i64 } else { consumed.get() as i64 }, brng.bytes);
        let _ = writeln!(obs, "{} 20 {}", id, singles.iter().map(|x| x.to_string()).collect::<Vec<_>>().join(" "));
        let _ = writeln!(obs, "{} 21 {}", id, usable.len());
        let ids: Vec<String> = cases.iter().map(|c| c.id.clone()).collect();
        let hdr = if let Some(c0) = cases.first() { c0.id.clone() } else { String::new() };
        if cases.is_empty() {
            // an empty batch still needs a field: use a dummy header case
            let _ = writeln!(coq, "Definition {}_hdr : r1cs_case := mkCase {}%Z [] [] [] {} {} {} 0 [] [] [] [] [] [] None [].", id, modulus, cap, cap, cap);
            let _ = writeln!(coq, "Eval vm_compute in run_batch {}_hdr [] [] [] {}.", id, cap);
        } else {
            let _ = writeln!(coq, "Eval vm_compute in run_batch {} [{}] {} [{}] {}.", hdr, ids.join("; "), zl(&alphas), table.join("; "), cap);
        }
        let summary = format!("{} {} tag=batch kind={} k={} prover=0 verdict={} singles={:?} basis={},0\n", id, curve, kind, cases.len(), vcode, singles, cap);
        outs.push(BatchOut { coq, obs, summary, id });
    }
    // pair sweep (the real code only): K copies of one small proof; for every pair of positions (i, j) the final scalar a is
    // shifted by +d at i and -d at j.  Each such member fails alone; the batch must fail for EVERY pair (it would pass
    // exactly when the two positions were given equal weights)
    {
        use crate::run::{proof_from_parts, proof_parts, run_prover};
        let kk: usize = if tier == "thorough" { 40 } else { 20 };
        let v = F::<G>::rand(&mut rng);
        let c1 = F::<G>::rand(&mut rng);
        let prog: Vec<COp<F<G>>> = vec![COp::Commit(v, F::<G>::rand(&mut rng)), COp::Constrain(vec![(V::Committed(0), Sx::C(c1)), (V::One, Sx::C(-(c1 * v)))])];
        let bp1 = BulletproofGens::<G>::new(1, 1);
        let pr = run_prover::<G>(b"verif-batch-0", &prog, &vec![], &pc, &bp1, rng.gen(), &[]);
        let mut accepted: Vec<(usize, usize)> = vec![];
        let mut tried = 0;
        let mut panics = 0;
        if let Ok(Ok(proof)) = &pr.result {
            let d = F::<G>::rand(&mut rng);
            let mut plus = proof_parts(proof); plus.a += d;
            let mut minus = proof_parts(proof); minus.a -= d;
            let (pplus, pminus) = (proof_from_parts(&plus).unwrap(), proof_from_parts(&minus).unwrap());
            for i in 0..kk {
                for j in (i + 1)..kk {
                    tried += 1;
                    let r = catch_unwind(AssertUnwindSafe(|| {
                        let mut ts: Vec<Transcript> = (0..kk).map(|_| Transcript::new(b"verif-batch-0")).collect();
                        let mut insts = vec![];
                        for (p, t) in ts.iter_mut().enumerate() {
                            let mut vf = Verifier::new(t);
                            let l1: EvLog = Default::default();
                            let l2: EvLog = Default::default();
                            for op in &prog {
                                match op {
                                    COp::Commit(..) => { vf.commit(pr.commitments[0]); }
                                    _ => { apply_cop(&mut vf, op, &l1, &l2); }
                                }
                            }
                            insts.push((vf, if p == i { &pplus } else if p == j { &pminus } else { proof }));
                        }
                        let mut brng = ChaChaRng::seed_from_u64(seed ^ ((i * 64 + j) as u64));
                        batch_verify(&mut brng, insts, &pc, &bp1)
                    }));
                    match r { Ok(Ok(())) => accepted.push((i, j)), Ok(Err(_)) => {}, Err(_) => panics += 1 }
                }
            }
        }
        let id = format!("bsweep_{}", ci);
        outs.push(BatchOut {
            coq: String::new(),
            obs: format!("{} 15 {}\n{} 97 accepted-pairs {:?}\n", id, accepted.len(), id, &accepted[..accepted.len().min(12)]),
            summary: format!("{} {} nomodel=1 tag=batch-sweep kind=sweep k={} pairs={} accepted={} panics={} first={} prover=0 verdict={} basis=1,0\n", id, curve, kk, tried, accepted.len(), panics, accepted.first().map(|p| format!("({},{})", p.0, p.1)).unwrap_or("-".into()), if accepted.is_empty() { 1 } else { 0 }),
            id,
        });
    }
    outs
}
