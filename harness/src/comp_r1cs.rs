//! Component r1cs (K1, K3, K4, K6): one case = a program run through the real Prover and Verifier,
//! written out as a Coq term for the model and as observation lines for the differ.
use crate::ast::*;
use crate::gen::*;
use crate::run::*;
use ark_bulletproofs::r1cs::R1CSProof;
use ark_bulletproofs::{BulletproofGens, PedersenGens};
use ark_ec::{AffineRepr, CurveGroup, VariableBaseMSM};
use ark_ff::{PrimeField, UniformRand, Zero};
use rand::Rng;
use rand_chacha::ChaChaRng;
use rand_core::SeedableRng;
use std::fmt::Write as _;

#[derive(Clone, Debug)]
pub enum Mutation<F> {
    PointAdd((usize, usize), Vec<F>),
    PointNeg((usize, usize)),
    PointZero((usize, usize)),
    PointSwap((usize, usize), (usize, usize)),
    ScalarAdd(usize, F),
    DropRound,
    DupRound,
    SwapRounds(usize, usize),
    DropL,
    DropR,
    ExtraL,
    ExtraR,
}

fn zlist<F: PrimeField>(v: &[F]) -> String {
    let items: Vec<String> = v.iter().map(fz).collect();
    format!("[{}]%Z", items.join("; "))
}

impl<F: PrimeField> Mutation<F> {
    pub fn coq(&self) -> String {
        let sel = |s: &(usize, usize)| format!("({}, {})%nat", s.0, s.1);
        match self {
            Mutation::PointAdd(s, c) => format!("MPointAdd {} {}", sel(s), zlist(c)),
            Mutation::PointNeg(s) => format!("MPointNeg {}", sel(s)),
            Mutation::PointZero(s) => format!("MPointZero {}", sel(s)),
            Mutation::PointSwap(a, b) => format!("MPointSwap {} {}", sel(a), sel(b)),
            Mutation::ScalarAdd(i, d) => format!("MScalarAdd {} {}%Z", i, fz(d)),
            Mutation::DropRound => "MDropRound".into(),
            Mutation::DupRound => "MDupRound".into(),
            Mutation::SwapRounds(i, j) => format!("MSwapRounds {} {}", i, j),
            Mutation::DropL => "MDropL".into(),
            Mutation::DropR => "MDropR".into(),
            Mutation::ExtraL => "MExtraL".into(),
            Mutation::ExtraR => "MExtraR".into(),
        }
    }
}

pub struct Basis<G: AffineRepr> {
    pub cap: usize,
    pub pts: Vec<G>, // [B, B~, G_0.., H_0.., X_0..]
}

pub fn make_basis<G: AffineRepr>(cap: usize, extra: usize) -> Basis<G> {
    let pc = PedersenGens::<G>::default();
    let bp = BulletproofGens::<G>::new(cap, 1);
    let mut pts = vec![pc.B, pc.B_blinding];
    pts.extend(bp.G(cap, 1).cloned());
    pts.extend(bp.H(cap, 1).cloned());
    let mut rng = ChaChaRng::seed_from_u64(0x5eed_ba51);
    for _ in 0..extra {
        pts.push(G::rand(&mut rng));
    }
    Basis { cap, pts }
}

pub fn msm_coeffs<G: AffineRepr>(basis: &[G], coeffs: &[G::ScalarField]) -> G {
    let n = coeffs.len().min(basis.len());
    G::Group::msm(&basis[..n], &coeffs[..n]).unwrap().into_affine()
}

pub struct R1csCase<G: AffineRepr> {
    pub id: String,
    pub label: &'static [u8],
    pub prog: Vec<COp<G::ScalarField>>,
    pub gate_ov: GateOv<G::ScalarField>,
    pub cap_p: usize,
    pub cap_v: usize,
    pub extra: usize,
    pub ext_seed: u64,
    pub forced: Vec<G::ScalarField>,
    pub vlabel: &'static [u8],
    pub vprog: Option<Vec<COp<G::ScalarField>>>,
    pub vcommit: Vec<Option<Vec<G::ScalarField>>>,
    pub vbases: Option<(Vec<G::ScalarField>, Vec<G::ScalarField>)>,
    pub muts: Vec<Mutation<G::ScalarField>>,
    /// dishonest prover through hook H4: coefficient vectors of the points published as (A_I2, A_O2, S2)
    pub forge: Option<[Vec<G::ScalarField>; 3]>,
    /// party_capacity of both generator objects (only party 0 is ever used by R1CS)
    pub parties: usize,
    /// add the point of order 2 to the verifier's i-th commitment (cofactor curve only; outside the model's module)
    pub vtorsion: Option<usize>,
    /// run prover and verifier with B_blinding = 2 B (so that different openings can give the same commitment point)
    pub bb_is_2b: bool,
    pub tag: String,
    pub model: bool,
}

impl<G: AffineRepr> R1csCase<G> {
    pub fn plain(id: String, prog: Vec<COp<G::ScalarField>>, cap_p: usize, cap_v: usize, ext_seed: u64) -> Self {
        R1csCase {
            id,
            label: b"verif-case",
            prog,
            gate_ov: vec![],
            cap_p,
            cap_v,
            extra: 0,
            ext_seed,
            forced: vec![],
            forge: None,
            parties: 1,
            vtorsion: None,
            bb_is_2b: false,
            vlabel: b"verif-case",
            vprog: None,
            vcommit: vec![],
            vbases: None,
            muts: vec![],
            tag: String::new(),
            model: true,
        }
    }
}

fn get_pt<G: AffineRepr>(p: &ProofParts<G>, s: (usize, usize)) -> G {
    match s.0 {
        0 => p.points.get(s.1).copied().unwrap_or_else(G::zero),
        1 => p.l.get(s.1).copied().unwrap_or_else(G::zero),
        _ => p.r.get(s.1).copied().unwrap_or_else(G::zero),
    }
}
fn set_pt<G: AffineRepr>(p: &mut ProofParts<G>, s: (usize, usize), x: G) {
    let slot = match s.0 {
        0 => p.points.get_mut(s.1),
        1 => p.l.get_mut(s.1),
        _ => p.r.get_mut(s.1),
    };
    if let Some(q) = slot {
        *q = x;
    }
}

pub fn apply_mut<G: AffineRepr>(p: &mut ProofParts<G>, m: &Mutation<G::ScalarField>, basis: &Basis<G>) {
    match m {
        Mutation::PointAdd(s, c) => {
            let d = msm_coeffs(&basis.pts, c);
            let x = (get_pt(p, *s).into_group() + d.into_group()).into_affine();
            set_pt(p, *s, x);
        }
        Mutation::PointNeg(s) => {
            let x = (-get_pt(p, *s).into_group()).into_affine();
            set_pt(p, *s, x);
        }
        Mutation::PointZero(s) => set_pt(p, *s, G::zero()),
        Mutation::PointSwap(a, b) => {
            let x = get_pt(p, *a);
            let y = get_pt(p, *b);
            set_pt(p, *a, y);
            set_pt(p, *b, x);
        }
        Mutation::ScalarAdd(i, d) => match i {
            0 | 1 | 2 => p.scalars[*i] += d,
            3 => p.a += d,
            _ => p.b += d,
        },
        Mutation::DropRound => {
            p.l.pop();
            p.r.pop();
        }
        Mutation::DupRound => {
            let g0 = basis.pts[2];
            let l = p.l.last().copied().unwrap_or(g0);
            let r = p.r.last().copied().unwrap_or(g0);
            p.l.push(l);
            p.r.push(r);
        }
        Mutation::SwapRounds(i, j) => {
            if *i < p.l.len() && *j < p.l.len() && *i < p.r.len() && *j < p.r.len() {
                p.l.swap(*i, *j);
                p.r.swap(*i, *j);
            }
        }
        Mutation::DropL => {
            p.l.pop();
        }
        Mutation::DropR => {
            p.r.pop();
        }
        Mutation::ExtraL => p.l.push(basis.pts[2]),
        Mutation::ExtraR => p.r.push(basis.pts[2]),
    }
}

pub struct CaseOut<G: AffineRepr> {
    pub coq: String,
    pub obs: String,
    pub summary: String,
    pub vproof: Option<R1CSProof<G>>,
    pub commitments: Vec<G>,
    pub chal_v: Vec<G::ScalarField>,
    pub verdict: u64,
}

fn enc_tr(log: &TrLog) -> Vec<String> {
    let mut out = vec![];
    for (k, l, d) in &log.ops {
        out.push(k.to_string());
        out.push(l.len().to_string());
        out.extend(l.iter().map(|b| b.to_string()));
        out.push(d.len().to_string());
        if *k == 0 {
            out.extend(d.iter().map(|b| b.to_string()));
        } else {
            // challenge output bytes are not part of the history
            out.pop();
            out.push("0".into());
        }
    }
    out
}

pub fn chals<F: PrimeField>(log: &TrLog) -> Vec<F> {
    let mut v: Vec<F> = log
        .ops
        .iter()
        .filter(|(k, _, _)| *k == 3)
        .map(|(_, _, d)| chal_from_bytes::<F>(d))
        .collect();
    for (_, d) in &log.clone_chals {
        v.push(chal_from_bytes::<F>(d));
    }
    v
}

fn enc_events(evs: &[Event]) -> (Vec<String>, Vec<Vec<u8>>) {
    let mut out = vec![];
    let mut pts = vec![];
    for e in evs {
        e.enc(&mut out, &mut pts);
    }
    (out, pts)
}

pub fn run_case<G: AffineRepr>(c: &R1csCase<G>, curve: &str, modulus: &str) -> CaseOut<G> {
    type F<G> = <G as AffineRepr>::ScalarField;
    let cap_basis = c.cap_p.max(c.cap_v).max(1);
    let basis = make_basis::<G>(cap_basis, c.extra);
    let mut pc = PedersenGens::<G>::default();
    if c.bb_is_2b {
        pc.B_blinding = (pc.B.into_group() + pc.B.into_group()).into_affine();
    }
    let bp_p = BulletproofGens::<G>::new(c.cap_p, c.parties);
    let bp_v = BulletproofGens::<G>::new(c.cap_v, c.parties);
    if let Some(f) = &c.forge {
        let enc = |co: &Vec<F<G>>| { let mut b = vec![]; msm_coeffs(&basis.pts, co).serialize_compressed(&mut b).unwrap(); b };
        ark_bulletproofs::verif_hooks::set_phase2_override(Some([enc(&f[0]), enc(&f[1]), enc(&f[2])]));
    }
    let pr = run_prover::<G>(c.label, &c.prog, &c.gate_ov, &pc, &bp_p, c.ext_seed, &c.forced);
    ark_bulletproofs::verif_hooks::set_phase2_override(None);
    let obs = std::cell::RefCell::new(String::new());
    let id = &c.id;
    let line = |code: u32, toks: Vec<String>| {
        let _ = writeln!(obs.borrow_mut(), "{} {} {}", id, code, toks.join(" "));
    };
    let (e1, e1p) = enc_events(&pr.events1);
    line(1, e1);
    if let Some((l, r, o)) = &pr.secrets {
        let mut t = vec![l.len().to_string()];
        t.extend(l.iter().map(fz));
        t.push(r.len().to_string());
        t.extend(r.iter().map(fz));
        t.push(o.len().to_string());
        t.extend(o.iter().map(fz));
        line(2, t);
    }
    line(16, e1p.iter().map(|p| format!("x{}", hex(p))).collect());
    let pcode = result_code(&pr.result);
    line(3, vec![pcode.to_string()]);
    let draws: Vec<F<G>> = draws_from_bytes::<F<G>>(&pr.log.rng_out);
    let chal_p: Vec<F<G>> = chals::<F<G>>(&pr.log);
    let mut chal_v: Vec<F<G>> = vec![];
    let mut out_vproof: Option<R1CSProof<G>> = None;
    let mut out_commitments: Vec<G> = vec![];
    let mut out_verdict: u64 = 1;
    let mut summary = format!("{} {} tag={} prover={}", id, curve, c.tag, pcode);
    if !c.model {
        summary = format!("{} {} nomodel=1 tag={} prover={}", id, curve, c.tag, pcode);
    }
    if c.forge.is_some() {
        summary = format!("{} {} forged=1 tag={} prover={}", id, curve, c.tag, pcode);
    }
    if pr.result.is_err() {
        let _ = writeln!(obs.borrow_mut(), "{} 98 {}", id, pr.panic_msg.replace('\n', " "));
    }
    if let Ok(Ok(proof)) = &pr.result {
        let (e2, _) = enc_events(&pr.events2);
        line(4, e2);
        let parts = proof_parts(proof);
        let mut sc: Vec<String> = parts.scalars.iter().map(fz).collect();
        sc.push(fz(&parts.a));
        sc.push(fz(&parts.b));
        line(5, sc);
        let mut pts: Vec<String> = parts.points.iter().map(|p| format!("x{}", hex(&pt_bytes(p)))).collect();
        pts.extend(parts.l.iter().map(|p| format!("x{}", hex(&pt_bytes(p)))));
        pts.extend(parts.r.iter().map(|p| format!("x{}", hex(&pt_bytes(p)))));
        line(6, pts);
        line(7, enc_tr(&pr.log));
        line(18, vec![format!("x{}", hex(&proof.to_bytes().unwrap()))]);
        line(9, vec![draws.len().to_string(), "0".into(), "0".into()]);
        // verifier
        let mut vparts = proof_parts(proof);
        for m in &c.muts {
            apply_mut(&mut vparts, m, &basis);
        }
        let vproof: Option<R1CSProof<G>> = proof_from_parts(&vparts);
        let vprog = c.vprog.clone().unwrap_or_else(|| c.prog.clone());
        let mut commitments = vec![];
        let ncommit = vprog.iter().filter(|o| matches!(o, COp::Commit(..))).count();
        for i in 0..ncommit {
            match c.vcommit.get(i) {
                Some(Some(co)) => commitments.push(msm_coeffs(&basis.pts, co)),
                _ => commitments.push(pr.commitments.get(i).copied().unwrap_or_else(G::zero)),
            }
        }
        if let (Some(i), true) = (c.vtorsion, curve == "curve25519") {
            // (0, -1): the point of order two of a twisted Edwards curve, decoded without the subgroup check
            let mut yb = vec![0u8; 32];
            let minus1 = -<G::BaseField as ark_ff::Field>::ONE;
            ark_serialize::CanonicalSerialize::serialize_compressed(&minus1, &mut yb.as_mut_slice()).ok();
            if let Ok(t2) = <G as ark_serialize::CanonicalDeserialize>::deserialize_compressed_unchecked(&yb[..]) {
                if i < commitments.len() { commitments[i] = (commitments[i].into_group() + G::into_group(t2)).into_affine(); }
            }
        }
        let pcv = match &c.vbases {
            None => pc,
            Some((b, bb)) => PedersenGens {
                B: msm_coeffs(&basis.pts, b),
                B_blinding: msm_coeffs(&basis.pts, bb),
            },
        };
        match vproof {
            None => line(97, vec!["mutated-proof-does-not-decode".into()]),
            Some(vproof) => {
                out_vproof = Some(vproof.clone());
                out_commitments = commitments.clone();
                let vr = run_verifier::<G>(c.vlabel, &vprog, &commitments, &vproof, &pcv, &bp_v);
                let (ev1, _) = enc_events(&vr.events1);
                line(10, ev1);
                let scode = result_code(&vr.scalars);
                line(12, vec![scode.to_string()]);
                if let Ok(Ok(s)) = &vr.scalars {
                    let (ev2, _) = enc_events(&vr.events2);
                    line(11, ev2);
                    line(13, s.iter().map(fz).collect());
                    line(14, enc_tr(&vr.log_scalars));
                    // where the clone challenges (the weight r) were derived: (main operations absorbed at the clone, operations on the clone) ... total
                    let mut pos: Vec<String> = vr.log_scalars.clone_chal_pos.iter().map(|(a, b)| format!("{}+{}", a, b)).collect();
                    pos.push(vr.log_scalars.ops.len().to_string());
                    line(24, pos);
                }
                let vcode = result_code(&vr.verdict);
                out_verdict = vcode;
                line(15, vec![vcode.to_string()]);
                // after an accepted run on the prover's own statement both parties' transcripts must be in the same state
                if vcode == 0 && c.muts.is_empty() && c.forge.is_none() && c.vprog.is_none() && c.vcommit.is_empty() && c.vbases.is_none() && c.vlabel == c.label {
                    line(22, vec![((pr.followup == vr.followup && !pr.followup.is_empty()) as u8).to_string()]);
                }
                if vr.verdict.is_err() || vr.scalars.is_err() {
                    let _ = writeln!(obs.borrow_mut(), "{} 98 {}", id, vr.panic_msg.replace('\n', " "));
                }
                chal_v = chals::<F<G>>(&vr.log_scalars);
                let _ = write!(summary, " scalars={} verdict={}", scode, vcode);
            }
        }
    }
    // Coq term
    let mut coq = String::new();
    if !c.model && c.tag.starts_with("capgrid") {
        let class = match pcode { 0 => 0, 3 => 3, 99 => 9, x => x };
        let _ = writeln!(obs.borrow_mut(), "{} 19 {}", id, class);
        let tv = |k: &str| -> usize { c.tag.split_whitespace().find_map(|t| t.strip_prefix(k)).and_then(|v| v.parse().ok()).unwrap_or(0) };
        let (n1, n2) = (tv("n1="), tv("n2="));
        coq = format!("Eval vm_compute in [[19%Z; prove_class {} {} {} {}]].\n", c.parties, c.cap_p, n1, n1 + n2);
    }
    if !c.model {
        let obs = obs.into_inner();
        return CaseOut { coq, obs, summary, vproof: out_vproof, commitments: out_commitments, chal_v, verdict: out_verdict };
    }
    let bytes = |b: &[u8]| bytes_coq(b);
    let _ = writeln!(coq, "Definition {} : r1cs_case := mkCase", id);
    let _ = writeln!(coq, "  {}%Z {}", modulus, bytes(c.label));
    let _ = writeln!(coq, "  {}", prog_coq(&c.prog));
    let gates: Vec<String> = c
        .gate_ov
        .iter()
        .map(|(i, l, r, o)| format!("({}%nat, {}%Z, {}%Z, {}%Z)", i, fz(l), fz(r), fz(o)))
        .collect();
    let _ = writeln!(coq, "  [{}]", gates.join("; "));
    let _ = writeln!(coq, "  {} {} {} {}", c.cap_p, c.cap_v, cap_basis, c.extra);
    let _ = writeln!(coq, "  {}", zlist(&draws));
    let _ = writeln!(coq, "  {}", zlist(&chal_p));
    let _ = writeln!(coq, "  {}", zlist(&chal_v));
    let _ = writeln!(coq, "  {}", bytes(c.vlabel));
    let _ = writeln!(coq, "  {}", prog_coq(c.vprog.as_ref().unwrap_or(&c.prog)));
    let vc: Vec<String> = c
        .vcommit
        .iter()
        .map(|o| match o {
            None => "None".into(),
            Some(co) => format!("(Some {})", zlist(co)),
        })
        .collect();
    let _ = writeln!(coq, "  [{}]", vc.join("; "));
    match &c.vbases {
        None => {
            let _ = writeln!(coq, "  None");
        }
        Some((b, bb)) => {
            let _ = writeln!(coq, "  (Some ({}, {}))", zlist(b), zlist(bb));
        }
    }
    let mut ms: Vec<String> = vec![];
    if let Some(f) = &c.forge {
        // the model's prover is honest; the published points are put in place on the model's proof object
        for (j, co) in f.iter().enumerate() {
            ms.push(Mutation::<F<G>>::PointZero((0, 3 + j)).coq());
            ms.push(Mutation::PointAdd((0, 3 + j), co.clone()).coq());
        }
    }
    ms.extend(c.muts.iter().map(|m| m.coq()));
    let _ = writeln!(coq, "  [{}].", ms.join("; "));
    let obs = obs.into_inner();
    CaseOut { coq, obs, summary, vproof: out_vproof, commitments: out_commitments, chal_v, verdict: out_verdict }
}

/// quick/thorough case streams for the r1cs component
pub fn gen_cases<G: AffineRepr>(seed: u64, tier: &str, stream: &str, curve_idx: u64) -> Vec<R1csCase<G>> {
    type F<G> = <G as AffineRepr>::ScalarField;
    let mut rng = ChaChaRng::seed_from_u64(seed ^ (curve_idx << 32) ^ 0xc0ffee);
    let mut out = vec![];
    let thorough = tier == "thorough";
    let count = match (stream, thorough) {
        ("honest", false) => 16,
        ("honest", true) => 60,
        ("cs", false) => 40,
        ("cs", true) => 300,
        ("mutfields", false) => 36,
        ("mutfields", true) => 72,
        ("violate", false) => 16,
        ("statement", false) => 40,
        ("forge", false) => 16,
        ("cancelrows", false) => 24,
        ("cancelrows", true) => 48,
        ("manycons", false) => 9,
        ("manycons", true) => 21,
        ("large", false) => 8,
        ("large", true) => 14,
        ("mutsmall", false) => 32,
        ("mutsmall", true) => 64,
        ("statement", true) => 112,
        (_, false) => 8,
        (_, true) => 40,
    };
    for k in 0..count {
        let id = format!("c_{}_{}_{}", stream, curve_idx, k);
        match stream {
            // call-sequence stream (K1): bookkeeping only, small, includes missing assignments
            "cs" => {
                let sh = Shape {
                    commits: rng.gen_range(0..3),
                    ops1: rng.gen_range(0..7),
                    closures: if k % 5 == 4 { rng.gen_range(3..5) } else { rng.gen_range(0..3) },
                    ops2: rng.gen_range(0..5),
                    allow_missing: k % 4 == 0,
                    sure: false,
                };
                let mut sh = sh;
                // targeted: the SECOND half of an allocation pair lacks its assignment (first phase: k % 8 == 0; inside a closure: k % 8 == 4)
                let targeted = k % 8 == 0 || k % 8 == 4;
                if targeted {
                    sh.allow_missing = false;
                    if k % 8 == 4 { sh.closures = sh.closures.max(1); }
                }
                let mut g = gen_program::<F<G>>(&mut rng, &sh);
                if targeted && k % 8 == 0 {
                    let singles = g.prog.iter().filter(|o| matches!(o, COp::Alloc(Some(_)))).count();
                    if singles % 2 == 0 { g.prog.push(COp::Alloc(Some(F::<G>::rand(&mut rng)))); }
                    g.prog.push(COp::Alloc(None));
                }
                if targeted && k % 8 == 4 {
                    for op in g.prog.iter_mut() {
                        if let COp::Randomize(body) = op {
                            let singles = body.iter().filter(|o| matches!(o, ROp::Alloc(Some(_)))).count();
                            if singles % 2 == 0 { body.push(ROp::Alloc(Some(Sx::C(F::<G>::rand(&mut rng))))); }
                            body.push(ROp::Alloc(None));
                            break;
                        }
                    }
                }
                if k % 8 == 6 {
                    // targeted: zero (and other special) assignments on the SECOND half of an allocation pair, followed by
                    // further single allocations — the handles must not depend on the witness values
                    let z = |rng: &mut ChaChaRng| -> F<G> { match rng.gen_range(0..3) { 0 => F::<G>::zero(), 1 => F::<G>::from(1u64), _ => F::<G>::rand(rng) } };
                    let mut tail: Vec<COp<F<G>>> = vec![];
                    let singles = g.prog.iter().filter(|o| matches!(o, COp::Alloc(Some(_)))).count();
                    if singles % 2 == 1 { tail.push(COp::Alloc(Some(F::<G>::rand(&mut rng)))); }
                    tail.push(COp::Alloc(Some(z(&mut rng))));
                    tail.push(COp::Alloc(Some(F::<G>::zero())));
                    tail.push(COp::Alloc(Some(F::<G>::rand(&mut rng))));
                    tail.push(COp::Len);
                    tail.push(COp::Alloc(Some(F::<G>::zero())));
                    tail.push(COp::Alloc(Some(z(&mut rng))));
                    tail.push(COp::Len);
                    let body = vec![ROp::Alloc(Some(Sx::C(F::<G>::rand(&mut rng)))), ROp::Alloc(Some(Sx::C(F::<G>::zero()))), ROp::Alloc(Some(Sx::C(z(&mut rng)))), ROp::Len,
                                    ROp::Alloc(Some(Sx::C(F::<G>::zero()))), ROp::Len];
                    g.prog.extend(tail);
                    g.prog.push(COp::Randomize(body));
                    g.n1 += 4;
                    g.n2 += 3;
                }
                if k % 8 == 2 {
                    // targeted: an allocation left unpaired at the end of one closure is completed by the next closure
                    // (the pending gate is cleared at the phase switch only), with multipliers_len() read in between
                    let pre = rng.gen_range(0..3);
                    let mut prog: Vec<COp<F<G>>> = vec![];
                    for _ in 0..pre { prog.push(COp::AllocMul(Some((F::<G>::rand(&mut rng), F::<G>::rand(&mut rng))))); }
                    if rng.gen() { prog.push(COp::Alloc(Some(F::<G>::rand(&mut rng)))); }
                    let mut b1 = vec![ROp::Chal(LABELS[0]), ROp::Len];
                    for _ in 0..(1 + 2 * rng.gen_range(0..2)) { b1.push(ROp::Alloc(Some(Sx::C(F::<G>::rand(&mut rng))))); }
                    b1.push(ROp::Len);
                    let mut b2 = vec![ROp::Len, ROp::Alloc(Some(Sx::C(F::<G>::rand(&mut rng)))), ROp::Len];
                    if rng.gen() { b2.push(ROp::Alloc(Some(Sx::C(F::<G>::rand(&mut rng))))); b2.push(ROp::Len); }
                    prog.push(COp::Randomize(b1));
                    prog.push(COp::Randomize(b2));
                    if rng.gen() { prog.push(COp::Randomize(vec![ROp::Alloc(Some(Sx::C(F::<G>::rand(&mut rng)))), ROp::Len])); }
                    prog.push(COp::Len);
                    g.prog = prog;
                    g.n1 = pre + 1;
                    g.n2 = 6;
                }
                let n = (g.n1 + g.n2 + 2).next_power_of_two().max(1);
                let mut c = R1csCase::plain(id, g.prog, n, n, rng.gen());
                c.tag = format!("{} n1={} n2={}", if k % 4 == 0 { "cs-missing" } else { "cs" }, g.n1, g.n2);
                out.push(c);
            }
            "honest" => {
                let sizes = if thorough { 9 } else { 5 };
                let sh = Shape {
                    commits: rng.gen_range(0..4),
                    ops1: rng.gen_range(0..sizes),
                    closures: if k % 2 == 0 { 0 } else if k % 8 == 7 { rng.gen_range(3..5) } else { rng.gen_range(1..3) },
                    ops2: rng.gen_range(0..sizes),
                    allow_missing: false,
                    sure: false,
                };
                let g = gen_program::<F<G>>(&mut rng, &sh);
                let n = (g.n1 + g.n2).next_power_of_two().max(1);
                let cap_p = n << rng.gen_range(0..2);
                let cap_v = n << rng.gen_range(0..2);
                let mut c = R1csCase::plain(id, g.prog, cap_p, cap_v, rng.gen());
                c.tag = format!("honest n1={} n2={} m={}", g.n1, g.n2, g.commits);
                out.push(c);
            }
            "violate" => {
                let sh = Shape {
                    commits: rng.gen_range(0..3),
                    ops1: rng.gen_range(1..5),
                    closures: if k % 2 == 0 { 0 } else { 1 },
                    ops2: rng.gen_range(1..5),
                    allow_missing: false,
                    sure: false,
                };
                let mut g = gen_program::<F<G>>(&mut rng, &sh);
                let n = (g.n1 + g.n2).next_power_of_two().max(1);
                let delta: F<G> = match k % 3 {
                    0 => F::<G>::from(1u64),
                    1 => -F::<G>::from(1u64),
                    _ => F::<G>::rand(&mut rng),
                };
                let mut gate_ov = vec![];
                let mut tag = String::new();
                if k % 4 == 3 {
                    // violated constraint whose value is exactly one of its own constant terms:
                    // [c1.One, (balanced terms), ...] is violated by c1 but satisfied if c1 (or the balancing constant) is dropped
                    let c1: F<G> = F::<G>::rand(&mut rng);
                    let first = k % 8 == 3;
                    if let Some((pi, bi)) = g.balanced.first().cloned() {
                        let ins = |t: &mut Lcx<F<G>>| {
                            if first { t.insert(0, (V::One, Sx::C(c1))) } else { t.push((V::One, Sx::C(c1))) }
                        };
                        match (&mut g.prog[pi], bi) {
                            (COp::Constrain(t), None) => ins(t),
                            (COp::Randomize(body), Some(b)) => { if let ROp::Constrain(t) = &mut body[b] { ins(t) } }
                            _ => {}
                        }
                        tag = format!("violate-constraint extra-constant first={}", first);
                    }
                } else if k % 2 == 0 || g.n1 == 0 {
                    let pos = rng.gen_range(0..64);
                    if violate(&mut g, pos, delta) {
                        tag = format!("violate-constraint pos={}", pos);
                    }
                } else {
                    // gate violation through hook H2: o := l*r + delta on a first-phase gate
                    let i = rng.gen_range(0..g.n1);
                    let l: F<G> = F::<G>::rand(&mut rng);
                    let r: F<G> = F::<G>::rand(&mut rng);
                    gate_ov.push((i, l, r, l * r + delta));
                    tag = format!("violate-gate i={}", i);
                }
                let mut c = R1csCase::plain(id, g.prog, n, n, rng.gen());
                c.gate_ov = gate_ov;
                c.tag = format!("{} n1={} n2={}", tag, g.n1, g.n2);
                out.push(c);
            }
            "mutate" => {
                let sh = Shape {
                    commits: rng.gen_range(0..3),
                    ops1: rng.gen_range(1..5),
                    closures: if k % 3 == 0 { 1 } else { 0 },
                    ops2: rng.gen_range(1..4),
                    allow_missing: false,
                    sure: false,
                };
                let g = gen_program::<F<G>>(&mut rng, &sh);
                let n = (g.n1 + g.n2).next_power_of_two().max(1);
                let lg = n.trailing_zeros() as usize;
                let dim = 2 + 2 * n;
                let mut c = R1csCase::plain(id, g.prog, n, n, rng.gen());
                let sel = |rng: &mut ChaChaRng| -> (usize, usize) {
                    if lg > 0 && rng.gen_range(0..3) == 0 {
                        (rng.gen_range(1..3), rng.gen_range(0..lg))
                    } else {
                        (0, rng.gen_range(0..11))
                    }
                };
                let m = match k % 12 {
                    0 => {
                        let mut co = vec![F::<G>::zero(); dim];
                        co[rng.gen_range(0..dim)] = F::<G>::rand(&mut rng);
                        Mutation::PointAdd(sel(&mut rng), co)
                    }
                    1 => Mutation::PointNeg(sel(&mut rng)),
                    2 => Mutation::PointZero(sel(&mut rng)),
                    3 => Mutation::PointSwap(sel(&mut rng), sel(&mut rng)),
                    4 => Mutation::ScalarAdd(rng.gen_range(0..5), F::<G>::from(1u64)),
                    5 => Mutation::ScalarAdd(rng.gen_range(0..5), -F::<G>::from(1u64)),
                    6 => Mutation::DropRound,
                    7 => Mutation::DupRound,
                    8 => Mutation::DropL,
                    9 => Mutation::DropR,
                    10 => Mutation::ExtraL,
                    _ => Mutation::ExtraR,
                };
                c.tag = format!("mutate {:?} n1={} n2={}", m, g.n1, g.n2)
                    .chars()
                    .take(90)
                    .collect();
                c.muts = vec![m];
                out.push(c);
            }
            // statement / context deviations on the verifier side (C05): the proof is honest, the verifier's statement is not the prover's
            "statement" => {
                let kinds = 20;
                let kind = k % kinds;
                let sh = Shape { commits: 2 + rng.gen_range(0..2), ops1: 1 + rng.gen_range(0..3), closures: if k % 3 == 0 { 1 } else { 0 }, ops2: 1 + rng.gen_range(0..3), allow_missing: false, sure: true };
                let mut g = gen_program::<F<G>>(&mut rng, &sh);
                // the deviations below need pairwise different commitments (a swap of two identical ones is no deviation)
                for _ in 0..8 {
                    let cs: Vec<(F<G>, F<G>)> = g.prog.iter().filter_map(|o| if let COp::Commit(v, vb) = o { Some((*v, *vb)) } else { None }).collect();
                    if (0..cs.len()).all(|i| (0..i).all(|j| cs[i] != cs[j])) { break; }
                    g = gen_program::<F<G>>(&mut rng, &sh);
                }
                // user data before and (when there is a closure) during construction
                g.prog.insert(0, COp::Msg(LABELS[4], b"context-A".to_vec()));
                let mut closure_at = None;
                for (i, op) in g.prog.iter_mut().enumerate() {
                    if let COp::Randomize(body) = op {
                        body.insert(0, ROp::Msg(LABELS[3], b"inner-A".to_vec()));
                        closure_at = Some(i);
                        break;
                    }
                }
                // make sure the circuit has a gate and a constraint over two committed values with non-zero values
                let vals: Vec<(usize, F<G>, F<G>)> = g.prog.iter().enumerate().filter_map(|(i, o)| if let COp::Commit(v, vb) = o { Some((i, *v, *vb)) } else { None }).collect();
                g.prog.push(COp::AllocMul(Some((F::<G>::rand(&mut rng), F::<G>::rand(&mut rng)))));
                let c1 = F::<G>::rand(&mut rng);
                let c2 = F::<G>::rand(&mut rng);
                let cpos = g.prog.len();
                g.prog.push(COp::Constrain(vec![(V::Committed(0), Sx::C(c1)), (V::Committed(1), Sx::C(c2)), (V::One, Sx::C(-(c1 * vals[0].1 + c2 * vals[1].1)))]));
                let n = (g.n1 + g.n2 + 1).next_power_of_two();
                let dim = 2 + 2 * n;
                let coeffs = |v: F<G>, vb: F<G>| { let mut co = vec![F::<G>::zero(); dim]; co[0] = v; co[1] = vb; co };
                let mut c = R1csCase::plain(id, g.prog.clone(), n, n, rng.gen());
                let ncom = vals.len();
                let mut vprog = g.prog.clone();
                let mut vcommit: Vec<Option<Vec<F<G>>>> = vec![None; ncom];
                let name;
                match kind {
                    0 => { let i = rng.gen_range(0..ncom); vcommit[i] = Some(coeffs(vals[i].1 + F::<G>::from(1u64), vals[i].2)); name = format!("different-commitment-value i={}", i); }
                    1 => { let i = rng.gen_range(0..ncom); vcommit[i] = Some(coeffs(vals[i].1, vals[i].2 + F::<G>::from(1u64))); name = format!("different-commitment-blinding i={}", i); }
                    2 => { vcommit[0] = Some(coeffs(vals[1].1, vals[1].2)); vcommit[1] = Some(coeffs(vals[0].1, vals[0].2)); name = "reordered-commitments 0<->1".into(); }
                    3 => { vprog.push(COp::Commit(F::<G>::from(5u64), F::<G>::from(7u64))); vcommit.push(Some(coeffs(F::<G>::from(5u64), F::<G>::from(7u64)))); name = "extra-commitment".into(); }
                    4 => {
                        // the prover has one more (unused) commitment than the verifier
                        c.prog.push(COp::Commit(F::<G>::from(5u64), F::<G>::from(7u64)));
                        name = "missing-commitment".into();
                    }
                    5 => { if let COp::Constrain(t) = &mut vprog[cpos] { let bump = if vals[0].1.is_zero() { 1 } else { 0 }; if let Sx::C(x) = &mut t[bump].1 { *x += F::<G>::from(1u64); } } name = "changed-coefficient".into(); }
                    6 => { if let COp::Constrain(t) = &mut vprog[cpos] { if let Sx::C(x) = &mut t[2].1 { *x += F::<G>::from(1u64); } } name = "changed-constant".into(); }
                    7 => { c.vlabel = b"verif-casE"; name = "different-label".into(); }
                    8 => { vprog[0] = COp::Msg(LABELS[4], b"context-B".to_vec()); name = "different-app-data-before".into(); }
                    9 => { vprog.remove(0); name = "missing-app-data-before".into(); }
                    10 => {
                        if let Some(i) = closure_at { if let COp::Randomize(body) = &mut vprog[i] { body[0] = ROp::Msg(LABELS[3], b"inner-B".to_vec()); } name = "different-app-data-during".into(); }
                        else { vprog[0] = COp::Msg(LABELS[5], b"context-A".to_vec()); name = "different-app-data-label".into(); }
                    }
                    11 => { let mut b = vec![F::<G>::zero(); dim]; b[0] = F::<G>::from(1u64); let mut bb = vec![F::<G>::zero(); dim]; bb[1] = F::<G>::from(1u64); bb[2] = F::<G>::from(1u64); c.vbases = Some((b, bb)); name = "different-blinding-base".into(); }
                    12 => { let mut b = vec![F::<G>::zero(); dim]; b[0] = F::<G>::from(1u64); b[2 + n] = F::<G>::from(1u64); let mut bb = vec![F::<G>::zero(); dim]; bb[1] = F::<G>::from(1u64); c.vbases = Some((b, bb)); name = "different-value-base".into(); }
                    13 | 14 => {
                    // a commitment no constraint refers to (bound as context only), replaced by its negation / by another opening
                        c.prog.push(COp::Commit(F::<G>::from(9u64), F::<G>::from(11u64)));
                        vprog.push(COp::Commit(F::<G>::from(9u64), F::<G>::from(11u64)));
                        if kind == 13 { vcommit.push(Some(coeffs(-F::<G>::from(9u64), -F::<G>::from(11u64)))); name = "negated-unused-commitment".into(); }
                        else { vcommit.push(Some(coeffs(F::<G>::from(9u64), F::<G>::from(12u64)))); name = "different-unused-commitment".into(); }
                    }
                    15 => {
                        // the verifier's statement lists a bit-identical copy of an existing commitment once more
                        vprog.push(COp::Commit(vals[1].1, vals[1].2));
                        vcommit.push(Some(coeffs(vals[1].1, vals[1].2)));
                        name = "duplicate-extra-commitment".into();
                    }
                    16 => {
                        // the prover's statement ends with a copy of an existing commitment, the verifier's does not
                        c.prog.push(COp::Commit(vals[1].1, vals[1].2));
                        name = "missing-duplicate-commitment".into();
                    }
                    18 => {
                        // an unconstrained commitment shifted by a small-order point (cofactor curve only; elsewhere this is the control)
                        c.prog.push(COp::Commit(F::<G>::from(9u64), F::<G>::from(11u64)));
                        vprog.push(COp::Commit(F::<G>::from(9u64), F::<G>::from(11u64)));
                        vcommit.push(None);
                        c.vtorsion = Some(ncom);
                        c.model = false;
                        name = "unused-commitment-plus-torsion".into();
                    }
                    17 => {
                        // a term-less constraint (0 = 0) in front of the verifier's constraints: every later constraint moves up one power of z
                        let pos = vprog.iter().position(|o| matches!(o, COp::Constrain(_))).unwrap_or(vprog.len());
                        vprog.insert(pos, COp::Constrain(vec![]));
                        name = "extra-empty-constraint".into();
                    }
                    _ => { name = "none".into(); }
                }
                if kind == 4 || kind == 16 {
                    // verifier program = the original one (without the extra commitment)
                    c.vprog = Some(g.prog.clone());
                } else {
                    c.vprog = Some(vprog);
                }
                c.vcommit = vcommit;
                c.tag = format!("statement {} n1={} n2={} m={}", name, g.n1, g.n2, ncom);
                out.push(c);
            }
            // dishonest prover (hook H4): the proving procedure publishes arbitrary points as (A_I2, A_O2, S2)
            "forge" => {
                let sh = Shape { commits: rng.gen_range(0..3), ops1: 1 + rng.gen_range(0..3), closures: if k % 2 == 0 { 0 } else { 1 }, ops2: 1 + rng.gen_range(0..3), allow_missing: false, sure: false };
                let g = gen_program::<F<G>>(&mut rng, &sh);
                let n = (g.n1 + g.n2).next_power_of_two().max(1);
                let dim = 2 + 2 * n;
                let mut c = R1csCase::plain(id, g.prog, n, n, rng.gen());
                let mut mk = |rng: &mut ChaChaRng, nonzero: bool| { let mut co = vec![F::<G>::zero(); dim]; if nonzero { co[rng.gen_range(0..dim)] = F::<G>::rand(rng); co[rng.gen_range(0..dim)] += F::<G>::from(1u64); } co };
                let which = (k / 2) % 4;
                let f = [mk(&mut rng, which == 0 || which == 3), mk(&mut rng, which == 1 || which == 3), mk(&mut rng, which == 2 || which == 3)];
                c.forge = Some(f);
                c.tag = format!("forge which={} n1={} n2={}", which, g.n1, g.n2);
                out.push(c);
            }
            // smallest circuits (no inner-product rounds: one gate or none): every field perturbed once
            "mutsmall" => {
                let gates = k % 2;
                let field = (k / 2) % 16;   // 11 points, 5 scalars
                let sh = Shape { commits: 1 + rng.gen_range(0..2), ops1: 0, closures: 0, ops2: 0, allow_missing: false, sure: false };
                let mut g = gen_program::<F<G>>(&mut rng, &sh);
                let vals: Vec<F<G>> = g.prog.iter().filter_map(|o| if let COp::Commit(v, _) = o { Some(*v) } else { None }).collect();
                if gates == 1 {
                    // one gate tied to the committed value: l * r = o with l = V0
                    let rr = F::<G>::rand(&mut rng);
                    g.prog.push(COp::Mul(vec![(V::Committed(0), Sx::C(F::<G>::from(1u64)))], vec![(V::One, Sx::C(rr))]));
                    g.prog.push(COp::Constrain(vec![(V::Out(0), Sx::C(F::<G>::from(1u64))), (V::One, Sx::C(-(vals[0] * rr)))]));
                } else {
                    let c1 = F::<G>::rand(&mut rng);
                    g.prog.push(COp::Constrain(vec![(V::Committed(0), Sx::C(c1)), (V::One, Sx::C(-(c1 * vals[0])))]));
                }
                let dim = 4;
                let mut c = R1csCase::plain(id, g.prog, 1, 1, rng.gen());
                let m = if field < 11 {
                    let mut co = vec![F::<G>::zero(); dim];
                    co[rng.gen_range(0..dim)] = F::<G>::rand(&mut rng);
                    Mutation::PointAdd((0, field), co)
                } else {
                    Mutation::ScalarAdd(field - 11, if k % 4 < 2 { F::<G>::from(1u64) } else { -F::<G>::from(1u64) })
                };
                c.tag = format!("mutsmall field={} gates={}", field, gates);
                c.muts = vec![m];
                out.push(c);
            }
            // larger circuits: more than 32 / 64 multipliers (padding to 64 / 128), many commitments; at most one closure so
            // that the witness satisfies the constraints by construction; the real code only (the model is evaluated on
            // one of them in the thorough tier)
            "large" => {
                if k >= (if thorough { 14 } else { 8 }) { continue; }
                if k >= (if thorough { 12 } else { 6 }) {
                    // inner-product lengths of 256 and more with a short first phase: n1 in 1..n/2, many second-phase gates
                    let n1: usize = 1 + rng.gen_range(0..60);
                    let n2: usize = 130 + rng.gen_range(0..80);
                    let v = F::<G>::rand(&mut rng);
                    let mut prog: Vec<COp<F<G>>> = vec![COp::Commit(v, F::<G>::rand(&mut rng))];
                    for _ in 0..n1 { prog.push(COp::AllocMul(Some((F::<G>::rand(&mut rng), F::<G>::rand(&mut rng))))); }
                    prog.push(COp::Constrain(vec![(V::Committed(0), Sx::C(F::<G>::from(1u64))), (V::One, Sx::C(-v))]));
                    let mut body = vec![ROp::Chal(LABELS[0])];
                    for _ in 0..n2 { body.push(ROp::AllocMul(Some((Sx::Ch(0), Sx::C(F::<G>::rand(&mut rng)))))); }
                    prog.push(COp::Randomize(body));
                    let n = (n1 + n2).next_power_of_two();
                    let mut c = R1csCase::plain(id, prog, n, n, rng.gen());
                    c.model = false;
                    c.tag = format!("honest-large sure=1 n1={} n2={} m=1", n1, n2);
                    out.push(c);
                    continue;
                }
                let sh = Shape { commits: 4 + rng.gen_range(0..9), ops1: 20 + rng.gen_range(0..(if k % 3 == 2 { 110 } else { 50 })), closures: k % 2, ops2: 5 + rng.gen_range(0..30), allow_missing: false, sure: true };
                let g = gen_program::<F<G>>(&mut rng, &sh);
                let n = (g.n1 + g.n2).next_power_of_two().max(1);
                let mut c = R1csCase::plain(id, g.prog, n, n << (k % 2), rng.gen());
                c.model = thorough && k == 0 && curve_idx == (seed % 3);
                c.tag = format!("honest-large sure={} n1={} n2={} m={}", if k % 2 == 0 { 1 } else { 0 }, g.n1, g.n2, g.commits);
                out.push(c);
            }
            // many constraints (C02): a gate-free circuit with thousands of constraints, two adjacent ones violated by +e and -e,
            // around the positions where block-wise implementations would sit (powers of two); the real code only
            "manycons" => {
                let bounds: Vec<usize> = if thorough { vec![64, 128, 256, 512, 1024, 2048, 4096] } else { vec![256, 1024, 4096] };
                let mut pairs: Vec<usize> = vec![];
                for b in &bounds { for d in [2usize, 1, 0] { pairs.push(b - d); } }
                if k >= pairs.len() { continue; }
                let q = pairs[k];
                let total = bounds.last().unwrap() + 6;
                let v = F::<G>::rand(&mut rng);
                let e = F::<G>::rand(&mut rng);
                let mut prog: Vec<COp<F<G>>> = vec![COp::Commit(v, F::<G>::rand(&mut rng))];
                for i in 0..total {
                    let c1 = F::<G>::from((i as u64) * 7 + 3);
                    // constraint number i (1-based position q means the q-th and (q+1)-th constraints are the violated pair)
                    let off = if i + 1 == q { e } else if i == q { -e } else { F::<G>::zero() };
                    prog.push(COp::Constrain(vec![(V::Committed(0), Sx::C(c1)), (V::One, Sx::C(-(c1 * v) + off))]));
                }
                let mut c = R1csCase::plain(id, prog, 1, 1, rng.gen());
                c.model = false;
                c.tag = format!("manycons pair={} total={}", q, total);
                out.push(c);
            }
            // witnesses violating TWO (or three) rows whose errors cancel when the rows are given equal (or linearly related)
            // weights: a short row c.X = 0 (one term, or the same variable twice, or with a zero-coefficient companion),
            // violated by c.val(X), next to a row with error -c.val(X); every order, both phases, X a gate output / input /
            // committed value; and triples with errors e, -2e, e.  Each row alone is violated, so the proof must be rejected.
            "cancelrows" => {
                let one = F::<G>::from(1u64);
                let v = F::<G>::rand(&mut rng);
                let (l, r) = (F::<G>::rand(&mut rng), F::<G>::rand(&mut rng));
                let c = if k % 5 == 0 { one } else { F::<G>::rand(&mut rng) };
                let d = F::<G>::rand(&mut rng);
                let (xvar, xval) = match k % 3 { 0 => (V::Out(0), l * r), 1 => (V::Committed(0), v), _ => (V::Left(0), l) };
                let (yvar, yval) = match (k / 3) % 2 { 0 => (V::Right(0), r), _ => (V::Committed(0), v) };
                let form = (k / 6) % 4;
                let e = c * xval;
                let short: Lcx<F<G>> = match form {
                    0 | 3 => vec![(xvar.clone(), Sx::C(c))],
                    1 => vec![(xvar.clone(), Sx::C(c - one)), (xvar.clone(), Sx::C(one))],
                    _ => vec![(xvar.clone(), Sx::C(c)), (yvar.clone(), Sx::C(F::<G>::zero()))],
                };
                let bal = |err: F<G>| -> Lcx<F<G>> { vec![(yvar.clone(), Sx::C(d)), (V::One, Sx::C(-(d * yval) + err))] };
                let rows: Vec<Lcx<F<G>>> = if form == 3 {
                    // e, -2e, e with the short row in the middle scaled by -2
                    vec![bal(e), vec![(xvar.clone(), Sx::C(-(c + c)))], bal(e)]
                } else if (k / 24) % 2 == 0 { vec![short, bal(-e)] } else { vec![bal(-e), short] };
                let in_closure = (k / 2) % 2 == 1;
                let mut prog: Vec<COp<F<G>>> = vec![COp::Commit(v, F::<G>::rand(&mut rng)), COp::AllocMul(Some((l, r)))];
                // some satisfied rows in front so that the pair sits at varying positions
                for i in 0..(k % 4) {
                    let c1 = F::<G>::from((i as u64) * 5 + 2);
                    prog.push(COp::Constrain(vec![(V::Committed(0), Sx::C(c1)), (V::One, Sx::C(-(c1 * v)))]));
                }
                if in_closure {
                    prog.push(COp::Randomize(rows.into_iter().map(ROp::Constrain).collect()));
                } else {
                    for t in rows { prog.push(COp::Constrain(t)); }
                }
                let mut cse = R1csCase::plain(id, prog, 1, 1, rng.gen());
                cse.tag = format!("violate-cancelrows form={} x={} closure={} front={}", form, k % 3, in_closure as u8, k % 4);
                out.push(cse);
            }
            // a violated constraint stated BEFORE the variable it mentions exists (committed later / allocated later):
            // by the time of proving every mentioned variable exists, so the constraint counts like any other
            "forwardref" => {
                if k >= 6 { continue; }
                let v0 = F::<G>::rand(&mut rng);
                let v1 = F::<G>::rand(&mut rng);
                let e = if k % 2 == 0 { F::<G>::from(1u64) } else { F::<G>::zero() };
                let (l, r) = (F::<G>::rand(&mut rng), F::<G>::rand(&mut rng));
                let mut prog: Vec<COp<F<G>>> = vec![COp::Commit(v0, F::<G>::rand(&mut rng))];
                match k / 2 {
                    0 => {
                        prog.push(COp::Constrain(vec![(V::Committed(1), Sx::C(F::<G>::from(1u64))), (V::One, Sx::C(-(v1 + e)))]));
                        prog.push(COp::Commit(v1, F::<G>::rand(&mut rng)));
                        prog.push(COp::AllocMul(Some((l, r))));
                    }
                    1 => {
                        prog.push(COp::Constrain(vec![(V::Left(0), Sx::C(F::<G>::from(1u64))), (V::One, Sx::C(-(l + e)))]));
                        prog.push(COp::AllocMul(Some((l, r))));
                    }
                    _ => {
                        // a first-phase constraint on a second-phase gate
                        prog.push(COp::AllocMul(Some((l, r))));
                        prog.push(COp::Constrain(vec![(V::Out(1), Sx::C(F::<G>::from(1u64))), (V::One, Sx::C(-(l * r + e)))]));
                        prog.push(COp::Randomize(vec![ROp::AllocMul(Some((Sx::C(l), Sx::C(r))))]));
                    }
                }
                let mut c = R1csCase::plain(id, prog, 2, 2, rng.gen());
                c.tag = format!("forwardref kind={} violated={}", k / 2, (k % 2 == 0) as u8);
                out.push(c);
            }
            // capacity grid (C17): fixed program per (n1, n2), every capacity pair
            "capgrid" => {
                let g: usize = if thorough { 5 } else { 3 };
                let caps: Vec<usize> = if thorough { vec![0, 1, 2, 3, 4, 5, 7, 8, 9, 16] } else { vec![0, 1, 2, 3, 4, 8] };
                if k > 0 { continue; }
                let mut idx = 0;
                for n1 in 0..g as usize {
                    for n2 in 0..g as usize {
                        let mut prng = ChaChaRng::seed_from_u64(seed ^ 0xca9 ^ ((n1 * 16 + n2) as u64));
                        let v: F<G> = F::<G>::rand(&mut prng);
                        let mut prog: Vec<COp<F<G>>> = vec![COp::Commit(v, F::<G>::rand(&mut prng))];
                        // two ways of opening a gate: allocate_multiplier, or two single allocate calls (every other shape)
                        let singles = (n1 * 3 + n2) % 2 == 1;
                        for _ in 0..n1 {
                            if singles {
                                prog.push(COp::Alloc(Some(F::<G>::rand(&mut prng))));
                                prog.push(COp::Alloc(Some(F::<G>::rand(&mut prng))));
                            } else {
                                prog.push(COp::AllocMul(Some((F::<G>::rand(&mut prng), F::<G>::rand(&mut prng)))));
                            }
                        }
                        prog.push(COp::Constrain(vec![(V::Committed(0), Sx::C(F::<G>::from(1u64))), (V::One, Sx::C(-v))]));
                        if n2 > 0 || (n1 + n2) % 2 == 1 {
                            let mut body = vec![ROp::Chal(LABELS[0])];
                            for _ in 0..n2 {
                                if singles {
                                    body.push(ROp::Alloc(Some(Sx::Ch(0))));
                                    body.push(ROp::Alloc(Some(Sx::C(F::<G>::rand(&mut prng)))));
                                } else {
                                    body.push(ROp::AllocMul(Some((Sx::Ch(0), Sx::C(F::<G>::rand(&mut prng))))));
                                }
                            }
                            prog.push(COp::Randomize(body));
                        }
                        let pn = (n1 + n2).next_power_of_two().max(1);
                        let ext: u64 = prng.gen();
                        for &cp in &caps {
                            let cvs: Vec<usize> = if cp >= pn { caps.clone() } else { vec![pn] };
                            // a second and third party must not change anything: only party 0's vectors are used
                            if cp > 0 && (cp < pn || cp == pn) {
                                for parties in [2usize, 3] {
                                    let mut cvs2: Vec<usize> = vec![pn];
                                    if cp == pn { if let Some(&low) = caps.iter().filter(|&&x| x > 0 && x < pn).last() { cvs2.push(low); } }
                                    for cv in cvs2 {
                                        let mut c = R1csCase::plain(format!("c_capgrid_{}_{}", curve_idx, idx), prog.clone(), cp, cv, ext);
                                        c.parties = parties;
                                        c.model = false;
                                        c.tag = format!("capgrid n1={} n2={} pn={} capp={} capv={} parties={} grp={}_{}", n1, n2, pn, cp, cv, parties, n1, n2);
                                        out.push(c);
                                        idx += 1;
                                    }
                                }
                            }
                            for &cv in &cvs {
                                let mut c = R1csCase::plain(format!("c_capgrid_{}_{}", curve_idx, idx), prog.clone(), cp, cv, ext);
                                // the model evaluates the boundary cases; the rest of the grid runs on the real code only
                                c.model = curve_idx == (seed % 3) && (cp + 1 == pn || cp == pn || cp == 2 * pn) && (cv + 1 == pn || cv == pn);
                                c.tag = format!("capgrid n1={} n2={} pn={} capp={} capv={} grp={}_{}", n1, n2, pn, cp, cv, n1, n2);
                                out.push(c);
                                idx += 1;
                            }
                        }
                    }
                }
            }
            // RNG discipline (C09): same program under (seed a, seed a, seed b, seed a with other commitment blindings)
            "rngdet" => {
                if k >= (if thorough { 12 } else { 4 }) { continue; }
                let sh = Shape { commits: 1 + k % 2, ops1: k % 4, closures: if k % 2 == 1 { 1 } else { 0 }, ops2: 2 + k % 3, allow_missing: false, sure: false };
                let g = gen_program::<F<G>>(&mut rng, &sh);
                let n = (g.n1 + g.n2).next_power_of_two().max(1);
                let sa: u64 = rng.gen();
                let sb: u64 = rng.gen();
                let hi: u64 = 1 << 63;
                for (j, sd) in [sa, sa, sb, sa, sa, sa, sa, hi | (sa >> 1), hi | (sb >> 1)].iter().enumerate() {
                    let mut prog = g.prog.clone();
                    if j == 3 {
                        for op in prog.iter_mut() {
                            if let COp::Commit(v, vb) = op {
                                *op = COp::Commit(*v, *vb + F::<G>::from(1u64));
                            }
                        }
                    }
                    if j == 4 {
                        // other blinding factors with the SAME sum (first +1, second -1)
                        let mut seen = 0;
                        for op in prog.iter_mut() {
                            if let COp::Commit(v, vb) = op {
                                let (v0, b0) = (*v, *vb);
                                if seen == 0 { *op = COp::Commit(v0, b0 + F::<G>::from(1u64)); }
                                else if seen == 1 { *op = COp::Commit(v0, b0 - F::<G>::from(1u64)); }
                                seen += 1;
                            }
                        }
                        if seen < 2 { continue; }
                    }
                    if j == 5 || j == 6 {
                        // B_blinding = 2B: variant 5 is the reference, variant 6 re-opens the SAME commitment points as
                        // (v - 2, vb + 1) and (v + 2, vb - 1): same transcript, same external randomness, same blinding sum
                        let mut seen = 0;
                        for op in prog.iter_mut() {
                            if let COp::Commit(v, vb) = op {
                                let (v0, b0) = (*v, *vb);
                                if j == 6 {
                                    if seen == 0 { *op = COp::Commit(v0 - F::<G>::from(2u64), b0 + F::<G>::from(1u64)); }
                                    else if seen == 1 { *op = COp::Commit(v0 + F::<G>::from(2u64), b0 - F::<G>::from(1u64)); }
                                }
                                seen += 1;
                            }
                        }
                        if seen < 2 { continue; }
                    }
                    let mut c = R1csCase::plain(format!("c_rngdet_{}_{}_{}", curve_idx, k, j), prog, n, n, *sd);
                    c.model = j == 0;
                    c.bb_is_2b = j >= 5;
                    c.tag = format!("rngdet variant={} n1={} n2={} grp={}", j, g.n1, g.n2, k);
                    out.push(c);
                }
            }
            // every proof field perturbed once: 11 fixed points, L_0, R_0 (offset by a random generator multiple), 5 scalars
            "mutfields" => {
                let two_phase = k % 2 == 1;
                let field = (k / 2) % 18;
                let sh = Shape { commits: 2, ops1: 3, closures: if two_phase { 1 } else { 0 }, ops2: 3, allow_missing: false, sure: false };
                let mut g = gen_program::<F<G>>(&mut rng, &sh);
                // make sure there are at least two gates so that L_0 / R_0 exist
                g.prog.push(COp::AllocMul(Some((F::<G>::rand(&mut rng), F::<G>::rand(&mut rng)))));
                g.prog.push(COp::AllocMul(Some((F::<G>::rand(&mut rng), F::<G>::rand(&mut rng)))));
                let n = (g.n1 + g.n2 + 2).next_power_of_two();
                let dim = 2 + 2 * n;
                let mut c = R1csCase::plain(id, g.prog, n, n, rng.gen());
                let m = if field < 13 {
                    let mut co = vec![F::<G>::zero(); dim];
                    co[rng.gen_range(0..dim)] = F::<G>::rand(&mut rng);
                    let sel = if field < 11 { (0, field) } else if field == 11 { (1, 0) } else { (2, 0) };
                    Mutation::PointAdd(sel, co)
                } else {
                    Mutation::ScalarAdd(field - 13, if k % 4 < 2 { F::<G>::from(1u64) } else { -F::<G>::from(1u64) })
                };
                c.tag = format!("mutfield {} phase2={} n={}", field, two_phase, n);
                c.muts = vec![m];
                out.push(c);
            }
            // degenerate-but-consistent proofs through forced draws: gate-free circuit, one blinding forced to 0
            "forced" => {
                let sh = Shape { commits: rng.gen_range(1..3), ops1: 0, closures: 0, ops2: 0, allow_missing: false, sure: false };
                let mut g = gen_program::<F<G>>(&mut rng, &sh);
                // a satisfied constraint over the commitments: sum c_i v_i - value = 0
                let mut terms: Lcx<F<G>> = vec![];
                let mut val = F::<G>::zero();
                for (i, op) in g.prog.iter().enumerate() {
                    if let COp::Commit(v, _) = op {
                        let c = F::<G>::rand(&mut rng);
                        terms.push((V::Committed(i), Sx::C(c)));
                        val += c * v;
                    }
                }
                terms.push((V::One, Sx::C(-val)));
                g.prog.push(COp::Constrain(terms));
                let mut forced: Vec<F<G>> = (0..8).map(|_| F::<G>::rand(&mut rng)).collect();
                let which = [0usize, 1, 2, 3, 4, 7][k % 6];
                forced[which] = F::<G>::zero();
                let mut c = R1csCase::plain(id, g.prog, 1, 1, rng.gen());
                c.forced = forced;
                c.tag = format!("forced-zero-draw idx={}", which);
                out.push(c);
            }
            // one-constraint circuits from operator trees (C15): constrain(tree - c)
            "lcprove" => {
                use crate::comp_lc::{gen_tree, terms_of};
                let vals: Vec<F<G>> = (0..3).map(|_| edge_scalar::<F<G>>(&mut rng)).collect();
                let gl: Vec<(F<G>, F<G>)> = (0..3).map(|_| (edge_scalar::<F<G>>(&mut rng), edge_scalar::<F<G>>(&mut rng))).collect();
                let mut prog: Vec<COp<F<G>>> = vec![];
                for v in &vals {
                    prog.push(COp::Commit(*v, F::<G>::rand(&mut rng)));
                }
                for (l, r) in &gl {
                    prog.push(COp::AllocMul(Some((*l, *r))));
                }
                let tree = gen_tree::<F<G>>(&mut rng, 1 + k % 4);
                let w = |v: V| -> F<G> {
                    match v {
                        V::Committed(i) => vals[i],
                        V::Left(i) => gl[i].0,
                        V::Right(i) => gl[i].1,
                        V::Out(i) => gl[i].0 * gl[i].1,
                        V::One => F::<G>::from(1u64),
                        V::Phantom => F::<G>::zero(),
                    }
                };
                let value = tree.denote(&w);
                let (delta, tag): (F<G>, &str) = match k % 4 {
                    0 | 1 => (F::<G>::zero(), "lcprove-equal"),
                    2 => (F::<G>::from(1u64), "lcprove-off"),
                    _ => (-F::<G>::from(1u64), "lcprove-off"),
                };
                // expr - c with the real operators, then as a term list
                let real = tree.build() - (value + delta);
                let toks = terms_of(&real);
                let mut lcx: Lcx<F<G>> = vec![];
                for ch in toks.chunks(3) {
                    let idx: usize = ch[1].parse().unwrap();
                    let v = match ch[0].as_str() {
                        "0" => V::Committed(idx),
                        "1" => V::Left(idx),
                        "2" => V::Right(idx),
                        "3" => V::Out(idx),
                        "4" => V::One,
                        _ => V::Phantom,
                    };
                    use std::str::FromStr;
                    lcx.push((v, Sx::C(F::<G>::from_str(&ch[2]).ok().unwrap())));
                }
                prog.push(COp::Constrain(lcx));
                let mut c = R1csCase::plain(id, prog, 4, 4, rng.gen());
                c.tag = tag.to_string();
                out.push(c);
            }
            _ => {}
        }
    }
    out
}
