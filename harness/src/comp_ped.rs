//! Component ped (K9): PedersenGens::commit and Prover::commit against v*B + r*B_blinding computed
//! by an independent arkworks path, for edge values and arbitrary bases; plus the homomorphic laws.
use crate::ast::fz;
use crate::run::*;
use ark_bulletproofs::r1cs::Prover;
use ark_bulletproofs::PedersenGens;
use ark_ec::{AffineRepr, CurveGroup, VariableBaseMSM};
use ark_ff::{PrimeField, UniformRand};
use merlin::Transcript;
use rand::Rng;
use rand_chacha::ChaChaRng;
use rand_core::SeedableRng;
use std::fmt::Write as _;

pub struct PedOut {
    pub coq: String,
    pub obs: String,
    pub summary: String,
    pub id: String,
    pub msm2: String,
}

fn edge<F: PrimeField>(rng: &mut ChaChaRng, k: usize) -> F {
    let two64 = F::from(u64::MAX) + F::one();
    match k % 12 {
        0 => F::zero(),
        1 => F::one(),
        2 => -F::one(),
        3 => two64,
        4 => two64 + F::one(),
        5 => two64 - F::one(),
        6 => two64 * two64,
        7 => two64 * two64 - F::from(3u64),
        8 => -two64,
        9 => -F::from(2u64),
        10 => F::from(rng.gen::<u64>()),
        _ if (k / 12) % 4 == 3 => {
            // upper limbs that sum to exactly 2^64 (l3 small, l2 = 2^64 - l3), random lower limbs
            let l3: u64 = rng.gen_range(1..8);
            let l2: u64 = (0u64).wrapping_sub(l3);
            ((F::from(l3) * two64 + F::from(l2)) * two64 + F::from(rng.gen::<u64>())) * two64 + F::from(rng.gen::<u64>())
        }
        _ if (k / 12) % 2 == 1 => {
            // limb structure: each 64-bit limb zero, small, all-ones or random
            let mut v = F::zero();
            for _ in 0..4 {
                let limb: u64 = match rng.gen_range(0..4) { 0 => 0, 1 => rng.gen_range(1..8), 2 => u64::MAX, _ => rng.gen() };
                v = v * two64 + F::from(limb);
            }
            v
        }
        _ => F::rand(rng),
    }
}

pub fn gen_and_run<G: AffineRepr>(curve: &str, ci: u64, modulus: &str, seed: u64, tier: &str) -> Vec<PedOut> {
    type F<G> = <G as AffineRepr>::ScalarField;
    let mut rng = ChaChaRng::seed_from_u64(seed ^ (ci << 33) ^ 0x9ed);
    let count = if tier == "thorough" { 400 } else { 72 };
    let mut outs = vec![];
    for c in 0..count {
        let id = format!("ped_{}_{}", ci, c);
        let pc = if c % 3 == 0 {
            PedersenGens::<G>::default()
        } else {
            PedersenGens::<G> {
                B: G::rand(&mut rng),
                B_blinding: G::rand(&mut rng),
            }
        };
        let v: F<G> = edge(&mut rng, c);
        let r: F<G> = edge(&mut rng, c / 12 + c);
        let v2: F<G> = edge(&mut rng, c + 5);
        let r2: F<G> = F::<G>::rand(&mut rng);
        let k: F<G> = edge(&mut rng, c + 7);
        let p1 = pc.commit(v, r);
        // the prover's returned commitment
        let mut t = Transcript::new(b"ped");
        let mut prover = Prover::new(&pc, &mut t);
        let (pp, _var) = prover.commit(v, r);
        // further commitments on the SAME prover: same blinding with another value, the first opening again, zero blinding twice
        let seq: Vec<(F<G>, F<G>)> = vec![(v2, r), (v, r), (v2, F::<G>::from(0u64)), (k, F::<G>::from(0u64)), (v2, r)];
        let seq_ok = seq.iter().all(|(a, b)| prover.commit(*a, *b).0 == G::Group::msm(&[pc.B, pc.B_blinding], &[*a, *b]).unwrap().into_affine());
        // independent path: variable-base MSM
        let indep = G::Group::msm(&[pc.B, pc.B_blinding], &[v, r]).unwrap().into_affine();
        // laws on the real points
        let p2 = pc.commit(v2, r2);
        let sum = (p1.into_group() + p2.into_group()).into_affine();
        let hom_ok = sum == pc.commit(v + v2, r + r2);
        let zero_ok = pc.commit(F::<G>::from(0u64), F::<G>::from(0u64)).is_zero();
        let scale_ok = p1.mul_bigint(k.into_bigint()).into_affine() == pc.commit(k * v, k * r);
        let mut obs = String::new();
        let _ = writeln!(obs, "{} 1 {} {} {} {} {} {}", id, (p1 == indep) as u8, (pp == p1) as u8, hom_ok as u8, zero_ok as u8, scale_ok as u8, seq_ok as u8);
        let coq = format!("Eval vm_compute in run_ped {}%Z {}%Z {}%Z {}%Z {}%Z {}%Z.\n", modulus, fz(&v), fz(&r), fz(&v2), fz(&r2), fz(&k));
        let summary = format!("{} {} tag=ped-{} prover=0 basis=1,0\n", id, curve, if c % 3 == 0 { "default" } else { "random-bases" });
        // model coefficient vectors re-materialised over these bases
        let msm2 = format!(
            "{} {} x{} x{} x{} x{}\n",
            id, curve, hex(&pt_bytes(&pc.B)), hex(&pt_bytes(&pc.B_blinding)), hex(&pt_bytes(&p1)), hex(&pt_bytes(&pp))
        );
        outs.push(PedOut { coq, obs, summary, id, msm2 });
    }
    outs
}
