//! Component hostile (K7 + K11): shape grid of (|L|,|R|,n1,n2,cap) through verify / batch_verify under
//! catch_unwind, codec layout / prefixes / invalid elements, byte fuzzing, allocation accounting.
use crate::ast::*;
use crate::comp_r1cs::*;
use crate::run::*;
use ark_bulletproofs::r1cs::{batch_verify, R1CSProof, Verifier};
use ark_bulletproofs::{BulletproofGens, PedersenGens};
use ark_ec::{AffineRepr, CurveGroup};
use ark_ff::{PrimeField, UniformRand, Zero, BigInteger};
use ark_serialize::CanonicalSerialize;
use merlin::Transcript;
use rand::Rng;
use rand_chacha::ChaChaRng;
use rand_core::SeedableRng;
use std::alloc::{GlobalAlloc, Layout, System};
use std::fmt::Write as _;
use std::panic::{catch_unwind, AssertUnwindSafe};
use std::sync::atomic::{AtomicUsize, Ordering};

pub struct Counting;
static CUR: AtomicUsize = AtomicUsize::new(0);
static PEAK: AtomicUsize = AtomicUsize::new(0);
unsafe impl GlobalAlloc for Counting {
    unsafe fn alloc(&self, l: Layout) -> *mut u8 {
        let c = CUR.fetch_add(l.size(), Ordering::SeqCst) + l.size();
        PEAK.fetch_max(c, Ordering::SeqCst);
        System.alloc(l)
    }
    unsafe fn dealloc(&self, p: *mut u8, l: Layout) {
        CUR.fetch_sub(l.size(), Ordering::SeqCst);
        System.dealloc(p, l)
    }
}
thread_local! { static MARK: std::cell::RefCell<String> = std::cell::RefCell::new(String::new()); }
pub fn set_mark_file(p: &str) { MARK.with(|m| *m.borrow_mut() = p.to_string()); }
/// written before every call that handles hostile bytes: if the process aborts (allocation failure, stack
/// overflow) or panics outside a catch_unwind, the check reads the input that was being handled
pub fn mark(what: &str, bytes: &[u8]) {
    MARK.with(|m| { let p = m.borrow(); if !p.is_empty() { let _ = std::fs::write(&*p, format!("{} {}\n", what, hex(bytes))); } });
}
pub fn proof_lens<G: AffineRepr>(p: &R1CSProof<G>, ps: usize, ss: usize) -> (usize, usize, usize) {
    let b = p.to_bytes().unwrap();
    let o = 11 * ps + 3 * ss;
    let nl = u64::from_le_bytes(b[o..o + 8].try_into().unwrap()) as usize;
    let o2 = o + 8 + nl * ps;
    let nr = u64::from_le_bytes(b[o2..o2 + 8].try_into().unwrap()) as usize;
    (nl, nr, b.len())
}
pub fn peak_during<T>(f: impl FnOnce() -> T) -> (T, usize) {
    let base = CUR.load(Ordering::SeqCst);
    PEAK.store(base, Ordering::SeqCst);
    let r = f();
    (r, PEAK.load(Ordering::SeqCst).saturating_sub(base))
}

fn circuit<G: AffineRepr>(n1: usize, n2: usize, rng: &mut ChaChaRng) -> Vec<COp<G::ScalarField>> {
    type F<G> = <G as AffineRepr>::ScalarField;
    let v: F<G> = F::<G>::rand(rng);
    let mut prog: Vec<COp<F<G>>> = vec![COp::Commit(v, F::<G>::rand(rng))];
    for _ in 0..n1 {
        prog.push(COp::AllocMul(Some((F::<G>::rand(rng), F::<G>::rand(rng)))));
    }
    prog.push(COp::Constrain(vec![(V::Committed(0), Sx::C(F::<G>::from(1u64))), (V::One, Sx::C(-v))]));
    if n2 > 0 {
        let mut body = vec![ROp::Chal(LABELS[0])];
        for _ in 0..n2 {
            body.push(ROp::AllocMul(Some((Sx::Ch(0), Sx::C(F::<G>::rand(rng))))));
        }
        prog.push(COp::Randomize(body));
    }
    prog
}

fn verify_once<G: AffineRepr>(prog: &[COp<G::ScalarField>], commitments: &[G], proof: &R1CSProof<G>, pc: &PedersenGens<G>, bp: &BulletproofGens<G>) -> u64 {
    let r = catch_unwind(AssertUnwindSafe(|| {
        let mut t = Transcript::new(b"hostile");
        let mut v = Verifier::new(&mut t);
        let l1: EvLog = Default::default();
        let l2: EvLog = Default::default();
        let mut ci = 0;
        for op in prog {
            match op {
                COp::Commit(..) => {
                    v.commit(commitments[ci]);
                    ci += 1;
                }
                _ => {
                    apply_cop(&mut v, op, &l1, &l2);
                }
            }
        }
        v.verify(proof, pc, bp)
    }));
    match r {
        Ok(Ok(())) => 0,
        Ok(Err(e)) => err_code(&e),
        Err(_) => 99,
    }
}

pub fn run<G: AffineRepr>(curve: &str, ci: u64, seed: u64, tier: &str, out: &mut String, coq_tuples: &mut Vec<String>, coq_batches: &mut Vec<String>, coq_dec: &mut Vec<String>) {
    type F<G> = <G as AffineRepr>::ScalarField;
    let mut rng = ChaChaRng::seed_from_u64(seed ^ (ci << 28) ^ 0x4057);
    let thorough = tier == "thorough";
    let t0 = std::time::Instant::now();
    let pc = PedersenGens::<G>::default();
    let gmax = if thorough { 4 } else { 3 };
    let caps: Vec<usize> = vec![1, 2, 4, 8];
    let mut lens: Vec<(usize, usize)> = vec![];
    for a in 0..5 {
        for b in 0..5 {
            lens.push((a, b));
        }
    }
    for x in [31usize, 32, 33, 63, 64, 65] {
        lens.push((x, x));
    }
    lens.extend([(64, 0), (0, 64), (32, 1), (5, 6), (6, 5)]);
    let big = BulletproofGens::<G>::new(16, 1);
    let filler: G = big.G(1, 1).next().copied().unwrap();
    let mut samples: Vec<(Vec<COp<F<G>>>, Vec<G>, R1CSProof<G>)> = vec![];
    for n1 in 0..gmax {
        for n2 in 0..3usize {
            let prog = circuit::<G>(n1, n2, &mut rng);
            let pr = run_prover::<G>(b"hostile", &prog, &vec![], &pc, &big, rng.gen(), &[]);
            let proof = match pr.result { Ok(Ok(p)) => p, _ => continue };
            let n = n1 + n2;
            for &cap in &caps {
                let bp = BulletproofGens::<G>::new(cap, 1);
                for (li, &(ll, lr)) in lens.iter().enumerate() {
                    let mut parts = proof_parts(&proof);
                    parts.l = vec![filler; ll];
                    parts.r = vec![filler; lr];
                    // identity / zero placements on a few grid points
                    let idflag = (li + n + cap) % 7;
                    match idflag {
                        1 => parts.points[0] = G::zero(),
                        2 => parts.points[6] = G::zero(),
                        3 => { if ll > 0 { parts.l[0] = G::zero(); } }
                        4 => { parts.a = F::<G>::zero(); parts.b = F::<G>::zero(); parts.scalars = vec![F::<G>::zero(); 3]; }
                        5 => { if lr > 0 { parts.r[lr - 1] = G::zero(); } }
                        _ => {}
                    }
                    mark(&format!("grid:cap={},n1={},n={},L={},R={},id={}", cap, n1, n, ll, lr, idflag), &[]);
                    let p2 = match proof_from_parts(&parts) { Some(p) => p, None => continue };
                    let code = verify_once::<G>(&prog, &pr.commitments, &p2, &pc, &bp);
                    let _ = writeln!(out, "GRID {} {} {} {} 1 {} {} {} {}", curve, cap, n1, n, ll, lr, idflag, code);
                    if ci == seed % 3 || code == 99 {
                        coq_tuples.push(format!("({}, {}, {}, 1, {}, {})%nat", cap, n1, n, ll, lr));
                        let _ = writeln!(out, "GRIDM {} {}", curve, if code == 99 { 9 } else { 0 });
                    }
                }
            }
            samples.push((prog, pr.commitments.clone(), proof));
        }
    }
    // identity-pattern sweep: every one of the 27 (keep / identity / other valid point) patterns on the three second-phase
    // slots, every single and every pair of identity placements on the 11 fixed points, on every sample circuit,
    // through verify AND through batch_verify (alone, and next to an honest member)
    {
        let bp8i = BulletproofGens::<G>::new(8, 1);
        for (si, (prog, comms, proof)) in samples.iter().enumerate() {
            let mut pats: Vec<(String, Vec<(usize, u8)>)> = vec![];
            for m in 0..27usize {
                let st = [m % 3, (m / 3) % 3, (m / 9) % 3];
                pats.push((format!("second{}{}{}", st[0], st[1], st[2]), (0..3).map(|j| (3 + j, st[j] as u8)).collect()));
            }
            for i in 0..11usize { pats.push((format!("id{}", i), vec![(i, 1)])); }
            for i in 0..11usize { for j in (i + 1)..11 { pats.push((format!("id{}_{}", i, j), vec![(i, 1), (j, 1)])); } }
            for (name, edits) in pats {
                let mut parts = proof_parts(proof);
                for (idx, st) in &edits {
                    match st { 1 => parts.points[*idx] = G::zero(), 2 => parts.points[*idx] = filler, _ => {} }
                }
                let p2 = match proof_from_parts(&parts) { Some(p) => p, None => continue };
                mark(&format!("idpat:sample={},pattern={}", si, name), &[]);
                let code_v = verify_once::<G>(prog, comms, &p2, &pc, &bp8i);
                let mut codes_b = vec![];
                for with_honest in [false, true] {
                    let r = catch_unwind(AssertUnwindSafe(|| {
                        let mut ts: Vec<Transcript> = (0..2).map(|_| Transcript::new(b"hostile")).collect();
                        let mut vs = vec![];
                        let members: Vec<&R1CSProof<G>> = if with_honest { vec![proof, &p2] } else { vec![&p2] };
                        for (p, t) in members.into_iter().zip(ts.iter_mut()) {
                            let mut v = Verifier::new(t);
                            let l1: EvLog = Default::default();
                            let l2: EvLog = Default::default();
                            let mut cix = 0;
                            for op in prog {
                                match op {
                                    COp::Commit(..) => { v.commit(comms[cix]); cix += 1; }
                                    _ => { apply_cop(&mut v, op, &l1, &l2); }
                                }
                            }
                            vs.push((v, p));
                        }
                        let mut brng = ChaChaRng::seed_from_u64(si as u64);
                        batch_verify(&mut brng, vs, &pc, &bp8i)
                    }));
                    codes_b.push(match r { Ok(Ok(())) => 0, Ok(Err(e)) => err_code(&e), Err(_) => 99 });
                }
                let _ = writeln!(out, "IDPAT {} {} {} {} {} {}", curve, si, name, code_v, codes_b[0], codes_b[1]);
            }
        }
    }
    eprintln!("idpat {:?}", t0.elapsed());
    eprintln!("grid {:?}", t0.elapsed());
    // batches of hostile shapes
    let bp8 = BulletproofGens::<G>::new(8, 1);
    for b in 0..(if thorough { 200 } else { 40 }) {
        let k = rng.gen_range(0..4);
        let mut insts: Vec<(usize, R1CSProof<G>, String)> = vec![];
        for _ in 0..k {
            let si = rng.gen_range(0..samples.len());
            let (ll, lr) = lens[rng.gen_range(0..lens.len())];
            let mut parts = proof_parts(&samples[si].2);
            if rng.gen_range(0..3) > 0 {
                parts.l = vec![filler; ll];
                parts.r = vec![filler; lr];
            }
            let n = samples[si].0.iter().filter(|o| matches!(o, COp::AllocMul(_))).count()
                + samples[si].0.iter().map(|o| if let COp::Randomize(b) = o { b.iter().filter(|x| matches!(x, ROp::AllocMul(_))).count() } else { 0 }).sum::<usize>();
            let n1 = samples[si].0.iter().filter(|o| matches!(o, COp::AllocMul(_))).count();
            if let Some(p) = proof_from_parts(&parts) {
                insts.push((si, p, format!("({}, {}, 1, {}, {})%nat", n1, n, parts.l.len(), parts.r.len())));
            }
        }
        mark(&format!("batch:{}", insts.iter().map(|x| x.2.clone()).collect::<Vec<_>>().join(";")), &[]);
        let r = catch_unwind(AssertUnwindSafe(|| {
            let mut ts: Vec<Transcript> = insts.iter().map(|_| Transcript::new(b"hostile")).collect();
            let mut vs = vec![];
            for ((si, p, _), t) in insts.iter().zip(ts.iter_mut()) {
                let mut v = Verifier::new(t);
                let l1: EvLog = Default::default();
                let l2: EvLog = Default::default();
                let mut cix = 0;
                for op in &samples[*si].0 {
                    match op {
                        COp::Commit(..) => { v.commit(samples[*si].1[cix]); cix += 1; }
                        _ => { apply_cop(&mut v, op, &l1, &l2); }
                    }
                }
                vs.push((v, p));
            }
            let mut brng = ChaChaRng::seed_from_u64(b as u64);
            batch_verify(&mut brng, vs, &pc, &bp8)
        }));
        let code = match r { Ok(Ok(())) => 0, Ok(Err(e)) => err_code(&e), Err(_) => 99 };
        let _ = writeln!(out, "BATCH {} {} {}", curve, k, code);
        if ci == seed % 3 || code == 99 {
            coq_batches.push(format!("[{}]", insts.iter().map(|x| x.2.clone()).collect::<Vec<_>>().join("; ")));
            let _ = writeln!(out, "BATCHM {} {}", curve, if code == 99 { 9 } else { 0 });
        }
    }
    eprintln!("batch {:?}", t0.elapsed());
    // codec: sizes, prefixes, invalid elements, round trip, suffix
    let ps = { let mut b = vec![]; filler.serialize_compressed(&mut b).unwrap(); b.len() };
    let ss = { let mut b = vec![]; F::<G>::from(1u64).serialize_compressed(&mut b).unwrap(); b.len() };
    let _ = writeln!(out, "WIDTHS {} {} {}", curve, ps, ss);
    for (sidx, (prog, comms, proof)) in samples.iter().enumerate() {
        let bytes = proof.to_bytes().unwrap();
        let parts = proof_parts(proof);
        let n = prog.iter().filter(|o| matches!(o, COp::AllocMul(_))).count()
            + prog.iter().map(|o| if let COp::Randomize(b) = o { b.iter().filter(|x| matches!(x, ROp::AllocMul(_))).count() } else { 0 }).sum::<usize>();
        let k = n.next_power_of_two().max(1).trailing_zeros() as usize;
        let _ = writeln!(out, "CODEC {} n={} k={} len={} lL={} lR={}", curve, n, k, bytes.len(), parts.l.len(), parts.r.len());
        // round trip and determinism
        mark("roundtrip", &bytes);
        let back = R1CSProof::<G>::from_bytes(&bytes);
        let rt = match &back { Ok(p) => p.to_bytes().unwrap() == bytes && proof.to_bytes().unwrap() == bytes, Err(_) => false };
        let same_verdict = match &back { Ok(p) => verify_once::<G>(prog, comms, p, &pc, &big) == verify_once::<G>(prog, comms, proof, &pc, &big), Err(_) => false };
        let mut sfx = bytes.clone();
        sfx.extend_from_slice(&[7u8; 5]);
        mark("suffix", &sfx);
        let suffix_ok = R1CSProof::<G>::from_bytes(&sfx).map(|p| p.to_bytes().unwrap() == bytes).unwrap_or(false);
        let _ = writeln!(out, "ROUNDTRIP {} {} {} {}", curve, rt as u8, same_verdict as u8, suffix_ok as u8);
        // every strict prefix
        let mut accepted = 0;
        let mut panicked = 0;
        let step = if thorough || sidx % 4 == 0 { 1 } else { 7 };
        for cut in (0..bytes.len()).step_by(step).chain(bytes.len().saturating_sub(70)..bytes.len()) {
            mark("prefix", &bytes[..cut]);
            match catch_unwind(AssertUnwindSafe(|| R1CSProof::<G>::from_bytes(&bytes[..cut]))) {
                Ok(Ok(_)) => accepted += 1,
                Ok(Err(_)) => {}
                Err(_) => panicked += 1,
            }
        }
        let _ = writeln!(out, "PREFIX {} total={} accepted={} panicked={}", curve, bytes.len(), accepted, panicked);
        // invalid elements at every field position
        let q_bytes: Vec<u8> = <F<G> as PrimeField>::MODULUS.to_bytes_le();
        let npts = 11;
        let mut positions: Vec<(String, usize, usize)> = vec![];
        for j in 0..npts { positions.push((format!("point{}", j), j * ps, ps)); }
        for j in 0..3 { positions.push((format!("scalar{}", j), npts * ps + j * ss, ss)); }
        let l_off = npts * ps + 3 * ss + 8;
        for j in 0..parts.l.len() { positions.push((format!("L{}", j), l_off + j * ps, ps)); }
        let r_off = l_off + parts.l.len() * ps + 8;
        for j in 0..parts.r.len() { positions.push((format!("R{}", j), r_off + j * ps, ps)); }
        let ab_off = r_off + parts.r.len() * ps;
        positions.push(("a".into(), ab_off, ss));
        positions.push(("b".into(), ab_off + ss, ss));
        for (name, off, w) in positions {
            let mut variants: Vec<(&str, Vec<u8>)> = vec![];
            if w == ss && name.starts_with(|c: char| c == 's' || c == 'a' || c == 'b') {
                let mut m = q_bytes.clone(); m.resize(ss, 0);
                variants.push(("scalar=modulus", m));
                variants.push(("scalar=all-ones", vec![0xffu8; ss]));
            } else {
                // candidate invalid point encodings: search a few x values for an off-curve / out-of-subgroup one
                for t in 0..40u8 {
                    let mut c = bytes[off..off + w].to_vec();
                    c[0] = c[0].wrapping_add(t + 1);
                    let mut cur = &c[..];
                    if <G as ark_serialize::CanonicalDeserialize>::deserialize_compressed(&mut cur).is_err() {
                        variants.push(("invalid-point", c));
                        break;
                    }
                }
                if curve == "curve25519" {
                    // valid point + a small-order point (order 2: (0,-1)) has a small-subgroup component
                    let p: G = if name.starts_with('L') { parts.l[0] } else if name.starts_with('R') { parts.r[0] } else { parts.points[name[5..].parse::<usize>().unwrap_or(0)] };
                    let mut yb = vec![0u8; 32];
                    let minus1 = -<G::BaseField as ark_ff::Field>::ONE;
                    minus1.serialize_compressed(&mut yb.as_mut_slice()).ok();
                    let mut cur = &yb[..];
                    if let Ok(t2) = <G as ark_serialize::CanonicalDeserialize>::deserialize_compressed_unchecked(&mut cur) {
                        let mixed = (p.into_group() + G::into_group(t2)).into_affine();
                        let mut mb = vec![];
                        mixed.serialize_compressed(&mut mb).unwrap();
                        variants.push(("mixed-order-point", mb));
                        variants.push(("small-order-point", yb.clone()));
                    }
                }
            }
            for (kind, chunk) in variants {
                let mut b2 = bytes.clone();
                b2[off..off + w].copy_from_slice(&chunk);
                mark(&format!("bad:{}:{}", name, kind), &b2);
                let res = catch_unwind(AssertUnwindSafe(|| R1CSProof::<G>::from_bytes(&b2)));
                let code = match res { Ok(Ok(_)) => 0, Ok(Err(_)) => 2, Err(_) => 99 };
                let _ = writeln!(out, "BAD {} {} {} {}", curve, name, kind, code);
            }
        }
        // two (or more) points of one encoding carry small-order components that cancel in any sum of the points
        if curve == "curve25519" {
            let mut yb = vec![0u8; 32];
            let minus1 = -<G::BaseField as ark_ff::Field>::ONE;
            minus1.serialize_compressed(&mut yb.as_mut_slice()).ok();
            if let Ok(t2) = <G as ark_serialize::CanonicalDeserialize>::deserialize_compressed_unchecked(&yb[..]) {
                let npt = 11 + parts.l.len() + parts.r.len();
                let mut pairs: Vec<Vec<usize>> = vec![vec![0, 1], vec![2, 10], vec![0, npt - 1]];
                pairs.push(vec![rng.gen_range(0..npt), rng.gen_range(0..npt)]);
                pairs.push((0..npt).collect::<Vec<_>>().into_iter().take(npt - npt % 2).collect());
                for pr_ in pairs {
                    if pr_.len() == 2 && pr_[0] == pr_[1] { continue; }
                    let mut p2 = proof_parts(proof);
                    for &i in &pr_ {
                        let x = if i < 11 { p2.points[i] } else if i < 11 + p2.l.len() { p2.l[i - 11] } else { p2.r[i - 11 - p2.l.len()] };
                        let y = (x.into_group() + G::into_group(t2)).into_affine();
                        if i < 11 { p2.points[i] = y } else if i < 11 + p2.l.len() { p2.l[i - 11] = y } else { let k = p2.l.len(); p2.r[i - 11 - k] = y }
                    }
                    let mut b2 = vec![];
                    for x in &p2.points { x.serialize_compressed(&mut b2).unwrap(); }
                    for x in &p2.scalars { x.serialize_compressed(&mut b2).unwrap(); }
                    p2.l.serialize_compressed(&mut b2).unwrap();
                    p2.r.serialize_compressed(&mut b2).unwrap();
                    p2.a.serialize_compressed(&mut b2).unwrap();
                    p2.b.serialize_compressed(&mut b2).unwrap();
                    mark("bad:paired-torsion", &b2);
                    let res = catch_unwind(AssertUnwindSafe(|| R1CSProof::<G>::from_bytes(&b2)));
                    let code = match res { Ok(Ok(_)) => 0, Ok(Err(_)) => 2, Err(_) => 99 };
                    let _ = writeln!(out, "BAD {} points{} cancelling-small-order-components {}", curve, pr_.iter().take(3).map(|x| x.to_string()).collect::<Vec<_>>().join("+"), code);
                }
            }
        }
    }
    eprintln!("codec {:?}", t0.elapsed());
    // container codec against the model's decoder on honest, mis-framed, truncated, extended and corrupted inputs
    let modulus = <F<G> as PrimeField>::MODULUS.to_string();
    let mut didx = 0;
    let picks: Vec<usize> = if thorough { (0..samples.len()).collect() } else { vec![rng.gen_range(0..samples.len()), samples.len() - 1, samples.len() - 4] };
    for &si in &picks {
        let base = samples[si].2.to_bytes().unwrap();
        let cnt_l = 11 * ps + 3 * ss;
        let nl = proof_parts(&samples[si].2).l.len();
        let cnt_r = cnt_l + 8 + nl * ps;
        let mut variants: Vec<(String, Vec<u8>)> = vec![("honest".into(), base.clone())];
        let put = |b: &mut Vec<u8>, off: usize, v: u64| b[off..off + 8].copy_from_slice(&v.to_le_bytes());
        for (nm, off, v) in [("L+1", cnt_l, nl as u64 + 1), ("L-1", cnt_l, (nl as u64).wrapping_sub(1)), ("L=0", cnt_l, 0), ("L=2^40", cnt_l, 1 << 40), ("L=max", cnt_l, u64::MAX),
                             ("R+1", cnt_r, nl as u64 + 1), ("R=0", cnt_r, 0), ("R=max", cnt_r, u64::MAX), ("R=256", cnt_r, 256)] {
            let mut b = base.clone(); put(&mut b, off, v); variants.push((nm.into(), b));
        }
        { let mut b = base.clone(); put(&mut b, cnt_l, 0); put(&mut b, cnt_r, 2 * nl as u64); variants.push(("L=0,R=2n".into(), b)); }
        { let mut b = base.clone(); put(&mut b, cnt_l, nl as u64 + 1); put(&mut b, cnt_r, (nl as u64).saturating_sub(1)); variants.push(("L+1,R-1".into(), b)); }
        for cut in [0usize, 1, ps, cnt_l, cnt_l + 7, cnt_l + 8, cnt_r + 3, base.len() - ss, base.len() - 1] {
            variants.push((format!("cut{}", cut), base[..cut.min(base.len())].to_vec()));
        }
        { let mut b = base.clone(); b.extend((0..40).map(|_| rng.gen::<u8>())); variants.push(("suffix".into(), b)); }
        { let mut b = base.clone(); let q = <F<G> as PrimeField>::MODULUS.to_bytes_le(); let o = 11 * ps + ss; b[o..o + ss].copy_from_slice(&q[..ss]); variants.push(("scalar=r".into(), b)); }
        { let mut b = base.clone(); let o = base.len() - ss; for x in &mut b[o..] { *x = 0xff; } variants.push(("b=ff".into(), b)); }
        for _ in 0..(if thorough { 12 } else { 4 }) {
            let mut b = base.clone();
            for _ in 0..rng.gen_range(1..4) { let i = rng.gen_range(0..b.len()); b[i] ^= 1 << rng.gen_range(0..8); }
            variants.push(("bitflips".into(), b));
        }
        for (nm, b) in variants {
            mark(&format!("dec:{}", nm), &b);
            let res = catch_unwind(AssertUnwindSafe(|| R1CSProof::<G>::from_bytes(&b).map(|p| proof_lens(&p, ps, ss))));
            let line = match res {
                Ok(Ok((nl, nr, tot))) => format!("1 {} {} {}", nl, nr, tot),
                Ok(Err(_)) => "0".into(),
                Err(_) => "99".into(),
            };
            let _ = writeln!(out, "DEC {} {} {} {}", curve, didx, nm, line);
            let mut tbl: Vec<&[u8]> = vec![];
            if b.len() >= ps {
                for o in 0..=(b.len() - ps) {
                    let c = &b[o..o + ps];
                    let mut cur = c;
                    if <G as ark_serialize::CanonicalDeserialize>::deserialize_compressed(&mut cur).is_ok() && !tbl.contains(&c) { tbl.push(c); }
                }
            }
            let fmt = |x: &[u8]| format!("[{}]", x.iter().map(|v| v.to_string()).collect::<Vec<_>>().join(";"));
            coq_dec.push(format!("Eval vm_compute in [[33; {}] ++ run_decode {} {} {} [{}] {}]%Z.", didx, ps, ss, modulus,
                tbl.iter().map(|c| fmt(c)).collect::<Vec<_>>().join(";"), fmt(&b)));
            didx += 1;
        }
    }
    eprintln!("dec {:?}", t0.elapsed());
    // byte fuzzing: random and guided mutations through from_bytes -> verify
    let iters = if thorough { 20000 } else { 1500 };
    let mut panics = 0;
    let mut first = String::new();
    let mut decoded = 0;
    for it in 0..iters {
        let (prog, comms, proof) = &samples[it % samples.len()];
        let mut b = proof.to_bytes().unwrap();
        match it % 5 {
            0 => { let i = rng.gen_range(0..b.len()); b[i] ^= 1 << rng.gen_range(0..8); }
            1 => { let cut = rng.gen_range(0..b.len()); b.truncate(cut); }
            2 => { // length prefixes
                let off = 11 * ps + 3 * ss;
                let v: u64 = match rng.gen_range(0..5) { 0 => u64::MAX, 1 => 1 << 40, 2 => 64, 3 => 33, _ => rng.gen_range(0..8) };
                if off + 8 <= b.len() { b[off..off + 8].copy_from_slice(&v.to_le_bytes()); }
            }
            3 => { let n = rng.gen_range(0..200); b = (0..n).map(|_| rng.gen()).collect(); }
            _ => { for _ in 0..rng.gen_range(1..6) { let i = rng.gen_range(0..b.len()); b[i] = rng.gen(); } }
        }
        mark("fuzz", &b);
        let res = catch_unwind(AssertUnwindSafe(|| {
            match R1CSProof::<G>::from_bytes(&b) {
                Ok(p) => Some(verify_once::<G>(prog, comms, &p, &pc, &big)),
                Err(_) => None,
            }
        }));
        match res {
            Ok(Some(99)) | Err(_) => { panics += 1; if first.is_empty() { first = hex(&b); } }
            Ok(Some(_)) => decoded += 1,
            Ok(None) => {}
        }
    }
    let _ = writeln!(out, "FUZZ {} iters={} decoded={} panics={} first={}", curve, iters, decoded, panics, if first.is_empty() { "-".into() } else { first });
    eprintln!("fuzz {:?}", t0.elapsed());
    // allocation: huge length prefixes must not allocate in proportion to the claim
    for (si, claim) in [(0usize, 1u64 << 20), (0, 1 << 32), (0, u64::MAX), (samples.len() - 1, 1 << 20), (samples.len() - 1, 1 << 48), (samples.len() - 1, u64::MAX)] {
        let mut b = samples[si].2.to_bytes().unwrap();
        let off = 11 * ps + 3 * ss;
        b[off..off + 8].copy_from_slice(&claim.to_le_bytes());
        mark(&format!("alloc:claim={}", claim), &b);
        let (res, peak) = peak_during(|| catch_unwind(AssertUnwindSafe(|| R1CSProof::<G>::from_bytes(&b).is_ok())));
        let code = match res { Ok(true) => 0, Ok(false) => 2, Err(_) => 99 };
        let _ = writeln!(out, "ALLOC {} claim={} input={} peak={} result={}", curve, claim, b.len(), peak, code);
    }
}

/// C04 sweep on the real code: every single-bit flip of the encoding, every single-field perturbation, every
/// pairwise swap of point fields, round surgery.  Outcome classes: rejected at decoding, decodes to the identical
/// object, rejected by verify, ACCEPTED (a violation), panic.
pub fn integrity<G: AffineRepr>(curve: &str, ci: u64, seed: u64, tier: &str, out: &mut String) {
    type F<G> = <G as AffineRepr>::ScalarField;
    let mut rng = ChaChaRng::seed_from_u64(seed ^ (ci << 20) ^ 0x1c04);
    let thorough = tier == "thorough";
    let pc = PedersenGens::<G>::default();
    let bp = BulletproofGens::<G>::new(8, 1);
    let shapes: Vec<(usize, usize)> = if thorough { vec![(2, 0), (1, 2), (1, 0), (0, 0), (3, 2), (0, 1)] } else { vec![(2, 0), (1, 2), (1, 0)] };
    let ps = { let mut b = vec![]; pc.B.serialize_compressed(&mut b).unwrap(); b.len() };
    let ss = { let mut b = vec![]; F::<G>::from(1u64).serialize_compressed(&mut b).unwrap(); b.len() };
    for (pi, (n1, n2)) in shapes.iter().enumerate() {
        let prog = circuit::<G>(*n1, *n2, &mut rng);
        let pr = run_prover::<G>(b"hostile", &prog, &vec![], &pc, &bp, rng.gen(), &[]);
        let proof = match pr.result { Ok(Ok(p)) => p, _ => { let _ = writeln!(out, "INTEGRITY-ERROR {} prover failed", curve); continue } };
        let bytes = proof.to_bytes().unwrap();
        let base = verify_once::<G>(&prog, &pr.commitments, &proof, &pc, &bp);
        let _ = writeln!(out, "BASE {} {} n1={} n2={} len={} verdict={}", curve, pi, n1, n2, bytes.len(), base);
        // classify one candidate encoding
        let classify = |b: &[u8], what: &str| -> u8 {
            mark(what, b);
            let r = catch_unwind(AssertUnwindSafe(|| match R1CSProof::<G>::from_bytes(b) {
                Err(_) => 0u8,
                Ok(p2) => {
                    if p2.to_bytes().unwrap() == bytes { 1 } else if verify_once::<G>(&prog, &pr.commitments, &p2, &pc, &bp) == 0 { 3 } else { 2 }
                }
            }));
            r.unwrap_or(9)
        };
        // (a) all single-bit flips
        let mut cnt = [0usize; 10];
        let mut first = String::from("-");
        let stride = if std::env::var("VERIF_INTEGRITY_LIGHT").is_ok() { 61 } else { 1 };
        for i in (0..bytes.len() * 8).step_by(stride) {
            let mut b = bytes.clone();
            b[i / 8] ^= 1 << (i % 8);
            let c = classify(&b, "flip");
            cnt[c as usize] += 1;
            if (c == 3 || c == 9) && first == "-" { first = format!("bit{}:{}", i, hex(&b)); }
        }
        let _ = writeln!(out, "FLIP {} {} total={} decode_rejected={} identical={} verify_rejected={} accepted={} panicked={} first={}", curve, pi, (bytes.len() * 8 + stride - 1) / stride, cnt[0], cnt[1], cnt[2], cnt[3], cnt[9], first);
        // (b) single-field perturbations
        let parts = proof_parts(&proof);
        let k = parts.l.len();
        let npts = 11 + 2 * k;
        let get = |p: &ProofParts<G>, i: usize| -> G { if i < 11 { p.points[i] } else if i < 11 + k { p.l[i - 11] } else { p.r[i - 11 - k] } };
        let set = |p: &mut ProofParts<G>, i: usize, x: G| { if i < 11 { p.points[i] = x } else if i < 11 + k { p.l[i - 11] = x } else { p.r[i - 11 - k] = x } };
        let enc = |p: &ProofParts<G>| -> Vec<u8> {
            let mut b = vec![];
            for x in &p.points { x.serialize_compressed(&mut b).unwrap(); }
            for x in &p.scalars { x.serialize_compressed(&mut b).unwrap(); }
            p.l.serialize_compressed(&mut b).unwrap();
            p.r.serialize_compressed(&mut b).unwrap();
            p.a.serialize_compressed(&mut b).unwrap();
            p.b.serialize_compressed(&mut b).unwrap();
            b
        };
        let mut cnt = [0usize; 10];
        let mut first = String::from("-");
        let mut tried = 0;
        let mut note = |c: u8, what: String, b: &[u8], cnt: &mut [usize; 10], first: &mut String| { cnt[c as usize] += 1; if (c == 3 || c == 9 || c == 1) && first == "-" { *first = format!("{}:{}", what, hex(b)); } };
        for i in 0..npts {
            let x = get(&parts, i);
            let cands: Vec<(&str, G)> = vec![
                ("negate", (-x.into_group()).into_affine()),
                ("plus-B", (x.into_group() + pc.B.into_group()).into_affine()),
                ("plus-Bblinding", (x.into_group() + pc.B_blinding.into_group()).into_affine()),
                ("double", (x.into_group() + x.into_group()).into_affine()),
                ("random", (pc.B.into_group() * F::<G>::rand(&mut rng)).into_affine()),
                ("identity", G::zero()),
            ];
            for (nm, y) in cands {
                if y == x { continue; }
                let mut p2 = proof_parts(&proof);
                set(&mut p2, i, y);
                let b = enc(&p2);
                let c = classify(&b, "field");
                tried += 1;
                note(c, format!("point{}:{}", i, nm), &b, &mut cnt, &mut first);
            }
        }
        for si in 0..5 {
            let cur = if si < 3 { parts.scalars[si] } else if si == 3 { parts.a } else { parts.b };
            for (nm, y) in [("plus1", cur + F::<G>::from(1u64)), ("minus1", cur - F::<G>::from(1u64)), ("negate", -cur), ("zero", F::<G>::zero()), ("double", cur + cur), ("random", F::<G>::rand(&mut rng))] {
                if y == cur { continue; }
                let mut p2 = proof_parts(&proof);
                if si < 3 { p2.scalars[si] = y } else if si == 3 { p2.a = y } else { p2.b = y }
                let b = enc(&p2);
                let c = classify(&b, "field");
                tried += 1;
                note(c, format!("scalar{}:{}", si, nm), &b, &mut cnt, &mut first);
            }
        }
        // a <-> b
        { let mut p2 = proof_parts(&proof); std::mem::swap(&mut p2.a, &mut p2.b); if p2.a != parts.a { let b = enc(&p2); let c = classify(&b, "field"); tried += 1; note(c, "swap-a-b".into(), &b, &mut cnt, &mut first); } }
        let _ = writeln!(out, "FIELD {} {} total={} decode_rejected={} identical={} verify_rejected={} accepted={} panicked={} first={}", curve, pi, tried, cnt[0], cnt[1], cnt[2], cnt[3], cnt[9], first);
        // (b') adaptive compensation: shift one blinding opening, read the verifier's challenges for the shifted proof
        // (all public), and try to absorb the shift in the other opening.  Sound only if BOTH are bound before w and r.
        let mut cnt = [0usize; 10];
        let mut first = String::from("-");
        let mut tried = 0;
        for delta in [F::<G>::from(1u64), F::<G>::rand(&mut rng)] {
            for dir in 0..2 {
                let mut p1 = proof_parts(&proof);
                if dir == 0 { p1.scalars[1] += delta } else { p1.scalars[2] += delta }
                let pf1 = match proof_from_parts(&p1) { Some(p) => p, None => continue };
                let vr = run_verifier::<G>(b"hostile", &prog, &pr.commitments, &pf1, &pc, &bp);
                let ch: Vec<F<G>> = crate::comp_r1cs::chals::<F<G>>(&vr.log_scalars);
                let r = match ch.last() { Some(r) if !r.is_zero() => *r, _ => continue };
                let mut p2 = proof_parts(&pf1);
                // keep  e_blinding + r * t_x_blinding  unchanged
                if dir == 0 { p2.scalars[2] -= r * delta } else { p2.scalars[1] -= delta * ark_ff::Field::inverse(&r).unwrap() }
                let b = enc(&p2);
                let c = classify(&b, "adaptive");
                tried += 1;
                note(c, format!("adaptive-blinding-compensation-dir{}", dir), &b, &mut cnt, &mut first);
            }
        }
        let _ = writeln!(out, "ADAPTB {} {} total={} decode_rejected={} identical={} verify_rejected={} accepted={} panicked={} first={}", curve, pi, tried, cnt[0], cnt[1], cnt[2], cnt[3], cnt[9], first);
        let mut cnt = [0usize; 10];
        let mut first = String::from("-");
        let mut tried = 0;
        // (b'') adaptive compensation between second-phase commitments of a one-phase proof: choose K, read x from the
        // verifier's run on the altered proof, publish (A_I2, A_O2) = (-x K, K) resp. (A_O2, S2) = (-x K, K).  The terms
        // u x A_I2 + u x^2 A_O2 cancel; sound only if these points are absorbed before x is derived.
        if *n2 == 0 {
            for pair in 0..2 {
                let kpt: G = (pc.B.into_group() * F::<G>::rand(&mut rng)).into_affine();
                let (lo, hi) = if pair == 0 { (3usize, 4usize) } else { (4usize, 5usize) };
                let mut p1 = proof_parts(&proof);
                p1.points[hi] = kpt;
                p1.points[lo] = kpt;
                let pf1 = match proof_from_parts(&p1) { Some(p) => p, None => continue };
                let vr = run_verifier::<G>(b"hostile", &prog, &pr.commitments, &pf1, &pc, &bp);
                let ch: Vec<F<G>> = crate::comp_r1cs::chals::<F<G>>(&vr.log_scalars);
                if ch.len() < 4 { continue; }
                let x = ch[3];
                let mut p2 = proof_parts(&pf1);
                p2.points[lo] = (-(kpt.into_group() * x)).into_affine();
                let b = enc(&p2);
                let c = classify(&b, "adaptive2");
                tried += 1;
                note(c, format!("adaptive-phase2-point-compensation-pair{}", pair), &b, &mut cnt, &mut first);
            }
        }
        let _ = writeln!(out, "ADAPT {} {} total={} decode_rejected={} identical={} verify_rejected={} accepted={} panicked={} first={}", curve, pi, tried, cnt[0], cnt[1], cnt[2], cnt[3], cnt[9], first);
        // (c) all pairwise swaps of point fields
        let mut cnt = [0usize; 10];
        let mut first = String::from("-");
        let mut tried = 0;
        for i in 0..npts {
            for j in (i + 1)..npts {
                let (x, y) = (get(&parts, i), get(&parts, j));
                if x == y { continue; }
                let mut p2 = proof_parts(&proof);
                set(&mut p2, i, y);
                set(&mut p2, j, x);
                let b = enc(&p2);
                let c = classify(&b, "swap");
                tried += 1;
                note(c, format!("swap{}-{}", i, j), &b, &mut cnt, &mut first);
            }
        }
        let _ = writeln!(out, "SWAP {} {} total={} decode_rejected={} identical={} verify_rejected={} accepted={} panicked={} first={}", curve, pi, tried, cnt[0], cnt[1], cnt[2], cnt[3], cnt[9], first);
        // (d) round surgery
        let mut cnt = [0usize; 10];
        let mut first = String::from("-");
        let mut tried = 0;
        let mut variants: Vec<(String, ProofParts<G>)> = vec![];
        { let mut p2 = proof_parts(&proof); p2.l.push(pc.B); p2.r.push(pc.B_blinding); variants.push(("add-round".into(), p2)); }
        { let mut p2 = proof_parts(&proof); p2.l.insert(0, pc.B); p2.r.insert(0, pc.B_blinding); variants.push(("add-round-front".into(), p2)); }
        if k > 0 {
            { let mut p2 = proof_parts(&proof); p2.l.pop(); p2.r.pop(); variants.push(("drop-last-round".into(), p2)); }
            { let mut p2 = proof_parts(&proof); p2.l.remove(0); p2.r.remove(0); variants.push(("drop-first-round".into(), p2)); }
            { let mut p2 = proof_parts(&proof); let (l, r) = (p2.l[k - 1], p2.r[k - 1]); p2.l.push(l); p2.r.push(r); variants.push(("dup-last-round".into(), p2)); }
            { let mut p2 = proof_parts(&proof); p2.l.pop(); variants.push(("drop-L-only".into(), p2)); }
            { let mut p2 = proof_parts(&proof); p2.r.pop(); variants.push(("drop-R-only".into(), p2)); }
            { let mut p2 = proof_parts(&proof); std::mem::swap(&mut p2.l, &mut p2.r); variants.push(("swap-L-R-lists".into(), p2)); }
        }
        if k > 1 {
            for i in 0..k { for j in (i + 1)..k {
                let mut p2 = proof_parts(&proof); p2.l.swap(i, j); p2.r.swap(i, j); variants.push((format!("reorder-rounds-{}-{}", i, j), p2));
            } }
            { let mut p2 = proof_parts(&proof); p2.l.reverse(); p2.r.reverse(); variants.push(("reverse-rounds".into(), p2)); }
        }
        for (nm, p2) in variants {
            let b = enc(&p2);
            if b == bytes { continue; }
            let c = classify(&b, "rounds");
            tried += 1;
            note(c, nm, &b, &mut cnt, &mut first);
        }
        let _ = writeln!(out, "ROUNDS {} {} total={} decode_rejected={} identical={} verify_rejected={} accepted={} panicked={} first={}", curve, pi, tried, cnt[0], cnt[1], cnt[2], cnt[3], cnt[9], first);
        let _ = (ps, ss);
    }
}
