//! Component zorro (K12): the constants and mul_by_a the compiled crate actually uses.
use ark_bulletproofs::curve::zorro::{Fq, Fr, G1Affine, Parameters};
use ark_ec::{models::CurveConfig, short_weierstrass::SWCurveConfig, AffineRepr, CurveGroup};
use ark_ff::{BigInt, BigInteger, Field, PrimeField, UniformRand, Zero};
use rand::Rng;
use rand_chacha::ChaChaRng;
use rand_core::SeedableRng;
use std::fmt::Write as _;

fn dec<F: PrimeField>(x: &F) -> String {
    x.into_bigint().to_string()
}

pub fn run(seed: u64, tier: &str) -> String {
    let mut out = String::new();
    let _ = writeln!(out, "MODULUS_Q {}", <Fq as PrimeField>::MODULUS);
    let _ = writeln!(out, "MODULUS_R {}", <Fr as PrimeField>::MODULUS);
    let a = <Parameters as SWCurveConfig>::COEFF_A;
    let b = <Parameters as SWCurveConfig>::COEFF_B;
    let g = <Parameters as SWCurveConfig>::GENERATOR;
    let _ = writeln!(out, "COEFF_A {}", dec(&a));
    let _ = writeln!(out, "COEFF_B {}", dec(&b));
    let _ = writeln!(out, "GX {}", dec(&g.x));
    let _ = writeln!(out, "GY {}", dec(&g.y));
    let cof: Vec<String> = <Parameters as CurveConfig>::COFACTOR.iter().map(|l| l.to_string()).collect();
    let _ = writeln!(out, "COFACTOR {}", cof.join(" "));
    let _ = writeln!(out, "COFACTOR_INV {}", dec(&<Parameters as CurveConfig>::COFACTOR_INV));
    // the declared equation with the declared constants, evaluated by the real field arithmetic
    let lhs = g.y * g.y;
    let rhs = g.x * g.x * g.x + a * g.x + b;
    let _ = writeln!(out, "ONCURVE_DECLARED {}", (lhs == rhs) as u8);
    let _ = writeln!(out, "ONCURVE_LIB {}", g.is_on_curve() as u8);
    let rg = g.mul_bigint(<Fr as PrimeField>::MODULUS);
    let _ = writeln!(out, "RG_INF {}", rg.into_affine().is_zero() as u8);
    let _ = writeln!(out, "G_INF {}", g.is_zero() as u8);
    // mul_by_a against COEFF_A * x: edge values of the value AND of the internal (Montgomery) representation
    let mut rng = ChaChaRng::seed_from_u64(seed ^ 0x20220);
    let mut xs: Vec<Fq> = vec![Fq::zero(), Fq::from(1u64), -Fq::from(1u64), Fq::from(2u64), Fq::from(u64::MAX), -Fq::from(u64::MAX)];
    let q = <Fq as PrimeField>::MODULUS;
    let mut reps: Vec<BigInt<4>> = vec![];
    // representation-space edges: q-1, q-2, 2^255, 2^255+1, 2^255-1, all-ones low limbs with top bit
    let mut t = q;
    t.sub_with_borrow(&BigInt::<4>::from(1u64));
    reps.push(t);
    t.sub_with_borrow(&BigInt::<4>::from(1u64));
    reps.push(t);
    reps.push(BigInt::<4>::new([0, 0, 0, 1u64 << 63]));
    reps.push(BigInt::<4>::new([1, 0, 0, 1u64 << 63]));
    reps.push(BigInt::<4>::new([u64::MAX, u64::MAX, u64::MAX, (1u64 << 63) - 1]));
    let n_rand = if tier == "thorough" { 4000 } else { 200 };
    for _ in 0..n_rand / 4 {
        // random representations in [2^255, q)
        let cand = BigInt::<4>::new([rng.gen(), rng.gen(), rng.gen::<u64>() & 0xff, 1u64 << 63]);
        if cand < q {
            reps.push(cand);
        }
    }
    // wrap-around windows of "multiply the representation by a small constant, then reduce" routines:
    // representations m with k*m next to a multiple of 2^255, 2^256, q, 2^256 - q or q - 2^255 (k = 1..8)
    {
        fn mul_small(a: &[u64; 5], k: u64) -> [u64; 5] {
            let mut r = [0u64; 5];
            let mut c: u128 = 0;
            for i in 0..5 { let t = (a[i] as u128) * (k as u128) + c; r[i] = t as u64; c = t >> 64; }
            r
        }
        fn div_small(a: &[u64; 5], k: u64) -> [u64; 5] {
            let mut r = [0u64; 5];
            let mut rem: u128 = 0;
            for i in (0..5).rev() { let t = (rem << 64) | (a[i] as u128); r[i] = (t / (k as u128)) as u64; rem = t % (k as u128); }
            r
        }
        fn add_signed(a: &[u64; 5], d: i64) -> Option<[u64; 5]> {
            let mut r = *a;
            if d >= 0 {
                let mut c = d as u128;
                for i in 0..5 { let t = (r[i] as u128) + c; r[i] = t as u64; c = t >> 64; }
                if c != 0 { return None; }
            } else {
                let mut b = (-d) as u64;
                for i in 0..5 { let (t, o) = r[i].overflowing_sub(b); r[i] = t; b = o as u64; if b == 0 { break; } }
                if b != 0 { return None; }
            }
            Some(r)
        }
        let ql = q.0;
        let q5 = [ql[0], ql[1], ql[2], ql[3], 0u64];
        let p255 = [0, 0, 0, 1u64 << 63, 0u64];
        let p256 = [0, 0, 0, 0, 1u64];
        let mut two256_minus_q = [0u64; 5];
        { let mut b = 0u64; for i in 0..5 { let (t, o1) = p256[i].overflowing_sub(q5[i]); let (t2, o2) = t.overflowing_sub(b); two256_minus_q[i] = t2; b = (o1 || o2) as u64; } }
        let mut q_minus_255 = q5; q_minus_255[3] &= (1u64 << 63) - 1;
        let bases = [p255, p256, q5, two256_minus_q, q_minus_255];
        for k in 1u64..=8 {
            for base in bases.iter() {
                for i in 1u64..=(k + 1) {
                    let m0 = div_small(&mul_small(base, i), k);
                    for d in -2i64..=2 {
                        if let Some(m) = add_signed(&m0, d) {
                            if m[4] == 0 {
                                let cand = BigInt::<4>::new([m[0], m[1], m[2], m[3]]);
                                if cand < q { reps.push(cand); }
                            }
                        }
                    }
                }
            }
        }
    }
    for r in reps {
        xs.push(Fq::new_unchecked(r));
    }
    for _ in 0..n_rand {
        xs.push(Fq::rand(&mut rng));
    }
    for x in xs {
        let m = <Parameters as SWCurveConfig>::mul_by_a(x);
        let e = a * x;
        let _ = writeln!(out, "MULBYA {} {} {}", dec(&x), dec(&m), dec(&e));
    }
    // a few random group facts on the real arithmetic: k*G on curve and in the subgroup
    for _ in 0..4 {
        let k = Fr::rand(&mut rng);
        let p: G1Affine = g.mul_bigint(k.into_bigint()).into_affine();
        let _ = writeln!(out, "KG_ONCURVE {}", (p.is_on_curve() && p.is_in_correct_subgroup_assuming_on_curve()) as u8);
    }
    let _ = Fq::ONE;
    out
}
