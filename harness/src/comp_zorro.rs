//! Component zorro (K12): the constants and mul_by_a the compiled crate actually uses.
use ark_bulletproofs::curve::zorro::{Fq, Fr, G1Affine, Parameters};
use ark_ec::{models::CurveConfig, short_weierstrass::SWCurveConfig, AffineRepr, CurveGroup};
use ark_ff::{BigInt, BigInteger, Field, PrimeField, UniformRand, Zero};
use rand::Rng;
use rand_chacha::ChaChaRng;
use rand_core::SeedableRng;
use std::fmt::Write as _;

fn dec<F: PrimeField>(x: &F) -> String {
    x.into_bigint().to_string()
}

pub fn run(seed: u64, tier: &str) -> String {
    let mut out = String::new();
    let _ = writeln!(out, "MODULUS_Q {}", <Fq as PrimeField>::MODULUS);
    let _ = writeln!(out, "MODULUS_R {}", <Fr as PrimeField>::MODULUS);
    let a = <Parameters as SWCurveConfig>::COEFF_A;
    let b = <Parameters as SWCurveConfig>::COEFF_B;
    let g = <Parameters as SWCurveConfig>::GENERATOR;
    let _ = writeln!(out, "COEFF_A {}", dec(&a));
    let _ = writeln!(out, "COEFF_B {}", dec(&b));
    let _ = writeln!(out, "GX {}", dec(&g.x));
    let _ = writeln!(out, "GY {}", dec(&g.y));
    let cof: Vec<String> = <Parameters as CurveConfig>::COFACTOR.iter().map(|l| l.to_string()).collect();
    let _ = writeln!(out, "COFACTOR {}", cof.join(" "));
    let _ = writeln!(out, "COFACTOR_INV {}", dec(&<Parameters as CurveConfig>::COFACTOR_INV));
    // the declared equation with the declared constants, evaluated by the real field arithmetic
    let lhs = g.y * g.y;
    let rhs = g.x * g.x * g.x + a * g.x + b;
    let _ = writeln!(out, "ONCURVE_DECLARED {}", (lhs == rhs) as u8);
    let _ = writeln!(out, "ONCURVE_LIB {}", g.is_on_curve() as u8);
    let rg = g.mul_bigint(<Fr as PrimeField>::MODULUS);
    let _ = writeln!(out, "RG_INF {}", rg.into_affine().is_zero() as u8);
    let _ = writeln!(out, "G_INF {}", g.is_zero() as u8);
    // mul_by_a against COEFF_A * x: edge values of the value AND of the internal (Montgomery) representation
    let mut rng = ChaChaRng::seed_from_u64(seed ^ 0x20220);
    let mut xs: Vec<Fq> = vec![Fq::zero(), Fq::from(1u64), -Fq::from(1u64), Fq::from(2u64), Fq::from(u64::MAX), -Fq::from(u64::MAX)];
    let q = <Fq as PrimeField>::MODULUS;
    let mut reps: Vec<BigInt<4>> = vec![];
    // representation-space edges: q-1, q-2, 2^255, 2^255+1, 2^255-1, all-ones low limbs with top bit
    let mut t = q;
    t.sub_with_borrow(&BigInt::<4>::from(1u64));
    reps.push(t);
    t.sub_with_borrow(&BigInt::<4>::from(1u64));
    reps.push(t);
    reps.push(BigInt::<4>::new([0, 0, 0, 1u64 << 63]));
    reps.push(BigInt::<4>::new([1, 0, 0, 1u64 << 63]));
    reps.push(BigInt::<4>::new([u64::MAX, u64::MAX, u64::MAX, (1u64 << 63) - 1]));
    let n_rand = if tier == "thorough" { 4000 } else { 200 };
    for _ in 0..n_rand / 4 {
        // random representations in [2^255, q)
        let cand = BigInt::<4>::new([rng.gen(), rng.gen(), rng.gen::<u64>() & 0xff, 1u64 << 63]);
        if cand < q {
            reps.push(cand);
        }
    }
    for r in reps {
        xs.push(Fq::new_unchecked(r));
    }
    for _ in 0..n_rand {
        xs.push(Fq::rand(&mut rng));
    }
    for x in xs {
        let m = <Parameters as SWCurveConfig>::mul_by_a(x);
        let e = a * x;
        let _ = writeln!(out, "MULBYA {} {} {}", dec(&x), dec(&m), dec(&e));
    }
    // a few random group facts on the real arithmetic: k*G on curve and in the subgroup
    for _ in 0..4 {
        let k = Fr::rand(&mut rng);
        let p: G1Affine = g.mul_bigint(k.into_bigint()).into_affine();
        let _ = writeln!(out, "KG_ONCURVE {}", (p.is_on_curve() && p.is_in_correct_subgroup_assuming_on_curve()) as u8);
    }
    let _ = Fq::ONE;
    out
}
