//! First-order program AST shared with the Coq model (Run/Ast.v): the harness interprets it
//! against the real Prover / Verifier, Coq denotes it into the model's interaction trees.
use ark_bulletproofs::r1cs::{
    ConstraintSystem, LinearCombination, R1CSError, RandomizableConstraintSystem,
    RandomizedConstraintSystem, Variable,
};
use ark_ff::PrimeField;
use std::cell::RefCell;
use std::marker::PhantomData;
use std::rc::Rc;

#[derive(Clone, Copy, Debug, PartialEq, Eq)]
pub enum V {
    Committed(usize),
    Left(usize),
    Right(usize),
    Out(usize),
    One,
    Phantom,
}

impl V {
    pub fn to_var<F: PrimeField>(self) -> Variable<F> {
        match self {
            V::Committed(i) => Variable::Committed(i),
            V::Left(i) => Variable::MultiplierLeft(i),
            V::Right(i) => Variable::MultiplierRight(i),
            V::Out(i) => Variable::MultiplierOutput(i),
            V::One => Variable::One(),
            V::Phantom => Variable::Phantom(PhantomData),
        }
    }
    pub fn of_var<F: PrimeField>(v: Variable<F>) -> V {
        match v {
            Variable::Committed(i) => V::Committed(i),
            Variable::MultiplierLeft(i) => V::Left(i),
            Variable::MultiplierRight(i) => V::Right(i),
            Variable::MultiplierOutput(i) => V::Out(i),
            Variable::One() => V::One,
            Variable::Phantom(_) => V::Phantom,
        }
    }
    pub fn code(self) -> (u64, u64) {
        match self {
            V::Committed(i) => (0, i as u64),
            V::Left(i) => (1, i as u64),
            V::Right(i) => (2, i as u64),
            V::Out(i) => (3, i as u64),
            V::One => (4, 0),
            V::Phantom => (5, 0),
        }
    }
    pub fn coq(self) -> String {
        match self {
            V::Committed(i) => format!("(VCommitted {})", i),
            V::Left(i) => format!("(VLeft {})", i),
            V::Right(i) => format!("(VRight {})", i),
            V::Out(i) => format!("(VOut {})", i),
            V::One => "VOne".into(),
            V::Phantom => "VPhantom".into(),
        }
    }
}

/// scalar expressions: constants and the challenges drawn so far in the current closure
#[derive(Clone, Debug)]
pub enum Sx<F> {
    C(F),
    Ch(usize),
    Add(Box<Sx<F>>, Box<Sx<F>>),
    Mul(Box<Sx<F>>, Box<Sx<F>>),
    Neg(Box<Sx<F>>),
}

impl<F: PrimeField> Sx<F> {
    pub fn eval(&self, env: &[F]) -> F {
        match self {
            Sx::C(c) => *c,
            Sx::Ch(i) => env.get(*i).copied().unwrap_or_else(F::zero),
            Sx::Add(a, b) => a.eval(env) + b.eval(env),
            Sx::Mul(a, b) => a.eval(env) * b.eval(env),
            Sx::Neg(a) => -a.eval(env),
        }
    }
    pub fn coq(&self) -> String {
        match self {
            Sx::C(c) => format!("(SC {})", fzc(c)),
            Sx::Ch(i) => format!("(SCh {})", i),
            Sx::Add(a, b) => format!("(SAdd {} {})", a.coq(), b.coq()),
            Sx::Mul(a, b) => format!("(SMul {} {})", a.coq(), b.coq()),
            Sx::Neg(a) => format!("(SNeg {})", a.coq()),
        }
    }
    pub fn add(a: Sx<F>, b: Sx<F>) -> Sx<F> {
        Sx::Add(Box::new(a), Box::new(b))
    }
    pub fn mul(a: Sx<F>, b: Sx<F>) -> Sx<F> {
        Sx::Mul(Box::new(a), Box::new(b))
    }
    pub fn neg(a: Sx<F>) -> Sx<F> {
        Sx::Neg(Box::new(a))
    }
}

pub fn fz<F: PrimeField>(x: &F) -> String {
    x.into_bigint().to_string()
}
/// Coq literal of a scalar
pub fn fzc<F: PrimeField>(x: &F) -> String {
    format!("{}%Z", x.into_bigint())
}

pub type Lcx<F> = Vec<(V, Sx<F>)>;

pub fn lcx_coq<F: PrimeField>(l: &Lcx<F>) -> String {
    let items: Vec<String> = l
        .iter()
        .map(|(v, s)| format!("({}, {})", v.coq(), s.coq()))
        .collect();
    format!("[{}]", items.join("; "))
}

pub fn lcx_real<F: PrimeField>(l: &Lcx<F>, env: &[F]) -> LinearCombination<F> {
    l.iter().map(|(v, s)| (v.to_var::<F>(), s.eval(env))).collect()
}

pub type Label = &'static [u8];

pub const LABELS: [Label; 6] = [b"c", b"shuffle-challenge", b"z2", b"data", b"ctx", b"m"];

pub fn label_coq(l: &[u8]) -> String {
    format!("\"{}\"", String::from_utf8_lossy(l))
}
pub fn bytes_coq(b: &[u8]) -> String {
    let items: Vec<String> = b.iter().map(|x| x.to_string()).collect();
    format!("[{}]%Z", items.join("; "))
}

#[derive(Clone, Debug)]
pub enum ROp<F> {
    Chal(Label),
    Alloc(Option<Sx<F>>),
    AllocMul(Option<(Sx<F>, Sx<F>)>),
    Mul(Lcx<F>, Lcx<F>),
    Constrain(Lcx<F>),
    Msg(Label, Vec<u8>),
    Len,
    Fail,
}

#[derive(Clone, Debug)]
pub enum COp<F> {
    Commit(F, F),
    Alloc(Option<F>),
    AllocMul(Option<(F, F)>),
    Mul(Lcx<F>, Lcx<F>),
    Constrain(Lcx<F>),
    Msg(Label, Vec<u8>),
    Len,
    Randomize(Vec<ROp<F>>),
}

fn opt_coq(o: Option<String>) -> String {
    match o {
        None => "None".into(),
        Some(s) => format!("(Some {})", s),
    }
}

impl<F: PrimeField> ROp<F> {
    pub fn coq(&self) -> String {
        match self {
            ROp::Chal(l) => format!("ROChal {}", label_coq(l)),
            ROp::Alloc(a) => format!("ROAlloc {}", opt_coq(a.as_ref().map(|x| x.coq()))),
            ROp::AllocMul(a) => format!(
                "ROAllocMul {}",
                opt_coq(a.as_ref().map(|(x, y)| format!("({}, {})", x.coq(), y.coq())))
            ),
            ROp::Mul(l, r) => format!("ROMul {} {}", lcx_coq(l), lcx_coq(r)),
            ROp::Constrain(c) => format!("ROConstrain {}", lcx_coq(c)),
            ROp::Msg(l, b) => format!("ROMsg {} {}", label_coq(l), bytes_coq(b)),
            ROp::Len => "ROLen".into(),
            ROp::Fail => "ROFail".into(),
        }
    }
}

impl<F: PrimeField> COp<F> {
    pub fn coq(&self) -> String {
        match self {
            COp::Commit(v, vb) => format!("COCommit {} {}", fzc(v), fzc(vb)),
            COp::Alloc(a) => format!("COAlloc {}", opt_coq(a.as_ref().map(fzc))),
            COp::AllocMul(a) => format!(
                "COAllocMul {}",
                opt_coq(a.as_ref().map(|(x, y)| format!("({}, {})", fzc(x), fzc(y))))
            ),
            COp::Mul(l, r) => format!("COMul {} {}", lcx_coq(l), lcx_coq(r)),
            COp::Constrain(c) => format!("COConstrain {}", lcx_coq(c)),
            COp::Msg(l, b) => format!("COMsg {} {}", label_coq(l), bytes_coq(b)),
            COp::Len => "COLen".into(),
            COp::Randomize(ops) => {
                let items: Vec<String> = ops.iter().map(|o| o.coq()).collect();
                format!("CORandomize [{}]", items.join("; "))
            }
        }
    }
}

pub fn prog_coq<F: PrimeField>(p: &[COp<F>]) -> String {
    let items: Vec<String> = p.iter().map(|o| o.coq()).collect();
    format!("[{}]", items.join(";\n    "))
}

/// error codes shared with the model (Run/Obs.v)
pub fn err_code(e: &R1CSError) -> u64 {
    match e {
        R1CSError::VerificationError => 1,
        R1CSError::FormatError => 2,
        R1CSError::InvalidGeneratorsLength => 3,
        R1CSError::MissingAssignment => 4,
        R1CSError::GadgetError { .. } => 5,
    }
}

#[derive(Clone, Debug)]
pub enum Event {
    Var(Result<V, u64>),
    Vars(Result<(V, V, V), u64>),
    Len(usize),
    Commit(Vec<u8>, V),
    Chal(String),
    Unit,
}

impl Event {
    /// flat encoding, identical to Run/Obs.v enc_event; points are returned separately
    pub fn enc(&self, out: &mut Vec<String>, pts: &mut Vec<Vec<u8>>) {
        match self {
            Event::Var(Ok(v)) => {
                let (t, i) = v.code();
                out.extend(["3".into(), "1".into(), t.to_string(), i.to_string()]);
            }
            Event::Var(Err(e)) => out.extend(["2".into(), "2".into(), e.to_string()]),
            Event::Vars(Ok((a, b, c))) => {
                out.extend(["7".into(), "3".into()]);
                for v in [a, b, c] {
                    let (t, i) = v.code();
                    out.push(t.to_string());
                    out.push(i.to_string());
                }
            }
            Event::Vars(Err(e)) => out.extend(["2".into(), "4".into(), e.to_string()]),
            Event::Len(n) => out.extend(["2".into(), "5".into(), n.to_string()]),
            Event::Commit(p, v) => {
                let (t, i) = v.code();
                out.extend(["3".into(), "6".into(), t.to_string(), i.to_string()]);
                pts.push(p.clone());
            }
            Event::Chal(c) => out.extend(["2".into(), "7".into(), c.clone()]),
            Event::Unit => out.extend(["1".into(), "8".into()]),
        }
    }
}

pub type EvLog = Rc<RefCell<Vec<Event>>>;

fn vres<F: PrimeField>(r: Result<Variable<F>, R1CSError>) -> Result<V, u64> {
    r.map(V::of_var).map_err(|e| err_code(&e))
}
fn v3res<F: PrimeField>(
    r: Result<(Variable<F>, Variable<F>, Variable<F>), R1CSError>,
) -> Result<(V, V, V), u64> {
    r.map(|(a, b, c)| (V::of_var(a), V::of_var(b), V::of_var(c)))
        .map_err(|e| err_code(&e))
}

/// one closure body, against the real RandomizedConstraintSystem; `?`-style error propagation
pub fn run_rops<F: PrimeField, R: RandomizedConstraintSystem<F>>(
    rcs: &mut R,
    ops: &[ROp<F>],
    log: &EvLog,
) -> Result<(), R1CSError> {
    let mut env: Vec<F> = vec![];
    for op in ops {
        match op {
            ROp::Chal(l) => {
                let c = rcs.challenge_scalar(l);
                env.push(c);
                log.borrow_mut().push(Event::Chal(fz(&c)));
            }
            ROp::Alloc(a) => {
                let r = rcs.allocate(a.as_ref().map(|x| x.eval(&env)));
                log.borrow_mut().push(Event::Var(vres(r.clone())));
                r?;
            }
            ROp::AllocMul(a) => {
                let r = rcs.allocate_multiplier(a.as_ref().map(|(x, y)| (x.eval(&env), y.eval(&env))));
                log.borrow_mut().push(Event::Vars(v3res(r.clone())));
                r?;
            }
            ROp::Mul(l, r) => {
                let x = rcs.multiply(lcx_real(l, &env), lcx_real(r, &env));
                log.borrow_mut().push(Event::Vars(v3res(Ok(x))));
            }
            ROp::Constrain(c) => {
                rcs.constrain(lcx_real(c, &env));
                log.borrow_mut().push(Event::Unit);
            }
            ROp::Msg(l, b) => {
                rcs.transcript().append_message(l, b);
                log.borrow_mut().push(Event::Unit);
            }
            ROp::Len => {
                let n = rcs.multipliers_len();
                log.borrow_mut().push(Event::Len(n));
            }
            ROp::Fail => {
                return Err(R1CSError::GadgetError {
                    description: "fail".into(),
                });
            }
        }
    }
    Ok(())
}

/// a first-phase op other than commit, against any RandomizableConstraintSystem.
/// Returns false when the program stops (a `?` on a failed allocation).
pub fn apply_cop<F: PrimeField, CS: RandomizableConstraintSystem<F>>(
    cs: &mut CS,
    op: &COp<F>,
    log: &EvLog,
    log2: &EvLog,
) -> bool {
    match op {
        COp::Commit(..) => unreachable!(),
        COp::Alloc(a) => {
            let r = cs.allocate(*a);
            let ok = r.is_ok();
            log.borrow_mut().push(Event::Var(vres(r)));
            ok
        }
        COp::AllocMul(a) => {
            let r = cs.allocate_multiplier(*a);
            let ok = r.is_ok();
            log.borrow_mut().push(Event::Vars(v3res(r)));
            ok
        }
        COp::Mul(l, r) => {
            let x = cs.multiply(lcx_real(l, &[]), lcx_real(r, &[]));
            log.borrow_mut().push(Event::Vars(v3res(Ok(x))));
            true
        }
        COp::Constrain(c) => {
            cs.constrain(lcx_real(c, &[]));
            log.borrow_mut().push(Event::Unit);
            true
        }
        COp::Msg(l, b) => {
            cs.transcript().append_message(l, b);
            log.borrow_mut().push(Event::Unit);
            true
        }
        COp::Len => {
            let n = cs.multipliers_len();
            log.borrow_mut().push(Event::Len(n));
            true
        }
        COp::Randomize(ops) => {
            let ops = ops.clone();
            let l2 = log2.clone();
            let _ = cs.specify_randomized_constraints(move |rcs| run_rops(rcs, &ops, &l2));
            log.borrow_mut().push(Event::Unit);
            true
        }
    }
}
