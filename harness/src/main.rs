//! bpharness — correspondence harness for the Coq model of ark-bulletproofs.
//! Built against /repo's working tree with --cfg ark_bulletproofs_verif and the instrumented Merlin.
mod ast;
mod comp_batch;
mod comp_gens;
mod comp_hostile;
mod comp_ipp;
mod comp_lc;
mod comp_ped;
mod comp_r1cs;
mod comp_zorro;
mod gen;
mod run;

use ark_ec::AffineRepr;
use ark_ff::PrimeField;
use std::collections::HashMap;
use std::fs;
use std::io::Write;
use std::str::FromStr;

#[global_allocator]
static ALLOC: comp_hostile::Counting = comp_hostile::Counting;

pub type Secq = ark_secq256k1::Affine;
pub type Zorro = ark_bulletproofs::curve::zorro::G1Affine;
pub type C25519 = ark_curve25519::EdwardsAffine;

pub const CURVES: [&str; 3] = ["secq256k1", "zorro", "curve25519"];

pub fn modulus_of<G: AffineRepr>() -> String {
    <G::ScalarField as PrimeField>::MODULUS.to_string()
}

#[macro_export]
macro_rules! with_curve {
    ($name:expr, $f:ident, $($args:expr),*) => {
        match $name {
            "secq256k1" => $f::<crate::Secq>($($args),*),
            "zorro" => $f::<crate::Zorro>($($args),*),
            "curve25519" => $f::<crate::C25519>($($args),*),
            other => panic!("unknown curve {}", other),
        }
    };
}

fn arg(args: &[String], key: &str, default: &str) -> String {
    args.iter()
        .position(|a| a == key)
        .and_then(|i| args.get(i + 1).cloned())
        .unwrap_or_else(|| default.to_string())
}

struct Sink {
    shards: Vec<String>,
    impl_obs: String,
    summary: String,
    order: Vec<(usize, String)>,
    next: usize,
}

fn gen_r1cs_curve<G: AffineRepr>(curve: &str, ci: u64, seed: u64, tier: &str, streams: &[&str], sink: &mut Sink) {
    let modulus = modulus_of::<G>();
    for s in streams {
        let cases = comp_r1cs::gen_cases::<G>(seed, tier, s, ci);
        for c in cases {
            let out = comp_r1cs::run_case::<G>(&c, curve, &modulus);
            let sh = sink.next % sink.shards.len();
            sink.next += 1;
            if c.model {
                sink.shards[sh].push_str(&out.coq);
                sink.shards[sh].push_str(&format!("Eval vm_compute in run_r1cs {}.\n", c.id));
                sink.order.push((sh, c.id.clone()));
            } else if !out.coq.is_empty() {
                // size-only evaluation (Model/ShapeProver.v)
                sink.shards[sh].push_str(&out.coq);
                sink.order.push((sh, c.id.clone()));
            }
            sink.impl_obs.push_str(&out.obs);
            let cap_basis = c.cap_p.max(c.cap_v).max(1);
            sink.summary
                .push_str(&format!("{} basis={},{}\n", out.summary, cap_basis, c.extra));
        }
    }
}

fn gen_lc_curve<G: AffineRepr>(curve: &str, ci: u64, seed: u64, tier: &str, sink: &mut Sink) {
    let modulus = modulus_of::<G>();
    for (id, tree) in comp_lc::gen_cases::<G::ScalarField>(seed, tier, ci) {
        let lc = tree.build();
        let terms = comp_lc::terms_of(&lc);
        let sh = sink.next % sink.shards.len();
        sink.next += 1;
        sink.shards[sh].push_str(&format!("Eval vm_compute in run_lc {}%Z {}.\n", modulus, tree.coq()));
        sink.order.push((sh, id.clone()));
        sink.impl_obs.push_str(&format!("{} 1 {}\n", id, terms.join(" ")));
        sink.summary.push_str(&format!("{} {} tag=lc-tree prover=0 basis=1,0 nterms={}\n", id, curve, terms.len() / 3));
    }
}

fn gen_gens_curve<G: AffineRepr>(curve: &str, ci: u64, seed: u64, tier: &str, sink: &mut Sink) {
    for o in comp_gens::gen_and_run::<G>(curve, ci, seed, tier) {
        let sh = sink.next % sink.shards.len();
        sink.next += 1;
        sink.shards[sh].push_str(&o.coq);
        sink.order.push((sh, o.id.clone()));
        sink.impl_obs.push_str(&o.obs);
        sink.summary.push_str(&o.summary);
    }
}

fn gen_ipp_curve<G: AffineRepr>(curve: &str, ci: u64, seed: u64, tier: &str, sink: &mut Sink) {
    let modulus = modulus_of::<G>();
    for o in comp_ipp::gen_and_run::<G>(curve, ci, &modulus, seed, tier) {
        let sh = sink.next % sink.shards.len();
        sink.next += 1;
        if !o.coq.is_empty() {
            sink.shards[sh].push_str(&o.coq);
            sink.order.push((sh, o.id.clone()));
        }
        sink.impl_obs.push_str(&o.obs);
        sink.summary.push_str(&o.summary);
    }
}

fn gen_ped_curve<G: AffineRepr>(curve: &str, ci: u64, seed: u64, tier: &str, sink: &mut Sink, msm2: &mut String) {
    let modulus = modulus_of::<G>();
    for o in comp_ped::gen_and_run::<G>(curve, ci, &modulus, seed, tier) {
        let sh = sink.next % sink.shards.len();
        sink.next += 1;
        sink.shards[sh].push_str(&o.coq);
        sink.order.push((sh, o.id.clone()));
        sink.impl_obs.push_str(&o.obs);
        sink.summary.push_str(&o.summary);
        msm2.push_str(&o.msm2);
    }
}

fn msm2_line<G: AffineRepr>(t: &[&str]) -> bool {
    use std::str::FromStr;
    let b = run::pt_from_bytes::<G>(&run::unhex(&t[2][1..])).unwrap();
    let bb = run::pt_from_bytes::<G>(&run::unhex(&t[3][1..])).unwrap();
    let p1 = run::pt_from_bytes::<G>(&run::unhex(&t[4][1..])).unwrap();
    let pp = run::pt_from_bytes::<G>(&run::unhex(&t[5][1..])).unwrap();
    let cs: Vec<G::ScalarField> = t[6..8].iter().map(|c| G::ScalarField::from_str(c).ok().unwrap()).collect();
    let e = comp_r1cs::msm_coeffs(&[b, bb], &cs);
    e == p1 && e == pp
}

/// lines: `<tag> <curve> xB xBb xP xPprover c0 c1`
fn cmd_msmcheck2(args: &[String]) {
    let text = fs::read_to_string(&args[0]).unwrap();
    let (mut n, mut bad) = (0, 0);
    for line in text.lines() {
        let t: Vec<&str> = line.split_whitespace().collect();
        if t.len() < 8 {
            continue;
        }
        n += 1;
        if !with_curve!(t[1], msm2_line, &t) {
            bad += 1;
            println!("BAD {}", t[0]);
        }
    }
    println!("MSMCHECK total={} bad={}", n, bad);
}

fn gen_batch_curve<G: AffineRepr>(curve: &str, ci: u64, seed: u64, tier: &str, sink: &mut Sink) {
    let modulus = modulus_of::<G>();
    for o in comp_batch::gen_and_run::<G>(curve, ci, &modulus, seed, tier) {
        let sh = sink.next % sink.shards.len();
        sink.next += 1;
        if !o.coq.is_empty() {
            sink.shards[sh].push_str(&o.coq);
            sink.order.push((sh, o.id.clone()));
        }
        sink.impl_obs.push_str(&o.obs);
        sink.summary.push_str(&o.summary);
    }
}

fn integrity_curve<G: AffineRepr>(curve: &str, ci: u64, seed: u64, tier: &str, out: &mut String) {
    comp_hostile::integrity::<G>(curve, ci, seed, tier, out);
}

fn hostile_curve<G: AffineRepr>(curve: &str, ci: u64, seed: u64, tier: &str, out: &mut String, t: &mut Vec<String>, b: &mut Vec<String>, d: &mut Vec<String>) {
    comp_hostile::run::<G>(curve, ci, seed, tier, out, t, b, d);
}

fn cmd_gen(args: &[String]) {
    let comp = args.get(0).expect("component").clone();
    let seed: u64 = arg(args, "--seed", "1").parse().unwrap();
    let tier = arg(args, "--tier", "quick");
    let out = arg(args, "--out", "/verif/work/tmp");
    let nshards: usize = arg(args, "--shards", "16").parse().unwrap();
    let streams_s = arg(args, "--streams", "honest");
    let streams: Vec<&str> = streams_s.split(',').collect();
    let curves_s = arg(args, "--curves", "secq256k1,zorro,curve25519");
    fs::create_dir_all(&out).unwrap();
    let mut sink = Sink {
        shards: vec![String::new(); nshards],
        impl_obs: String::new(),
        summary: String::new(),
        order: vec![],
        next: 0,
    };
    match comp.as_str() {
        "r1cs" => {
            for (ci, curve) in CURVES.iter().enumerate() {
                if !curves_s.split(',').any(|c| c == *curve) {
                    continue;
                }
                with_curve!(*curve, gen_r1cs_curve, curve, ci as u64, seed, &tier, &streams, &mut sink);
            }
        }
        "batch" => {
            for (ci, curve) in CURVES.iter().enumerate() {
                if !curves_s.split(',').any(|c| c == *curve) {
                    continue;
                }
                with_curve!(*curve, gen_batch_curve, curve, ci as u64, seed, &tier, &mut sink);
            }
        }
        "ipp" => {
            for (ci, curve) in CURVES.iter().enumerate() {
                if !curves_s.split(',').any(|c| c == *curve) {
                    continue;
                }
                with_curve!(*curve, gen_ipp_curve, curve, ci as u64, seed, &tier, &mut sink);
            }
        }
        "ped" => {
            let mut msm2 = String::new();
            for (ci, curve) in CURVES.iter().enumerate() {
                if !curves_s.split(',').any(|c| c == *curve) {
                    continue;
                }
                with_curve!(*curve, gen_ped_curve, curve, ci as u64, seed, &tier, &mut sink, &mut msm2);
            }
            fs::write(format!("{}/msm2_in.txt", out), msm2).unwrap();
        }
        "gens" => {
            for (ci, curve) in CURVES.iter().enumerate() {
                if !curves_s.split(',').any(|c| c == *curve) {
                    continue;
                }
                with_curve!(*curve, gen_gens_curve, curve, ci as u64, seed, &tier, &mut sink);
            }
            if CURVES.iter().all(|c| curves_s.split(',').any(|x| x == *c)) {
                let o = comp_gens::interleave_all();
                let sh = sink.next % sink.shards.len();
                sink.next += 1;
                sink.shards[sh].push_str(&o.coq);
                sink.order.push((sh, o.id.clone()));
                sink.impl_obs.push_str(&o.obs);
                sink.summary.push_str(&o.summary);
            }
        }
        "lc" => {
            for (ci, curve) in CURVES.iter().enumerate() {
                if !curves_s.split(',').any(|c| c == *curve) {
                    continue;
                }
                with_curve!(*curve, gen_lc_curve, curve, ci as u64, seed, &tier, &mut sink);
            }
        }
        other => panic!("unknown component {}", other),
    }
    let header = match comp.as_str() {
        "r1cs" => "Require Import BP.Run.R1cs BP.Run.Shape.\nSet Printing Width 2000000000.\nSet Printing Depth 2000000000.\n",
        "batch" => "Require Import BP.Run.R1cs.\nSet Printing Width 2000000000.\nSet Printing Depth 2000000000.\n",
        "ipp" => "Require Import BP.Run.Ipp.\nSet Printing Width 2000000000.\nSet Printing Depth 2000000000.\n",
        "ped" => "Require Import BP.Run.Ped.\nSet Printing Width 2000000000.\nSet Printing Depth 2000000000.\n",
        "gens" => "Require Import BP.Run.Gens.\nSet Printing Width 2000000000.\nSet Printing Depth 2000000000.\n",
        "lc" => "Require Import BP.Run.Lc.\nSet Printing Width 2000000000.\nSet Printing Depth 2000000000.\n",
        _ => "",
    };
    for (i, s) in sink.shards.iter().enumerate() {
        if s.is_empty() {
            continue;
        }
        let mut f = fs::File::create(format!("{}/cases_{}.v", out, i)).unwrap();
        f.write_all(header.as_bytes()).unwrap();
        f.write_all(s.as_bytes()).unwrap();
    }
    fs::write(format!("{}/impl.txt", out), &sink.impl_obs).unwrap();
    fs::write(format!("{}/summary.txt", out), &sink.summary).unwrap();
    let order: Vec<String> = sink.order.iter().map(|(s, id)| format!("{} {}", s, id)).collect();
    fs::write(format!("{}/order.txt", out), order.join("\n") + "\n").unwrap();
    println!("generated {} cases into {}", sink.order.len(), out);
}

fn msm_line<G: AffineRepr>(cache: &mut HashMap<String, Vec<Vec<u8>>>, cap: usize, extra: usize, hexpt: &str, coeffs: &[&str]) -> bool {
    let key = format!("{}:{}", cap, extra);
    let basis: Vec<G> = {
        if !cache.contains_key(&key) {
            let b = comp_r1cs::make_basis::<G>(cap, extra);
            cache.insert(key.clone(), b.pts.iter().map(|p| run::pt_bytes(p)).collect());
        }
        cache[&key].iter().map(|b| run::pt_from_bytes::<G>(b).unwrap()).collect()
    };
    let cs: Vec<G::ScalarField> = coeffs
        .iter()
        .map(|c| G::ScalarField::from_str(c).unwrap_or_else(|_| panic!("bad scalar {}", c)))
        .collect();
    let expect = comp_r1cs::msm_coeffs(&basis, &cs);
    match run::pt_from_bytes::<G>(&run::unhex(hexpt)) {
        Some(p) => p == expect,
        None => false,
    }
}

/// lines: `<tag> <curve> <cap> <extra> x<hex> c0 c1 ...`; prints `BAD <tag>` for each mismatch
fn cmd_msmcheck(args: &[String]) {
    let file = args.get(0).expect("file");
    let text = fs::read_to_string(file).unwrap();
    let mut caches: HashMap<String, HashMap<String, Vec<Vec<u8>>>> = HashMap::new();
    let mut n = 0;
    let mut bad = 0;
    for line in text.lines() {
        let t: Vec<&str> = line.split_whitespace().collect();
        if t.len() < 5 {
            continue;
        }
        let (tag, curve) = (t[0], t[1]);
        let cap: usize = t[2].parse().unwrap();
        let extra: usize = t[3].parse().unwrap();
        let hexpt = &t[4][1..];
        let cache = caches.entry(curve.to_string()).or_default();
        let ok = with_curve!(curve, msm_line, cache, cap, extra, hexpt, &t[5..]);
        n += 1;
        if !ok {
            bad += 1;
            println!("BAD {}", tag);
        }
    }
    println!("MSMCHECK total={} bad={}", n, bad);
}

fn main() {
    run::install_panic_hook();
    let args: Vec<String> = std::env::args().skip(1).collect();
    match args.get(0).map(|s| s.as_str()) {
        Some("gen") => cmd_gen(&args[1..]),
        Some("zorro") => {
            let seed: u64 = arg(&args[1..], "--seed", "1").parse().unwrap();
            let tier = arg(&args[1..], "--tier", "quick");
            print!("{}", comp_zorro::run(seed, &tier));
        }
        Some("hostile") => {
            let seed: u64 = arg(&args[1..], "--seed", "1").parse().unwrap();
            let tier = arg(&args[1..], "--tier", "quick");
            let outd = arg(&args[1..], "--out", "/verif/work/hostile");
            let only = arg(&args[1..], "--curves", "secq256k1,zorro,curve25519");
            fs::create_dir_all(&outd).unwrap();
            for (ci, curve) in CURVES.iter().enumerate() {
                if !only.split(',').any(|c| c == *curve) {
                    continue;
                }
                let mut out = String::new();
                let mut tuples = vec![];
                let mut batches = vec![];
                let mut dec: Vec<String> = vec![];
                comp_hostile::set_mark_file(&format!("{}/current_{}.txt", outd, curve));
                let r = std::panic::catch_unwind(std::panic::AssertUnwindSafe(|| {
                    with_curve!(*curve, hostile_curve, curve, ci as u64, seed, &tier, &mut out, &mut tuples, &mut batches, &mut dec);
                }));
                if r.is_err() {
                    eprintln!("UNCAUGHT PANIC {}: {}", curve, run::last_panic());
                    std::process::exit(101);
                }
                let _ = fs::remove_file(format!("{}/current_{}.txt", outd, curve));
                fs::write(format!("{}/hostile_{}.txt", outd, curve), out).unwrap();
                let mut coq = String::from("Require Import BP.Run.Shape.\nSet Printing Width 2000000000.\nSet Printing Depth 2000000000.\n");
                for chunk in tuples.chunks(400) {
                    coq.push_str(&format!("Eval vm_compute in [30%Z :: grid_classes [{}]].\n", chunk.join("; ")));
                }
                coq.push_str(&format!("Eval vm_compute in [31%Z :: batch_classes 8 [{}]].\n", batches.join("; ")));
                fs::write(format!("{}/cases_{}.v", outd, ci), coq).unwrap();
                for (k, chunk) in dec.chunks(5).enumerate() {
                    let mut cq = String::from("Require Import BP.Run.Codec.\nSet Printing Width 2000000000.\nSet Printing Depth 2000000000.\n");
                    for l in chunk {
                        cq.push_str(l);
                        cq.push('\n');
                    }
                    fs::write(format!("{}/cases_{}.v", outd, 100 * (ci + 1) + k), cq).unwrap();
                }
                println!("hostile {}: {} grid tuples, {} batches for the model", curve, tuples.len(), batches.len());
            }
        }
        Some("integrity") => {
            let seed: u64 = arg(&args[1..], "--seed", "1").parse().unwrap();
            let tier = arg(&args[1..], "--tier", "quick");
            let outd = arg(&args[1..], "--out", "/verif/work/integrity");
            let only = arg(&args[1..], "--curves", "secq256k1,zorro,curve25519");
            fs::create_dir_all(&outd).unwrap();
            for (ci, curve) in CURVES.iter().enumerate() {
                if !only.split(',').any(|c| c == *curve) {
                    continue;
                }
                let mut out = String::new();
                comp_hostile::set_mark_file(&format!("{}/current_{}.txt", outd, curve));
                let r = std::panic::catch_unwind(std::panic::AssertUnwindSafe(|| {
                    with_curve!(*curve, integrity_curve, curve, ci as u64, seed, &tier, &mut out);
                }));
                if r.is_err() {
                    eprintln!("UNCAUGHT PANIC {}: {}", curve, run::last_panic());
                    std::process::exit(101);
                }
                let _ = fs::remove_file(format!("{}/current_{}.txt", outd, curve));
                fs::write(format!("{}/integrity_{}.txt", outd, curve), out).unwrap();
            }
        }
        Some("msmcheck") => cmd_msmcheck(&args[1..]),
        Some("msmcheck2") => cmd_msmcheck2(&args[1..]),
        _ => {
            eprintln!("usage: bpharness gen <component> [--seed N --tier T --out DIR --streams a,b --shards N] | msmcheck FILE");
            std::process::exit(2);
        }
    }
}
