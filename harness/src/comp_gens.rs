//! Component gens (K8): BulletproofGens histories and aggregated views against the bookkeeping model, with
//! every real point named by the (kind, party, position) of an independently derived specification chain;
//! value facts (distinctness, non-identity, prime-order subgroup, Pedersen derivation) computed on the real code.
use ark_bulletproofs::{BulletproofGens, PedersenGens};
use ark_ec::{AffineRepr, Group};
use ark_ff::Zero;
use ark_ff::UniformRand;
use ark_serialize::{CanonicalDeserialize, CanonicalSerialize};
use rand::Rng;
use rand_chacha::ChaChaRng;
use rand_core::SeedableRng;
use sha3::{Digest, Sha3_512};
use std::collections::HashMap;
use std::panic::{catch_unwind, AssertUnwindSafe};

pub struct Out {
    pub id: String,
    pub coq: String,
    pub obs: String,
    pub summary: String,
}

fn ser<G: AffineRepr>(p: &G) -> Vec<u8> {
    let mut b = vec![];
    p.serialize_compressed(&mut b).unwrap();
    b
}

/// the specified derivation, written independently of generators.rs
pub fn spec_chain<G: AffineRepr>(kind: bool, party: u32, count: usize) -> Vec<G> {
    let mut h = Sha3_512::new();
    h.update(b"GeneratorsChain");
    h.update(&[if kind { b'G' } else { b'H' }]);
    h.update(&party.to_le_bytes());
    let d = h.finalize();
    let mut seed = [0u8; 32];
    seed.copy_from_slice(&d[..32]);
    let mut rng = ChaChaRng::from_seed(seed);
    (0..count).map(|_| G::rand(&mut rng)).collect()
}
pub fn spec_pedersen<G: AffineRepr>() -> (G, G) {
    let b = G::generator();
    let mut bytes = vec![];
    b.serialize_uncompressed(&mut bytes).unwrap();
    let d = Sha3_512::digest(&bytes);
    let mut seed = [0u8; 32];
    seed.copy_from_slice(&d[..32]);
    let mut rng = ChaChaRng::from_seed(seed);
    (b, G::rand(&mut rng))
}

fn name_of(tbl: &HashMap<Vec<u8>, i64>, p: &[u8]) -> i64 {
    *tbl.get(p).unwrap_or(&-7)
}

pub fn gen_and_run<G: AffineRepr>(curve: &str, ci: u64, seed: u64, tier: &str) -> Vec<Out> {
    let mut rng = ChaChaRng::seed_from_u64(seed ^ (ci << 24) ^ 0x6e45);
    let thorough = tier == "thorough";
    let mut outs = vec![];
    let maxcap = 24usize;
    let maxp = 4usize;
    // names: chZ k j i = (k ? 0 : 1000000) + 1000 j + i
    let mut tbl: HashMap<Vec<u8>, i64> = HashMap::new();
    for kind in [true, false] {
        for j in 0..maxp {
            for (i, p) in spec_chain::<G>(kind, j as u32, maxcap).iter().enumerate() {
                tbl.insert(ser(p), (if kind { 0 } else { 1_000_000 }) + 1000 * j as i64 + i as i64);
            }
        }
    }
    // histories
    let nh = if thorough { 120 } else { 30 };
    for c in 0..nh {
        let cap0 = rng.gen_range(0..6usize);
        let pcap = rng.gen_range(0..=3usize);
        let nreq = rng.gen_range(0..6);
        let reqs: Vec<usize> = (0..nreq).map(|_| rng.gen_range(0..maxcap)).collect();
        let rt_at = rng.gen_range(0..=nreq + 1);
        let id = format!("gh{}_{}", ci, c);
        let r = catch_unwind(AssertUnwindSafe(|| {
            let mut g = BulletproofGens::<G>::new(cap0, pcap);
            for (k, r) in reqs.iter().enumerate() {
                if k == rt_at {
                    let mut b = vec![];
                    g.serialize_compressed(&mut b).unwrap();
                    g = BulletproofGens::<G>::deserialize_compressed(&b[..]).unwrap();
                }
                g.increase_capacity(*r);
            }
            let cap = g.gens_capacity;
            let mut v: Vec<i64> = vec![cap as i64];
            v.extend(g.G(cap, pcap).map(|p| name_of(&tbl, &ser(p))));
            v.push(-1);
            v.extend(g.H(cap, pcap).map(|p| name_of(&tbl, &ser(p))));
            v
        }));
        let obs = match r {
            Ok(v) => format!("{} 1 {}\n", id, v.iter().map(|x| x.to_string()).collect::<Vec<_>>().join(" ")),
            Err(_) => format!("{} 1 99\n", id),
        };
        outs.push(Out {
            id: id.clone(),
            coq: format!("Eval vm_compute in [1%Z :: run_history {} {} [{}]].\n", cap0, pcap, reqs.iter().map(|x| x.to_string()).collect::<Vec<_>>().join("; ")),
            obs,
            summary: format!("{} {} tag=gens-history cap0={} parties={} requests={:?} roundtrip_at={} prover=0 basis=1,0\n", id, curve, cap0, pcap, reqs, rt_at),
        });
    }
    // views: every (n, m) with n <= cap + 1, m <= parties + 1 on a few objects (out-of-range ones must panic, as in the model)
    let objs: Vec<(usize, usize)> = if thorough { vec![(0, 0), (0, 2), (1, 1), (2, 3), (4, 2), (5, 4), (8, 3)] } else { vec![(0, 2), (2, 3), (4, 2), (3, 1)] };
    for (cap, pcap) in objs {
        let g = BulletproofGens::<G>::new(cap, pcap);
        for n in 0..=cap + 1 {
            for m in 0..=pcap + 1 {
                let id = format!("gv{}_{}_{}_{}_{}", ci, cap, pcap, n, m);
                let r = catch_unwind(AssertUnwindSafe(|| {
                    let mut v: Vec<i64> = vec![1];
                    v.extend(g.G(n, m).map(|p| name_of(&tbl, &ser(p))));
                    v.push(-1);
                    v.extend(g.H(n, m).map(|p| name_of(&tbl, &ser(p))));
                    v
                }));
                // size_hint along the iteration (in-range views only)
                let mut hint_ok = 1;
                if n <= cap && m <= pcap {
                    let rr = catch_unwind(AssertUnwindSafe(|| {
                        let mut it = g.G(n, m);
                        let mut remaining = n * m;
                        loop {
                            let (lo, hi) = it.size_hint();
                            if lo != remaining || hi != Some(remaining) { return 0; }
                            if it.next().is_none() { break; }
                            remaining -= 1;
                        }
                        let (lo, hi) = it.size_hint();
                        if lo != 0 || hi != Some(0) { return 0; }
                        1
                    }));
                    hint_ok = rr.unwrap_or(9);
                }
                // the other Iterator entry points (nth, skip, step_by) must list the same sequence
                let mut iter_ok = 1;
                if n <= cap && m <= pcap {
                    let rr = catch_unwind(AssertUnwindSafe(|| {
                        let full: Vec<G> = g.H(n, m).copied().collect();
                        let len = full.len();
                        for a in 0..=len.min(3) {
                            for k in [0usize, 1, 2, n, n + 1, 2 * n + 1] {
                                let mut it = g.H(n, m);
                                for _ in 0..a { it.next(); }
                                if it.nth(k).copied() != full.get(a + k).copied() { return 0; }
                                if a + k < len && it.next().copied() != full.get(a + k + 1).copied() { return 0; }
                            }
                        }
                        for sk in [1usize, n, n + 1] {
                            let v: Vec<G> = g.H(n, m).skip(sk).take(len + 2).copied().collect();
                            if v != full.iter().skip(sk).copied().collect::<Vec<G>>() { return 0; }
                        }
                        let v: Vec<G> = g.H(n, m).step_by(2).take(len + 2).copied().collect();
                        if v != full.iter().step_by(2).copied().collect::<Vec<G>>() { return 0; }
                        let v: Vec<G> = g.G(n, m).step_by(3).take(len + 2).copied().collect();
                        let fg: Vec<G> = g.G(n, m).copied().collect();
                        if v != fg.iter().step_by(3).copied().collect::<Vec<G>>() { return 0; }
                        if g.G(n, m).last().copied() != fg.last().copied() || g.G(n, m).count() != fg.len() { return 0; }
                        1
                    }));
                    iter_ok = rr.unwrap_or(9);
                }
                let obs = match r {
                    Ok(v) => format!("{} 2 {}\n{} 93 {} {}\n", id, v.iter().map(|x| x.to_string()).collect::<Vec<_>>().join(" "), id, hint_ok, iter_ok),
                    Err(_) => format!("{} 2 9\n{} 93 {} {}\n", id, id, hint_ok, iter_ok),
                };
                outs.push(Out {
                    id: id.clone(),
                    coq: format!("Eval vm_compute in [2%Z :: run_view {} {} {} {}].\n", cap, pcap, n, m),
                    obs,
                    summary: format!("{} {} tag=gens-view cap={} parties={} n={} m={} inrange={} prover=0 basis=1,0\n", id, curve, cap, pcap, n, m, (n <= cap && m <= pcap) as u8),
                });
            }
        }
    }
    // value facts on the real objects
    let vcap = if thorough { 2048 } else { 256 };
    let vp = 4usize;
    let g = BulletproofGens::<G>::new(vcap, vp);
    let pc = PedersenGens::<G>::default();
    let (sb, sbb) = spec_pedersen::<G>();
    let mut all: Vec<(String, G)> = vec![("B".into(), pc.B), ("B_blinding".into(), pc.B_blinding)];
    let mut spec_ok = 1;
    for j in 0..vp {
        let sg = spec_chain::<G>(true, j as u32, vcap);
        let sh = spec_chain::<G>(false, j as u32, vcap);
        let rg: Vec<G> = g.G(vcap, vp).skip(j * vcap).take(vcap).copied().collect();
        let rh: Vec<G> = g.H(vcap, vp).skip(j * vcap).take(vcap).copied().collect();
        if rg != sg || rh != sh { spec_ok = 0; }
        for (i, p) in rg.iter().enumerate() { all.push((format!("G[{}][{}]", j, i), *p)); }
        for (i, p) in rh.iter().enumerate() { all.push((format!("H[{}][{}]", j, i), *p)); }
    }
    let mut seen: HashMap<Vec<u8>, String> = HashMap::new();
    let mut collision = String::from("-");
    let mut bad_member = String::from("-");
    for (nm, p) in &all {
        let b = ser(p);
        if let Some(prev) = seen.get(&b) { if collision == "-" { collision = format!("{}={}", prev, nm); } }
        seen.insert(b, nm.clone());
        if p.is_zero() || ark_serialize::Valid::check(p).is_err() || !p.mul_bigint(<G::ScalarField as ark_ff::PrimeField>::MODULUS).is_zero() { if bad_member == "-" { bad_member = nm.clone(); } }
    }
    let ped_ok = (pc.B == sb && pc.B_blinding == sbb) as u8;
    // a second object built by a different history, and one decoded from bytes, must be the same object
    let mut g2 = BulletproofGens::<G>::new(3, vp);
    g2.increase_capacity(100);
    g2.increase_capacity(7);
    g2.increase_capacity(vcap);
    let same_hist = (g2.G(vcap, vp).zip(g.G(vcap, vp)).all(|(a, b)| a == b) && g2.H(vcap, vp).zip(g.H(vcap, vp)).all(|(a, b)| a == b)) as u8;
    // high party indices: the label carries the party index as LE32; objects with many parties must give
    // party j the stream of label j for j beyond a byte / 16 bits as well
    let hp_n = 65538usize;
    let hp = BulletproofGens::<G>::new(1, hp_n);
    let hg: Vec<G> = hp.G(1, hp_n).copied().collect();
    let hh: Vec<G> = hp.H(1, hp_n).copied().collect();
    let mut high_bad = String::from("-");
    for j in [1usize, 255, 256, 257, 511, 65535, 65536, 65537] {
        let sg = spec_chain::<G>(true, j as u32, 1)[0];
        let sh = spec_chain::<G>(false, j as u32, 1)[0];
        if hg.get(j) != Some(&sg) && high_bad == "-" { high_bad = format!("G[{}][0]", j); }
        if hh.get(j) != Some(&sh) && high_bad == "-" { high_bad = format!("H[{}][0]", j); }
    }
    {
        let mut seen2: HashMap<Vec<u8>, usize> = HashMap::new();
        for (j, p) in hg.iter().enumerate().chain(hh.iter().enumerate().map(|(j, p)| (j + hp_n, p))) {
            if let Some(prev) = seen2.insert(ser(p), j) { if high_bad == "-" { high_bad = format!("collision:{}={}", prev, j); } }
        }
    }
    let id = format!("gval{}", ci);
    outs.push(Out {
        id: id.clone(),
        coq: String::from("Eval vm_compute in [[0%Z]].\n"),
        obs: format!("{} 0\n{} 91 {} {} {} {} {} {} {} {}\n", id, id, all.len(), collision, bad_member, spec_ok, ped_ok, same_hist, vcap, high_bad),
        summary: format!("{} {} tag=gens-values points={} collision={} bad_member={} spec_chain_ok={} pedersen_spec_ok={} same_after_history={} high_party={} prover=0 basis=1,0\n", id, curve, all.len(), collision, bad_member, spec_ok, ped_ok, same_hist, high_bad),
    });
    outs
}


/// Generators must not depend on the process: objects of two curves living in one process, created and grown in
/// interleaved order (the labels of the chains do not name the curve, so any process-wide state keyed by label
/// would mix the curves).  Returns the first deviation from the independent derivation, or "-".
pub fn interleave_pair<A: AffineRepr, B: AffineRepr>(na: &str, nb: &str) -> String {
    fn check<G: AffineRepr>(g: &BulletproofGens<G>, cap: usize, parties: usize, who: &str, step: &str) -> Option<String> {
        for j in 0..parties {
            let sg = spec_chain::<G>(true, j as u32, cap);
            let sh = spec_chain::<G>(false, j as u32, cap);
            let rg: Vec<G> = g.G(cap, parties).skip(j * cap).take(cap).copied().collect();
            let rh: Vec<G> = g.H(cap, parties).skip(j * cap).take(cap).copied().collect();
            if let Some(i) = (0..cap).find(|&i| rg.get(i) != sg.get(i)) { return Some(format!("{}:{}:G[{}][{}]", who, step, j, i)); }
            if let Some(i) = (0..cap).find(|&i| rh.get(i) != sh.get(i)) { return Some(format!("{}:{}:H[{}][{}]", who, step, j, i)); }
        }
        None
    }
    let scen: [(usize, usize, Option<usize>, usize); 7] =
        [(8, 4, None, 16), (8, 8, None, 16), (8, 2, Some(6), 16), (5, 3, Some(5), 9), (1, 1, None, 2), (16, 0, Some(16), 17), (3, 7, Some(20), 11)];
    for (k, (c, a0, a_inc, c2)) in scen.iter().enumerate() {
        let parties = 2usize;
        let mut b = BulletproofGens::<B>::new(*c, parties);
        let mut a = BulletproofGens::<A>::new(*a0, parties);
        if let Some(x) = a_inc { a.increase_capacity(*x); }
        b.increase_capacity(*c2);
        let step = format!("scenario{}(B=new({c});A=new({a0}){};B.increase({c2}))", k, a_inc.map(|x| format!(".increase({})", x)).unwrap_or_default());
        if let Some(e) = check::<B>(&b, *c2, parties, nb, &step) { return e.replace(' ', "_"); }
        a.increase_capacity(*c2 + 3);
        if let Some(e) = check::<A>(&a, *c2 + 3, parties, na, &format!("{};A.increase({})", step, *c2 + 3)) { return e.replace(' ', "_"); }
        // a fresh object of either curve afterwards is still the specification
        let b2 = BulletproofGens::<B>::new(*c2 + 1, parties);
        if let Some(e) = check::<B>(&b2, *c2 + 1, parties, nb, &format!("{};B.new({})", step, *c2 + 1)) { return e.replace(' ', "_"); }
    }
    String::from("-")
}

pub fn interleave_all() -> Out {
    use crate::{C25519, Secq, Zorro};
    let mut bad = String::from("-");
    let rs = [
        interleave_pair::<Secq, Zorro>("secq256k1", "zorro"), interleave_pair::<Zorro, Secq>("zorro", "secq256k1"),
        interleave_pair::<Secq, C25519>("secq256k1", "curve25519"), interleave_pair::<C25519, Secq>("curve25519", "secq256k1"),
        interleave_pair::<Zorro, C25519>("zorro", "curve25519"), interleave_pair::<C25519, Zorro>("curve25519", "zorro"),
    ];
    for r in rs.iter() { if r != "-" && bad == "-" { bad = r.clone(); } }
    let id = String::from("ginter");
    Out {
        id: id.clone(),
        coq: String::from("Eval vm_compute in [[0%Z]].\n"),
        obs: format!("{} 0\n{} 92 {}\n", id, id, bad),
        summary: format!("{} all tag=gens-interleave bad={} scenarios=42 prover=0 basis=1,0\n", id, bad),
    }
}
