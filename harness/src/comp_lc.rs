//! Component lc (K2): random expression trees built with the real operator impls of
//! linear_combination.rs; observable = the resulting ordered term list (read through Debug).
use crate::ast::*;
use crate::gen::edge_scalar;
use ark_bulletproofs::r1cs::LinearCombination;
use ark_ff::PrimeField;
use rand::Rng;
use rand_chacha::ChaChaRng;

#[derive(Clone, Debug)]
pub enum Tree<F> {
    Var(V),
    Const(F),
    Terms(Vec<(V, F)>),
    Neg(Box<Tree<F>>),
    Add(Box<Tree<F>>, Box<Tree<F>>),
    Sub(Box<Tree<F>>, Box<Tree<F>>),
    Scale(Box<Tree<F>>, F),
    VNeg(V),
    VAdd(V, Box<Tree<F>>),
    VSub(V, Box<Tree<F>>),
    VScale(V, F),
}

fn rand_var(rng: &mut ChaChaRng) -> V {
    match rng.gen_range(0..12) {
        0..=2 => V::Committed(rng.gen_range(0..3)),
        3..=4 => V::Left(rng.gen_range(0..3)),
        5..=6 => V::Right(rng.gen_range(0..3)),
        7..=8 => V::Out(rng.gen_range(0..3)),
        9..=10 => V::One,
        _ => V::Phantom,
    }
}

pub fn gen_tree<F: PrimeField>(rng: &mut ChaChaRng, depth: usize) -> Tree<F> {
    let leaf = depth == 0 || rng.gen_range(0..5) == 0;
    if leaf {
        match rng.gen_range(0..5) {
            0 => Tree::Var(rand_var(rng)),
            1 => Tree::Const(edge_scalar(rng)),
            2 => Tree::VNeg(rand_var(rng)),
            3 => Tree::VScale(rand_var(rng), edge_scalar(rng)),
            _ => {
                let n = rng.gen_range(0..4);
                let mut t: Vec<(V, F)> = (0..n).map(|_| (rand_var(rng), edge_scalar(rng))).collect();
                if n >= 2 && rng.gen() {
                    t[1].0 = t[0].0; // repeated variable
                }
                Tree::Terms(t)
            }
        }
    } else {
        let sub = |rng: &mut ChaChaRng| Box::new(gen_tree::<F>(rng, depth - 1));
        match rng.gen_range(0..7) {
            0 => Tree::Neg(sub(rng)),
            1 => Tree::Add(sub(rng), sub(rng)),
            2 => Tree::Sub(sub(rng), sub(rng)),
            3 => Tree::Scale(sub(rng), edge_scalar(rng)),
            4 => Tree::VAdd(rand_var(rng), sub(rng)),
            5 => Tree::VSub(rand_var(rng), sub(rng)),
            _ => Tree::Add(sub(rng), Box::new(Tree::Const(edge_scalar(rng)))),
        }
    }
}

impl<F: PrimeField> Tree<F> {
    /// built with the crate's own operator impls
    pub fn build(&self) -> LinearCombination<F> {
        match self {
            Tree::Var(v) => LinearCombination::from(v.to_var::<F>()),
            Tree::Const(c) => LinearCombination::from(*c),
            Tree::Terms(t) => t.iter().map(|(v, c)| (v.to_var::<F>(), *c)).collect(),
            Tree::Neg(a) => -a.build(),
            Tree::Add(a, b) => a.build() + b.build(),
            Tree::Sub(a, b) => a.build() - b.build(),
            Tree::Scale(a, s) => a.build() * *s,
            Tree::VNeg(v) => -v.to_var::<F>(),
            Tree::VAdd(v, b) => v.to_var::<F>() + b.build(),
            Tree::VSub(v, b) => v.to_var::<F>() - b.build(),
            Tree::VScale(v, s) => v.to_var::<F>() * *s,
        }
    }
    pub fn coq(&self) -> String {
        match self {
            Tree::Var(v) => format!("(XVar {})", v.coq()),
            Tree::Const(c) => format!("(XConst {})", fzc(c)),
            Tree::Terms(t) => {
                let items: Vec<String> = t.iter().map(|(v, c)| format!("({}, {})", v.coq(), fzc(c))).collect();
                format!("(XTerms [{}])", items.join("; "))
            }
            Tree::Neg(a) => format!("(XNeg {})", a.coq()),
            Tree::Add(a, b) => format!("(XAdd {} {})", a.coq(), b.coq()),
            Tree::Sub(a, b) => format!("(XSub {} {})", a.coq(), b.coq()),
            Tree::Scale(a, s) => format!("(XScale {} {})", a.coq(), fzc(s)),
            Tree::VNeg(v) => format!("(XVNeg {})", v.coq()),
            Tree::VAdd(v, b) => format!("(XVAdd {} {})", v.coq(), b.coq()),
            Tree::VSub(v, b) => format!("(XVSub {} {})", v.coq(), b.coq()),
            Tree::VScale(v, s) => format!("(XVScale {} {})", v.coq(), fzc(s)),
        }
    }
    /// the field expression the tree spells (the specification side), on assignment `w`
    pub fn denote(&self, w: &dyn Fn(V) -> F) -> F {
        match self {
            Tree::Var(v) => w(*v),
            Tree::Const(c) => *c,
            Tree::Terms(t) => t.iter().map(|(v, c)| *c * w(*v)).sum(),
            Tree::Neg(a) => -a.denote(w),
            Tree::Add(a, b) => a.denote(w) + b.denote(w),
            Tree::Sub(a, b) => a.denote(w) - b.denote(w),
            Tree::Scale(a, s) => a.denote(w) * *s,
            Tree::VNeg(v) => -w(*v),
            Tree::VAdd(v, b) => w(*v) + b.denote(w),
            Tree::VSub(v, b) => w(*v) - b.denote(w),
            Tree::VScale(v, s) => w(*v) * *s,
        }
    }
}

/// ordered term list of a real LinearCombination, read from its derived Debug output:
/// `LinearCombination { terms: [(MultiplierLeft(3), BigInt([7, 0, 0, 0])), (One, BigInt([..]))] }`
pub fn terms_of<F: PrimeField>(lc: &LinearCombination<F>) -> Vec<String> {
    let s = format!("{:?}", lc);
    let start = s.find("terms: [").expect("debug format") + 8;
    let mut rest = &s[start..];
    let mut out = vec![];
    let two64 = F::from(u64::MAX) + F::one();
    while let Some(p) = rest.find(", BigInt([") {
        let open = rest[..p].find('(').expect("tuple start");
        let vtxt = rest[open + 1..p].trim();
        let num = |r: &str| r.trim_end_matches(')').parse::<u64>().unwrap();
        let (tag, idx) = if let Some(r) = vtxt.strip_prefix("Committed(") {
            (0, num(r))
        } else if let Some(r) = vtxt.strip_prefix("MultiplierLeft(") {
            (1, num(r))
        } else if let Some(r) = vtxt.strip_prefix("MultiplierRight(") {
            (2, num(r))
        } else if let Some(r) = vtxt.strip_prefix("MultiplierOutput(") {
            (3, num(r))
        } else if vtxt.starts_with("One") {
            (4, 0)
        } else if vtxt.starts_with("Phantom") {
            (5, 0)
        } else {
            panic!("unparsed variable {:?} in {}", vtxt, s)
        };
        let after = &rest[p + 10..];
        let end = after.find("])").expect("limbs end");
        let mut val = F::zero();
        let limbs: Vec<u64> = after[..end].split(',').map(|x| x.trim().parse::<u64>().unwrap()).collect();
        for l in limbs.iter().rev() {
            val = val * two64 + F::from(*l);
        }
        out.push(tag.to_string());
        out.push(idx.to_string());
        out.push(fz(&val));
        rest = &after[end + 2..];
    }
    out
}

pub fn gen_cases<F: PrimeField>(seed: u64, tier: &str, curve_idx: u64) -> Vec<(String, Tree<F>)> {
    use rand_core::SeedableRng;
    let mut rng = ChaChaRng::seed_from_u64(seed ^ (curve_idx << 40) ^ 0x1c1c);
    let n = if tier == "thorough" { 600 } else { 80 };
    let mut out: Vec<(String, Tree<F>)> = (0..n)
        .map(|k| {
            let depth = 1 + (k % 5);
            (format!("lc_{}_{}", curve_idx, k), gen_tree::<F>(&mut rng, depth))
        })
        .collect();
    // operands with no terms at all on either side of every binary operator
    for j in 0..8 {
        let e = || Box::new(Tree::Terms(vec![]));
        let t = Box::new(gen_tree::<F>(&mut rng, 1 + j % 3));
        let tree = match j {
            0 => Tree::Sub(e(), t),
            1 => Tree::Add(e(), t),
            2 => Tree::Sub(t, e()),
            3 => Tree::Add(t, e()),
            4 => Tree::Sub(Box::new(Tree::Sub(e(), t)), Box::new(Tree::Const(edge_scalar(&mut rng)))),
            5 => Tree::Neg(Box::new(Tree::Sub(e(), t))),
            6 => Tree::VSub(rand_var(&mut rng), e()),
            _ => Tree::Scale(Box::new(Tree::Sub(e(), e())), edge_scalar(&mut rng)),
        };
        out.push((format!("lc_{}_empty{}", curve_idx, j), tree));
    }
    // long combinations (running sums / differences with repeated variables and repeated constants):
    // sizes around powers of two and beyond, where size-triggered code paths would sit
    let sizes: Vec<usize> = if tier == "thorough" { vec![33, 64, 65, 127, 128, 129, 130, 200, 257, 300, 513] } else { vec![64, 129, 140, 260] };
    for (j, sz) in sizes.iter().enumerate() {
        let mut t = Tree::Const(edge_scalar(&mut rng));
        for i in 0..*sz {
            let term = match i % 3 {
                0 => Tree::VScale(rand_var(&mut rng), edge_scalar(&mut rng)),
                1 => Tree::Const(edge_scalar(&mut rng)),
                _ => Tree::Terms(vec![(rand_var(&mut rng), edge_scalar(&mut rng)), (rand_var(&mut rng), edge_scalar(&mut rng))]),
            };
            t = if (i + j) % 4 == 3 { Tree::Sub(Box::new(t), Box::new(term)) } else { Tree::Add(Box::new(t), Box::new(term)) };
        }
        out.push((format!("lc_{}_long{}", curve_idx, sz), t));
    }
    out
}
