//! Component ipp (K5): InnerProductProof::{create, verification_scalars, verify} through hook H1,
//! for arbitrary vectors and factor vectors (the R1CS layer only ever uses 1/u/y^-i patterns).
use crate::ast::fz;
use crate::comp_r1cs::{make_basis, msm_coeffs};
use crate::gen::edge_scalar;
use crate::run::*;
use ark_bulletproofs::verif_hooks::{ipp_verification_scalars, InnerProductProof};
use ark_ec::{CurveGroup, VariableBaseMSM};
use ark_ec::AffineRepr;
use ark_ff::{Field, PrimeField, UniformRand, Zero, One};
use ark_serialize::{CanonicalDeserialize, CanonicalSerialize};
use merlin::Transcript;
use rand::Rng;
use rand_chacha::ChaChaRng;
use rand_core::SeedableRng;
use std::fmt::Write as _;
use std::panic::{catch_unwind, AssertUnwindSafe};

pub struct IppOut {
    pub coq: String,
    pub obs: String,
    pub summary: String,
    pub id: String,
}

fn zl<F: PrimeField>(v: &[F]) -> String {
    let items: Vec<String> = v.iter().map(fz).collect();
    format!("[{}]%Z", items.join("; "))
}

fn vec_kind<F: PrimeField>(rng: &mut ChaChaRng, n: usize, kind: u32, nonzero: bool) -> Vec<F> {
    (0..n)
        .map(|i| {
            let x: F = match kind % 5 {
                0 => F::rand(rng),
                1 => {
                    if rng.gen_range(0..3) == 0 {
                        F::rand(rng)
                    } else {
                        F::zero()
                    }
                }
                2 => F::from(rng.gen_range(0u64..2)),
                3 => edge_scalar(rng),
                _ => F::from((i + 1) as u64),
            };
            if nonzero && x.is_zero() {
                F::one()
            } else {
                x
            }
        })
        .collect()
}

pub fn gen_and_run<G: AffineRepr>(curve: &str, ci: u64, modulus: &str, seed: u64, tier: &str) -> Vec<IppOut> {
    type F<G> = <G as AffineRepr>::ScalarField;
    let mut rng = ChaChaRng::seed_from_u64(seed ^ (ci << 36) ^ 0x1bb);
    let count = if tier == "thorough" { 120 } else { 28 };
    let maxk = if tier == "thorough" { 6 } else { 4 };
    let mut outs = vec![];
    for c in 0..count {
        let k = c % (maxk + 1);
        let n = 1usize << k;
        let id = format!("ipp_{}_{}", ci, c);
        let variant = match c % 9 {
            0 | 1 | 2 => 0,
            x => x - 2,
        }; // 0 honest, 1 wrong product, 2 alter a, 3 alter b, 4 drop round, 5 wrong n, 6 degenerate
        let basis = make_basis::<G>(n, 1);
        let gs: Vec<G> = basis.pts[2..2 + n].to_vec();
        let hs: Vec<G> = basis.pts[2 + n..2 + 2 * n].to_vec();
        let q: G = basis.pts[2 + 2 * n];
        let mut a: Vec<F<G>> = vec_kind(&mut rng, n, c as u32, false);
        let mut b: Vec<F<G>> = vec_kind(&mut rng, n, (c / 5) as u32, false);
        if variant == 6 && n >= 2 {
            for i in 0..n / 2 {
                a[i] = F::<G>::zero();
                b[n / 2 + i] = F::<G>::zero();
            }
        }
        let gf: Vec<F<G>> = match c % 7 {
            0 => vec![F::<G>::one(); n],
            1 => {
                let u = F::<G>::rand(&mut rng);
                (0..n).map(|i| if i < n / 3 { F::<G>::one() } else { u }).collect()
            }
            // a step exactly at the midpoint (first-phase gates fill the lower half), ones then u
            2 => {
                let u = F::<G>::rand(&mut rng);
                (0..n).map(|i| if i < n / 2 { F::<G>::one() } else { u }).collect()
            }
            // two different constants on the two halves
            3 => {
                let (lo, hi) = (F::<G>::rand(&mut rng), F::<G>::rand(&mut rng));
                (0..n).map(|i| if i < n / 2 { lo } else { hi }).collect()
            }
            // a step one off the midpoint
            4 => {
                let u = F::<G>::rand(&mut rng);
                (0..n).map(|i| if i + 1 < n / 2 + (c % 2) * 2 { F::<G>::one() } else { u }).collect()
            }
            _ => vec_kind(&mut rng, n, 0, true),
        };
        let hf: Vec<F<G>> = match c % 5 {
            0 => vec![F::<G>::one(); n],
            3 => {
                let (lo, hi) = (F::<G>::rand(&mut rng), F::<G>::rand(&mut rng));
                (0..n).map(|i| if i < n / 2 { lo } else { hi }).collect()
            }
            4 => {
                let y = F::<G>::rand(&mut rng).inverse().unwrap();
                let u = F::<G>::rand(&mut rng);
                let mut acc = F::<G>::one();
                (0..n).map(|i| { let r = if i < n / 2 { acc } else { acc * u }; acc *= y; r }).collect()
            }
            1 => {
                let y = F::<G>::rand(&mut rng).inverse().unwrap();
                let mut acc = F::<G>::one();
                (0..n)
                    .map(|_| {
                        let r = acc;
                        acc *= y;
                        r
                    })
                    .collect()
            }
            _ => vec_kind(&mut rng, n, 0, true),
        };
        // P as a coefficient vector over [B, B~, G.., H.., Q]
        let mut pco = vec![F::<G>::zero(); 2 + 2 * n + 1];
        let mut ipab = F::<G>::zero();
        for i in 0..n {
            pco[2 + i] = a[i] * gf[i];
            pco[2 + n + i] = b[i] * hf[i];
            ipab += a[i] * b[i];
        }
        pco[2 + 2 * n] = ipab;
        if variant == 1 {
            pco[2 + 2 * n] += F::<G>::one();
        }
        let p_pt = msm_coeffs(&basis.pts, &pco);
        // create
        merlin::instr::start();
        let created = catch_unwind(AssertUnwindSafe(|| {
            let mut t = Transcript::new(b"innerproducttest");
            InnerProductProof::<G>::create(&mut t, &q, &gf, &hf, gs.clone(), hs.clone(), a.clone(), b.clone())
        }));
        let log_c = split_log(&merlin::instr::stop());
        let mut obs = String::new();
        let mut coq = String::new();
        let mut summary = format!("{} {} tag=ipp-v{} prover=0 basis={},1 k={}", id, curve, variant, n, k);
        if let Ok(proof) = created {
            let mut bytes = vec![];
            proof.serialize_compressed(&mut bytes).unwrap();
            let mut cur = &bytes[..];
            let mut lv = Vec::<G>::deserialize_compressed(&mut cur).unwrap();
            let mut rv = Vec::<G>::deserialize_compressed(&mut cur).unwrap();
            let mut pa = F::<G>::deserialize_compressed(&mut cur).unwrap();
            let mut pb = F::<G>::deserialize_compressed(&mut cur).unwrap();
            let _ = writeln!(obs, "{} 1 {} {} {} {}", id, lv.len(), rv.len(), fz(&pa), fz(&pb));
            let pts: Vec<String> = lv.iter().chain(rv.iter()).map(|p| format!("x{}", hex(&pt_bytes(p)))).collect();
            let _ = writeln!(obs, "{} 6 {}", id, pts.join(" "));
            let _ = writeln!(obs, "{} 7 {}", id, enc_tr_pub(&log_c).join(" "));
            // verifier-side mutation
            let mut nclaim = n;
            match variant {
                2 => pa += F::<G>::one(),
                3 => pb -= F::<G>::one(),
                4 => {
                    lv.pop();
                    rv.pop();
                }
                5 => nclaim = if c % 2 == 0 { 2 * n } else { (n / 2).max(1) + if n == 1 { 1 } else { 0 } },
                _ => {}
            }
            let mut vb = vec![];
            lv.serialize_compressed(&mut vb).unwrap();
            rv.serialize_compressed(&mut vb).unwrap();
            pa.serialize_compressed(&mut vb).unwrap();
            pb.serialize_compressed(&mut vb).unwrap();
            let vproof = InnerProductProof::<G>::deserialize_compressed(&vb[..]).unwrap();
            merlin::instr::start();
            let vs = catch_unwind(AssertUnwindSafe(|| {
                let mut t = Transcript::new(b"innerproducttest");
                ipp_verification_scalars::<G>(&vproof, nclaim, &mut t)
            }));
            let log_v = split_log(&merlin::instr::stop());
            match &vs {
                Ok(Ok((usq, uisq, s))) => {
                    let _ = writeln!(obs, "{} 12 0", id);
                    let mut t: Vec<String> = vec![usq.len().to_string()];
                    t.extend(usq.iter().map(fz));
                    t.push(uisq.len().to_string());
                    t.extend(uisq.iter().map(fz));
                    t.push(s.len().to_string());
                    t.extend(s.iter().map(fz));
                    let _ = writeln!(obs, "{} 13 {}", id, t.join(" "));
                }
                Ok(Err(_)) => {
                    let _ = writeln!(obs, "{} 12 1", id);
                }
                Err(_) => {
                    let _ = writeln!(obs, "{} 12 99", id);
                }
            }
            let verdict = catch_unwind(AssertUnwindSafe(|| {
                let mut t = Transcript::new(b"innerproducttest");
                vproof.verify(nclaim, &mut t, gf.iter(), hf.iter(), &p_pt, &q, &gs, &hs)
            }));
            let vcode = match &verdict {
                Ok(Ok(())) => 0,
                Ok(Err(_)) => 1,
                Err(_) => 99,
            };
            let _ = writeln!(obs, "{} 15 {}", id, vcode);
            let _ = write!(summary, " scalars={} verdict={}", match &vs { Ok(Ok(_)) => 0, Ok(Err(_)) => 1, Err(_) => 99 }, vcode);
            let chal_c: Vec<F<G>> = log_c.ops.iter().filter(|o| o.0 == 3).map(|o| chal_from_bytes::<F<G>>(&o.2)).collect();
            let chal_v: Vec<F<G>> = log_v.ops.iter().filter(|o| o.0 == 3).map(|o| chal_from_bytes::<F<G>>(&o.2)).collect();
            let _ = writeln!(
                coq,
                "Eval vm_compute in run_ipp (mkIppCase {}%Z {} {} {} {} {} {} {} {} {} {}%Z {}%Z {}).",
                modulus, k, zl(&a), zl(&b), zl(&gf), zl(&hf), zl(&pco), zl(&chal_c), zl(&chal_v), variant, fz(&(pa)), fz(&(pb)), nclaim
            );
        } else {
            let _ = writeln!(obs, "{} 98 create panicked: {}", id, last_panic());
            let _ = writeln!(coq, "Eval vm_compute in [[98%Z]].");
        }
        summary.push('\n');
        outs.push(IppOut { coq, obs, summary, id });
    }
    // long arguments (2^7 .. 2^10): the real code only — honest create must verify, for the factor patterns the R1CS
    // layer produces (ones then u, with a short or long first block), all-ones and arbitrary factors
    let ks: Vec<usize> = if tier == "thorough" { vec![7, 8, 9, 10] } else { vec![8] };
    for (bi, k) in ks.iter().enumerate() {
        let n = 1usize << k;
        let bp = ark_bulletproofs::BulletproofGens::<G>::new(n, 1);
        let gs: Vec<G> = bp.G(n, 1).copied().collect();
        let hs: Vec<G> = bp.H(n, 1).copied().collect();
        let q: G = G::rand(&mut rng);
        for pat in 0..5 {
            let id = format!("ippbig_{}_{}_{}", ci, bi, pat);
            let u = F::<G>::rand(&mut rng);
            let n1 = match pat { 0 => 1, 1 => n / 2 - 1, 2 => n / 4 + 3, _ => 0 };
            let gf: Vec<F<G>> = match pat {
                0 | 1 | 2 => (0..n).map(|i| if i < n1 { F::<G>::one() } else { u }).collect(),
                3 => vec![F::<G>::one(); n],
                _ => (0..n).map(|_| F::<G>::rand(&mut rng)).collect(),
            };
            let y = F::<G>::rand(&mut rng);
            let mut acc = F::<G>::one();
            let hf: Vec<F<G>> = gf.iter().map(|g| { let r = acc * g; acc *= y; r }).collect();
            let a: Vec<F<G>> = (0..n).map(|_| F::<G>::rand(&mut rng)).collect();
            let b: Vec<F<G>> = (0..n).map(|_| F::<G>::rand(&mut rng)).collect();
            let ip: F<G> = a.iter().zip(b.iter()).map(|(x, y)| *x * y).sum();
            let mut pts: Vec<G> = gs.clone(); pts.extend(hs.iter().copied()); pts.push(q);
            let mut scs: Vec<F<G>> = a.iter().zip(gf.iter()).map(|(x, g)| *x * g).collect();
            scs.extend(b.iter().zip(hf.iter()).map(|(x, h)| *x * h)); scs.push(ip);
            let p_pt: G = G::Group::msm(&pts, &scs).unwrap().into_affine();
            let res = catch_unwind(AssertUnwindSafe(|| {
                let mut t = Transcript::new(b"innerproducttest");
                let proof = InnerProductProof::<G>::create(&mut t, &q, &gf, &hf, gs.clone(), hs.clone(), a.clone(), b.clone());
                let mut tv = Transcript::new(b"innerproducttest");
                proof.verify(n, &mut tv, gf.iter(), hf.iter(), &p_pt, &q, &gs, &hs)
            }));
            let vcode = match &res { Ok(Ok(())) => 0, Ok(Err(_)) => 1, Err(_) => 99 };
            outs.push(IppOut {
                coq: String::new(),
                obs: format!("{} 15 {}\n", id, vcode),
                summary: format!("{} {} nomodel=1 tag=ipp-big-honest pattern={} prover=0 basis={},1 k={} scalars=0 verdict={}\n", id, curve, pat, n, k, vcode),
                id,
            });
        }
    }
    outs
}

pub fn enc_tr_pub(log: &TrLog) -> Vec<String> {
    let mut out = vec![];
    for (k, l, d) in &log.ops {
        out.push(k.to_string());
        out.push(l.len().to_string());
        out.extend(l.iter().map(|b| b.to_string()));
        if *k == 0 {
            out.push(d.len().to_string());
            out.extend(d.iter().map(|b| b.to_string()));
        } else {
            out.push("0".into());
        }
    }
    out
}
